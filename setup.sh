#!/bin/bash
# Offline build of the framework from files on disk: Coq development (full .vo build),
# extracted OCaml oracle, the Rust harness in its four configurations.
set -e
cd "$(dirname "$0")"
export CARGO_NET_OFFLINE=true
mkdir -p .build evidence replays
(cd coq && coq_makefile -f _CoqProject -o Makefile && make -j16)
python3 - <<'PY'
import sys, os
sys.path.insert(0, "tools")
import vlib
ok, out = vlib.oracle_build()
print("oracle:", "ok" if ok else out[-3000:])
if not ok: sys.exit(1)
t = vlib.source_tie()
print("source tie:", {k: v["ok"] for k, v in t["files"].items()}, "notes beyond baseline:", t["new_notes"])
if not all(v["ok"] for v in t["files"].values()): sys.exit(1)
for cfg in ("dev", "rel", "dev-nb", "rel-nb"):
    ok, out, exe = vlib.harness_build(cfg)
    print("harness", cfg, "ok" if ok else out[-3000:])
    if not ok: sys.exit(1)
PY
