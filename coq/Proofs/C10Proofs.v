(* Proofs for C10: closed form of Multiboot2Header::load and the checksum law. *)
Require Import Bytes Outcome Common TagType Header BytesFacts ArithFacts CommonFacts.
From Coq Require Import Lia ZArith ZifyN ZifyBool ZifyNat.
Ltac Zify.zify_post_hook ::= Z.div_mod_to_equations.

Lemma wsub32_lt a b : wsub32 a b < pow2_32.
Proof. unfold wsub32, pow2_32. lia. Qed.

Lemma wsub32_cong a b : a < pow2_32 -> (wsub32 a b + b) mod pow2_32 = a mod pow2_32.
Proof. unfold wsub32, pow2_32. intros H. lia. Qed.

Lemma checksum_law m a l :
  calc_checksum m a l < pow2_32 /\ (calc_checksum m a l + m + a + l) mod pow2_32 = 0.
Proof.
  unfold calc_checksum. split; [apply wsub32_lt|].
  pose proof (wsub32_lt 0 m) as H1. pose proof (wsub32_lt (wsub32 0 m) a) as H2.
  pose proof (wsub32_cong 0 m ltac:(reflexivity)) as E1.
  pose proof (wsub32_cong (wsub32 0 m) a H1) as E2.
  pose proof (wsub32_cong (wsub32 (wsub32 0 m) a) l H2) as E3.
  set (x1 := wsub32 0 m) in *. set (x2 := wsub32 x1 a) in *. set (x3 := wsub32 x2 l) in *.
  unfold pow2_32 in *. lia.
Qed.

Lemma checksum_unique m a l c : c < pow2_32 ->
  (calc_checksum m a l =? c) = ((m + a + l + c) mod pow2_32 =? 0).
Proof.
  intros Hc. destruct (checksum_law m a l) as [H1 H2].
  set (k := calc_checksum m a l) in *. unfold pow2_32 in *.
  destruct (N.eqb_spec k c) as [->|Hne]; destruct (N.eqb_spec ((m + a + l + c) mod 4294967296) 0); try reflexivity; lia.
Qed.

Definition c10_closed (bs : list byte) : res dref :=
  let l := le (slice bs 8 4) in
  if l <? 16 then Err EShorterThanHeader
  else if negb (l mod 8 =? 0) then Err EMissingPadding
  else if negb (le (slice bs 0 4) =? HDR_MAGIC) then Err EMagicNotFound
  else if negb ((le (slice bs 0 4) + le (slice bs 4 4) + l + le (slice bs 12 4)) mod pow2_32 =? 0)
       then Err EChecksumMismatch
       else Val {| d_off := 0; d_plen := l - 16 |}.

Lemma stored_basic bs : 16 <= len bs -> stored_size HBasicH (slice bs 0 16) = le (slice bs 8 4).
Proof. intros H. cbn [stored_size]. rewrite slice_slice by lia. reflexivity. Qed.

Lemma c10_load_spec p a bs :
  a mod 8 = 0 -> 16 <= len bs -> le (slice bs 8 4) <= len bs -> arch_defined (le (slice bs 4 4)) = true ->
  hdr_load p false {| m_base := a; m_bytes := bs |} = c10_closed bs.
Proof.
  intros Ha H16 Hl Harch. unfold hdr_load, c10_closed, ref_from_ptr, mrd, rd. cbn [m_bytes hsize].
  destruct (N.leb_spec (0 + 16) (len bs)) as [_|X]; [|lia]. cbn [bind].
  rewrite total_size_spec, stored_basic by lia. cbn [bind].
  set (l := le (slice bs 8 4)) in *.
  rewrite ref_from_slice_closed. unfold ref_from_slice_spec. cbn [hsize].
  rewrite N.add_0_r, N.add_0_l, Ha. change (0 =? 0) with true. cbn [negb].
  destruct (N.ltb_spec l 16) as [H1|H1]; [reflexivity|].
  destruct (N.eqb_spec (l mod 8) 0) as [H2|H2]; cbn [negb]; [|reflexivity].
  destruct (N.ltb_spec (len bs) 16) as [X|_]; [lia|].
  rewrite stored_basic by lia. fold l.
  destruct (N.ltb_spec l 16) as [X|_]; [lia|].
  destruct (N.ltb_spec l l) as [X|_]; [lia|].
  cbn [bind]. unfold hdr_magic, verify_checksum, hdr_arch, hdr_length, hdr_checksum, hdr_magic. cbn [m_bytes d_off].
  rewrite !N.add_0_l. fold l.
  destruct (negb (le (slice bs 0 4) =? HDR_MAGIC)); [reflexivity|].
  rewrite Harch. cbn [bind].
  rewrite checksum_unique by apply le_slice4_bound.
  destruct ((le (slice bs 0 4) + le (slice bs 4 4) + l + le (slice bs 12 4)) mod pow2_32 =? 0); reflexivity.
Qed.

Lemma c10_misaligned p a bs :
  a mod 8 <> 0 -> 16 <= len bs ->
  hdr_load p false {| m_base := a; m_bytes := bs |} =
    if le (slice bs 8 4) <? 16 then Err EShorterThanHeader else Err EWrongAlignment.
Proof.
  intros Ha H16. unfold hdr_load, ref_from_ptr, mrd, rd. cbn [m_bytes hsize].
  destruct (N.leb_spec (0 + 16) (len bs)) as [_|X]; [|lia]. cbn [bind].
  rewrite total_size_spec, stored_basic by lia. cbn [bind].
  set (l := le (slice bs 8 4)) in *.
  rewrite ref_from_slice_closed. unfold ref_from_slice_spec. cbn [hsize].
  rewrite N.add_0_r.
  destruct (N.ltb_spec l 16) as [H1|H1]; [reflexivity|].
  destruct (N.eqb_spec (a mod 8) 0) as [H2|H2]; [contradiction|reflexivity].
Qed.

Lemma c10_null p m : hdr_load p true m = Err ENull.
Proof. reflexivity. Qed.

Example c10_example :
  hdr_load Dev false {| m_base := 0; m_bytes :=
     [xd6;x50;x52;xe8; x00;x00;x00;x00; x18;x00;x00;x00; x12;xaf;xad;x17; x00;x00;x00;x00;x08;x00;x00;x00] |}
  = Val {| d_off := 0; d_plen := 8 |}.
Proof. vm_compute. reflexivity. Qed.
