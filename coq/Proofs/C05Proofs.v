(* Proofs for C05: extent of variable-length parts. *)
Require Import Bytes Outcome Layout Common TagType Mbi MbiTags Header HeaderTags WalkSpec
               BytesFacts ArithFacts CommonFacts IterFacts CastFacts HCastFacts.
From Coq Require Import Lia ZArith ZifyN ZifyBool ZifyNat String.
Ltac Zify.zify_post_hook ::= Z.div_mod_to_equations.
Open Scope N_scope.

(* the variable part of a successfully cast DST kind: starts at the kind's fixed offset and
   ends exactly at the declared size *)
Lemma c05_extent p k m g t :
  is_dst k = true ->
  d_off g + 8 <= len (m_bytes m) ->
  let size := size_at (m_bytes m) (d_off g) in
  8 <= size -> d_plen g = size - 8 ->
  cast_kind p k m g = Val t ->
  kind_base k <= size /\ (size - kind_base k) mod tail_esize k = 0 /\
  t_off t = d_off g /\ tail_off k t = d_off g + kind_base k /\
  tail_count t = (size - kind_base k) / tail_esize k /\
  tail_off k t + tail_count t * tail_esize k = d_off g + size /\
  tail_off k t + tail_count t * tail_esize k <= d_off g + round8 size.
Proof.
  intros Hd Hin size H8 Hpl H. rewrite cast_kind_closed in H by assumption. fold size in H.
  unfold cast_closed in H. rewrite Hd in H.
  destruct (N.ltb_spec size (kind_base k)) as [X|H1]; [discriminate|].
  destruct (N.eqb_spec ((size - kind_base k) mod tail_esize k) 0) as [H2|X]; cbn [negb] in H; [|discriminate].
  injection H as <-. unfold tail_off, tail_count. cbn [t_off t_meta].
  rewrite (dst_tail_off k Hd). pose proof (dst_esize_pos k Hd) as He.
  assert (Ex : (size - kind_base k) / tail_esize k * tail_esize k = size - kind_base k).
  { rewrite N.mul_comm. symmetry. apply N.div_exact; [lia|exact H2]. }
  pose proof (round8_ge size). repeat split; try lia.
Qed.

(* the rejected sizes *)
Lemma c05_reject p k m g :
  is_dst k = true ->
  d_off g + 8 <= len (m_bytes m) ->
  let size := size_at (m_bytes m) (d_off g) in
  8 <= size -> d_plen g = size - 8 ->
  (size < kind_base k \/ (size - kind_base k) mod tail_esize k <> 0) ->
  cast_kind p k m g = Panic.
Proof.
  intros Hd Hin size H8 Hpl Hbad. rewrite cast_kind_closed by assumption. fold size.
  unfold cast_closed. rewrite Hd.
  destruct (N.ltb_spec size (kind_base k)) as [X|H1]; [reflexivity|].
  destruct (N.eqb_spec ((size - kind_base k) mod tail_esize k) 0) as [H2|X]; cbn [negb]; [|reflexivity].
  destruct Hbad; [lia|contradiction].
Qed.

(* the table of fixed parts and element sizes, as the property lists them *)
Lemma c05_table :
  map (fun k => (kind_typ k, kind_base k, tail_esize k)) (filter is_dst all_kinds) =
  [(1, 8, 1); (2, 8, 1); (3, 16, 1); (6, 16, 24); (8, 32, 1); (9, 20, 1); (13, 16, 1); (16, 8, 1); (17, 16, 1)].
Proof. vm_compute. reflexivity. Qed.

(* header crate: information request *)
Lemma c05_requests p m g t :
  d_off g + 8 <= len (m_bytes m) ->
  let size := size_at (m_bytes m) (d_off g) in
  8 <= size -> d_plen g = size - 8 ->
  hcast_kind p HkInfoReq m g = Val t ->
  (size - 8) mod 4 = 0 /\ hrequests t = (d_off g + 8, (size - 8) / 4) /\
  d_off g + 8 + 4 * ((size - 8) / 4) = d_off g + size.
Proof.
  intros Hin size H8 Hpl H. rewrite hcast_kind_closed in H by assumption. fold size in H.
  unfold hcast_closed in H.
  destruct (N.eqb_spec ((size - 8) mod 4) 0) as [H4|X]; cbn [negb] in H; [|discriminate].
  injection H as <-. unfold hrequests. cbn [t_off t_meta]. repeat split; try lia.
Qed.

Lemma c05_requests_reject p m g :
  d_off g + 8 <= len (m_bytes m) ->
  let size := size_at (m_bytes m) (d_off g) in
  8 <= size -> d_plen g = size - 8 -> (size - 8) mod 4 <> 0 ->
  hcast_kind p HkInfoReq m g = Panic.
Proof.
  intros Hin size H8 Hpl Hbad. rewrite hcast_kind_closed by assumption. fold size. unfold hcast_closed.
  destruct (N.eqb_spec ((size - 8) mod 4) 0); [contradiction|reflexivity].
Qed.
