(* `==` between typed tags depends only on the bytes below the tag's unpadded extent (fields + variable part):
   alignment padding, and whatever follows the tag, never takes part. *)
Require Import Bytes Outcome Layout Common TagType Mbi MbiTags TagEq BytesFacts ArithFacts.
From Coq Require Import Lia ZArith ZifyN ZifyBool ZifyNat List String.
Import ListNotations.
Ltac Zify.zify_post_hook ::= Z.div_mod_to_equations.
Open Scope N_scope.

Lemma bytes_eqb_refl a : bytes_eqb a a = true.
Proof.
  induction a as [|x a IH]; [reflexivity|]. cbn [bytes_eqb]. rewrite IH.
  unfold byte_eqb. rewrite Byte.byte_dec_lb by reflexivity. reflexivity.
Qed.

Lemma bytes_eqb_eq a : forall b, bytes_eqb a b = true -> a = b.
Proof.
  induction a as [|x a IH]; intros [|y b] H; try reflexivity; try discriminate.
  cbn [bytes_eqb] in H. apply andb_prop in H as [H1 H2]. unfold byte_eqb in H1.
  apply Byte.byte_dec_bl in H1. subst y. f_equal. apply IH. exact H2.
Qed.

(* every field of every tag struct ends inside the fixed part, which ends where the variable part starts (finite table) *)
Lemma fields_inside k :
  forallb (fun f => match f with (_, o, w) => o + w <=? sd_fixed_end (kind_struct k) end) (sd_offsets (kind_struct k)) = true
  /\ sd_fixed_end (kind_struct k) <= sd_tail_off (kind_struct k).
Proof. destruct k; split; vm_compute; try reflexivity; discriminate. Qed.

(* the unpadded extent of a typed tag: fixed part, plus the elements of the variable part *)
Definition tag_extent (k : kind) (t : tref) : N :=
  match sd_tail (kind_struct k), t_meta t with
  | Some (es, _), Some n => sd_tail_off (kind_struct k) + n * es
  | _, _ => sd_fixed_end (kind_struct k)
  end.

Lemma tag_eqb_extent k m1 t1 m2 t2 :
  t_meta t1 = t_meta t2 ->
  (forall o w, o + w <= tag_extent k t1 ->
               slice (m_bytes m1) (t_off t1 + o) w = slice (m_bytes m2) (t_off t2 + o) w) ->
  (match sd_tail (kind_struct k), t_meta t1 with Some _, None => False | _, _ => True end) ->
  tag_eqb k m1 t1 m2 t2 = true.
Proof.
  intros Hm Hs Hwf. unfold tag_eqb. destruct (fields_inside k) as [Hin Hle].
  apply andb_true_intro. split.
  - unfold fields_eqb. apply forallb_forall. intros [[name o] w] Hf.
    rewrite forallb_forall in Hin. specialize (Hin _ Hf). cbn beta iota in Hin.
    apply Bool.orb_true_iff. right.
    rewrite Hs; [apply bytes_eqb_refl|].
    unfold tag_extent. destruct (sd_tail (kind_struct k)) as [[es ea]|]; [destruct (t_meta t1)|]; lia.
  - unfold tag_extent in Hs. rewrite <- Hm.
    destruct (sd_tail (kind_struct k)) as [[es ea]|] eqn:Et; [|reflexivity].
    destruct (t_meta t1) as [n|]; [|destruct Hwf].
    rewrite N.eqb_refl. cbn [andb]. unfold tail_off.
    rewrite Hs by lia. apply bytes_eqb_refl.
Qed.

(* conversely, equal tags have the same element count and the same variable part, byte for byte *)
Lemma tag_eqb_tail k m1 t1 m2 t2 es ea n1 :
  sd_tail (kind_struct k) = Some (es, ea) -> t_meta t1 = Some n1 -> tag_eqb k m1 t1 m2 t2 = true ->
  t_meta t2 = Some n1 /\
  slice (m_bytes m1) (tail_off k t1) (n1 * es) = slice (m_bytes m2) (tail_off k t2) (n1 * es).
Proof.
  intros Et Hm H. unfold tag_eqb in H. rewrite Et, Hm in H. apply andb_prop in H as [_ H].
  destruct (t_meta t2) as [n2|]; [|discriminate].
  apply andb_prop in H as [H1 H2]. apply N.eqb_eq in H1. subst n2. split; [reflexivity|].
  apply bytes_eqb_eq. exact H2.
Qed.

Example tag_eqb_example :
  let bs1 := [x01;x00;x00;x00; x0a;x00;x00;x00; x68;x00;  xaa;xaa;xaa;xaa;xaa;xaa]%list in
  let bs2 := [x01;x00;x00;x00; x0a;x00;x00;x00; x68;x00;  x00;x11;x22;x33;x44;x55]%list in
  tag_eqb KCmdline {| m_base := 0; m_bytes := bs1 |} {| t_off := 0; t_meta := Some 2 |}
                   {| m_base := 0; m_bytes := bs2 |} {| t_off := 0; t_meta := Some 2 |} = true.
Proof. vm_compute. reflexivity. Qed.

(* C16: the clone of a dynamically sized tag compares equal to the original (PartialEq of its type) *)
Require Import Build CastFacts C16Proofs.
Lemma clone_is_equal p k img pad c :
  is_dst k = true -> wf_img img -> len pad >= 8 ->
  kind_base k <= le (slice img 4 4) -> (le (slice img 4 4) - kind_base k) mod tail_esize k = 0 ->
  clone_dyn p HTagH (kind_tdesc k) img pad = Val c ->
  let n := (le (slice img 4 4) - kind_base k) / tail_esize k in
  tag_eqb k {| m_base := 0; m_bytes := img |} {| t_off := 0; t_meta := Some n |}
            {| m_base := 0; m_bytes := c |} {| t_off := 0; t_meta := Some n |} = true.
Proof.
  intros Hd Hwf Hpad Hb Hdiv Hc n.
  rewrite (clone_kind p k img pad Hd Hwf Hb Hdiv) in Hc.
  destruct (clone_generic_equal p img pad c Hwf Hpad Hc) as (_ & Heq & _).
  pose proof (dst_esize_pos k Hd) as Hes.
  apply tag_eqb_extent; [reflexivity| |].
  - intros o w How. cbn [t_off m_bytes]. rewrite !N.add_0_l.
    assert (Hext : tag_extent k {| t_off := 0; t_meta := Some n |} = le (slice img 4 4)).
    { unfold tag_extent. cbn [t_meta]. unfold is_dst in Hd. unfold tail_esize in *.
      pose proof (dst_tail_off k) as Ht. unfold is_dst in Ht.
      destruct (sd_tail (kind_struct k)) as [[es ea]|]; [|discriminate].
      rewrite Ht by reflexivity. unfold n. cbn beta iota in *.
      assert (Hne : es <> 0) by lia.
      pose proof (proj2 (N.div_exact (le (slice img 4 4) - kind_base k) es Hne) Hdiv) as E.
      rewrite N.mul_comm in E. rewrite <- E. lia. }
    rewrite Hext in How.
    pose proof (slice_slice img 0 (le (slice img 4 4)) o w How) as E1.
    pose proof (slice_slice c 0 (le (slice img 4 4)) o w How) as E2.
    rewrite N.add_0_l in E1, E2. rewrite <- E1, <- E2, Heq. reflexivity.
  - cbn [t_meta]. destruct (sd_tail (kind_struct k)); exact I.
Qed.
