(* Proofs for C04: typed getters select the first matching tag; accessors decode the specified fields. *)
Require Import Bytes Outcome Layout Common TagType Mbi MbiTags Strings MbiAccess WalkSpec Mb2Spec
               BytesFacts ArithFacts CommonFacts IterFacts CastFacts C02Proofs C03Proofs LayoutFacts.
From Coq Require Import Lia ZArith ZifyN ZifyBool ZifyNat String.
Ltac Zify.zify_post_hook ::= Z.div_mod_to_equations.
Open Scope list_scope.
Open Scope N_scope.

Definition first_of_type (bs : list byte) (typ : N) (l : list item) : option item :=
  find (fun it => typ_at bs (i_off it) =? typ) l.

(* get_tag::<T>(): the first tag of the walk whose type is T::ID, cast to T; nothing when the (complete)
   walk has none; a panic when the walk gets stuck before one is found *)
Definition get_tag_closed (bs : list byte) (k : kind) (l : list item) (ok : bool) : res (option tref) :=
  match first_of_type bs (kind_typ k) l with
  | Some it => t <- cast_closed k (i_off it) (i_size it) ;; Val (Some t)
  | None => if ok then Val None else Panic
  end.

Lemma find_in {A} (f : A -> bool) l x : find f l = Some x -> In x l.
Proof. induction l as [|y l IH]; [discriminate|]. cbn [find]. destruct (f y); [intros H; injection H as ->; left; reflexivity|right; auto]. Qed.

Lemma get_tag_spec p a bs r k l ok :
  a mod 8 = 0 -> 8 <= len bs -> le (slice bs 0 4) <= len bs ->
  let m := {| m_base := a; m_bytes := bs |} in
  mbi_load p false m = Val r -> walk bs (le (slice bs 0 4)) 8 l ok ->
  get_tag p k m r = get_tag_closed bs k l ok.
Proof.
  intros Ha H8 Ht m H W. destruct (load_iter_ok _ _ _ _ Ha H8 Ht H) as (Hok & Eb & Et).
  destruct (load_shape _ _ _ _ Ha H8 Ht H) as (A & B & ->). unfold tags_b, tags_len in *. cbn [d_off d_plen] in *.
  unfold get_tag. cbn [d_off d_plen].
  rewrite (find_walk p HTagH m (0 + 8) (le (slice bs 0 4) - 8) (kind_typ k) Hok _ 0 l ok);
    try reflexivity; try lia; [|unfold iter_fuel; lia|].
  2:{ replace (0 + 8 + (le (slice bs 0 4) - 8)) with (le (slice bs 0 4)) by lia. rewrite N.add_0_r. exact W. }
  unfold find_closed, get_tag_closed, first_of_type. subst m. cbn [m_bytes].
  destruct (find (fun it => typ_at bs (i_off it) =? kind_typ k) l) as [it|] eqn:Ef; [|destruct ok; reflexivity].
  cbn [bind].
  pose proof (walk_items_inside _ _ _ _ _ W ltac:(reflexivity)) as Hin. rewrite Forall_forall in Hin.
  specialize (Hin it (find_in _ _ _ Ef)). destruct Hin as (I1 & I2 & I3 & I4 & I5).
  rewrite cast_kind_closed; unfold dref_of; cbn [d_off d_plen m_bytes]; try (unfold round8 in *; lia).
  rewrite <- I5. reflexivity.
Qed.

(* the EFI memory map is withheld while a boot-services-not-exited tag is present, wherever it is *)
Lemma efi_withheld p m r t : get_tag p KEfiBs m r = Val (Some t) -> efi_memory_map_tag p m r = Val None.
Proof. intros H. unfold efi_memory_map_tag. rewrite H. reflexivity. Qed.
Lemma efi_not_withheld p m r : get_tag p KEfiBs m r = Val None -> efi_memory_map_tag p m r = get_tag p KEfiMmap m r.
Proof. intros H. unfold efi_memory_map_tag. rewrite H. reflexivity. Qed.

(* unknown framebuffer type bytes: an error carrying the byte, never a known type; all 253 of them *)
Lemma fb_unknown_type m t b : fld KFramebuffer m t "framebuffer_type" = b -> 3 <= b ->
  fb_buffer_type m t = Err (EUnknownFb b).
Proof.
  intros Hb H3. unfold fb_buffer_type. rewrite Hb.
  assert (E : fb_try_from b = Err (EUnknownFb b)).
  { destruct b as [|[[q|q|]|[q|q|]|]]; try reflexivity; exfalso; lia. }
  rewrite E. reflexivity.
Qed.

Lemma fb_tag_unknown p m r t b : get_tag p KFramebuffer m r = Val (Some t) ->
  fld KFramebuffer m t "framebuffer_type" = b -> 3 <= b ->
  framebuffer_tag p m r = Val (Some (Err (EUnknownFb b))).
Proof. intros Hg Hb H3. unfold framebuffer_tag. rewrite Hg. cbn [bind]. rewrite (fb_unknown_type m t b Hb H3). reflexivity. Qed.

(* every field accessor reads the little-endian value at the specified offset and width *)
Lemma fld_spec k m t name o w :
  In (name, o, w) (spec_mbi_fields (kind_typ k)) ->
  fld k m t name = le (slice (m_bytes m) (t_off t + o) w).
Proof.
  intros Hin. unfold fld.
  assert (Hnd : NoDup (map (fun x => fst (fst x)) (sd_offsets (kind_struct k)))).
  { destruct k; vm_compute; repeat constructor; cbn; intuition discriminate. }
  assert (Hin' : In (name, o, w) (sd_offsets (kind_struct k))).
  { destruct (mbi_layout k) as (E & _). rewrite E. apply in_or_app. right. exact Hin. }
  rewrite (field_names_exist k name o w Hin' Hnd). reflexivity.
Qed.

(* RSDP checksums: the sum modulo 256 of the 20 (v1) resp. `length` (v2) bytes starting at tag offset 8 *)
Lemma rsdp1_closed m t : t_off t + 28 <= len (m_bytes m) ->
  rsdp1_checksum_valid m t = Val (sum8 (slice (m_bytes m) (t_off t + 8) 20) =? 0).
Proof.
  intros H. unfold rsdp1_checksum_valid, mrd, rd. destruct (N.leb_spec (t_off t + 28) (len (m_bytes m))); [|lia].
  cbn [bind]. rewrite slice_slice by lia. reflexivity.
Qed.
Lemma rsdp2_closed m t : t_off t + 44 <= len (m_bytes m) ->
  rsdp2_checksum_valid m t =
    let l := fld KAcpiV2 m t "length" in
    Val (if 36 <? l then false else sum8 (slice (m_bytes m) (t_off t + 8) l) =? 0).
Proof.
  intros H. unfold rsdp2_checksum_valid. cbv zeta. set (l := fld KAcpiV2 m t "length").
  destruct (N.ltb_spec 36 l); [reflexivity|]. unfold mrd, rd.
  destruct (N.leb_spec (t_off t + (l + 8)) (len (m_bytes m))); [|lia].
  cbn [bind]. rewrite slice_slice by lia. reflexivity.
Qed.

(* module address range *)
Lemma module_range m t :
  module_size m t = let s := fld KModule m t "mod_start" in let e := fld KModule m t "mod_end" in if s <=? e then e - s else 0.
Proof. reflexivity. Qed.
