(* The header of n copies of one tag, for every n: load accepts it, the iterator yields the closed-form items, every typed
   getter yields the closed form hbig_get (the first tag when its type matches, nothing otherwise - after walking all). *)
Require Import Bytes Outcome Layout Common TagType Mbi Header HeaderTags WalkSpec Big BytesFacts ArithFacts CommonFacts
  IterFacts HCastFacts C10Proofs C11Proofs BigProofs.
From Coq Require Import Lia ZArith ZifyN ZifyBool ZifyNat List.
Import ListNotations.
Ltac Zify.zify_post_hook ::= Z.div_mod_to_equations.
Open Scope N_scope.

Lemma len_enc k x : len (enc k x) = N.of_nat k.
Proof. unfold len. rewrite enc_length. reflexivity. Qed.

Section HBig.
  Variable tag : list byte.
  Variable n : nat.
  Let L := len tag.
  Let s := le (slice tag 4 4).
  Let typ := le (slice tag 0 2).
  Let T := hbig_total n tag.
  Let pre := hbig_pre n tag.
  Let bs := hbig_region n tag.
  Hypothesis Hs : 8 <= s.
  Hypothesis HL : round8 s = L.
  Hypothesis HT : T < pow2_32.
  Hypothesis Htyp : typ <= 10.

  Lemma hpre_len : len pre = 16.
  Proof. unfold pre, hbig_pre. rewrite !len_app. unfold enc32. rewrite !len_enc. reflexivity. Qed.

  Lemma hpost_len : len hbig_post = 8.
  Proof. reflexivity. Qed.
  Lemma hpost_end : le (slice hbig_post 4 4) = 8.
  Proof. reflexivity. Qed.

  Lemma hbig_len : len bs = T.
  Proof.
    unfold bs, hbig_region. rewrite gen_len by (assumption || reflexivity).
    fold pre. rewrite hpre_len. unfold T, hbig_total. lia.
  Qed.

  (* the four words of the basic header *)
  Lemma E32 x : x < pow2_32 -> le (enc32 x) = x.
  Proof. intros Hx. unfold enc32. rewrite le_enc. change (256 ^ N.of_nat 4) with pow2_32. apply N.mod_small. exact Hx. Qed.
  Lemma A32 x : slice (enc32 x) 0 4 = enc32 x.
  Proof. replace 4 with (len (enc32 x)) at 1 by (unfold enc32; rewrite len_enc; reflexivity). apply slice_all. Qed.
  Lemma L32 x : len (enc32 x) = 4.
  Proof. unfold enc32. rewrite len_enc. reflexivity. Qed.

  Lemma in_pre o : o + 4 <= 16 -> slice bs o 4 = slice pre o 4.
  Proof. intros H. unfold bs, hbig_region. fold pre. apply slice_app_l_gen. rewrite hpre_len. exact H. Qed.

  Lemma hw_magic : le (slice bs 0 4) = HDR_MAGIC.
  Proof.
    rewrite in_pre by lia. unfold pre, hbig_pre.
    rewrite slice_app_l_gen by (rewrite L32; lia). rewrite A32. apply E32. reflexivity.
  Qed.
  Lemma hw_arch : le (slice bs 4 4) = 0.
  Proof.
    rewrite in_pre by lia. unfold pre, hbig_pre.
    rewrite slice_app_r by (rewrite L32; lia). rewrite L32. change (4 - 4) with 0.
    rewrite slice_app_l_gen by (rewrite L32; lia). rewrite A32. apply E32. reflexivity.
  Qed.
  Lemma hw_length : le (slice bs 8 4) = T.
  Proof.
    rewrite in_pre by lia. unfold pre, hbig_pre.
    rewrite slice_app_r by (rewrite L32; lia). rewrite L32. change (8 - 4) with 4.
    rewrite slice_app_r by (rewrite L32; lia). rewrite L32. change (4 - 4) with 0.
    rewrite slice_app_l_gen by (rewrite L32; lia). rewrite A32. apply E32. exact HT.
  Qed.
  Lemma hw_cksum : le (slice bs 12 4) = calc_checksum HDR_MAGIC 0 T.
  Proof.
    rewrite in_pre by lia. unfold pre, hbig_pre.
    rewrite slice_app_r by (rewrite L32; lia). rewrite L32. change (12 - 4) with 8.
    rewrite slice_app_r by (rewrite L32; lia). rewrite L32. change (8 - 4) with 4.
    rewrite slice_app_r by (rewrite L32; lia). rewrite L32. change (4 - 4) with 0.
    rewrite A32. apply E32. apply checksum_law.
  Qed.

  Lemma hbig_load p a : a mod 8 = 0 ->
    hdr_load p false {| m_base := a; m_bytes := bs |} = Val {| d_off := 0; d_plen := T - 16 |}.
  Proof.
    intros Ha. rewrite c10_load_spec; [|exact Ha|rewrite hbig_len; unfold T, hbig_total; lia|rewrite hw_length, hbig_len; lia|rewrite hw_arch; reflexivity].
    unfold c10_closed. rewrite hw_length, hw_magic, hw_arch, hw_cksum.
    destruct (N.ltb_spec T 16) as [X|_]; [unfold T, hbig_total in X; lia|].
    assert (T mod 8 = 0) as -> by (unfold T, hbig_total; fold L; rewrite <- HL; unfold round8; lia).
    cbn [N.eqb negb]. rewrite N.eqb_refl. cbn [negb].
    destruct (checksum_law HDR_MAGIC 0 T) as [_ C].
    replace (HDR_MAGIC + 0 + T + calc_checksum HDR_MAGIC 0 T) with (calc_checksum HDR_MAGIC 0 T + HDR_MAGIC + 0 + T) by lia.
    rewrite C. reflexivity.
  Qed.

  Definition hitems : list item := gen_items_from pre tag n 0 n.

  Lemma hbig_walk : walk bs T 16 hitems true.
  Proof.
    pose proof (gen_walk pre hbig_post tag n Hs HL hpost_len hpost_end) as W.
    rewrite hpre_len in W. replace (16 + N.of_nat n * len tag + 8) with T in W by (unfold T, hbig_total; lia).
    exact W.
  Qed.

  Lemma hbig_run p a : a mod 8 = 0 ->
    tagiter_run (iter_fuel (T - 16)) p HHdrTagH {| m_base := a; m_bytes := bs |} 16 (T - 16) 0 = (map dref_of hitems, Val tt).
  Proof.
    intros Ha. pose proof (hbig_load p a Ha) as Hl.
    destruct (c11_walk p a bs _ Ha ltac:(rewrite hbig_len; unfold T, hbig_total; lia) ltac:(rewrite hw_length, hbig_len; lia)
                       ltac:(rewrite hw_arch; reflexivity) Hl) as (l & ok & Hrun & _ & Huniq).
    cbn [d_off d_plen] in Hrun. change (0 + 16) with 16 in Hrun.
    pose proof hbig_walk as W. rewrite <- hw_length in W at 1.
    destruct (Huniq _ _ W) as [E1 E2]. subst l ok. exact Hrun.
  Qed.

  Lemma htyp_tag k : (k < n)%nat -> htyp_at bs (gen_off pre tag k) = typ.
  Proof.
    intros Hk. unfold htyp_at. rewrite <- (N.add_0_r (gen_off pre tag k)).
    unfold bs, hbig_region. fold pre.
    rewrite (gen_slice_tag pre hbig_post tag n k 0 2 Hk); [reflexivity|].
    fold L. rewrite <- HL. unfold round8. lia.
  Qed.
  Lemma htyp_end : htyp_at bs (gen_off pre tag n) = 0.
  Proof.
    unfold htyp_at. rewrite <- (N.add_0_r (gen_off pre tag n)).
    unfold bs, hbig_region. fold pre.
    rewrite (gen_slice_post pre hbig_post tag n Hs HL hpost_len hpost_end 0 2 ltac:(lia)). reflexivity.
  Qed.

  Lemma hbig_types : types_defined bs hitems.
  Proof.
    unfold types_defined, hitems, gen_items_from. apply Forall_app. split.
    - apply Forall_forall. intros it Hin. apply in_map_iff in Hin as (i & <- & Hi). apply in_seq in Hi. cbn [i_off].
      rewrite htyp_tag by lia. exact Htyp.
    - constructor; [|constructor]. cbn [i_off]. rewrite htyp_end. lia.
  Qed.

  Lemma find_all_false (f : item -> bool) : forall j a e,
    (forall i, (a <= i < a + j)%nat -> f {| i_off := gen_off pre tag i; i_size := s |} = false) -> f e = false ->
    find f (map (fun i => {| i_off := gen_off pre tag i; i_size := s |}) (seq a j) ++ [e]) = None.
  Proof.
    induction j as [|j IH]; intros a e H He; cbn [seq map app find].
    - rewrite He. reflexivity.
    - rewrite H by lia. apply IH; [intros i Hi; apply H; lia|exact He].
  Qed.

  Lemma hbig_getter p a k : a mod 8 = 0 -> k <> HkEnd ->
    hget_tag p k {| m_base := a; m_bytes := bs |} {| d_off := 0; d_plen := T - 16 |} = hbig_get k (N.of_nat n) typ s.
  Proof.
    intros Ha Hk.
    rewrite (hget_tag_spec p a bs _ k hitems true Ha ltac:(rewrite hbig_len; unfold T, hbig_total; lia)
               ltac:(rewrite hw_length, hbig_len; lia) ltac:(rewrite hw_arch; reflexivity) (hbig_load p a Ha)
               ltac:(rewrite hw_length; exact hbig_walk) hbig_types).
    unfold hget_tag_closed, hbig_get, hitems, gen_items_from.
    assert (K0 : (0 =? hkind_typ k) = false) by (destruct k; try reflexivity; congruence).
    destruct (N.eqb_spec (hkind_typ k) typ) as [Et|Nt]; cbn [andb].
    - destruct (N.leb_spec 1 (N.of_nat n)) as [Hn|Hn].
      + assert (Hseq : forall m, (1 <= m)%nat -> seq 0 m = 0%nat :: seq 1 (m - 1)).
        { intros [|m] Hm; [lia|]. replace (S m - 1)%nat with m by lia. reflexivity. }
        rewrite (Hseq n) by lia. cbn [map app find i_off].
        rewrite htyp_tag by lia. rewrite Et, N.eqb_refl.
        cbn [i_off i_size]. replace (gen_off pre tag 0) with 16 by (unfold gen_off; rewrite hpre_len; lia).
        unfold hcast_closed. unfold s. destruct k; try congruence;
          repeat match goal with |- context [N.eqb ?x ?y] => destruct (N.eqb x y) end; cbn [negb bind]; reflexivity.
      + rewrite find_all_false; [reflexivity| |].
        * intros i Hi. lia.
        * cbn [i_off]. rewrite htyp_end. exact K0.
    - rewrite find_all_false.
      + destruct (1 <=? N.of_nat n); reflexivity.
      + intros i Hi. cbn [i_off]. rewrite htyp_tag by lia. apply N.eqb_neq. congruence.
      + cbn [i_off]. rewrite htyp_end. exact K0.
  Qed.
End HBig.
