(* Proofs for C08: the model's results do not depend on the build profile. *)
Require Import Bytes Outcome Layout Common TagType Mbi MbiTags Strings MbiAccess Header HeaderTags Handles HHandles WalkSpec
               BytesFacts ArithFacts CommonFacts IterFacts CastFacts HCastFacts C02Proofs C03Proofs C04Proofs C10Proofs
               C11Proofs C13Proofs C14Proofs C18Proofs C19Proofs C01Proofs C09Proofs.
From Coq Require Import Lia ZArith ZifyN ZifyBool ZifyNat String.
Ltac Zify.zify_post_hook ::= Z.div_mod_to_equations.
Open Scope list_scope.
Open Scope N_scope.

(* multiboot2-common *)
Lemma p_ref_from_slice h m off n : ref_from_slice Dev h m off n = ref_from_slice Release h m off n.
Proof. destruct m as [a bs]. rewrite !ref_from_slice_closed. reflexivity. Qed.

Lemma p_inc_align s : s + 7 < pow2_64 -> inc_align Dev s = inc_align Release s.
Proof. intros H. rewrite !inc_align_spec by exact H. reflexivity. Qed.

Lemma p_payload_len h hdr : payload_len Dev h hdr = payload_len Release h hdr.
Proof. rewrite !payload_len_spec. reflexivity. Qed.
Lemma p_total_size h hdr : total_size Dev h hdr = total_size Release h hdr.
Proof. rewrite !total_size_spec. reflexivity. Qed.

Lemma p_tagiter_next h m b blen nxt : iter_ok h m b blen -> nxt mod 8 = 0 -> nxt <= blen ->
  tagiter_next Dev h m b blen nxt = tagiter_next Release h m b blen nxt.
Proof. intros A B C. rewrite !tagiter_next_closed by assumption. reflexivity. Qed.

Lemma p_cast_kind k m g : d_off g + 8 <= len (m_bytes m) -> 8 <= size_at (m_bytes m) (d_off g) ->
  d_plen g = size_at (m_bytes m) (d_off g) - 8 -> cast_kind Dev k m g = cast_kind Release k m g.
Proof. intros A B C. rewrite !cast_kind_closed by assumption. reflexivity. Qed.
Lemma p_hcast_kind k m g : d_off g + 8 <= len (m_bytes m) -> 8 <= size_at (m_bytes m) (d_off g) ->
  d_plen g = size_at (m_bytes m) (d_off g) - 8 -> hcast_kind Dev k m g = hcast_kind Release k m g.
Proof. intros A B C. rewrite !hcast_kind_closed by assumption. reflexivity. Qed.

(* multiboot2 *)
Lemma p_mbi_load a bs : a mod 8 = 0 -> 8 <= len bs -> le (slice bs 0 4) <= len bs ->
  mbi_load Dev false {| m_base := a; m_bytes := bs |} = mbi_load Release false {| m_base := a; m_bytes := bs |}.
Proof. intros A B C. rewrite !c02_load_spec by assumption. reflexivity. Qed.

Lemma p_get_tag a bs r k :
  a mod 8 = 0 -> 8 <= len bs -> le (slice bs 0 4) <= len bs ->
  let m := {| m_base := a; m_bytes := bs |} in
  mbi_load Dev false m = Val r ->
  get_tag Dev k m r = get_tag Release k m r.
Proof.
  intros A B C m H. assert (H' : mbi_load Release false m = Val r) by (unfold m; rewrite <- p_mbi_load by assumption; exact H).
  destruct (c03_walk Dev a bs r A B C H) as (l & ok & _ & W & _).
  unfold m. rewrite (get_tag_spec Dev a bs r k l ok A B C H W), (get_tag_spec Release a bs r k l ok A B C H' W). reflexivity.
Qed.

Lemma p_efi_next m L it : efi_inv m L it -> efi_next Dev m it = efi_next Release m it /\ efi_len Dev it = efi_len Release it.
Proof.
  intros H. destruct (efi_next_spec Dev m L it H) as (A & _ & B). destruct (efi_next_spec Release m L it H) as (A' & _ & B').
  rewrite A, A', B, B'. split; reflexivity.
Qed.

Lemma p_elf_sections m t : elf_sections Dev m t = elf_sections Release m t.
Proof. reflexivity. Qed.
Lemma p_elf_next : forall fuel m it, elf_next fuel Dev m it = elf_next fuel Release m it.
Proof. induction fuel as [|f IH]; intros m it; cbn [elf_next]; [reflexivity|]. destruct (el_rem it =? 0); [reflexivity|].
  destruct (elf_section_type_of m _); cbn [bind]; try reflexivity. destruct (is_unused a); [apply IH|reflexivity]. Qed.

(* multiboot2-header *)
Lemma p_hdr_load a bs : a mod 8 = 0 -> 16 <= len bs -> le (slice bs 8 4) <= len bs -> arch_defined (le (slice bs 4 4)) = true ->
  hdr_load Dev false {| m_base := a; m_bytes := bs |} = hdr_load Release false {| m_base := a; m_bytes := bs |}.
Proof. intros A B C D. rewrite !c10_load_spec by assumption. reflexivity. Qed.

Lemma p_find_header a buf : find_header Dev a buf = find_header Release a buf.
Proof. reflexivity. Qed.

Lemma p_hget_tag a bs r k l ok :
  a mod 8 = 0 -> 16 <= len bs -> le (slice bs 8 4) <= len bs -> arch_defined (le (slice bs 4 4)) = true ->
  let m := {| m_base := a; m_bytes := bs |} in
  hdr_load Dev false m = Val r -> walk bs (le (slice bs 8 4)) 16 l ok -> types_defined bs l ->
  hget_tag Dev k m r = hget_tag Release k m r.
Proof.
  intros A B C D m H W T. assert (H' : hdr_load Release false m = Val r) by (unfold m; rewrite <- p_hdr_load by assumption; exact H).
  unfold m. rewrite (hget_tag_spec Dev a bs r k l ok A B C D H W T), (hget_tag_spec Release a bs r k l ok A B C D H' W T). reflexivity.
Qed.

(* accessors that never mention the profile are trivially independent of it: parse_str, tag_str, fld,
   mmap_areas, efi_memory_areas, fb_buffer_type, rsdp*_checksum_valid, module_size, sat_add64, the ELF
   field accessors, verify_checksum, calc_checksum, the conversions of C20 *)
