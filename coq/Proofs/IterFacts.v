(* TagIter: closed form of next(), and the walk theorem. *)
Require Import Bytes Outcome Common Mbi WalkSpec BytesFacts ArithFacts CommonFacts.
From Coq Require Import Lia ZArith ZifyN ZifyBool ZifyNat.
Ltac Zify.zify_post_hook ::= Z.div_mod_to_equations.

(* invariant of an iterator over buffer [b, b+blen) of memory m *)
Definition is_tag_hdr (h : hkind) : bool :=
  match h with HDummy | HTagH | HHdrTagH => true | _ => false end.
Lemma is_tag_hdr_size h : is_tag_hdr h = true -> hsize h = 8.
Proof. destruct h; cbn; congruence. Qed.

Record iter_ok (h : hkind) (m : mem) (b blen : N) : Prop := {
  io_h : is_tag_hdr h = true;
  io_base : (m_base m + b) mod 8 = 0;
  io_blen : blen mod 8 = 0;
  io_in : b + blen <= len (m_bytes m);
  io_small : blen < pow2_32
}.

Definition next_closed (h : hkind) (m : mem) (b blen nxt : N) : res (option dref * N) :=
  if nxt =? blen then Val (None, nxt) else
  let size := stored_size h (slice (m_bytes m) (b + nxt) 8) in
  if size <? 8 then Panic
  else if blen <? nxt + round8 size then Panic
  else Val (Some {| d_off := b + nxt; d_plen := size - 8 |}, nxt + round8 size).

Lemma tagiter_next_closed p h m b blen nxt :
  iter_ok h m b blen -> nxt mod 8 = 0 -> nxt <= blen ->
  tagiter_next p h m b blen nxt = next_closed h m b blen nxt.
Proof.
  intros [Hh Hb Hl Hin Hs] Hn Hle. apply is_tag_hdr_size in Hh. unfold tagiter_next, next_closed.
  destruct (N.eqb_spec nxt blen) as [E|E]; [reflexivity|].
  unfold assert. destruct (N.ltb_spec nxt blen) as [Hlt|X]; [|lia]. cbn [bind].
  unfold mrd, rd. rewrite Hh.
  destruct (N.leb_spec (b + nxt + 8) (len (m_bytes m))) as [_|X]; [|lia]. cbn [bind].
  rewrite payload_len_spec. rewrite Hh.
  set (size := stored_size h (slice (m_bytes m) (b + nxt) 8)).
  pose proof (stored_size_bound h (slice (m_bytes m) (b + nxt) 8)) as Hsz. fold size in Hsz.
  unfold pow2_32 in *.
  destruct (N.ltb_spec size 8) as [H8|H8]; cbn [bind]; [reflexivity|].
  rewrite uadd_ok by (unfold pow2_64; lia). cbn [bind].
  rewrite uadd_ok by (unfold pow2_64; lia). cbn [bind].
  rewrite inc_align_spec by (unfold pow2_64; lia). cbn [bind].
  replace (8 + (size - 8)) with size by lia.
  assert (Er : round8 (nxt + size) = nxt + round8 size) by (unfold round8; lia).
  rewrite Er.
  rewrite usub_ok by lia. cbn [bind].
  rewrite uadd_ok by (unfold pow2_64, round8; lia). cbn [bind].
  unfold idx_range, assert.
  destruct (N.ltb_spec blen (nxt + round8 size)) as [Hout|Hin2].
  - replace ((nxt <=? nxt + round8 size) && (nxt + round8 size <=? blen)) with false by lia. reflexivity.
  - replace ((nxt <=? nxt + round8 size) && (nxt + round8 size <=? blen)) with true by lia. cbn [bind].
    destruct m as [base bytes]. cbn [m_base m_bytes] in *.
    rewrite ref_from_slice_closed. unfold ref_from_slice_spec. rewrite Hh.
    replace (nxt + round8 size - nxt) with (round8 size) by lia.
    destruct (N.ltb_spec (round8 size) 8) as [X|_]; [unfold round8 in X; lia|].
    replace ((base + (b + nxt)) mod 8 =? 0) with true by lia. cbn [negb].
    replace (round8 size mod 8 =? 0) with true by (unfold round8; lia). cbn [negb].
    destruct (N.ltb_spec (len bytes) (b + nxt + 8)) as [X|_]; [lia|].
    fold size.
    destruct (N.ltb_spec size 8) as [X|_]; [lia|].
    destruct (N.ltb_spec (round8 size) size) as [X|_]; [unfold round8 in X; lia|].
    cbn [unwrap bind]. replace (8 + (size - 8) - 8) with (size - 8) by lia.
    replace (nxt + (nxt + round8 size - nxt)) with (nxt + round8 size) by lia. reflexivity.
Qed.

(* next() keeps the iterator position 8-aligned and inside the buffer *)
Lemma next_closed_inv h m b blen nxt r nxt' :
  blen mod 8 = 0 -> nxt mod 8 = 0 -> nxt <= blen ->
  next_closed h m b blen nxt = Val (r, nxt') -> nxt' mod 8 = 0 /\ nxt' <= blen /\ (r <> None -> nxt + 8 <= nxt').
Proof.
  intros Hl Hn Hle. unfold next_closed.
  destruct (N.eqb_spec nxt blen) as [E|E].
  - intros H. injection H as <- <-. repeat split; try lia. congruence.
  - set (size := stored_size _ _).
    destruct (N.ltb_spec size 8) as [H8|H8]; [discriminate|].
    destruct (N.ltb_spec blen (nxt + round8 size)) as [Ho|Ho]; [discriminate|].
    intros H. injection H as <- <-. unfold round8 in *. repeat split; lia.
Qed.

Definition dref_of (it : item) : dref := {| d_off := i_off it; d_plen := i_size it - 8 |}.
Definition status (ok : bool) : res unit := if ok then Val tt else Panic.

Lemma stored_size_8 h bs off : is_tag_hdr h = true -> stored_size h (slice bs off 8) = size_at bs off.
Proof.
  intros Hh. unfold size_at. destruct h; cbn [stored_size is_tag_hdr] in *; try discriminate;
  rewrite slice_slice by lia; reflexivity.
Qed.

(* running the iterator from position nxt produces exactly the specification's walk *)
Lemma run_walk p h m b blen : iter_ok h m b blen ->
  forall fuel nxt, nxt mod 8 = 0 -> nxt <= blen -> (N.to_nat ((blen - nxt) / 8) < fuel)%nat ->
  exists l ok, tagiter_run fuel p h m b blen nxt = (map dref_of l, status ok) /\
               walk (m_bytes m) (b + blen) (b + nxt) l ok.
Proof.
  intros Hok. induction fuel as [|fuel IH]; intros nxt Hn Hle Hf; [lia|].
  cbn [tagiter_run]. rewrite tagiter_next_closed by assumption.
  pose proof (next_closed_inv h m b blen nxt) as Hinv.
  unfold next_closed in *.
  destruct (N.eqb_spec nxt blen) as [E|E].
  - exists [], true. subst nxt. split; [reflexivity|constructor].
  - rewrite (stored_size_8 h _ _ (io_h _ _ _ _ Hok)) in *.
    set (size := size_at (m_bytes m) (b + nxt)) in *.
    destruct (N.ltb_spec size 8) as [H8|H8].
    + exists [], false. split; [reflexivity|]. apply W_small; [lia|exact H8].
    + destruct (N.ltb_spec blen (nxt + round8 size)) as [Ho|Ho].
      * exists [], false. split; [reflexivity|]. apply W_leave; [lia|exact H8|fold size; lia].
      * specialize (Hinv _ _ (io_blen _ _ _ _ Hok) Hn Hle eq_refl). destruct Hinv as (A & B & C).
        specialize (C ltac:(discriminate)).
        destruct (IH (nxt + round8 size) A B) as (l & ok & Hrun & Hwalk).
        { assert ((blen - (nxt + round8 size)) / 8 < (blen - nxt) / 8) by (unfold round8 in *; lia). lia. }
        rewrite Hrun. exists ({| i_off := b + nxt; i_size := size |} :: l), ok.
        split; [reflexivity|].
        apply W_step; fold size; try lia.
        replace (b + nxt + round8 size) with (b + (nxt + round8 size)) by lia. exact Hwalk.
Qed.

(* the specification's walk is deterministic *)
Lemma walk_fun bs total off l1 ok1 : walk bs total off l1 ok1 ->
  forall l2 ok2, walk bs total off l2 ok2 -> l1 = l2 /\ ok1 = ok2.
Proof.
  induction 1 as [|off Hne Hs|off Hne Hs Ho|off l ok Hne Hs Ho Hw IH]; intros l2 ok2 W2.
  - inversion W2; subst; try (split; reflexivity); try contradiction.
  - inversion W2; subst; try (split; reflexivity); try contradiction; lia.
  - inversion W2; subst; try (split; reflexivity); try contradiction; lia.
  - inversion W2 as [| | |? l' ok' ? ? ? Hw']; subst; try contradiction; try lia.
    destruct (IH _ _ Hw') as [-> ->]. split; reflexivity.
Qed.

(* every step advances by at least 8: at most blen/8 items *)
Lemma walk_length bs total off l ok : walk bs total off l ok -> off <= total -> 8 * len l <= total - off.
Proof.
  induction 1 as [|off Hne Hs|off Hne Hs Ho|off l ok Hne Hs Ho Hw IH]; intros Hle; try (rewrite (@len_nil item); lia).
  rewrite len_cons. unfold round8 in *. specialize (IH ltac:(lia)). lia.
Qed.

(* items lie inside the region, are 8-aligned and pairwise laid out back to back *)
Lemma walk_items_inside bs total off l ok : walk bs total off l ok -> off mod 8 = 0 ->
  Forall (fun it => off <= i_off it /\ i_off it mod 8 = 0 /\ 8 <= i_size it /\
                    i_off it + round8 (i_size it) <= total /\ i_size it = size_at bs (i_off it)) l.
Proof.
  induction 1 as [|off Hne Hs|off Hne Hs Ho|off l ok Hne Hs Ho Hw IH]; intros Ha; try constructor.
  - cbn [i_off i_size]. repeat split; try lia; assumption.
  - eapply Forall_impl; [|apply IH; unfold round8; lia].
    intros it (A & B & C & D & E). unfold round8 in *. repeat split; try lia; assumption.
Qed.

(* ---- find / module iterator ---------------------------------------------- *)
Definition typ_at (bs : list byte) (off : N) : N := le (slice bs off 4).

Lemma walk_inv bs total off l ok : walk bs total off l ok ->
  (off = total /\ l = [] /\ ok = true) \/
  (off <> total /\ size_at bs off < 8 /\ l = [] /\ ok = false) \/
  (off <> total /\ 8 <= size_at bs off /\ total < off + round8 (size_at bs off) /\ l = [] /\ ok = false) \/
  (off <> total /\ 8 <= size_at bs off /\ off + round8 (size_at bs off) <= total /\
   exists l', l = {| i_off := off; i_size := size_at bs off |} :: l' /\
              walk bs total (off + round8 (size_at bs off)) l' ok).
Proof.
  intros W. destruct W as [|off Hne Hs|off Hne Hs Ho|off l ok Hne Hs Ho Hw].
  - left. repeat split.
  - right; left. repeat split; assumption.
  - right; right; left. repeat split; assumption.
  - right; right; right. repeat split; try assumption. exists l. split; [reflexivity|exact Hw].
Qed.

Definition find_closed (bs : list byte) (b blen : N) (typ : N) (l : list item) (ok : bool) : res (option dref * N) :=
  match find (fun it => typ_at bs (i_off it) =? typ) l with
  | Some it => Val (Some (dref_of it), i_off it + round8 (i_size it) - b)
  | None => if ok then Val (None, blen) else Panic
  end.

Lemma find_walk p h m b blen typ : iter_ok h m b blen ->
  forall fuel nxt l ok, nxt mod 8 = 0 -> nxt <= blen -> (N.to_nat ((blen - nxt) / 8) < fuel)%nat ->
  walk (m_bytes m) (b + blen) (b + nxt) l ok ->
  tagiter_find fuel p h m b blen nxt typ = find_closed (m_bytes m) b blen typ l ok.
Proof.
  intros Hok. induction fuel as [|fuel IH]; intros nxt l ok Hn Hle Hf W; [lia|].
  cbn [tagiter_find]. rewrite tagiter_next_closed by assumption.
  pose proof (next_closed_inv h m b blen nxt) as Hinv.
  unfold next_closed in *.
  rewrite (stored_size_8 h _ _ (io_h _ _ _ _ Hok)) in *.
  apply walk_inv in W.
  destruct (N.eqb_spec nxt blen) as [E|E].
  - destruct W as [(A & -> & ->)|[(A & _)|[(A & _)|(A & _)]]]; try (exfalso; lia).
    subst nxt. reflexivity.
  - set (size := size_at (m_bytes m) (b + nxt)) in *.
    destruct (N.ltb_spec size 8) as [H8|H8].
    + destruct W as [(A & _)|[(A & B & -> & ->)|[(A & B & _)|(A & B & _)]]]; try (exfalso; lia). reflexivity.
    + destruct (N.ltb_spec blen (nxt + round8 size)) as [Ho|Ho].
      * destruct W as [(A & _)|[(A & B & _)|[(A & B & C & -> & ->)|(A & B & C & _)]]]; try (exfalso; lia). reflexivity.
      * destruct W as [(A & _)|[(A & B & _)|[(A & B & C & _)|(A & B & C & l' & -> & W')]]]; try (exfalso; lia).
        cbn [bind]. unfold find_closed. cbn [find i_off i_size].
        unfold tag_typ, typ_at. cbn [d_off].
        destruct (le (slice (m_bytes m) (b + nxt) 4) =? typ) eqn:Et.
        -- unfold dref_of. cbn [i_off i_size].
           replace (b + nxt + round8 size - b) with (nxt + round8 size) by lia. reflexivity.
        -- specialize (Hinv _ _ (io_blen _ _ _ _ Hok) Hn Hle eq_refl). destruct Hinv as (A' & B' & C').
           specialize (C' ltac:(discriminate)).
           rewrite (IH (nxt + round8 size) l' ok A' B').
           ++ reflexivity.
           ++ assert ((blen - (nxt + round8 size)) / 8 < (blen - nxt) / 8) by (unfold round8 in *; lia). lia.
           ++ replace (b + (nxt + round8 size)) with (b + nxt + round8 size) by lia. exact W'.
Qed.

(* ---- an iterator after a caught panic: the offset it is left with, and that it can be used further without a fault ---- *)
Definition left_closed (h : hkind) (m : mem) (b blen nxt : N) : N :=
  if (nxt =? blen) || (blen <? nxt) then nxt else
  let size := stored_size h (slice (m_bytes m) (b + nxt) 8) in
  if size <? 8 then nxt else nxt + round8 size.

Lemma tagiter_left_closed p h m b blen nxt :
  iter_ok h m b blen -> nxt mod 8 = 0 ->
  tagiter_left p h m b blen nxt = left_closed h m b blen nxt.
Proof.
  intros [Hh Hb Hl Hin Hs] Hn. apply is_tag_hdr_size in Hh. unfold tagiter_left, left_closed.
  destruct (N.eqb_spec nxt blen) as [E|E]; [reflexivity|]. cbn [orb].
  unfold assert. destruct (N.ltb_spec nxt blen) as [Hlt|Hge].
  - destruct (N.ltb_spec blen nxt) as [X|_]; [lia|]. cbn [bind].
    unfold mrd, rd. rewrite Hh.
    destruct (N.leb_spec (b + nxt + 8) (len (m_bytes m))) as [_|X]; [|lia]. cbn [bind].
    rewrite payload_len_spec. rewrite Hh.
    set (size := stored_size h (slice (m_bytes m) (b + nxt) 8)).
    pose proof (stored_size_bound h (slice (m_bytes m) (b + nxt) 8)) as Hsz. fold size in Hsz.
    unfold pow2_32 in *.
    destruct (N.ltb_spec size 8) as [H8|H8]; cbn [bind]; [reflexivity|].
    rewrite uadd_ok by (unfold pow2_64; lia). cbn [bind].
    rewrite uadd_ok by (unfold pow2_64; lia). cbn [bind].
    rewrite inc_align_spec by (unfold pow2_64; lia). cbn [bind].
    replace (8 + (size - 8)) with size by lia.
    assert (Er : round8 (nxt + size) = nxt + round8 size) by (unfold round8; lia).
    rewrite Er.
    rewrite usub_ok by lia. cbn [bind].
    rewrite uadd_ok by (unfold pow2_64, round8; lia).
    f_equal. lia.
  - destruct (N.ltb_spec blen nxt) as [_|X]; [|lia]. reflexivity.
Qed.

Lemma tagiter_next_beyond p h m b blen nxt : blen < nxt -> tagiter_next p h m b blen nxt = Panic.
Proof.
  intros H. unfold tagiter_next. destruct (N.eqb_spec nxt blen) as [E|_]; [lia|].
  unfold assert. destruct (N.ltb_spec nxt blen) as [X|_]; [lia|]. reflexivity.
Qed.

(* from EVERY 8-aligned offset - inside the buffer, at its end, or beyond it after a caught panic - next() is a value or a
   controlled panic, never a fault, and leaves an 8-aligned offset *)
Lemma tagiter_step_safe p h m b blen nxt :
  iter_ok h m b blen -> nxt mod 8 = 0 ->
  is_fault (fst (tagiter_step p h m b blen nxt)) = false /\ snd (tagiter_step p h m b blen nxt) mod 8 = 0.
Proof.
  intros Hok Hn. unfold tagiter_step.
  destruct (N.le_gt_cases nxt blen) as [Hle|Hgt].
  - rewrite (tagiter_next_closed p h m b blen nxt Hok Hn Hle).
    rewrite (tagiter_left_closed p h m b blen nxt Hok Hn).
    destruct (next_closed h m b blen nxt) as [[o n']| | |] eqn:E.
    + cbn [fst snd is_fault]. split; [reflexivity|].
      destruct (next_closed_inv h m b blen nxt o n' (io_blen _ _ _ _ Hok) Hn Hle E) as (A & _). exact A.
    + exfalso. unfold next_closed in E. destruct (nxt =? blen); [discriminate|].
      destruct (_ <? 8); [discriminate|]. destruct (blen <? _); discriminate.
    + cbn [fst snd is_fault]. split; [reflexivity|]. unfold left_closed.
      destruct ((nxt =? blen) || (blen <? nxt)); [exact Hn|].
      destruct (_ <? 8); [exact Hn|]. unfold round8. lia.
    + exfalso. unfold next_closed in E. destruct (nxt =? blen); [discriminate|].
      destruct (_ <? 8); [discriminate|]. destruct (blen <? _); discriminate.
  - rewrite (tagiter_next_beyond p h m b blen nxt Hgt). cbn [fst snd is_fault]. split; [reflexivity|].
    rewrite (tagiter_left_closed p h m b blen nxt Hok Hn). unfold left_closed.
    destruct (N.eqb_spec nxt blen) as [X|_]; [lia|]. destruct (N.ltb_spec blen nxt) as [_|X]; [|lia]. exact Hn.
Qed.
