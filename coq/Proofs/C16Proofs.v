(* Proofs for C16: heap construction lays out header and content exactly; cloning is the identity. *)
Require Import Bytes Outcome Layout Common TagType Mbi MbiTags Header HeaderTags Build
               BytesFacts ArithFacts CommonFacts CastFacts BuildFacts.
From Coq Require Import Lia ZArith ZifyN ZifyBool ZifyNat String.
Ltac Zify.zify_post_hook ::= Z.div_mod_to_equations.
Open Scope list_scope.
Open Scope N_scope.

Lemma slice_concat {A} (l : list A) a n k : slice l a n ++ slice l (a + n) k = slice l a (n + k).
Proof.
  unfold slice. replace (N.to_nat (a + n)) with (N.to_nat a + N.to_nat n)%nat by lia.
  replace (N.to_nat (n + k)) with (N.to_nat n + N.to_nat k)%nat by lia.
  rewrite <- skipn_skipn'. generalize (skipn (N.to_nat a) l). intro l'. clear.
  revert l'. induction (N.to_nat n) as [|n' IH]; intro l'; [reflexivity|].
  destruct l' as [|x l']; [cbn; rewrite firstn_nil; reflexivity|]. cbn [firstn skipn Nat.add app]. f_equal. apply IH.
Qed.

Lemma slice_enc32_all ts : slice (enc32 ts) 0 4 = enc32 ts.
Proof. rewrite <- (len_enc32 ts) at 1. apply slice_all. Qed.

Lemma le_enc32_mod ts : le (enc32 ts) = ts mod pow2_32.
Proof. unfold enc32. rewrite le_enc. reflexivity. Qed.

Lemma stored_set_size h hdr ts : len hdr = hsize h -> stored_size h (set_size h hdr ts) = ts mod pow2_32.
Proof.
  intros Hl. assert (H4 : len (slice hdr 0 4) = 4) by (rewrite len_slice; destruct h; cbn [hsize] in Hl; lia).
  assert (H8 : len (slice hdr 0 8) = 8 \/ h <> HBasicH).
  { destruct h; try (right; discriminate). left. rewrite len_slice. cbn [hsize] in Hl. lia. }
  destruct h; cbn [stored_size set_size].
  - rewrite slice_app_r by lia. rewrite H4. replace (4 - 4) with 0 by lia.
    rewrite slice_enc32_all. apply le_enc32_mod.
  - rewrite slice_app_r by lia. rewrite H4. replace (4 - 4) with 0 by lia.
    rewrite slice_enc32_all. apply le_enc32_mod.
  - rewrite slice_app_r by lia. rewrite H4. replace (4 - 4) with 0 by lia.
    rewrite slice_enc32_all. apply le_enc32_mod.
  - rewrite slice_app_l by (rewrite len_enc32; lia). rewrite slice_enc32_all. apply le_enc32_mod.
  - destruct H8 as [H8|X]; [|contradiction].
    rewrite slice_app_r by lia. rewrite H8. replace (8 - 8) with 0 by lia.
    rewrite slice_app_l by (rewrite len_enc32; lia). rewrite slice_enc32_all. apply le_enc32_mod.
  - rewrite slice_app_r by lia. rewrite H4. replace (4 - 4) with 0 by lia.
    rewrite slice_app_l by (rewrite len_enc32; lia). rewrite slice_enc32_all. apply le_enc32_mod.
Qed.

Lemma len_set_size h hdr ts : len hdr = hsize h -> len (set_size h hdr ts) = hsize h.
Proof.
  intros Hl. destruct h; cbn [set_size hsize] in *; rewrite ?len_app, ?len_enc32, ?len_slice; lia.
Qed.

(* new_boxed::<DynSizedStructure<H>>: header with patched size, then the concatenated content without
   gaps, then padding up to the allocation size = total rounded up to 8 *)
Lemma new_boxed_generic p h hdr slices pad :
  len hdr = hsize h ->
  let ts := hsize h + content_len slices in
  ts < pow2_32 ->
  new_boxed p h (tdesc_generic h) hdr slices pad =
    Val (set_size h hdr ts ++ List.concat slices ++ slice pad 0 (round8 ts - ts))%list.
Proof.
  intros Hl ts Hts. unfold new_boxed. fold (content_len slices). pose proof (hsize_pos h) as Hh.
  subst ts. unfold pow2_32 in Hts.
  rewrite uadd_ok by (unfold pow2_64; lia). cbn [bind].
  remember (hsize h + content_len slices) as ts eqn:Ets. assert (Hge : hsize h <= ts) by lia. clear Ets.
  rewrite inc_align_spec by (unfold pow2_64; lia). cbn [bind].
  cbn [tdesc_generic t_dstlen t_sizeof].
  rewrite payload_len_spec, stored_set_size by exact Hl.
  rewrite N.mod_small by (unfold pow2_32; lia).
  destruct (N.ltb_spec ts (hsize h)) as [X|_]; [lia|]. cbn [bind].
  cbv beta iota. replace (hsize h + (ts - hsize h)) with ts by lia. unfold assert. rewrite N.eqb_refl. reflexivity.
Qed.

Lemma new_boxed_generic_shape p h hdr slices pad b :
  len hdr = hsize h -> hsize h + content_len slices < pow2_32 -> len pad >= 8 ->
  new_boxed p h (tdesc_generic h) hdr slices pad = Val b ->
  let ts := hsize h + content_len slices in
  slice b 0 (hsize h) = set_size h hdr ts /\
  slice b (hsize h) (content_len slices) = List.concat slices /\
  len b = round8 ts /\ len b mod 8 = 0 /\
  t_sizeof (tdesc_generic h) (Some (ts - hsize h)) = len b.
Proof.
  intros Hl Hts Hpad H ts. rewrite new_boxed_generic in H by assumption. injection H as <-. fold ts.
  pose proof (len_set_size h hdr ts Hl) as Hls.
  split; [apply slice_app_l_exact; symmetry; exact Hls|].
  split; [rewrite <- Hls; apply slice_app_mid; symmetry; apply len_concat|].
  assert (Hlen : len (set_size h hdr ts ++ List.concat slices ++ slice pad 0 (round8 ts - ts))%list = round8 ts).
  { rewrite !len_app, Hls, len_concat, len_slice. unfold ts, round8 in *. lia. }
  rewrite Hlen. split; [reflexivity|]. split; [apply round8_mod|].
  cbn [tdesc_generic t_sizeof]. f_equal. unfold ts. lia.
Qed.

(* ---- clone_dyn ------------------------------------------------------------------------------- *)
(* a well-formed tag image: at least the header, as long as its size rounded up to 8 *)
Definition wf_img (img : list byte) : Prop :=
  8 <= le (slice img 4 4) /\ len img = round8 (le (slice img 4 4)).

Lemma clone_generic p img pad : wf_img img ->
  clone_dyn p HTagH (tdesc_generic HTagH) img pad =
    Val (slice img 0 (le (slice img 4 4)) ++ slice pad 0 (len img - le (slice img 4 4)))%list.
Proof.
  intros [H8 Hl]. set (size := le (slice img 4 4)) in *.
  assert (Hs : size < pow2_32) by apply le_slice4_bound. unfold pow2_32 in Hs.
  assert (Hge : size <= len img) by (rewrite Hl; apply round8_ge).
  unfold clone_dyn. cbn [hsize]. rewrite payload_len_spec. cbn [stored_size hsize].
  rewrite slice_slice by lia. replace (0 + 4) with 4 by lia. fold size.
  destruct (N.ltb_spec size 8) as [X|_]; [lia|]. cbn [bind].
  unfold idx_range, assert. replace ((0 <=? size - 8) && (size - 8 <=? len img - 8)) with true by lia. cbn [bind].
  rewrite new_boxed_generic.
  - cbn [hsize List.concat content_len map sumN]. rewrite app_nil_r.
    rewrite len_slice. replace (N.min (size - 8) (len img - 8)) with (size - 8) by lia.
    replace (8 + (size - 8 + 0)) with size by lia.
    unfold set_size. rewrite slice_slice by lia. replace (0 + 0) with 0 by lia.
    assert (E4 : enc32 size = slice img 4 4).
    { unfold size, enc32. rewrite <- (enc_le (slice img 4 4)) at 2. f_equal.
      assert (len (slice img 4 4) = 4) by (rewrite len_slice; lia). unfold len in *. lia. }
    rewrite E4. change (slice img 4 4) with (slice img (0 + 4) 4).
    rewrite (slice_concat img 0 4 4). change (4 + 4) with 8. rewrite app_assoc.
    change (slice img 8 (size - 8)) with (slice img (0 + 8) (size - 8)).
    rewrite (slice_concat img 0 8 (size - 8)). replace (8 + (size - 8)) with size by lia.
    rewrite Hl. reflexivity.
  - cbn [hsize]. rewrite len_slice. lia.
  - cbn [hsize content_len map sumN]. rewrite len_slice. unfold pow2_32. lia.
Qed.

(* the clone is an equal tag: same declared size, same bytes up to that size *)
Lemma clone_generic_equal p img pad c : wf_img img -> len pad >= 8 ->
  clone_dyn p HTagH (tdesc_generic HTagH) img pad = Val c ->
  le (slice c 4 4) = le (slice img 4 4) /\
  slice c 0 (le (slice img 4 4)) = slice img 0 (le (slice img 4 4)) /\ len c = len img.
Proof.
  intros Hwf Hpad H. rewrite clone_generic in H by exact Hwf. injection H as <-.
  destruct Hwf as [H8 Hl]. set (size := le (slice img 4 4)) in *.
  assert (Hge : size <= len img) by (rewrite Hl; apply round8_ge).
  assert (Hls : len (slice img 0 size) = size) by (rewrite len_slice; lia).
  split; [|split].
  - rewrite slice_app_l_gen by lia. rewrite slice_slice by lia. reflexivity.
  - apply slice_app_l_exact. symmetry. exact Hls.
  - rewrite len_app, Hls, len_slice. pose proof (round8_lt size). lia.
Qed.

(* the same for every dynamically sized built-in kind whose size is acceptable to the kind *)
Lemma clone_kind p k img pad : is_dst k = true -> wf_img img ->
  kind_base k <= le (slice img 4 4) -> (le (slice img 4 4) - kind_base k) mod tail_esize k = 0 ->
  clone_dyn p HTagH (kind_tdesc k) img pad = clone_dyn p HTagH (tdesc_generic HTagH) img pad.
Proof.
  intros Hd [H8 Hl] Hb He. set (size := le (slice img 4 4)) in *.
  assert (Hs : size < pow2_32) by apply le_slice4_bound. unfold pow2_32 in Hs.
  assert (Hge : size <= len img) by (rewrite Hl; apply round8_ge).
  unfold clone_dyn. cbn [hsize]. rewrite payload_len_spec. cbn [stored_size hsize].
  rewrite slice_slice by lia. replace (0 + 4) with 4 by lia. fold size.
  destruct (N.ltb_spec size 8) as [X|_]; [lia|]. cbn [bind].
  unfold idx_range, assert. replace ((0 <=? size - 8) && (size - 8 <=? len img - 8)) with true by lia. cbn [bind].
  unfold new_boxed. cbn [hsize content_len map sumN].
  rewrite len_slice. replace (N.min (size - 8) (len img - 8)) with (size - 8) by lia.
  rewrite uadd_ok by (unfold pow2_64; lia). cbn [bind].
  replace (8 + (size - 8 + 0)) with size by lia.
  rewrite inc_align_spec by (unfold pow2_64; lia). cbn [bind].
  assert (Hhdr : tag_size_field (set_size HTagH (slice img 0 8) size) = size).
  { unfold tag_size_field, set_size. rewrite slice_app_r by (rewrite len_slice; lia).
    rewrite len_slice. replace (4 - N.min 4 (len (slice img 0 8) - 0)) with 0 by (rewrite len_slice; lia).
    rewrite slice_enc32_all. apply le_enc32. unfold pow2_32. lia. }
  cbn [kind_tdesc tdesc_generic t_dstlen t_sizeof].
  rewrite dstlen_closed by (rewrite Hhdr; unfold pow2_32; lia). rewrite Hd. cbv zeta. rewrite Hhdr.
  destruct (N.ltb_spec size (kind_base k)) as [X|_]; [lia|].
  destruct (N.eqb_spec ((size - kind_base k) mod tail_esize k) 0) as [_|X]; [|contradiction]. cbn [negb bind].
  rewrite payload_len_spec. cbn [hsize].
  assert (Hst : stored_size HTagH (set_size HTagH (slice img 0 8) size) = size) by exact Hhdr.
  rewrite Hst. destruct (N.ltb_spec size 8) as [X|_]; [lia|]. cbn [bind].
  rewrite sov_dst by exact Hd. pose proof (dst_esize_pos k Hd) as Hep.
  assert (Ex : (size - kind_base k) / tail_esize k * tail_esize k = size - kind_base k).
  { rewrite N.mul_comm. symmetry. apply N.div_exact; [lia|exact He]. }
  rewrite Ex. replace (kind_base k + (size - kind_base k)) with size by lia.
  replace (8 + (size - 8)) with size by lia. reflexivity.
Qed.
