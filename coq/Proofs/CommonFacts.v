(* Facts about the model of multiboot2-common. *)
Require Import Bytes Outcome Common BytesFacts ArithFacts.
From Coq Require Import Lia ZArith ZifyN ZifyBool ZifyNat.
Ltac Zify.zify_post_hook ::= Z.div_mod_to_equations.

Lemma stored_size_bound h hdr : stored_size h hdr < pow2_32.
Proof. destruct h; cbn [stored_size]; apply le_slice4_bound. Qed.

Lemma hsize_pos h : 8 <= hsize h <= 16.
Proof. destruct h; cbn; lia. Qed.

Lemma pow2_32_lt_64 : pow2_32 < pow2_64. Proof. reflexivity. Qed.

(* payload_len is profile independent: guarded subtraction *)
Lemma payload_len_spec p h hdr :
  payload_len p h hdr = if stored_size h hdr <? hsize h then Panic else Val (stored_size h hdr - hsize h).
Proof.
  unfold payload_len, assert.
  destruct (N.leb_spec (hsize h) (stored_size h hdr)) as [H|H];
    destruct (N.ltb_spec (stored_size h hdr) (hsize h)) as [H2|H2]; try lia; cbn [bind].
  - apply usub_ok. exact H.
  - reflexivity.
Qed.

Lemma total_size_spec p h hdr :
  total_size p h hdr =
    match h with
    | HBootH | HBasicH => Val (stored_size h hdr)
    | _ => if stored_size h hdr <? hsize h then Panic else Val (stored_size h hdr)
    end.
Proof.
  pose proof (stored_size_bound h hdr) as Hb. pose proof pow2_32_lt_64.
  destruct h; cbn [total_size]; try reflexivity;
    rewrite payload_len_spec;
    (match goal with |- context [?x <? ?y] => destruct (N.ltb_spec x y) as [H2|H2] end; cbn [bind]; [reflexivity|];
     rewrite uadd_ok by (cbn [hsize] in *; lia); f_equal; cbn [hsize] in *; lia).
Qed.

(* Closed form of ref_from_slice *)
Definition ref_from_slice_spec (h : hkind) (a : N) (bs : list byte) (off n : N) : res dref :=
  if n <? hsize h then Err EShorterThanHeader
  else if negb ((a + off) mod 8 =? 0) then Err EWrongAlignment
  else if negb (n mod 8 =? 0) then Err EMissingPadding
  else if len bs <? off + hsize h then Fault FOob
  else let d := stored_size h (slice bs off (hsize h)) in
       if d <? hsize h then Panic
       else if n <? d then Err EInvalidReportedTotalSize
       else Val {| d_off := off; d_plen := d - hsize h |}.

Lemma ref_from_slice_closed p h a bs off n :
  ref_from_slice p h {| m_base := a; m_bytes := bs |} off n = ref_from_slice_spec h a bs off n.
Proof.
  unfold ref_from_slice, ref_from_slice_spec, bytesref_check. cbn [m_base m_bytes].
  destruct (n <? hsize h) eqn:E1; [reflexivity|].
  destruct (negb ((a + off) mod 8 =? 0)) eqn:E2; [reflexivity|].
  destruct (negb (n mod 8 =? 0)) eqn:E3; [reflexivity|].
  cbn [bind]. unfold ref_from_bytes, mrd, rd. cbn [m_bytes].
  destruct (N.leb_spec (off + hsize h) (len bs)) as [H|H];
    destruct (N.ltb_spec (len bs) (off + hsize h)) as [H'|H']; try lia; cbn [bind]; [|reflexivity].
  rewrite total_size_spec, payload_len_spec.
  set (d := stored_size h (slice bs off (hsize h))).
  pose proof (hsize_pos h).
  destruct h; cbn [bind];
    (match goal with |- context [d <? ?y] => destruct (N.ltb_spec d y) as [H3|H3] end); cbn [bind]; try reflexivity;
    destruct (N.ltb_spec n d) as [H4|H4]; cbn [bind]; try reflexivity; cbn [hsize] in *; lia.
Qed.
