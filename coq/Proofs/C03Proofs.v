(* Proofs for C03: the tag iterator reproduces the specification's walk. *)
Require Import Bytes Outcome Layout Common TagType Mbi MbiTags WalkSpec BytesFacts ArithFacts CommonFacts IterFacts CastFacts C02Proofs.
From Coq Require Import Lia ZArith ZifyN ZifyBool ZifyNat.
Ltac Zify.zify_post_hook ::= Z.div_mod_to_equations.

(* what a successful load establishes *)
Lemma load_shape p a bs r :
  a mod 8 = 0 -> 8 <= len bs -> le (slice bs 0 4) <= len bs ->
  mbi_load p false {| m_base := a; m_bytes := bs |} = Val r ->
  let t := le (slice bs 0 4) in
  8 <= t /\ t mod 8 = 0 /\ r = {| d_off := 0; d_plen := t - 8 |}.
Proof.
  intros Ha H8 Ht H. rewrite c02_load_spec in H by assumption. unfold c02_closed in H. cbv zeta in *.
  set (t := le (slice bs 0 4)) in *.
  destruct (N.ltb_spec t 8) as [X|H1]; [discriminate|].
  destruct (N.eqb_spec (t mod 8) 0) as [H2|X]; cbn [negb] in H; [|discriminate].
  destruct ((le (slice bs (t - 8) 4) =? 0) && (le (slice bs (t - 4) 4) =? 8)); [|discriminate].
  injection H as <-. repeat split; assumption.
Qed.

Lemma load_iter_ok p a bs r :
  a mod 8 = 0 -> 8 <= len bs -> le (slice bs 0 4) <= len bs ->
  mbi_load p false {| m_base := a; m_bytes := bs |} = Val r ->
  iter_ok HTagH {| m_base := a; m_bytes := bs |} (tags_b r) (tags_len r) /\
  tags_b r = 8 /\ tags_b r + tags_len r = le (slice bs 0 4).
Proof.
  intros Ha H8 Ht H. destruct (load_shape _ _ _ _ Ha H8 Ht H) as (A & B & ->).
  unfold tags_b, tags_len. cbn [d_off d_plen].
  pose proof (le_slice4_bound bs 0) as Hb. unfold pow2_32 in *.
  split; [|split; lia].
  constructor; cbn [m_base m_bytes]; try reflexivity; try lia. unfold pow2_32. lia.
Qed.

Lemma c03_walk p a bs r :
  a mod 8 = 0 -> 8 <= len bs -> le (slice bs 0 4) <= len bs ->
  let m := {| m_base := a; m_bytes := bs |} in
  mbi_load p false m = Val r ->
  exists l ok,
    tagiter_run (iter_fuel (tags_len r)) p HTagH m (tags_b r) (tags_len r) 0 = (map dref_of l, status ok) /\
    walk bs (le (slice bs 0 4)) 8 l ok /\
    (forall l' ok', walk bs (le (slice bs 0 4)) 8 l' ok' -> l' = l /\ ok' = ok) /\
    8 * len l <= le (slice bs 0 4) - 8.
Proof.
  intros Ha H8 Ht m H. destruct (load_iter_ok _ _ _ _ Ha H8 Ht H) as (Hok & Eb & Et).
  destruct (run_walk p HTagH m (tags_b r) (tags_len r) Hok (iter_fuel (tags_len r)) 0) as (l & ok & Hrun & Hw).
  - reflexivity.
  - lia.
  - unfold iter_fuel. rewrite N.sub_0_r. lia.
  - exists l, ok. rewrite Et, Eb, N.add_0_r in Hw. cbn [m m_bytes] in Hw.
    split; [exact Hrun|]. split; [exact Hw|]. split.
    + intros l' ok' W'. destruct (walk_fun _ _ _ _ _ W' _ _ Hw) as [-> ->]. split; reflexivity.
    + apply walk_length in Hw; [exact Hw|]. destruct (load_shape _ _ _ _ Ha H8 Ht H) as (A & _). exact A.
Qed.

(* each item: same address as in the region, stored type/size, exactly size-8 payload bytes *)
Lemma c03_items bs total l ok :
  walk bs total 8 l ok ->
  Forall (fun it => 8 <= i_off it /\ i_off it mod 8 = 0 /\ 8 <= i_size it /\
                    i_off it + round8 (i_size it) <= total /\ i_size it = size_at bs (i_off it) /\
                    d_off (dref_of it) = i_off it /\ d_plen (dref_of it) = i_size it - 8 /\
                    dref_size_of_val HTagH (dref_of it) = round8 (i_size it)) l.
Proof.
  intros W. eapply Forall_impl; [|apply (walk_items_inside _ _ _ _ _ W); reflexivity].
  intros it (A & B & C & D & E). unfold dref_of, dref_size_of_val. cbn [d_off d_plen hsize].
  replace (8 + (i_size it - 8)) with (i_size it) by lia. repeat split; assumption.
Qed.

(* next() from any position reachable by the iterator: closed form; exhausted stays exhausted *)
Lemma c03_next p a bs r nxt :
  a mod 8 = 0 -> 8 <= len bs -> le (slice bs 0 4) <= len bs ->
  let m := {| m_base := a; m_bytes := bs |} in
  mbi_load p false m = Val r -> nxt mod 8 = 0 -> nxt <= tags_len r ->
  tagiter_next p HTagH m (tags_b r) (tags_len r) nxt = next_closed HTagH m (tags_b r) (tags_len r) nxt /\
  (forall x nxt', next_closed HTagH m (tags_b r) (tags_len r) nxt = Val (x, nxt') ->
                  nxt' mod 8 = 0 /\ nxt' <= tags_len r /\ (x <> None -> nxt + 8 <= nxt')).
Proof.
  intros Ha H8 Ht m H Hn Hle. destruct (load_iter_ok _ _ _ _ Ha H8 Ht H) as (Hok & _).
  split; [apply tagiter_next_closed; assumption|].
  intros x nxt' E. eapply next_closed_inv; try eassumption. exact (io_blen _ _ _ _ Hok).
Qed.

Lemma c03_exhausted p h m b blen : tagiter_next p h m b blen blen = Val (None, blen).
Proof. unfold tagiter_next. rewrite N.eqb_refl. reflexivity. Qed.

(* ---- module iterator ------------------------------------------------------ *)
Definition is_module (bs : list byte) (it : item) : bool := typ_at bs (i_off it) =? MODULE_TYP.
Definition module_ref (it : item) : tref := {| t_off := i_off it; t_meta := Some (i_size it - 16) |}.

(* the module tags of a walk, in order; a module tag smaller than its fixed part (16) is a panic *)
Fixpoint modules_spec (bs : list byte) (l : list item) (ok : bool) : list tref * res unit :=
  match l with
  | [] => ([], status ok)
  | it :: r =>
      if is_module bs it then
        if i_size it <? 16 then ([], Panic)
        else let (x, e) := modules_spec bs r ok in (module_ref it :: x, e)
      else modules_spec bs r ok
  end.

Lemma find_none_spec bs l ok : find (is_module bs) l = None -> modules_spec bs l ok = ([], status ok).
Proof.
  induction l as [|x l IH]; [reflexivity|]. cbn [find modules_spec]. destruct (is_module bs x); [discriminate|exact IH].
Qed.

Lemma find_some_spec bs l ok x : find (is_module bs) l = Some x ->
  exists pre post, l = pre ++ x :: post /\ is_module bs x = true /\
    modules_spec bs l ok = modules_spec bs (x :: post) ok.
Proof.
  induction l as [|y l IH]; [discriminate|]. cbn [find]. destruct (is_module bs y) eqn:E.
  - intros H. injection H as ->. exists [], l. repeat split; try assumption.
  - intros H. destruct (IH H) as (pre & post & -> & Hm & Hs). exists (y :: pre), post.
    repeat split; try assumption. cbn [app modules_spec]. rewrite E. exact Hs.
Qed.

Lemma walk_suffix bs total : forall pre off it post ok,
  walk bs total off (pre ++ it :: post) ok -> walk bs total (i_off it + round8 (i_size it)) post ok.
Proof.
  induction pre as [|x pre IH]; intros off it post ok W; apply walk_inv in W;
    destruct W as [(A & B & C)|[(A & B & C & D)|[(A & B & C & D & E)|(A & B & C & l' & D & W')]]];
    try discriminate.
  - cbn [app] in D. injection D as E1 E2. subst it post. cbn [i_off i_size]. exact W'.
  - cbn [app] in D. injection D as E1 E2. subst x l'. eapply IH. exact W'.
Qed.

Lemma walk_items_rel bs b total off l ok : walk bs total off l ok -> b <= off -> (off - b) mod 8 = 0 ->
  Forall (fun it => off <= i_off it /\ (i_off it - b) mod 8 = 0 /\ 8 <= i_size it /\
                    i_off it + round8 (i_size it) <= total /\ i_size it = size_at bs (i_off it)) l.
Proof.
  induction 1 as [|off Hne Hs|off Hne Hs Ho|off l ok Hne Hs Ho Hw IH]; intros Hb Ha; try constructor.
  - cbn [i_off i_size]. repeat split; try lia; assumption.
  - eapply Forall_impl; [|apply IH; unfold round8; lia].
    intros it (A & B & C & D & E). unfold round8 in *. repeat split; try lia; try exact E.
Qed.

Lemma cast_module p m it :
  i_off it + 8 <= len (m_bytes m) -> i_size it = size_at (m_bytes m) (i_off it) -> 8 <= i_size it ->
  cast_kind p KModule m (dref_of it) = if i_size it <? 16 then Panic else Val (module_ref it).
Proof.
  intros Hin Hs H8. rewrite cast_kind_closed; unfold dref_of; cbn [d_off d_plen]; try lia.
  rewrite <- Hs. unfold cast_closed. change (is_dst KModule) with true. cbv iota.
  change (kind_base KModule) with 16. change (tail_esize KModule) with 1.
  destruct (i_size it <? 16); [reflexivity|]. rewrite N.mod_1_r, N.div_1_r. reflexivity.
Qed.

Lemma modules_walk p m b blen : iter_ok HTagH m b blen ->
  forall fuel l ok nxt, nxt mod 8 = 0 -> nxt <= blen -> (length l < fuel)%nat ->
  walk (m_bytes m) (b + blen) (b + nxt) l ok ->
  modules_run fuel p m b blen nxt = modules_spec (m_bytes m) l ok.
Proof.
  intros Hok. induction fuel as [|fuel IH]; intros l ok nxt Hn Hle Hf W; [lia|].
  cbn [modules_run].
  rewrite (find_walk p HTagH m b blen MODULE_TYP Hok (iter_fuel blen) nxt l ok Hn Hle);
    [|unfold iter_fuel; lia|exact W].
  unfold find_closed. fold (is_module (m_bytes m)).
  destruct (find (is_module (m_bytes m)) l) as [it|] eqn:Ef.
  - destruct (find_some_spec _ _ ok _ Ef) as (pre & post & -> & Hm & Hspec). rewrite Hspec.
    pose proof (walk_suffix _ _ _ _ _ _ _ W) as Ws.
    pose proof (walk_items_rel _ b _ _ _ _ W ltac:(lia) ltac:(lia)) as Hin.
    rewrite Forall_forall in Hin. specialize (Hin it ltac:(apply in_or_app; right; left; reflexivity)).
    destruct Hin as (A & B & C & D & E).
    pose proof (io_in _ _ _ _ Hok) as Hmem.
    rewrite cast_module by (unfold round8 in *; lia || assumption).
    cbn [modules_spec]. rewrite Hm.
    destruct (i_size it <? 16); [reflexivity|].
    set (n' := i_off it + round8 (i_size it) - b).
    assert (En : b + n' = i_off it + round8 (i_size it)) by (unfold n'; lia).
    rewrite (IH post ok n').
    + reflexivity.
    + unfold n', round8 in *. lia.
    + lia.
    + rewrite app_length in Hf. cbn [length] in Hf. lia.
    + rewrite En. exact Ws.
  - rewrite (find_none_spec _ _ _ Ef). destruct ok; reflexivity.
Qed.

Lemma c03_modules p a bs r :
  a mod 8 = 0 -> 8 <= len bs -> le (slice bs 0 4) <= len bs ->
  let m := {| m_base := a; m_bytes := bs |} in
  mbi_load p false m = Val r ->
  forall l ok, walk bs (le (slice bs 0 4)) 8 l ok ->
  modules_run (iter_fuel (tags_len r)) p m (tags_b r) (tags_len r) 0 = modules_spec bs l ok.
Proof.
  intros Ha H8 Ht m H l ok W. destruct (load_iter_ok _ _ _ _ Ha H8 Ht H) as (Hok & Eb & Et).
  apply (modules_walk p m _ _ Hok); try reflexivity; try lia.
  - pose proof (walk_length _ _ _ _ _ W) as Hl. destruct (load_shape _ _ _ _ Ha H8 Ht H) as (A & _).
    specialize (Hl A). unfold iter_fuel, len in *. rewrite <- Et in Hl. rewrite Eb in Hl. lia.
  - rewrite Et, Eb, N.add_0_r. exact W.
Qed.

(* when every module tag of the walk has at least its fixed part, the iterator
   yields exactly the module tags of the walk, in order *)
Lemma modules_spec_filter bs l ok :
  forallb (fun it => negb (is_module bs it) || (16 <=? i_size it)) l = true ->
  modules_spec bs l ok = (map module_ref (filter (is_module bs) l), status ok).
Proof.
  induction l as [|it l IH]; [reflexivity|]. cbn [forallb modules_spec filter].
  intros H. apply andb_prop in H. destruct H as [H1 H2].
  destruct (is_module bs it) eqn:E.
  - cbn [negb orb] in H1. destruct (N.ltb_spec (i_size it) 16); [lia|]. rewrite (IH H2). reflexivity.
  - exact (IH H2).
Qed.

Definition c03_example_bytes : list byte :=
  [x20;x00;x00;x00;x00;x00;x00;x00;
   x03;x00;x00;x00;x0d;x00;x00;x00;xaa;xbb;xcc;xdd;xee;x00;x00;x00;
   x00;x00;x00;x00;x08;x00;x00;x00].
Example c03_example :
  walk c03_example_bytes 32 8 [{| i_off := 8; i_size := 13 |}; {| i_off := 24; i_size := 8 |}] true.
Proof.
  change 13 with (size_at c03_example_bytes 8). change 8 with (size_at c03_example_bytes 24) at 3.
  apply W_step; [discriminate|vm_compute; discriminate|vm_compute; discriminate|].
  change (8 + round8 (size_at c03_example_bytes 8)) with 24.
  apply W_step; [discriminate|vm_compute; discriminate|vm_compute; discriminate|].
  change (24 + round8 (size_at c03_example_bytes 24)) with 32. constructor.
Qed.

(* ---- provided Iterator methods: nth(k) is the k-th item of the run; when the run ends in a panic, nth(k) beyond the
   items produced before it is that panic ---- *)
Lemma tagiter_nth_run fuel p h m b blen : forall nxt items e k,
  tagiter_run fuel p h m b blen nxt = (items, e) -> e <> Fault FFuel ->
  rmap fst (tagiter_nth p h m b blen nxt k) =
    match nth_error items k with
    | Some r => Val (Some r)
    | None => rmap (fun _ => None) e
    end.
Proof.
  induction fuel as [|f IH]; intros nxt items e k H Hf; cbn [tagiter_run] in H.
  - injection H as <- <-. contradiction.
  - destruct k as [|k']; cbn [tagiter_nth];
      destruct (tagiter_next p h m b blen nxt) as [[[r|] nxt']|er| |fl].
    + destruct (tagiter_run f p h m b blen nxt') as [l e']. injection H as <- <-. reflexivity.
    + injection H as <- <-. reflexivity.
    + injection H as <- <-. reflexivity.
    + injection H as <- <-. reflexivity.
    + injection H as <- <-. reflexivity.
    + destruct (tagiter_run f p h m b blen nxt') as [l e'] eqn:E. injection H as <- <-. cbn [nth_error].
      apply (IH nxt' l e' k' E Hf).
    + injection H as <- <-. reflexivity.
    + injection H as <- <-. reflexivity.
    + injection H as <- <-. reflexivity.
    + injection H as <- <-. reflexivity.
Qed.

(* the provided nth(k) on an iterator in any state: k+1 steps, each of them safe *)
Lemma tagiter_nth_step_safe p h m b blen :
  iter_ok h m b blen -> forall k nxt, nxt mod 8 = 0 ->
  is_fault (fst (tagiter_nth_step p h m b blen nxt k)) = false /\ snd (tagiter_nth_step p h m b blen nxt k) mod 8 = 0.
Proof.
  intros Hok k; induction k as [|k IH]; intros nxt Hn; cbn [tagiter_nth_step];
    destruct (tagiter_step p h m b blen nxt) as [x n'] eqn:E;
    pose proof (tagiter_step_safe p h m b blen nxt Hok Hn) as [S1 S2]; rewrite E in S1, S2; cbn [fst snd] in S1, S2.
  - destruct x as [[t|]| | |]; cbn [fst snd]; auto.
  - destruct x as [[t|]| | |]; cbn [fst snd]; auto.
Qed.

(* on a live iterator whose steps all succeed, nth_step agrees with the pure nth *)
Lemma tagiter_nth_step_val p h m b blen : forall k nxt o n',
  tagiter_nth p h m b blen nxt k = Val (o, n') -> tagiter_nth_step p h m b blen nxt k = (Val o, n').
Proof.
  induction k as [|k IH]; intros nxt o n' H; cbn [tagiter_nth tagiter_nth_step] in *; unfold tagiter_step;
    destruct (tagiter_next p h m b blen nxt) as [[[t|] n1]|e| |f] eqn:E; try discriminate.
  - injection H as <- <-. reflexivity.
  - injection H as <- <-. reflexivity.
  - apply IH. exact H.
  - injection H as <- <-. reflexivity.
Qed.
