(* Proofs for C20: conversions are lossless and consistent for every value. *)
Require Import Bytes Outcome Render TagType RunCommon TypesSpec.
From Coq Require Import Lia ZArith ZifyN ZifyBool String.
Open Scope N_scope.

(* case analysis of an N down to its five low bits: every literal pattern of
   the conversion tables is decided after that *)
Ltac bits5 x :=
  destruct x as [|x]; [|
  destruct x as [x|x|]; [| |];
  try (destruct x as [x|x|]; [| |]);
  try (destruct x as [x|x|]; [| |]);
  try (destruct x as [x|x|]; [| |]);
  try (destruct x as [x|x|]; [| |])].

Lemma roundtrip_tt x : u32_of_tagtype (tagtype_of_u32 x) = x.
Proof. bits5 x; reflexivity. Qed.

Lemma roundtrip_id x : u32_of_id (id_of_u32 x) = x.
Proof. reflexivity. Qed.

Lemma roundtrip_tt_id x : u32_of_id (id_of_tagtype (tagtype_of_u32 x)) = x.
Proof. unfold id_of_tagtype, id_of_u32, u32_of_id. apply roundtrip_tt. Qed.

Lemma named_tt x : x <= 21 -> sTagType (tagtype_of_u32 x) = nth (N.to_nat x) spec_tag_names ""%string.
Proof. intros H. bits5 x; try reflexivity; exfalso; lia. Qed.

Lemma custom_tt x : 22 <= x -> tagtype_of_u32 x = Custom x.
Proof. intros H. bits5 x; try reflexivity; exfalso; lia. Qed.

Lemma named_distinct : NoDup spec_tag_names.
Proof. repeat constructor; cbn; intuition discriminate. Qed.

Lemma commute_from x : tagtype_of_id (id_of_u32 x) = tagtype_of_u32 x.
Proof. reflexivity. Qed.
Lemma commute_to x : id_of_tagtype (tagtype_of_u32 x) = id_of_u32 x.
Proof. unfold id_of_tagtype. rewrite roundtrip_tt. reflexivity. Qed.

Lemma eq_all x y :
  eq_type_id (tagtype_of_u32 x) (id_of_u32 y) = (x =? y) /\
  eq_id_type (id_of_u32 x) (tagtype_of_u32 y) = (x =? y) /\
  eq_id_u32 (id_of_u32 x) y = (x =? y) /\
  eq_u32_id x (id_of_u32 y) = (x =? y) /\
  eq_type_u32 (tagtype_of_u32 x) y = (x =? y) /\
  eq_u32_type x (tagtype_of_u32 y) = (x =? y).
Proof.
  unfold eq_id_type, eq_u32_id, eq_u32_type, eq_type_id, eq_id_u32, eq_type_u32, u32_of_id, id_of_u32.
  rewrite !roundtrip_tt. repeat split; try reflexivity; apply N.eqb_sym.
Qed.

(* TagType::val(), TagTypeId::new(), and the derived (structural) PartialEq of TagType on converted values *)
Lemma val_roundtrip x : tagtype_val (tagtype_of_u32 x) = x /\ u32_of_id (id_new x) = x.
Proof. split; [apply roundtrip_tt|reflexivity]. Qed.

Definition canonical (t : tagtype) : Prop := match t with Custom c => 22 <= c | _ => True end.
Lemma canonical_of_u32 x : canonical (tagtype_of_u32 x).
Proof.
  destruct (N.leb_spec x 21) as [H|H].
  - bits5 x; try exact I; exfalso; lia.
  - rewrite custom_tt by lia. cbn. lia.
Qed.
Lemma tagtype_eqb_canonical a b : canonical a -> canonical b -> tagtype_eqb a b = (u32_of_tagtype a =? u32_of_tagtype b).
Proof.
  intros Ha Hb. destruct a, b; cbn in Ha, Hb |- *; try reflexivity;
    symmetry; apply N.eqb_neq; lia.
Qed.
Lemma derived_eq x y : tagtype_eqb (tagtype_of_u32 x) (tagtype_of_u32 y) = (x =? y).
Proof. rewrite tagtype_eqb_canonical by apply canonical_of_u32. rewrite !roundtrip_tt. reflexivity. Qed.

(* symbolic types: equality with an id agrees with numeric equality of the numbers *)
Lemma eq_sym_types t i : eq_type_id t i = (u32_of_tagtype t =? u32_of_id i) /\ eq_id_type i t = (u32_of_id i =? u32_of_tagtype t).
Proof. unfold eq_id_type, eq_type_id. split; [reflexivity|apply N.eqb_sym]. Qed.

Lemma eq_any t i v :
  eq_type_id t i = (u32_of_tagtype t =? u32_of_id i) /\ eq_id_type i t = (u32_of_id i =? u32_of_tagtype t) /\
  eq_type_u32 t v = (u32_of_tagtype t =? v) /\ eq_u32_type v t = (u32_of_tagtype t =? v).
Proof.
  destruct (eq_sym_types t i) as [A B]. split; [exact A|]. split; [exact B|]. split; reflexivity.
Qed.

(* ---- memory area types ---- *)
Ltac bits3 x :=
  destruct x as [|x]; [|
  destruct x as [x|x|]; [| |];
  try (destruct x as [x|x|]; [| |]);
  try (destruct x as [x|x|]; [| |])].

Lemma area_roundtrip x : id_of_areatype (areatype_of_id x) = x.
Proof. bits3 x; reflexivity. Qed.

Lemma area_named x : 1 <= x <= 5 ->
  In (x, sAreaType (areatype_of_id x)) spec_area_names.
Proof. intros H. bits3 x; cbn; try (exfalso; lia); intuition. Qed.

Lemma area_custom x : x = 0 \/ 6 <= x -> areatype_of_id x = ACustom x.
Proof. intros H. bits3 x; try reflexivity; exfalso; lia. Qed.

Lemma area_eq x y :
  eq_areaid_type x (areatype_of_id y) = (x =? y) /\ eq_areatype_id (areatype_of_id x) y = (x =? y).
Proof.
  unfold eq_areaid_type, eq_areatype_id. rewrite !area_roundtrip. split; [reflexivity|apply N.eqb_sym].
Qed.

(* ---- ELF section type classification ---- *)
Ltac bits4 x :=
  destruct x as [|x]; [|
  destruct x as [x|x|]; [| |];
  try (destruct x as [x|x|]; [| |]);
  try (destruct x as [x|x|]; [| |]);
  try (destruct x as [x|x|]; [| |])].

Lemma elf_class raw : sElfType (elf_section_type raw) = spec_elf_class raw.
Proof.
  unfold spec_elf_class.
  destruct (N.leb_spec raw 11) as [H|H].
  - bits4 raw; try reflexivity; exfalso; lia.
  - assert (E : elf_section_type raw =
                if (1610612736 <=? raw) && (raw <=? 1879048191) then EEnvironmentSpecific
                else if (1879048192 <=? raw) && (raw <=? 2147483647) then EProcessorSpecific else EUnused).
    { bits4 raw; try reflexivity; exfalso; lia. }
    rewrite E.
    destruct ((1610612736 <=? raw) && (raw <=? 1879048191)); [reflexivity|].
    destruct ((1879048192 <=? raw) && (raw <=? 2147483647)); reflexivity.
Qed.

(* ---- framebuffer type bytes ---- *)
Lemma fb_known b : b <= 2 -> exists t, fb_try_from b = Val t /\ sFbId t = nth (N.to_nat b) spec_fb_names ""%string.
Proof.
  intros H. bits3 b; try (exfalso; lia); eexists; split; reflexivity.
Qed.
Lemma fb_unknown b : 3 <= b -> fb_try_from b = Err (EUnknownFb b).
Proof. intros H. bits3 b; try reflexivity; exfalso; lia. Qed.

Lemma magics : MBI_MAGIC = SPEC_MBI_MAGIC /\ HDR_MAGIC = SPEC_HDR_MAGIC.
Proof. split; reflexivity. Qed.
