(* Proofs for C15: casting to any tag type never yields a view larger than the tag. *)
Require Import Bytes Outcome Layout Common UserTypes BytesFacts ArithFacts CommonFacts CastFacts.
From Coq Require Import Lia ZArith ZifyN ZifyBool ZifyNat String.
Ltac Zify.zify_post_hook ::= Z.div_mod_to_equations.
Open Scope N_scope.

(* for ANY type descriptor (whatever BASE_SIZE, dst_len and layout it declares): a successful cast
   is a reference at the same address whose in-memory size is the tag's size rounded up to 8 *)
Lemma cast_sound p h T m r t : cast p h T m r = Val t ->
  t_off t = d_off r /\ t_sizeof T (t_meta t) = dref_size_of_val h r /\ hsize h <= t_base T.
Proof.
  unfold cast, assert.
  destruct (N.leb_spec (hsize h) (t_base T)) as [Hb|]; [|discriminate]. cbn [bind].
  destruct (mrd m (d_off r) (hsize h)) as [hdr| | |]; try discriminate. cbn [bind].
  destruct (t_dstlen T p hdr) as [n| | |]; try discriminate. cbn [bind].
  destruct (N.eqb_spec (dref_size_of_val h r) (t_sizeof T n)) as [E|]; [|discriminate]. cbn [bind].
  intros H. injection H as <-. cbn [t_off t_meta]. repeat split; [symmetry; exact E|exact Hb].
Qed.

(* a cast never faults unless the type's own dst_len does: the only read is the tag's header *)
Lemma cast_outcome p h T m r :
  d_off r + hsize h <= len (m_bytes m) ->
  (forall hdr, is_fault (t_dstlen T p hdr) = false) ->
  is_fault (cast p h T m r) = false.
Proof.
  intros Hin Hd. unfold cast, assert.
  destruct (hsize h <=? t_base T); [|reflexivity]. cbn [bind].
  unfold mrd, rd. destruct (N.leb_spec (d_off r + hsize h) (len (m_bytes m))); [|lia]. cbn [bind].
  specialize (Hd (slice (m_bytes m) (d_off r) (hsize h))).
  destruct (t_dstlen T p _) as [n| | |]; try reflexivity; try discriminate. cbn [bind].
  destruct (dref_size_of_val h r =? t_sizeof T n); reflexivity.
Qed.

Lemma user_dstlen_nofault d p hdr : is_fault (t_dstlen (user_tdesc d) p hdr) = false.
Proof.
  cbn [user_tdesc t_dstlen]. destruct (sd_tail d) as [[es ea]|]; [|reflexivity]. cbv zeta. unfold assert.
  destruct (N.leb_spec (sd_tail_off d) (le (slice hdr 4 4))); cbn [bind]; [|reflexivity].
  rewrite usub_ok by assumption. cbn [bind].
  destruct (_ mod es =? 0); reflexivity.
Qed.

(* the view of a user-defined DST: its tail ends inside the tag's rounded extent *)
Lemma user_cast_extent p d m r t es ea :
  sd_tail d = Some (es, ea) -> 1 <= sd_align d ->
  cast p HTagH (user_tdesc d) m r = Val t ->
  exists n, t_meta t = Some n /\ t_off t = d_off r /\
            sd_tail_off d + n * es <= dref_size_of_val HTagH r /\
            sd_size_of_val d (Some n) = dref_size_of_val HTagH r.
Proof.
  intros Ht Ha H. pose proof (cast_sound _ _ _ _ _ _ H) as (E1 & E2 & _).
  unfold cast in H. cbn [user_tdesc t_base t_dstlen t_sizeof] in H. rewrite Ht in H.
  unfold assert in H.
  destruct (hsize HTagH <=? sd_tail_off d); [|discriminate]. cbn [bind] in H.
  destruct (mrd m (d_off r) (hsize HTagH)) as [hdr| | |]; try discriminate. cbn [bind] in H. cbv zeta in H.
  destruct (sd_tail_off d <=? le (slice hdr 4 4)); [|discriminate]. cbn [bind] in H.
  destruct (usub p (le (slice hdr 4 4)) (sd_tail_off d)) as [n0| | |]; try discriminate. cbn [bind] in H.
  destruct (n0 mod es =? 0); [|discriminate]. cbn [bind] in H.
  destruct (dref_size_of_val HTagH r =? sd_size_of_val d (Some (n0 / es))); [|discriminate]. cbn [bind] in H.
  injection H as <-. cbn [t_meta t_off] in *. exists (n0 / es). repeat split; try assumption.
  cbn [user_tdesc t_sizeof] in E2. rewrite <- E2. unfold sd_size_of_val. rewrite Ht. unfold align_up.
  set (x := sd_tail_off d + n0 / es * es). set (a := sd_align d) in *. nia.
Qed.
