(* Proofs for C19: ELF section iteration. *)
Require Import Bytes Outcome Layout Common TagType Mbi MbiTags Strings MbiAccess BytesFacts ArithFacts CastFacts StringFacts.
From Coq Require Import Lia ZArith ZifyN ZifyBool ZifyNat String.
Ltac Zify.zify_post_hook ::= Z.div_mod_to_equations.
Open Scope N_scope.

(* an ELF sections tag reference with L section bytes behind the 20-byte fixed part, inside memory *)
Record elf_tag_ok (m : mem) (t : tref) (L : N) : Prop := {
  lo_meta : t_meta t = Some L;
  lo_in : t_off t + 20 + L <= len (m_bytes m)
}.

Definition elf_n (m : mem) (t : tref) : N := fld KElfSections m t "number_of_sections".
Definition elf_es (m : mem) (t : tref) : N := fld KElfSections m t "entry_size".
Definition elf_sh (m : mem) (t : tref) : N := fld KElfSections m t "shndx".

Lemma elf_tail_off t : tail_off KElfSections t = t_off t + 20.
Proof. reflexivity. Qed.

Definition elf_fits (m : mem) (t : tref) (L : N) : bool :=
  (elf_n m t * elf_es m t <=? L) && ((elf_n m t =? 0) || (elf_sh m t <? elf_n m t)).

Lemma elf_sections_closed p m t L : elf_tag_ok m t L ->
  elf_sections p m t =
    if elf_fits m t L
    then Val {| el_cur := t_off t + 20; el_rem := elf_n m t; el_es := elf_es m t;
                el_str := t_off t + 20 + (if elf_n m t =? 0 then 0 else elf_sh m t * elf_es m t) |}
    else Panic.
Proof.
  intros [Hm Hin]. unfold elf_sections, elf_fits. fold (elf_n m t) (elf_es m t) (elf_sh m t).
  rewrite elf_tail_off. unfold tail_count. rewrite Hm. unfold assert.
  destruct (elf_n m t * elf_es m t <=? L); cbn [andb bind]; [|reflexivity].
  destruct ((elf_n m t =? 0) || (elf_sh m t <? elf_n m t)); cbn [bind]; reflexivity.
Qed.

(* invariant of an iterator produced by sections(): the remaining entries and the string-table
   entry lie inside the section bytes of the tag *)
Record elf_inv (m : mem) (tag_off L : N) (it : elf_iter) : Prop := {
  li_in : tag_off + 20 + L <= len (m_bytes m);
  li_cur : tag_off + 20 <= el_cur it;
  li_rem : el_cur it + el_rem it * el_es it <= tag_off + 20 + L;
  li_str : el_rem it = 0 \/ (tag_off + 20 <= el_str it /\ el_str it + el_es it <= tag_off + 20 + L)
}.

Lemma elf_sections_inv p m t L it : elf_tag_ok m t L -> elf_sections p m t = Val it -> elf_inv m (t_off t) L it.
Proof.
  intros Hok H. rewrite (elf_sections_closed p m t L Hok) in H. unfold elf_fits in H.
  destruct Hok as [Hm Hin].
  destruct (N.leb_spec (elf_n m t * elf_es m t) L) as [H1|]; [|discriminate].
  destruct (N.eqb_spec (elf_n m t) 0) as [H0|H0]; cbn [andb orb] in H.
  - injection H as <-. constructor; cbn [el_cur el_rem el_es el_str]; try lia; left; exact H0.
  - destruct (N.ltb_spec (elf_sh m t) (elf_n m t)) as [H2|]; [|discriminate].
    injection H as <-. constructor; cbn [el_cur el_rem el_es el_str]; try lia; right; nia.
Qed.

(* a section handed out by the iterator: its entry and the string-table entry lie inside the tag
   whenever the entry size is one of the two the accessors accept *)
Definition section_ok (m : mem) (tag_off L : N) (s : elf_section) : Prop :=
  tag_off + 20 <= es_inner s /\ es_inner s + es_es s <= tag_off + 20 + L /\
  tag_off + 20 <= es_str s /\ es_str s + es_es s <= tag_off + 20 + L /\
  tag_off + 20 + L <= len (m_bytes m).

Lemma elf_get_ok m tag_off L s : section_ok m tag_off L s ->
  elf_get m s = if es_es s =? 40 then Val (slice (m_bytes m) (es_inner s) 40)
                else if es_es s =? 64 then Val (slice (m_bytes m) (es_inner s) 64) else Panic.
Proof.
  intros (A & B & C & D & E). unfold elf_get, mrd, rd.
  destruct (N.eqb_spec (es_es s) 40) as [E40|_].
  - destruct (N.leb_spec (es_inner s + 40) (len (m_bytes m))); [reflexivity|lia].
  - destruct (N.eqb_spec (es_es s) 64) as [E64|_]; [|reflexivity].
    destruct (N.leb_spec (es_inner s + 64) (len (m_bytes m))); [reflexivity|lia].
Qed.

Lemma elf_field_nofault m tag_off L s o32 w32 o64 w64 : section_ok m tag_off L s ->
  is_fault (elf_field m s o32 w32 o64 w64) = false.
Proof.
  intros Hs. unfold elf_field. rewrite (elf_get_ok m tag_off L s Hs).
  destruct (es_es s =? 40); [reflexivity|]. destruct (es_es s =? 64); reflexivity.
Qed.

(* the string-table entry, read as a section of the same entry size *)
Lemma strsec_ok m tag_off L s : section_ok m tag_off L s ->
  section_ok m tag_off L {| es_inner := es_str s; es_str := es_str s; es_es := es_es s |}.
Proof. intros (A & B & C & D & E). unfold section_ok. cbn [es_inner es_str es_es]. repeat split; assumption. Qed.

Lemma elf_accessors_nofault p m tag_off L s : section_ok m tag_off L s ->
  is_fault (elf_typ m s) = false /\ is_fault (elf_flags m s) = false /\ is_fault (elf_addr m s) = false /\
  is_fault (elf_size m s) = false /\ is_fault (elf_addralign m s) = false /\ is_fault (elf_end_address m s) = false /\
  is_fault (elf_section_type_of m s) = false /\ is_fault (elf_name_addr p m s) = false.
Proof.
  intros Hs. pose proof (elf_get_ok m tag_off L s Hs) as G.
  pose proof (elf_get_ok m tag_off L _ (strsec_ok m tag_off L s Hs)) as G2. cbn [es_inner es_es] in G2.
  unfold elf_typ, elf_flags, elf_flags_raw, elf_addr, elf_size, elf_addralign, elf_end_address, elf_section_type_of,
         elf_name_addr, elf_string_table, elf_name_index, elf_addr, elf_typ, elf_size, elf_field.
  cbn [es_inner es_es]. rewrite G, G2.
  destruct (es_es s =? 40); [repeat split; reflexivity|].
  destruct (es_es s =? 64); repeat split; reflexivity.
Qed.

Lemma elf_steps_good it : el_es it = 40 \/ el_es it = 64 -> elf_steps it = el_rem it.
Proof. intros [E|E]; unfold elf_steps; rewrite E; reflexivity. Qed.

(* next(): closed form by recursion on the remaining count; never a fault; preserves the invariant;
   the section it hands out is section_ok *)
Lemma elf_next_inv p m tag_off L : forall fuel it, elf_inv m tag_off L it -> (N.to_nat (elf_steps it) < fuel)%nat ->
  match elf_next fuel p m it with
  | Val (Some s, it') => section_ok m tag_off L s /\ elf_inv m tag_off L it' /\ el_rem it' < el_rem it /\
                         (es_es s = 40 \/ es_es s = 64) /\ es_es s = el_es it /\
                         exists k, k < el_rem it /\ es_inner s = el_cur it + k * el_es it /\ el_rem it' = el_rem it - k - 1
  | Val (None, it') => el_rem it' = 0 /\ elf_inv m tag_off L it'
  | Panic => True
  | _ => False
  end.
Proof.
  induction fuel as [|fuel IH]; intros it Hinv Hf; [lia|].
  cbn [elf_next]. destruct (N.eqb_spec (el_rem it) 0) as [E0|E0].
  - split; assumption.
  - destruct Hinv as [Hin Hcur Hrem Hstr]. destruct Hstr as [X|[Hs1 Hs2]]; [contradiction|].
    set (s := {| es_inner := el_cur it; es_str := el_str it; es_es := el_es it |}).
    set (it' := {| el_cur := el_cur it + el_es it; el_rem := el_rem it - 1; el_es := el_es it; el_str := el_str it |}).
    assert (Hsok : section_ok m tag_off L s).
    { unfold section_ok, s. cbn [es_inner es_str es_es]. repeat split; try lia. nia. }
    assert (Hinv' : elf_inv m tag_off L it').
    { constructor; unfold it'; cbn [el_cur el_rem el_es el_str].
      - lia.
      - lia.
      - nia.
      - right. split; lia. }
    unfold elf_section_type_of, elf_typ, elf_field. rewrite (elf_get_ok m tag_off L s Hsok).
    unfold s at 1 2 3. cbn [es_es].
    destruct (N.eqb_spec (el_es it) 40) as [E40|N40]; [|destruct (N.eqb_spec (el_es it) 64) as [E64|N64]]; cbn [bind]; [| |exact I].
    + rewrite (elf_steps_good it (or_introl E40)) in Hf. destruct (is_unused _).
      * specialize (IH it' Hinv' ltac:(rewrite (elf_steps_good it' (or_introl E40)); unfold it'; cbn [el_rem]; lia)).
        destruct (elf_next fuel p m it') as [[[s2|] it2]| | |]; try exact IH.
        -- destruct IH as (A & B & C & D & E & k & K1 & K2 & K3). unfold it' in *. cbn [el_cur el_rem el_es] in *.
           split; [exact A|]. split; [exact B|]. split; [lia|]. split; [exact D|]. split; [exact E|].
           exists (k + 1). split; [lia|]. split; [rewrite K2; nia|lia].
      * split; [exact Hsok|]. split; [exact Hinv'|]. unfold it', s; cbn [el_rem es_es es_inner].
        split; [lia|]. split; [lia|]. split; [reflexivity|]. exists 0. split; [lia|]. split; lia.
    + rewrite (elf_steps_good it (or_intror E64)) in Hf. destruct (is_unused _).
      * specialize (IH it' Hinv' ltac:(rewrite (elf_steps_good it' (or_intror E64)); unfold it'; cbn [el_rem]; lia)).
        destruct (elf_next fuel p m it') as [[[s2|] it2]| | |]; try exact IH.
        -- destruct IH as (A & B & C & D & E & k & K1 & K2 & K3). unfold it' in *. cbn [el_cur el_rem el_es] in *.
           split; [exact A|]. split; [exact B|]. split; [lia|]. split; [exact D|]. split; [exact E|].
           exists (k + 1). split; [lia|]. split; [rewrite K2; nia|lia].
      * split; [exact Hsok|]. split; [exact Hinv'|]. unfold it', s; cbn [el_rem es_es es_inner].
        split; [lia|]. split; [lia|]. split; [reflexivity|]. exists 0. split; [lia|]. split; lia.
Qed.

(* ---- functional characterisation: the yielded sections are the in-use entries, in order ---- *)
Fixpoint entries_from (cur es str : N) (n : nat) : list elf_section :=
  match n with
  | O => []
  | S n' => {| es_inner := cur; es_str := str; es_es := es |} :: entries_from (cur + es) es str n'
  end.
Definition raw_type (m : mem) (s : elf_section) : N := le (slice (m_bytes m) (es_inner s + 4) 4).
Definition in_use (m : mem) (s : elf_section) : bool := negb (is_unused (elf_section_type (raw_type m s))).

Lemma section_type_closed m tag_off L s : section_ok m tag_off L s -> es_es s = 40 \/ es_es s = 64 ->
  elf_section_type_of m s = Val (elf_section_type (raw_type m s)).
Proof.
  intros Hs Hes. unfold elf_section_type_of, elf_typ, elf_field, raw_type. rewrite (elf_get_ok m tag_off L s Hs).
  destruct Hes as [E|E]; rewrite E.
  - change (40 =? 40) with true. cbv iota. cbn [bind]. rewrite slice_slice by lia. reflexivity.
  - change (64 =? 40) with false. change (64 =? 64) with true. cbv iota. cbn [bind]. rewrite slice_slice by lia. reflexivity.
Qed.

Lemma elf_collect_spec p m tag_off L : forall n fuel it,
  elf_inv m tag_off L it -> el_es it = 40 \/ el_es it = 64 -> N.to_nat (el_rem it) = n -> (n < fuel)%nat ->
  elf_collect fuel p m it = (filter (in_use m) (entries_from (el_cur it) (el_es it) (el_str it) n), Val tt).
Proof.
  (* strong induction on the number of remaining entries *)
  induction n as [n IHn] using lt_wf_ind. intros fuel it Hinv Hes Hn Hf.
  destruct fuel as [|fuel]; [lia|]. cbn [elf_collect].
  (* one call of next(): skips unused entries *)
  assert (Hnext : forall k fuel2 it2, elf_inv m tag_off L it2 -> el_es it2 = el_es it -> el_str it2 = el_str it ->
            N.to_nat (el_rem it2) = k -> (k < fuel2)%nat ->
            match elf_next fuel2 p m it2 with
            | Val (Some s, it3) =>
                exists pre, entries_from (el_cur it2) (el_es it) (el_str it) k =
                            (pre ++ s :: entries_from (el_cur it3) (el_es it) (el_str it) (N.to_nat (el_rem it3)))%list /\
                            filter (in_use m) pre = [] /\ in_use m s = true /\
                            elf_inv m tag_off L it3 /\ el_es it3 = el_es it /\ el_str it3 = el_str it /\
                            (N.to_nat (el_rem it3) < k)%nat
            | Val (None, _) => filter (in_use m) (entries_from (el_cur it2) (el_es it) (el_str it) k) = []
            | _ => False
            end).
  { induction k as [|k IHk]; intros fuel2 it2 Hinv2 He2 Hs2 Hk Hf2; (destruct fuel2 as [|fuel2]; [lia|]); cbn [elf_next].
    - replace (el_rem it2 =? 0) with true by lia. reflexivity.
    - replace (el_rem it2 =? 0) with false by lia.
      set (s := {| es_inner := el_cur it2; es_str := el_str it2; es_es := el_es it2 |}).
      set (it3 := {| el_cur := el_cur it2 + el_es it2; el_rem := el_rem it2 - 1; el_es := el_es it2; el_str := el_str it2 |}).
      destruct Hinv2 as [Hin Hcur Hrem Hstr]. destruct Hstr as [X|[Hs1 Hs2']]; [lia|].
      assert (Hsok : section_ok m tag_off L s).
      { unfold section_ok, s. cbn [es_inner es_str es_es]. repeat split; try lia; nia. }
      assert (Hinv3 : elf_inv m tag_off L it3).
      { constructor; unfold it3; cbn [el_cur el_rem el_es el_str].
        - lia.
        - lia.
        - nia.
        - right. split; lia. }
      rewrite (section_type_closed m tag_off L s Hsok) by (unfold s; cbn [es_es]; rewrite He2; exact Hes).
      cbn [bind]. cbn [entries_from]. rewrite <- He2, <- Hs2. fold s.
      destruct (is_unused (elf_section_type (raw_type m s))) eqn:Eu.
      + specialize (IHk fuel2 it3 Hinv3 He2 Hs2 ltac:(unfold it3; cbn [el_rem]; lia) ltac:(lia)).
        destruct (elf_next fuel2 p m it3) as [[[s4|] it4]| | |]; try exact IHk.
        * destruct IHk as (pre & Epre & Fpre & Fu & I4 & E4 & S4 & Lt).
          exists (s :: pre). unfold it3 in Epre. cbn [el_cur] in Epre. rewrite He2, Hs2 in *. rewrite Epre.
          split; [reflexivity|]. cbn [filter]. unfold in_use at 1. rewrite Eu. cbn [negb].
          split; [exact Fpre|]. split; [exact Fu|]. split; [exact I4|]. split; [exact E4|]. split; [exact S4|]. lia.
        * cbn [filter]. unfold in_use at 1. rewrite Eu. cbn [negb]. unfold it3 in IHk. cbn [el_cur] in IHk.
          rewrite He2, Hs2 in *. exact IHk.
      + exists []. cbn [app filter]. unfold it3. cbn [el_cur el_rem el_es el_str].
        replace (N.to_nat (el_rem it2 - 1)) with k by lia. rewrite He2, Hs2.
        split; [reflexivity|]. split; [reflexivity|]. split; [unfold in_use; rewrite Eu; reflexivity|].
        split; [unfold it3 in Hinv3; rewrite He2, Hs2 in Hinv3; exact Hinv3|].
        split; [reflexivity|]. split; [reflexivity|]. lia. }
  specialize (Hnext n (elf_fuel it) it Hinv eq_refl eq_refl Hn ltac:(unfold elf_fuel; rewrite (elf_steps_good it Hes); lia)).
  destruct (elf_next (elf_fuel it) p m it) as [[[s|] it3]| | |]; try contradiction.
  - destruct Hnext as (pre & Epre & Fpre & Fu & I3 & E3 & S3 & Lt).
    rewrite (IHn (N.to_nat (el_rem it3)) Lt fuel it3 I3) by (rewrite ?E3; try assumption; try reflexivity; lia).
    rewrite Epre, filter_app, Fpre. cbn [app filter]. rewrite Fu, E3, S3. reflexivity.
  - rewrite Hnext. reflexivity.
Qed.

(* field decoding at the ELF32 / ELF64 offsets *)
Lemma elf_fields_closed (p : profile) m tag_off L s : section_ok m tag_off L s ->
  let b := m_bytes m in let i := es_inner s in
  (es_es s = 40 ->
     elf_name_index m s = Val (le (slice b i 4)) /\ elf_typ m s = Val (le (slice b (i + 4) 4)) /\
     elf_flags m s = Val (N.land (le (slice b (i + 8) 4)) 7) /\ elf_addr m s = Val (le (slice b (i + 12) 4)) /\
     elf_size m s = Val (le (slice b (i + 20) 4)) /\ elf_addralign m s = Val (le (slice b (i + 32) 4)) /\
     elf_string_table m s = Val (le (slice b (es_str s + 12) 4))) /\
  (es_es s = 64 ->
     elf_name_index m s = Val (le (slice b i 4)) /\ elf_typ m s = Val (le (slice b (i + 4) 4)) /\
     elf_flags m s = Val (N.land (le (slice b (i + 8) 8)) 7) /\ elf_addr m s = Val (le (slice b (i + 16) 8)) /\
     elf_size m s = Val (le (slice b (i + 32) 8)) /\ elf_addralign m s = Val (le (slice b (i + 48) 8)) /\
     elf_string_table m s = Val (le (slice b (es_str s + 16) 8))) /\
  (es_es s <> 40 -> es_es s <> 64 -> elf_typ m s = Panic).
Proof.
  intros Hs b i. pose proof (elf_get_ok m tag_off L s Hs) as G.
  pose proof (elf_get_ok m tag_off L _ (strsec_ok m tag_off L s Hs)) as G2. cbn [es_inner es_es] in G2.
  unfold elf_name_index, elf_typ, elf_flags, elf_flags_raw, elf_addr, elf_size, elf_addralign, elf_string_table,
         elf_addr, elf_field. cbn [es_inner es_es]. rewrite G, G2. fold b i.
  split; [|split].
  - intros E. rewrite E. change (40 =? 40) with true. cbv iota. cbn [bind].
    rewrite !slice_slice by lia. rewrite N.add_0_r. repeat split; reflexivity.
  - intros E. rewrite E. change (64 =? 40) with false. change (64 =? 64) with true. cbv iota. cbn [bind].
    rewrite !slice_slice by lia. rewrite N.add_0_r. repeat split; reflexivity.
  - intros N40 N64. destruct (N.eqb_spec (es_es s) 40); [contradiction|].
    destruct (N.eqb_spec (es_es s) 64); [contradiction|]. reflexivity.
Qed.

(* ---- small list facts for the external string ---- *)
Lemma nth_skipn_add {A} (l : list A) o j d : nth j (skipn o l) d = nth (o + j) l d.
Proof.
  revert l. induction o as [|o IH]; intros l; [reflexivity|].
  destruct l as [|x l]; [destruct j; reflexivity|]. cbn [skipn]. rewrite IH. reflexivity.
Qed.
Lemma nth_firstn_lt {A} (l : list A) n j d : (j < n)%nat -> nth j (firstn n l) d = nth j l d.
Proof.
  revert l j. induction n as [|n IH]; intros l j H; [lia|].
  destruct l as [|x l]; [destruct j; reflexivity|]. destruct j as [|j]; [reflexivity|]. cbn [firstn nth]. apply IH. lia.
Qed.
Lemma nthb_slice l o n j : j < n -> nthb (slice l o n) j = nthb l (o + j).
Proof.
  intros H. unfold nthb, slice. rewrite nth_firstn_lt by lia. rewrite nth_skipn_add. f_equal. f_equal. lia.
Qed.
Lemma Val_inj' {A} (a b : A) : Val a = Val b -> a = b.
Proof. intros H. injection H as H. exact H. Qed.

(* ---- names: name() dereferences exactly (string_table + name_index) mod 2^64 in the external memory ------ *)
(* the spec of a resolved name: the bytes before the first NUL at address a of ext, UTF-8 checked *)
Definition name_at (ext : mem) (a : N) : res (list byte) :=
  bs <- ext_cstr ext a ;; if utf8_valid bs then Val bs else Err EUtf8.

Lemma ext_cstr_spec ext a bs : ext_cstr ext a = Val bs ->
  m_base ext <= a /\ a + len bs < m_base ext + len (m_bytes ext) /\
  bs = slice (m_bytes ext) (a - m_base ext) (len bs) /\
  (forall j, j < len bs -> nthb bs j <> 0) /\ nthb (m_bytes ext) (a - m_base ext + len bs) = 0.
Proof.
  unfold ext_cstr. destruct (N.leb_spec (m_base ext) a) as [Hlo|Hlo]; [|discriminate].
  destruct (N.ltb_spec a (m_base ext + len (m_bytes ext))) as [Hhi|Hhi]; [|discriminate]. cbn [andb].
  set (o := a - m_base ext). set (tl := slice (m_bytes ext) o (len (m_bytes ext) - o)).
  destruct (index_nul tl) as [i|] eqn:Ei; [|discriminate].
  intros H. apply Val_inj' in H. apply index_nul_some in Ei. destruct Ei as (Hi & Hz & Hnz).
  assert (Ltl : len tl = len (m_bytes ext) - o) by (unfold tl; rewrite len_slice; lia).
  assert (Lbs : len bs = i) by (subst bs; rewrite len_slice; lia).
  split; [exact Hlo|]. split; [lia|]. split; [|split].
  - rewrite Lbs. rewrite <- H. unfold tl. rewrite slice_slice by lia. rewrite N.add_0_r. reflexivity.
  - intros j Hj. rewrite <- H. rewrite nthb_slice by lia. rewrite N.add_0_l. apply Hnz. lia.
  - rewrite Lbs. unfold tl in Hz. rewrite nthb_slice in Hz by lia. exact Hz.
Qed.

Lemma elf_name_closed p m ext tag_off L s : section_ok m tag_off L s ->
  let b := m_bytes m in
  (es_es s = 40 -> elf_name p m ext s = name_at ext ((le (slice b (es_str s + 12) 4) + le (slice b (es_inner s) 4)) mod pow2_64)) /\
  (es_es s = 64 -> elf_name p m ext s = name_at ext ((le (slice b (es_str s + 16) 8) + le (slice b (es_inner s) 4)) mod pow2_64)).
Proof.
  intros Hs b. destruct (elf_fields_closed p m tag_off L s Hs) as (H40 & H64 & _).
  split; intros E; [destruct (H40 E) as (Hn & _ & _ & _ & _ & _ & Hst) | destruct (H64 E) as (Hn & _ & _ & _ & _ & _ & Hst)];
    unfold elf_name, elf_name_addr, name_at; rewrite Hst, Hn; reflexivity.
Qed.

Example elf_example :
  let entry typ := (enc32 1 ++ enc32 typ ++ repeatN x00 32)%list in
  let m := {| m_base := 0; m_bytes := (enc32 9 ++ enc32 (20 + 120) ++ enc32 3 ++ enc32 40 ++ enc32 2
                                       ++ entry 1 ++ entry 0 ++ entry 3 ++ repeatN x00 4)%list |} in
  let t := {| t_off := 0; t_meta := Some 120 |} in
  match elf_sections Dev m t with
  | Val it => map es_inner (fst (elf_collect 5 Dev m it)) = [20; 100]
  | _ => False
  end.
Proof. vm_compute. reflexivity. Qed.

(* ---- the provided Iterator methods: nth(k) is the k-th item of the run to exhaustion ---- *)
Lemma elf_nth_collect fuel p m : forall it items k,
  elf_collect fuel p m it = (items, Val tt) -> rmap fst (elf_nth p m it k) = Val (nth_error items k).
Proof.
  induction fuel as [|f IH]; intros it items k H; cbn [elf_collect] in H; [discriminate|].
  destruct k as [|k']; cbn [elf_nth];
    destruct (elf_next (elf_fuel it) p m it) as [[[s|] it']| | |]; try discriminate.
  - destruct (elf_collect f p m it') as [l e]. injection H as <- ->. reflexivity.
  - injection H as <-. reflexivity.
  - destruct (elf_collect f p m it') as [l e] eqn:E. injection H as <- ->. cbn [nth_error]. apply (IH it' l k' E).
  - injection H as <-. reflexivity.
Qed.
