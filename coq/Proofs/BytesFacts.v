(* Facts about bytes, little-endian codecs and slices. *)
Require Import Bytes.
From Coq Require Import Lia ZArith ZifyN ZifyBool ZifyNat.
Ltac Zify.zify_post_hook ::= Z.div_mod_to_equations.

Lemma bN_lt b : bN b < 256.
Proof. unfold bN. pose proof (Byte.to_N_bounded b). lia. Qed.

Lemma byte_of_bN b : byte_of (bN b) = b.
Proof.
  unfold byte_of, bN. rewrite N.mod_small by (pose proof (Byte.to_N_bounded b); lia).
  rewrite Byte.of_to_N. reflexivity.
Qed.

Lemma bN_byte_of n : bN (byte_of n) = n mod 256.
Proof.
  unfold byte_of, bN.
  destruct (Byte.of_N (n mod 256)) as [b|] eqn:E.
  - apply Byte.to_of_N in E. exact E.
  - apply Byte.of_N_None_iff in E. lia.
Qed.

Lemma len_nil {A} : len (@nil A) = 0. Proof. reflexivity. Qed.
Lemma len_cons {A} (x : A) l : len (x :: l) = 1 + len l.
Proof. unfold len. cbn [length]. lia. Qed.
Lemma len_app {A} (a b : list A) : len (a ++ b) = len a + len b.
Proof. unfold len. rewrite app_length. lia. Qed.

Lemma len_slice {A} (l : list A) off n : len (slice l off n) = N.min n (len l - off).
Proof. unfold len, slice. rewrite firstn_length, skipn_length. lia. Qed.

Lemma len_slice_le {A} (l : list A) off n : len (slice l off n) <= n.
Proof. rewrite len_slice. lia. Qed.

Lemma len_slice_in {A} (l : list A) off n : off + n <= len l -> len (slice l off n) = n.
Proof. intros H. rewrite len_slice. lia. Qed.

Lemma le_bound bs : le bs < 256 ^ len bs.
Proof.
  induction bs as [|b r IH].
  - cbn. lia.
  - cbn [le]. rewrite len_cons. rewrite N.pow_add_r. change (256 ^ 1) with 256.
    pose proof (bN_lt b). nia.
Qed.

Lemma le_bound_n bs k : len bs <= k -> le bs < 256 ^ k.
Proof.
  intros H. eapply N.lt_le_trans; [apply le_bound|]. apply N.pow_le_mono_r; lia.
Qed.

Lemma le_slice4_bound (l : list byte) off : le (slice l off 4) < pow2_32.
Proof. change pow2_32 with (256 ^ 4). apply le_bound_n, len_slice_le. Qed.

Lemma enc_length k n : length (enc k n) = k.
Proof. revert n; induction k as [|k IH]; intro n; cbn [enc length]; [reflexivity|]. rewrite IH. reflexivity. Qed.

Lemma le_enc k n : le (enc k n) = n mod 256 ^ N.of_nat k.
Proof.
  revert n; induction k as [|k IH]; intro n.
  - cbn. rewrite N.mod_1_r. reflexivity.
  - cbn [enc le]. rewrite IH, bN_byte_of.
    rewrite Nat2N.inj_succ, N.pow_succ_r'.
    set (m := 256 ^ N.of_nat k). assert (0 < m) by (apply N.neq_0_lt_0, N.pow_nonzero; lia).
    rewrite N.mod_mul_r by lia. reflexivity.
Qed.

Lemma enc_le bs : enc (length bs) (le bs) = bs.
Proof.
  induction bs as [|b r IH]; [reflexivity|].
  cbn [length enc le]. f_equal.
  - unfold byte_of. pose proof (bN_lt b).
    replace ((bN b + 256 * le r) mod 256) with (bN b) by lia.
    unfold bN. rewrite Byte.of_to_N. reflexivity.
  - pose proof (bN_lt b). replace ((bN b + 256 * le r) / 256) with (le r) by lia. exact IH.
Qed.

Lemma slice_all {A} (l : list A) : slice l 0 (len l) = l.
Proof. unfold slice, len. cbn [N.to_nat skipn]. rewrite Nat2N.id. apply firstn_all. Qed.

Lemma slice_app_l {A} (a b : list A) n : n <= len a -> slice (a ++ b) 0 n = slice a 0 n.
Proof.
  intros H. unfold slice. cbn [N.to_nat skipn]. rewrite firstn_app.
  replace (N.to_nat n - length a)%nat with 0%nat by (unfold len in H; lia).
  cbn [firstn]. apply app_nil_r.
Qed.

Lemma slice_app_r {A} (a b : list A) off n : len a <= off -> slice (a ++ b) off n = slice b (off - len a) n.
Proof.
  intros H. unfold slice. f_equal. rewrite skipn_app.
  rewrite skipn_all2 by (unfold len in H; lia). cbn [app]. f_equal. unfold len in *. lia.
Qed.

Lemma skipn_skipn' {A} (a b : nat) (l : list A) : skipn a (skipn b l) = skipn (b + a) l.
Proof.
  revert l; induction b as [|b IH]; intro l; [reflexivity|].
  destruct l as [|x l]; [cbn; rewrite !skipn_nil; reflexivity|]. cbn [skipn Nat.add]. apply IH.
Qed.

Lemma slice_slice {A} (l : list A) o1 n1 o2 n2 :
  o2 + n2 <= n1 -> slice (slice l o1 n1) o2 n2 = slice l (o1 + o2) n2.
Proof.
  intros H. unfold slice.
  rewrite skipn_firstn_comm, firstn_firstn, skipn_skipn'.
  f_equal; [lia|]. f_equal. lia.
Qed.

Lemma slice_app_l_gen {A} (a b : list A) off n : off + n <= len a -> slice (a ++ b) off n = slice a off n.
Proof.
  intros H. unfold slice. rewrite skipn_app, firstn_app.
  rewrite skipn_length.
  replace (N.to_nat n - (length a - N.to_nat off))%nat with 0%nat by (unfold len in H; lia).
  cbn [firstn]. apply app_nil_r.
Qed.
