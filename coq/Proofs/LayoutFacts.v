(* The layouts the repr(C) algorithm computes for the transcribed structs coincide with the
   specification's tables (C04 / C07 / C11). *)
Require Import Bytes Outcome Layout Common TagType Mbi MbiTags Header HeaderTags Build Mb2Spec.
From Coq Require Import String.
Open Scope string_scope.
Open Scope N_scope.

(* the first 8 bytes of every tag struct are the (type, size) header *)
Definition header_part (k : kind) : list (string * N * N) :=
  match k with KNetwork => [("typ", 0, 4); ("size", 4, 4)] | _ => [("header", 0, 8)] end.

Lemma mbi_layout k :
  sd_offsets (kind_struct k) = (header_part k ++ spec_mbi_fields (kind_typ k))%list /\
  sd_align (kind_struct k) = 8 /\
  match sd_tail (kind_struct k) with
  | Some (es, _) => spec_mbi_variable (kind_typ k) = Some es /\
                    sd_tail_off (kind_struct k) = spec_mbi_size (kind_typ k) /\
                    kind_base k = spec_mbi_size (kind_typ k)
  | None => spec_mbi_variable (kind_typ k) = None /\
            ctor_size k = spec_mbi_size (kind_typ k) /\
            sd_size_of (kind_struct k) = round8 (spec_mbi_size (kind_typ k)) /\
            kind_base k = sd_size_of (kind_struct k)
  end.
Proof. destruct k; vm_compute; repeat split; reflexivity. Qed.

Lemma mbi_types :
  map kind_typ all_kinds = map spec_mbi_type
    ["end"; "cmdline"; "boot_loader_name"; "module"; "basic_meminfo"; "bootdev"; "mmap"; "vbe"; "framebuffer";
     "elf_sections"; "apm"; "efi32"; "efi64"; "smbios"; "acpi_old"; "acpi_new"; "network"; "efi_mmap"; "efi_bs";
     "efi32_ih"; "efi64_ih"; "load_base_addr"].
Proof. vm_compute. reflexivity. Qed.

Lemma hdr_layout k :
  sd_offsets (hkind_struct k) = (("header", 0, 8) :: spec_htag_fields (hkind_typ k))%list /\
  sd_align (hkind_struct k) = 8 /\
  hctor_size k = spec_htag_size (hkind_typ k) /\
  match sd_tail (hkind_struct k) with
  | Some (es, _) => es = 4 /\ sd_tail_off (hkind_struct k) = 8 /\ hkind_base k = 8
  | None => sd_size_of (hkind_struct k) = round8 (spec_htag_size (hkind_typ k))
  end.
Proof. destruct k; vm_compute; repeat split; reflexivity. Qed.

Lemma hdr_types : map hkind_typ all_hkinds = [0; 1; 2; 3; 4; 5; 6; 7; 8; 9; 10].
Proof. reflexivity. Qed.

(* every field name used by an accessor of the model exists in its layout table (field_ow's default
   is never used) *)
Lemma field_names_exist k name o w : In (name, o, w) (sd_offsets (kind_struct k)) ->
  NoDup (map (fun x => fst (fst x)) (sd_offsets (kind_struct k))) -> field_ow (kind_struct k) name = (o, w).
Proof.
  unfold field_ow. generalize (sd_offsets (kind_struct k)). intro l. induction l as [|[[n o'] w'] l IH]; [contradiction|].
  cbn [In lookup map fst]. intros Hin Hnd. inversion Hnd as [|? ? Hnot Hnd']; subst.
  destruct Hin as [E|Hin].
  - injection E as -> -> ->. rewrite String.eqb_refl. reflexivity.
  - destruct (String.eqb_spec n name) as [->|Hne].
    + exfalso. apply Hnot. exact (in_map (fun x : string * N * N => fst (fst x)) l (name, o, w) Hin).
    + apply IH; assumption.
Qed.
