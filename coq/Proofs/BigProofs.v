(* The walk over n copies of one tag, for every n: the specification's walk, hence (C03_walk) what the iterator yields. *)
Require Import Bytes Outcome Common TagType Mbi MbiTags WalkSpec Big BytesFacts ArithFacts CommonFacts IterFacts C02Proofs C03Proofs.
From Coq Require Import Lia ZArith ZifyN ZifyBool ZifyNat List.
Import ListNotations.
Ltac Zify.zify_post_hook ::= Z.div_mod_to_equations.
Open Scope N_scope.

Lemma len_concat_repeat (tag : list byte) n : len (concat (repeat tag n)) = N.of_nat n * len tag.
Proof. induction n as [|n IH]; [reflexivity|]. cbn [repeat concat]. rewrite len_app, IH. lia. Qed.

(* a window inside the k-th copy *)
Lemma slice_repeat (tag : list byte) : forall n k (pre post : list byte) o w,
  (k < n)%nat -> o + w <= len tag ->
  slice (pre ++ concat (repeat tag n) ++ post) (len pre + N.of_nat k * len tag + o) w = slice tag o w.
Proof.
  induction n as [|n IH]; intros k pre post o w Hk Hw; [lia|].
  cbn [repeat concat]. destruct k as [|k].
  - rewrite slice_app_r by lia. replace (len pre + N.of_nat 0 * len tag + o - len pre) with o by lia.
    rewrite <- app_assoc. apply slice_app_l_gen. exact Hw.
  - rewrite <- app_assoc. rewrite (app_assoc pre tag).
    replace (len pre + N.of_nat (S k) * len tag + o) with (len (pre ++ tag) + N.of_nat k * len tag + o)
      by (rewrite len_app; lia).
    apply IH; [lia|exact Hw].
Qed.

Section Big.
  Variable tag : list byte.
  Variable n : nat.
  Let L := len tag.
  Let s := le (slice tag 4 4).
  Let T := 16 + N.of_nat n * L.
  Let bs := big_region n tag.
  Hypothesis Hs : 8 <= s.
  Hypothesis HL : round8 s = L.
  Hypothesis HT : T < pow2_32.

  Lemma len_enc32 x : len (enc32 x) = 4.
  Proof. unfold len, enc32. rewrite enc_length. reflexivity. Qed.

  Lemma big_len : len bs = T.
  Proof. unfold bs, big_region. rewrite !len_app, !len_enc32, len_concat_repeat. unfold T, L. lia. Qed.

  Lemma big_total : le (slice bs 0 4) = T.
  Proof.
    unfold bs, big_region. rewrite slice_app_l_gen by (rewrite len_enc32; lia).
    replace 4 with (len (enc32 (16 + N.of_nat n * len tag))) at 1 by apply len_enc32.
    rewrite slice_all. unfold enc32. rewrite le_enc. change (256 ^ N.of_nat 4) with pow2_32.
    fold L. fold T. apply N.mod_small. exact HT.
  Qed.

  Lemma big_size_at k : (k < n)%nat -> size_at bs (big_off L k) = s.
  Proof.
    intros Hk. unfold size_at, big_off, bs, big_region.
    rewrite (app_assoc (enc32 _) (enc32 0)).
    replace (8 + N.of_nat k * L + 4) with (len (enc32 (16 + N.of_nat n * len tag) ++ enc32 0) + N.of_nat k * len tag + 4)
      by (rewrite len_app, !len_enc32; unfold L; lia).
    rewrite slice_repeat; [reflexivity|exact Hk|].
    unfold s, L, round8 in *. lia.
  Qed.

  Lemma big_size_end : size_at bs (big_off L n) = 8.
  Proof.
    unfold size_at, big_off, bs, big_region.
    rewrite (app_assoc (enc32 _) (enc32 0)), app_assoc.
    rewrite slice_app_r by (rewrite !len_app, !len_enc32, len_concat_repeat; unfold L; lia).
    rewrite !len_app, !len_enc32, len_concat_repeat.
    replace (8 + N.of_nat n * L + 4 - (4 + 4 + N.of_nat n * len tag)) with 4 by (unfold L; lia).
    rewrite slice_app_r by (rewrite len_enc32; lia). rewrite len_enc32. change (4 - 4) with 0.
    replace 4 with (len (enc32 8)) at 1 by apply len_enc32. rewrite slice_all.
    unfold enc32. rewrite le_enc. reflexivity.
  Qed.

  Definition big_items_from (k j : nat) : list item :=
    map (fun i => {| i_off := big_off L i; i_size := s |}) (seq k j) ++ [{| i_off := big_off L n; i_size := 8 |}].

  Lemma big_walk_from : forall j k, (k + j = n)%nat -> walk bs T (big_off L k) (big_items_from k j) true.
  Proof.
    induction j as [|j IH]; intros k Hk.
    - assert (k = n) by lia. subst k. cbn [big_items_from seq map app].
      replace {| i_off := big_off L n; i_size := 8 |}
        with {| i_off := big_off L n; i_size := size_at bs (big_off L n) |} by (rewrite big_size_end; reflexivity).
      apply W_step.
      + unfold big_off, T. lia.
      + rewrite big_size_end. lia.
      + rewrite big_size_end. unfold big_off, T, round8. lia.
      + rewrite big_size_end. replace (big_off L n + round8 8) with T by (unfold big_off, T, round8; lia).
        apply W_end.
    - cbn [big_items_from seq map app].
      assert (Hkn : (k < n)%nat) by lia.
      replace {| i_off := big_off L k; i_size := s |}
        with {| i_off := big_off L k; i_size := size_at bs (big_off L k) |} by (rewrite big_size_at by exact Hkn; reflexivity).
      apply W_step.
      + unfold big_off, T. lia.
      + rewrite big_size_at by exact Hkn. exact Hs.
      + rewrite big_size_at by exact Hkn. rewrite HL. unfold big_off, T. lia.
      + rewrite big_size_at by exact Hkn. rewrite HL.
        replace (big_off L k + L) with (big_off L (S k)) by (unfold big_off; lia).
        apply IH. lia.
  Qed.

  Lemma big_walk : walk bs T 8 (big_items_from 0 n) true.
  Proof.
    replace 8 with (big_off L 0) by (unfold big_off; lia). apply big_walk_from. lia.
  Qed.

  Lemma big_items_len : len (big_items_from 0 n) = N.of_nat n + 1.
  Proof. unfold big_items_from, len. rewrite app_length, map_length, seq_length. cbn [length]. lia. Qed.

  Lemma big_typ_at k : (k < n)%nat -> typ_at bs (big_off L k) = le (slice tag 0 4).
  Proof.
    intros Hk. unfold typ_at, big_off, bs, big_region.
    rewrite (app_assoc (enc32 _) (enc32 0)).
    replace (8 + N.of_nat k * L) with (len (enc32 (16 + N.of_nat n * len tag) ++ enc32 0) + N.of_nat k * len tag + 0)
      by (rewrite len_app, !len_enc32; unfold L; lia).
    rewrite slice_repeat; [reflexivity|exact Hk|].
    unfold s, L, round8 in *. lia.
  Qed.

  Lemma big_typ_end : typ_at bs (big_off L n) = 0.
  Proof.
    unfold typ_at, big_off, bs, big_region.
    rewrite (app_assoc (enc32 _) (enc32 0)), app_assoc.
    rewrite slice_app_r by (rewrite !len_app, !len_enc32, len_concat_repeat; unfold L; lia).
    rewrite !len_app, !len_enc32, len_concat_repeat.
    replace (8 + N.of_nat n * L - (4 + 4 + N.of_nat n * len tag)) with 0 by (unfold L; lia).
    rewrite slice_app_l_gen by (rewrite len_enc32; lia).
    replace 4 with (len (enc32 0)) at 1 by apply len_enc32. rewrite slice_all.
    unfold enc32. rewrite le_enc. reflexivity.
  Qed.

  (* load accepts the region; the iterator yields exactly the closed-form items and ends regularly *)
  Lemma big_run p a : a mod 8 = 0 ->
    let m := {| m_base := a; m_bytes := bs |} in
    mbi_load p false m = Val {| d_off := 0; d_plen := T - 8 |} /\
    tagiter_run (iter_fuel (T - 8)) p HTagH m 8 (T - 8) 0 = (map dref_of (big_items_from 0 n), Val tt).
  Proof.
    intros Ha m.
    assert (Hload : mbi_load p false m = Val {| d_off := 0; d_plen := T - 8 |}).
    { unfold m. rewrite c02_load_spec; [|exact Ha|rewrite big_len; unfold T; lia|rewrite big_total, big_len; lia].
      unfold c02_closed. rewrite big_total.
      destruct (N.ltb_spec T 8) as [X|_]; [unfold T in X; lia|].
      assert (T mod 8 = 0) as ->.
      { unfold T. rewrite <- HL. unfold round8. lia. }
      cbn [N.eqb negb].
      pose proof big_typ_end as E1. pose proof big_size_end as E2. unfold typ_at, size_at, big_off in E1, E2.
      replace (T - 8) with (8 + N.of_nat n * L) by (unfold T; lia). rewrite E1.
      replace (T - 4) with (8 + N.of_nat n * L + 4) by (unfold T; lia). rewrite E2. reflexivity. }
    split; [exact Hload|].
    destruct (c03_walk p a bs _ Ha ltac:(rewrite big_len; unfold T; lia) ltac:(rewrite big_total, big_len; lia) Hload)
      as (l & ok & Hrun & _ & Huniq & _).
    unfold tags_len, tags_b in Hrun. cbn [d_off d_plen] in Hrun. change (0 + 8) with 8 in Hrun.
    pose proof big_walk as W. rewrite <- big_total in W at 1.
    destruct (Huniq _ _ W) as [E1 E2]. subst l ok. exact Hrun.
  Qed.

  (* the module iterator: all n tags when their type is 3 (and each holds the 16-byte fixed part), none otherwise *)
  Lemma big_modules_spec_from : forall j k, (k + j = n)%nat ->
    modules_spec bs (big_items_from k j) true =
      if le (slice tag 0 4) =? MODULE_TYP
      then if s <? 16 then (match j with O => ([], Val tt) | _ => ([], Panic) end)
           else (map (fun i => module_ref {| i_off := big_off L i; i_size := s |}) (seq k j), Val tt)
      else ([], Val tt).
  Proof.
    induction j as [|j IH]; intros k Hk.
    - cbn [big_items_from seq map app modules_spec]. unfold is_module. cbn [i_off]. rewrite big_typ_end.
      change (0 =? MODULE_TYP) with false. cbn [status].
      destruct (le (slice tag 0 4) =? MODULE_TYP); [destruct (s <? 16)|]; reflexivity.
    - cbn [big_items_from seq map app modules_spec].
      change (map (fun i => {| i_off := big_off L i; i_size := s |}) (seq (S k) j) ++ [{| i_off := big_off L n; i_size := 8 |}])
        with (big_items_from (S k) j).
      unfold is_module at 1. cbn [i_off i_size]. rewrite big_typ_at by lia.
      rewrite IH by lia.
      destruct (le (slice tag 0 4) =? MODULE_TYP); [|reflexivity].
      destruct (s <? 16); [reflexivity|]. reflexivity.
  Qed.

  Lemma big_modules p a : a mod 8 = 0 ->
    let m := {| m_base := a; m_bytes := bs |} in
    modules_run (iter_fuel (T - 8)) p m 8 (T - 8) 0 = modules_spec bs (big_items_from 0 n) true.
  Proof.
    intros Ha m. destruct (big_run p a Ha) as [Hload _].
    pose proof (c03_modules p a bs _ Ha ltac:(rewrite big_len; unfold T; lia) ltac:(rewrite big_total, big_len; lia) Hload) as M.
    unfold tags_len, tags_b in M. cbn [d_off d_plen] in M. change (0 + 8) with 8 in M.
    apply M. rewrite big_total. exact big_walk.
  Qed.

  (* the k-th item of the closed form (what nth(k) yields), the last one, and nothing behind it *)
  Lemma big_items_nth k :
    nth_error (big_items_from 0 n) k =
      if (k <? n)%nat then Some {| i_off := big_off L k; i_size := s |}
      else if (k =? n)%nat then Some {| i_off := big_off L n; i_size := 8 |} else None.
  Proof.
    unfold big_items_from.
    destruct (Nat.ltb_spec k n) as [H|H].
    - rewrite nth_error_app1 by (rewrite map_length, seq_length; exact H).
      rewrite nth_error_map. rewrite (nth_error_nth' _ 0%nat) by (rewrite seq_length; exact H).
      rewrite seq_nth by exact H. reflexivity.
    - rewrite nth_error_app2 by (rewrite map_length, seq_length; exact H).
      rewrite map_length, seq_length.
      destruct (Nat.eqb_spec k n) as [->|Hne].
      + rewrite Nat.sub_diag. reflexivity.
      + destruct (k - n)%nat as [|[|d]] eqn:E; [lia| |]; reflexivity.
  Qed.
End Big.

(* ---- the same walk over an arbitrary prefix and end tag (used for the header crate: prefix = the 16-byte basic header) *)
Section GenBig.
  Variable pre post tag : list byte.
  Variable n : nat.
  Let L := len tag.
  Let s := le (slice tag 4 4).
  Let P := len pre.
  Let T := P + N.of_nat n * L + 8.
  Let bs := pre ++ concat (repeat tag n) ++ post.
  Hypothesis Hs : 8 <= s.
  Hypothesis HL : round8 s = L.
  Hypothesis Hpost : len post = 8.
  Hypothesis Hend : le (slice post 4 4) = 8.

  Definition gen_off (i : nat) : N := P + N.of_nat i * L.

  Lemma gen_len : len bs = T.
  Proof. unfold bs. rewrite !len_app, len_concat_repeat, Hpost. unfold T, P, L. lia. Qed.

  Lemma gen_slice_tag k o w : (k < n)%nat -> o + w <= L -> slice bs (gen_off k + o) w = slice tag o w.
  Proof. intros Hk How. unfold bs, gen_off, P, L. apply slice_repeat; assumption. Qed.

  Lemma gen_slice_post o w : o + w <= 8 -> slice bs (gen_off n + o) w = slice post o w.
  Proof.
    intros How. unfold bs, gen_off. rewrite app_assoc.
    rewrite slice_app_r by (rewrite len_app, len_concat_repeat; unfold P, L; lia).
    rewrite len_app, len_concat_repeat.
    replace (P + N.of_nat n * L + o - (len pre + N.of_nat n * len tag)) with o by (unfold P, L; lia).
    reflexivity.
  Qed.

  Lemma gen_size_at k : (k < n)%nat -> size_at bs (gen_off k) = s.
  Proof. intros Hk. unfold size_at. rewrite gen_slice_tag; [reflexivity|exact Hk|]. unfold s, L, round8 in *. lia. Qed.

  Lemma gen_size_end : size_at bs (gen_off n) = 8.
  Proof. unfold size_at. rewrite gen_slice_post by lia. exact Hend. Qed.

  Definition gen_items_from (k j : nat) : list item :=
    map (fun i => {| i_off := gen_off i; i_size := s |}) (seq k j) ++ [{| i_off := gen_off n; i_size := 8 |}].

  Lemma gen_walk_from : forall j k, (k + j = n)%nat -> walk bs T (gen_off k) (gen_items_from k j) true.
  Proof.
    induction j as [|j IH]; intros k Hk.
    - assert (k = n) by lia. subst k. cbn [gen_items_from seq map app].
      replace {| i_off := gen_off n; i_size := 8 |}
        with {| i_off := gen_off n; i_size := size_at bs (gen_off n) |} by (rewrite gen_size_end; reflexivity).
      apply W_step.
      + unfold gen_off, T. lia.
      + rewrite gen_size_end. lia.
      + rewrite gen_size_end. unfold gen_off, T, round8. lia.
      + rewrite gen_size_end. replace (gen_off n + round8 8) with T by (unfold gen_off, T, round8; lia).
        apply W_end.
    - cbn [gen_items_from seq map app].
      assert (Hkn : (k < n)%nat) by lia.
      replace {| i_off := gen_off k; i_size := s |}
        with {| i_off := gen_off k; i_size := size_at bs (gen_off k) |} by (rewrite gen_size_at by exact Hkn; reflexivity).
      apply W_step.
      + unfold gen_off, T. lia.
      + rewrite gen_size_at by exact Hkn. exact Hs.
      + rewrite gen_size_at by exact Hkn. rewrite HL. unfold gen_off, T. lia.
      + rewrite gen_size_at by exact Hkn. rewrite HL.
        replace (gen_off k + L) with (gen_off (S k)) by (unfold gen_off; lia).
        apply IH. lia.
  Qed.

  Lemma gen_walk : walk bs T P (gen_items_from 0 n) true.
  Proof. replace P with (gen_off 0) by (unfold gen_off; lia). apply gen_walk_from. lia. Qed.
End GenBig.
