(* Proofs for C07: constructors emit the spec-exact image. *)
Require Import Bytes Outcome Layout Common TagType Mbi MbiTags Strings MbiAccess Header HeaderTags Build Mb2Spec
               BytesFacts ArithFacts CommonFacts CastFacts BuildFacts C16Proofs LayoutFacts.
From Coq Require Import Lia ZArith ZifyN ZifyBool ZifyNat String.
Ltac Zify.zify_post_hook ::= Z.div_mod_to_equations.
Open Scope list_scope.
Open Scope N_scope.

(* ---- the generic struct image ------------------------------------------------------------- *)
Definition fval_ok (w : N) (v : fval) : Prop := match v with VN _ => True | VB bs => len bs = w end.

Lemma len_enc_fval w v : fval_ok w v -> len (enc_fval w v) = w.
Proof. destruct v as [n|bs]; cbn [enc_fval fval_ok]; intros H; [rewrite len_enc; lia|exact H]. Qed.

(* a layout table laid out from `cur`: offsets increase without overlap *)
Fixpoint sorted_from (offs : list (string * N * N)) (cur : N) : Prop :=
  match offs with
  | [] => True
  | (_, o, w) :: r => cur <= o /\ sorted_from r (o + w)
  end.
Fixpoint end_of (offs : list (string * N * N)) (cur : N) : N :=
  match offs with [] => cur | (_, o, w) :: r => end_of r (o + w) end.

Lemma end_of_ge offs : forall cur, sorted_from offs cur -> cur <= end_of offs cur.
Proof.
  induction offs as [|[[n o] w] r IH]; intros cur H; cbn [end_of]; [lia|].
  destruct H as [H1 H2]. specialize (IH _ H2). lia.
Qed.

Lemma emit_len offs : forall vals cur pad,
  sorted_from offs cur -> List.length vals = List.length offs -> end_of offs cur <= len pad ->
  Forall2 (fun ow v => fval_ok (snd ow) v) offs vals ->
  len (emit offs vals cur pad) = end_of offs cur - cur.
Proof.
  induction offs as [|[[n o] w] r IH]; intros vals cur pad Hs Hl Hp Hok.
  - destruct vals; [|discriminate]. cbn [emit end_of]. rewrite len_nil. lia.
  - destruct vals as [|v vals]; [discriminate|]. cbn [emit end_of] in *. destruct Hs as [H1 H2].
    inversion Hok as [|? ? ? ? Hv Hrest]; subst. cbn [snd] in Hv.
    pose proof (end_of_ge r (o + w) H2) as Hge.
    rewrite !len_app, len_enc_fval by exact Hv.
    rewrite (IH vals (o + w) pad H2) by (try assumption; cbn [List.length] in Hl; lia).
    rewrite len_slice. lia.
Qed.

(* the i-th field value sits at the i-th offset *)
Lemma emit_slice offs : forall vals cur pad i n o w v,
  sorted_from offs cur -> List.length vals = List.length offs -> end_of offs cur <= len pad ->
  Forall2 (fun ow v => fval_ok (snd ow) v) offs vals ->
  nth_error offs i = Some (n, o, w) -> nth_error vals i = Some v ->
  slice (emit offs vals cur pad) (o - cur) w = enc_fval w v.
Proof.
  induction offs as [|[[n0 o0] w0] r IH]; intros vals cur pad i n o w v Hs Hl Hp Hok Ho Hv.
  - destruct i; discriminate.
  - destruct vals as [|v0 vals]; [discriminate|]. cbn [emit end_of] in *. destruct Hs as [H1 H2].
    inversion Hok as [|? ? ? ? Hv0 Hrest]; subst. cbn [snd] in Hv0.
    pose proof (end_of_ge r (o0 + w0) H2) as Hge.
    assert (Lpad : len (slice pad cur (o0 - cur)) = o0 - cur) by (rewrite len_slice; lia).
    destruct i as [|i].
    + cbn [nth_error] in Ho, Hv. injection Ho as <- <- <-. injection Hv as <-.
      rewrite slice_app_r by lia. rewrite Lpad. replace (o0 - cur - (o0 - cur)) with 0 by lia.
      apply slice_app_l_exact. symmetry. apply len_enc_fval. exact Hv0.
    + cbn [nth_error] in Ho, Hv.
      assert (Hle : o0 + w0 <= o).
      { clear - H2 Ho. revert i H2 Ho. generalize (o0 + w0). induction r as [|[[n1 o1] w1] r IHr]; intros c i Hs Ho; [destruct i; discriminate|].
        destruct Hs as [A B]. destruct i as [|i]; cbn [nth_error] in Ho.
        - injection Ho as <- <- <-. exact A.
        - specialize (IHr _ _ B Ho). lia. }
      rewrite slice_app_r by lia. rewrite Lpad.
      rewrite slice_app_r by (rewrite len_enc_fval by exact Hv0; lia). rewrite len_enc_fval by exact Hv0.
      replace (o - cur - (o0 - cur) - w0) with (o - (o0 + w0)) by lia.
      apply (IH vals (o0 + w0) pad i n o w v); try assumption. cbn [List.length] in Hl. lia.
Qed.

(* the image of a struct: every field at its layout offset, total length size_of *)
Lemma image_field d vals pad i n o w v :
  sorted_from (sd_offsets d) 0 -> List.length vals = List.length (sd_offsets d) -> sd_size_of d <= len pad ->
  end_of (sd_offsets d) 0 <= sd_size_of d ->
  Forall2 (fun ow v => fval_ok (snd ow) v) (sd_offsets d) vals ->
  nth_error (sd_offsets d) i = Some (n, o, w) -> nth_error vals i = Some v ->
  slice (image d vals pad) o w = enc_fval w v /\ len (image d vals pad) = sd_size_of d.
Proof.
  intros Hs Hl Hp He Hok Ho Hv. unfold image.
  pose proof (emit_len (sd_offsets d) vals 0 pad Hs Hl ltac:(lia) Hok) as Hlen. rewrite N.sub_0_r in Hlen.
  split.
  - assert (Hin : o + w <= end_of (sd_offsets d) 0).
    { clear - Hs Ho. revert i Hs Ho. generalize 0. induction (sd_offsets d) as [|[[n1 o1] w1] r IHr]; intros c i Hs Ho; [destruct i; discriminate|].
      destruct Hs as [A B]. cbn [end_of]. destruct i as [|i]; cbn [nth_error] in Ho.
      - injection Ho as <- <- <-. apply (end_of_ge r _ B).
      - apply (IHr _ _ B Ho). }
    rewrite slice_app_l_gen by lia.
    rewrite <- (N.sub_0_r o). apply (emit_slice (sd_offsets d) vals 0 pad i n); assumption || lia.
  - rewrite len_app, Hlen, len_slice. lia.
Qed.

Lemma Forall2_len {A B} (R : A -> B -> Prop) l1 l2 : Forall2 R l1 l2 -> List.length l1 = List.length l2.
Proof. induction 1; cbn [List.length]; congruence. Qed.

(* ---- sized boot-information tags ---------------------------------------------------------- *)
Lemma kind_sorted k : sorted_from (sd_offsets (kind_struct k)) 0 /\
                      end_of (sd_offsets (kind_struct k)) 0 <= sd_size_of (kind_struct k).
Proof. destruct k; vm_compute; repeat split; discriminate. Qed.

Lemma hkind_sorted k : sorted_from (sd_offsets (hkind_struct k)) 0 /\
                       end_of (sd_offsets (hkind_struct k)) 0 <= sd_size_of (hkind_struct k).
Proof. destruct k; vm_compute; repeat split; discriminate. Qed.

Lemma header_fval_ok a b : fval_ok 8 (VB (enc32 a ++ enc32 b)).
Proof. cbn [fval_ok]. rewrite len_app, !len_enc32. reflexivity. Qed.

Lemma c07_sized k args pad :
  is_dst k = false ->
  Forall2 (fun ow v => fval_ok (snd ow) v) (spec_mbi_fields (kind_typ k)) args ->
  sd_size_of (kind_struct k) <= len pad ->
  let img := ctor_sized k args pad in
  le (slice img 0 4) = kind_typ k /\ le (slice img 4 4) = spec_mbi_size (kind_typ k) /\
  len img = round8 (spec_mbi_size (kind_typ k)) /\
  (forall i n o w v, nth_error (spec_mbi_fields (kind_typ k)) i = Some (n, o, w) -> nth_error args i = Some v ->
                     slice img o w = enc_fval w v).
Proof.
  intros Hd Hok Hp img. destruct (kind_sorted k) as [Hs He].
  destruct (mbi_layout k) as (Hoffs & _ & Htail).
  assert (Hsized : sd_tail (kind_struct k) = None).
  { unfold is_dst in Hd. destruct (sd_tail (kind_struct k)); [discriminate|reflexivity]. }
  rewrite Hsized in Htail. destruct Htail as (_ & Hcs & Hso & _).
  assert (Hhp : header_part k = [("header", 0, 8)]) by (destruct k; try reflexivity; discriminate Hd).
  rewrite Hhp in Hoffs. cbn [app] in Hoffs.
  set (vals := tag_header (kind_typ k) (ctor_size k) :: args).
  assert (Hok' : Forall2 (fun ow v => fval_ok (snd ow) v) (sd_offsets (kind_struct k)) vals).
  { rewrite Hoffs. constructor; [apply header_fval_ok|exact Hok]. }
  assert (Hl : List.length vals = List.length (sd_offsets (kind_struct k))).
  { rewrite Hoffs. unfold vals. cbn [List.length]. f_equal. symmetry. eapply Forall2_len. exact Hok. }
  assert (Hfield : forall i n o w v, nth_error (sd_offsets (kind_struct k)) i = Some (n, o, w) -> nth_error vals i = Some v ->
                   slice img o w = enc_fval w v /\ len img = sd_size_of (kind_struct k)).
  { intros i n o w v A B. unfold img, ctor_sized. fold vals. eapply image_field; eassumption. }
  destruct (Hfield 0%nat "header"%string 0 8 (tag_header (kind_typ k) (ctor_size k))) as [Hh Hlen];
    [rewrite Hoffs; reflexivity|reflexivity|].
  cbn [tag_header enc_fval] in Hh.
  assert (Htyp : kind_typ k < pow2_32) by (destruct k; vm_compute; reflexivity).
  assert (Hsz : ctor_size k < pow2_32) by (destruct k; vm_compute; reflexivity).
  split; [|split; [|split]].
  - change (slice img 0 4) with (slice img (0 + 0) 4). rewrite <- (slice_slice img 0 8 0 4) by lia. rewrite Hh. rewrite slice_app_l_exact by (rewrite len_enc32; reflexivity).
    apply le_enc32. exact Htyp.
  - change (slice img 4 4) with (slice img (0 + 4) 4). rewrite <- (slice_slice img 0 8 4 4) by lia. rewrite Hh.
    rewrite slice_app_r by (rewrite len_enc32; lia). rewrite len_enc32. replace (4 - 4) with 0 by lia.
    rewrite slice_enc32_all. rewrite le_enc32 by exact Hsz. exact Hcs.
  - rewrite Hlen. exact Hso.
  - intros i n o w v A B. apply (Hfield (S i) n o w v); [rewrite Hoffs; exact A|exact B].
Qed.

(* ---- sized header tags --------------------------------------------------------------------- *)
Lemma hheader_fval_ok a b c : fval_ok 8 (VB (enc16 a ++ enc16 b ++ enc32 c)).
Proof. cbn [fval_ok]. rewrite !len_app, len_enc32. unfold enc16. rewrite !len_enc. reflexivity. Qed.

Lemma c07_hsized k flags args pad :
  sd_tail (hkind_struct k) = None ->
  Forall2 (fun ow v => fval_ok (snd ow) v) (spec_htag_fields (hkind_typ k)) args ->
  sd_size_of (hkind_struct k) <= len pad ->
  let img := hctor_sized k flags args pad in
  slice img 0 8 = (enc16 (hkind_typ k) ++ enc16 flags ++ enc32 (spec_htag_size (hkind_typ k))) /\
  len img = round8 (spec_htag_size (hkind_typ k)) /\
  (forall i n o w v, nth_error (spec_htag_fields (hkind_typ k)) i = Some (n, o, w) -> nth_error args i = Some v ->
                     slice img o w = enc_fval w v).
Proof.
  intros Hsized Hok Hp img. destruct (hkind_sorted k) as [Hs He].
  destruct (hdr_layout k) as (Hoffs & _ & Hcs & Htail). rewrite Hsized in Htail.
  set (vals := htag_header (hkind_typ k) flags (hctor_size k) :: args).
  assert (Hok' : Forall2 (fun ow v => fval_ok (snd ow) v) (sd_offsets (hkind_struct k)) vals).
  { rewrite Hoffs. constructor; [apply hheader_fval_ok|exact Hok]. }
  assert (Hl : List.length vals = List.length (sd_offsets (hkind_struct k))).
  { rewrite Hoffs. unfold vals. cbn [List.length]. f_equal. symmetry. eapply Forall2_len. exact Hok. }
  assert (Hfield : forall i n o w v, nth_error (sd_offsets (hkind_struct k)) i = Some (n, o, w) -> nth_error vals i = Some v ->
                   slice img o w = enc_fval w v /\ len img = sd_size_of (hkind_struct k)).
  { intros i n o w v A B. unfold img, hctor_sized. fold vals. eapply image_field; eassumption. }
  destruct (Hfield 0%nat "header"%string 0 8 (htag_header (hkind_typ k) flags (hctor_size k))) as [Hh Hlen];
    [rewrite Hoffs; reflexivity|reflexivity|].
  cbn [htag_header enc_fval] in Hh. rewrite Hcs in Hh.
  split; [exact Hh|]. split; [rewrite Hlen; exact Htail|].
  intros i n o w v A B. apply (Hfield (S i) n o w v); [rewrite Hoffs; exact A|exact B].
Qed.

(* ---- boxed boot-information tags -------------------------------------------------------------- *)
(* the result of a boxed constructor whose slices are the fixed fields (kind_base k - 8 bytes in
   total) followed by a variable part of a whole number of elements *)
Lemma boxed_ok p k fixed var pad :
  is_dst k = true -> len (List.concat fixed) = kind_base k - 8 -> len var mod tail_esize k = 0 ->
  kind_base k + len var < pow2_32 ->
  boxed p k (fixed ++ [var]) pad =
    Val (enc32 (kind_typ k) ++ enc32 (kind_base k + len var) ++ List.concat fixed ++ var
         ++ slice pad 0 (round8 (kind_base k + len var) - (kind_base k + len var))).
Proof.
  intros Hd Hf Hv Hs. pose proof (base_ge_8 k) as Hb.
  assert (Ec : content_len (fixed ++ [var]) = kind_base k - 8 + len var).
  { rewrite content_len_concat, concat_app, len_app, Hf. cbn [List.concat]. rewrite app_nil_r. reflexivity. }
  rewrite boxed_closed by (try exact Hd; rewrite Ec; unfold pow2_32 in *; lia).
  rewrite Ec. replace (8 + (kind_base k - 8 + len var)) with (kind_base k + len var) by lia.
  destruct (N.ltb_spec (kind_base k + len var) (kind_base k)); [lia|].
  replace (kind_base k + len var - kind_base k) with (len var) by lia. rewrite Hv.
  change (0 =? 0) with true. cbn [negb].
  rewrite concat_app. cbn [List.concat]. rewrite app_nil_r. rewrite <- !app_assoc. reflexivity.
Qed.

Lemma len_enc64 n : len (enc64 n) = 8. Proof. apply len_enc. Qed.
Lemma len_enc8 n : len (enc8 n) = 1. Proof. apply len_enc. Qed.
Lemma len_enc16 n : len (enc16 n) = 2. Proof. apply len_enc. Qed.

Lemma new_elf_closed p n es sh secs pad : 20 + len secs < pow2_32 ->
  new_elf p n es sh secs pad =
    Val (enc32 9 ++ enc32 (20 + len secs) ++ (enc32 n ++ enc32 es ++ enc32 sh) ++ secs
         ++ slice pad 0 (round8 (20 + len secs) - (20 + len secs))).
Proof.
  intros H. unfold new_elf. change [enc32 n; enc32 es; enc32 sh; secs] with ([enc32 n; enc32 es; enc32 sh] ++ [secs]).
  rewrite boxed_ok; try reflexivity; try assumption.
  all: try reflexivity; try assumption;
    try (cbn [List.concat]; rewrite ?app_nil_r, <- ?app_assoc; reflexivity);
    try (cbn [List.concat]; rewrite ?len_app, ?len_enc64, ?len_enc32, ?len_enc8, ?len_nil; reflexivity);
    try (apply N.mod_1_r).
Qed.

Lemma new_smbios_closed p major minor tables pad : 16 + len tables < pow2_32 ->
  new_smbios p major minor tables pad =
    Val (enc32 13 ++ enc32 (16 + len tables) ++ ((enc8 major ++ enc8 minor) ++ repeatN x00 6) ++ tables
         ++ slice pad 0 (round8 (16 + len tables) - (16 + len tables))).
Proof.
  intros H. unfold new_smbios.
  change [enc8 major ++ enc8 minor; repeatN x00 6; tables] with ([enc8 major ++ enc8 minor; repeatN x00 6] ++ [tables]).
  rewrite boxed_ok; try reflexivity; try assumption.
  all: try reflexivity; try assumption;
    try (cbn [List.concat]; rewrite ?app_nil_r, <- ?app_assoc; reflexivity);
    try (cbn [List.concat]; rewrite ?len_app, ?len_enc64, ?len_enc32, ?len_enc8, ?len_nil; reflexivity);
    try (apply N.mod_1_r).
Qed.

Lemma new_network_closed p dhcp pad : 8 + len dhcp < pow2_32 ->
  new_network p dhcp pad =
    Val (enc32 16 ++ enc32 (8 + len dhcp) ++ dhcp ++ slice pad 0 (round8 (8 + len dhcp) - (8 + len dhcp))).
Proof.
  intros H. unfold new_network. change [dhcp] with ([] ++ [dhcp]).
  rewrite boxed_ok; try reflexivity; try assumption.
  all: try reflexivity; try assumption;
    try (cbn [List.concat]; rewrite ?app_nil_r, <- ?app_assoc; reflexivity);
    try (cbn [List.concat]; rewrite ?len_app, ?len_enc64, ?len_enc32, ?len_enc8, ?len_nil; reflexivity);
    try (apply N.mod_1_r).

Qed.

Lemma new_efi_mmap_closed p d v mp pad : 16 + len mp < pow2_32 ->
  new_efi_mmap p d v mp pad =
    if d =? 0 then Panic
    else Val (enc32 17 ++ enc32 (16 + len mp) ++ (enc32 d ++ enc32 v) ++ mp
              ++ slice pad 0 (round8 (16 + len mp) - (16 + len mp))).
Proof.
  intros H. unfold new_efi_mmap, assert. destruct (d =? 0); cbn [negb bind]; [reflexivity|].
  change [enc32 d; enc32 v; mp] with ([enc32 d; enc32 v] ++ [mp]).
  rewrite boxed_ok; try reflexivity; try assumption.
  all: try reflexivity; try assumption;
    try (cbn [List.concat]; rewrite ?app_nil_r, <- ?app_assoc; reflexivity);
    try (cbn [List.concat]; rewrite ?len_app, ?len_enc64, ?len_enc32, ?len_enc8, ?len_nil; reflexivity);
    try (apply N.mod_1_r).
Qed.

Lemma len_area_bytes a : len (area_bytes a) = 24.
Proof. destruct a as [[b l] t]. unfold area_bytes. rewrite !len_app, !len_enc64, !len_enc32. reflexivity. Qed.

Lemma len_concat_areas areas : len (List.concat (map area_bytes areas)) = 24 * len areas.
Proof.
  induction areas as [|a r IH]; [reflexivity|]. cbn [map List.concat]. rewrite len_app, len_area_bytes, IH, len_cons. lia.
Qed.

Lemma new_mmap_closed p areas pad : 16 + 24 * len areas < pow2_32 ->
  new_mmap p areas pad =
    Val (enc32 6 ++ enc32 (16 + 24 * len areas) ++ (enc32 24 ++ enc32 0) ++ List.concat (map area_bytes areas)
         ++ slice pad 0 (round8 (16 + 24 * len areas) - (16 + 24 * len areas))).
Proof.
  intros H. unfold new_mmap.
  change [enc32 24; enc32 0; List.concat (map area_bytes areas)] with ([enc32 24; enc32 0] ++ [List.concat (map area_bytes areas)]).
  rewrite boxed_ok.
  - rewrite len_concat_areas. cbn [List.concat]. rewrite app_nil_r. reflexivity.
  - reflexivity.
  - reflexivity.
  - rewrite len_concat_areas. change (tail_esize KMmap) with 24. lia.
  - rewrite len_concat_areas. exact H.
Qed.

Lemma new_framebuffer_closed p addr pitch width height bpp a ser pad :
  fb_serialize a = Val ser -> 32 + len ser < pow2_32 ->
  new_framebuffer p addr pitch width height bpp a pad =
    Val (enc32 8 ++ enc32 (32 + len ser)
         ++ (enc64 addr ++ enc32 pitch ++ enc32 width ++ enc32 height ++ enc8 bpp ++ enc8 (fb_id a) ++ [x00; x00]) ++ ser
         ++ slice pad 0 (round8 (32 + len ser) - (32 + len ser))).
Proof.
  intros Hser H. unfold new_framebuffer. rewrite Hser. cbn [bind].
  change [enc64 addr; enc32 pitch; enc32 width; enc32 height; enc8 bpp; enc8 (fb_id a); [x00; x00]; ser]
    with ([enc64 addr; enc32 pitch; enc32 width; enc32 height; enc8 bpp; enc8 (fb_id a); [x00; x00]] ++ [ser]).
  rewrite boxed_ok; try reflexivity; try assumption.
  all: try reflexivity; try assumption;
    try (cbn [List.concat]; rewrite ?app_nil_r, <- ?app_assoc; reflexivity);
    try (cbn [List.concat]; rewrite ?len_app, ?len_enc64, ?len_enc32, ?len_enc8, ?len_nil; reflexivity);
    try (apply N.mod_1_r).
Qed.

(* ---- header crate: information request ---------------------------------------------------------- *)
Lemma len_concat_enc32 l : len (List.concat (map enc32 l)) = 4 * len l.
Proof. induction l as [|x r IH]; [reflexivity|]. cbn [map List.concat]. rewrite len_app, len_enc32, IH, len_cons. lia. Qed.

Lemma new_info_request_closed p flags reqs pad : 8 + 4 * len reqs < pow2_32 ->
  new_info_request p flags reqs pad =
    Val (enc16 1 ++ enc16 flags ++ enc32 (8 + 4 * len reqs) ++ List.concat (map enc32 reqs)
         ++ slice pad 0 (round8 (8 + 4 * len reqs) - (8 + 4 * len reqs))).
Proof.
  intros H. unfold new_info_request, new_boxed. cbn [hsize map sumN]. rewrite len_concat_enc32.
  unfold pow2_32 in H. replace (4 * len reqs + 0) with (4 * len reqs) by lia.
  rewrite uadd_ok by (unfold pow2_64; lia). cbn [bind].
  rewrite inc_align_spec by (unfold pow2_64; lia). cbn [bind].
  set (ts := 8 + 4 * len reqs) in *.
  assert (Eh : set_size HHdrTagH (enc16 1 ++ enc16 flags ++ enc32 0) ts = enc16 1 ++ enc16 flags ++ enc32 ts).
  { unfold set_size. rewrite app_assoc. rewrite slice_app_l_exact by (rewrite len_app, !len_enc16; reflexivity).
    rewrite <- app_assoc. reflexivity. }
  rewrite Eh. cbn [hkind_tdesc t_dstlen t_sizeof hkind_dstlen].
  assert (Es : le (slice (enc16 1 ++ enc16 flags ++ enc32 ts) 4 4) = ts).
  { rewrite app_assoc. rewrite slice_app_r by (rewrite len_app, !len_enc16; lia).
    rewrite len_app, !len_enc16. replace (4 - (2 + 2)) with 0 by lia. rewrite slice_enc32_all.
    apply le_enc32. unfold pow2_32. lia. }
  rewrite Es. change (hkind_base HkInfoReq) with 8. rewrite usub_ok by lia. cbn [bind]. unfold assert.
  replace ((ts - 8) mod 4 =? 0) with true by lia. cbn [bind].
  change (sd_size_of_val (hkind_struct HkInfoReq) (Some ((ts - 8) / 4))) with (align_up (8 + (ts - 8) / 4 * 4) 8).
  rewrite align_up_8. replace (8 + (ts - 8) / 4 * 4) with ts by lia. rewrite N.eqb_refl. cbn [bind].
  cbn [List.concat]. rewrite app_nil_r. rewrite <- !app_assoc. reflexivity.
Qed.

(* ---- as_bytes ------------------------------------------------------------------------------------------ *)
Lemma as_bytes_closed addr img :
  as_bytes addr img = if (8 <=? len img) && (addr mod 8 =? 0) && (len img mod 8 =? 0) then Val img else Panic.
Proof.
  unfold as_bytes, bytesref_check. cbn [hsize].
  destruct (N.ltb_spec (len img) 8); destruct (N.leb_spec 8 (len img)); try lia; cbn [unwrap bind andb]; [reflexivity|].
  destruct (addr mod 8 =? 0); cbn [negb unwrap bind andb]; [|reflexivity].
  destruct (len img mod 8 =? 0); reflexivity.
Qed.

(* sized constructors produce well-formed tag images (the hypothesis of C06 is what constructors deliver) *)
Lemma sized_wf k args pad :
  is_dst k = false ->
  Forall2 (fun ow v => fval_ok (snd ow) v) (spec_mbi_fields (kind_typ k)) args ->
  sd_size_of (kind_struct k) <= len pad ->
  wf_img (ctor_sized k args pad).
Proof.
  intros Hd Hok Hp. destruct (c07_sized k args pad Hd Hok Hp) as (_ & Hs & Hl & _).
  unfold wf_img. rewrite Hs, Hl. split; [|reflexivity]. destruct k; vm_compute; discriminate.
Qed.
