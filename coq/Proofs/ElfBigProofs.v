(* ELF-sections tags of ANY number of entries (n copies of one in-use section header): the typed getter finds the tag,
   sections() accepts it exactly when shndx designates one of its entries, and the iterator yields the n entries in order. *)
Require Import Bytes Outcome Layout Common TagType Mbi MbiTags MbiAccess WalkSpec Big BytesFacts ArithFacts CommonFacts
  IterFacts CastFacts C02Proofs C03Proofs C04Proofs BigProofs.
From Coq Require Import Lia ZArith ZifyN ZifyBool ZifyNat List String.
Import ListNotations.
Ltac Zify.zify_post_hook ::= Z.div_mod_to_equations.
Open Scope N_scope.

Section ElfBig.
  Variable entry : list byte.
  Variable n : nat.
  Variable sh : N.
  Let es := len entry.
  Local Notation nn := (N.of_nat n).
  Let ty := le (slice entry 4 4).
  Let tag := elf_big_tag n es sh entry.
  Let bs := elf_big_region n es sh entry.
  Let S := 20 + nn * es.
  Hypothesis Hes : es = 40 \/ es = 64.
  Hypothesis Huse : is_unused (elf_section_type ty) = false.
  Hypothesis HT : 44 + nn * es < pow2_32.
  Hypothesis Hsh : sh < pow2_32.

  Lemma L32' x : len (enc32 x) = 4.
  Proof. unfold enc32, len. rewrite enc_length. reflexivity. Qed.
  Lemma E32' x : x < pow2_32 -> le (enc32 x) = x.
  Proof. intros Hx. unfold enc32. rewrite le_enc. change (256 ^ N.of_nat 4) with pow2_32. apply N.mod_small. exact Hx. Qed.
  Lemma A32' x : slice (enc32 x) 0 4 = enc32 x.
  Proof. replace 4 with (len (enc32 x)) at 1 by apply L32'. apply slice_all. Qed.

  Lemma hdr20_len : len (elf_hdr20 nn es sh) = 20.
  Proof. unfold elf_hdr20. rewrite !len_app, !L32'. reflexivity. Qed.

  Lemma tag_len : len tag = 24 + nn * es.
  Proof.
    unfold tag, elf_big_tag. rewrite !len_app, hdr20_len, len_concat_repeat. fold es.
    change (len [x00; x00; x00; x00]) with 4. lia.
  Qed.

  (* the five words of the tag's fixed part *)
  Lemma tag_word o v : In (o, v) [(0, 9); (4, S); (8, nn); (12, es); (16, sh)] -> v < pow2_32 ->
    le (slice tag o 4) = v.
  Proof.
    intros Hin Hv. unfold tag, elf_big_tag.
    assert (Ho : o + 4 <= 20) by (cbn [In] in Hin; repeat (destruct Hin as [Hin|Hin]; [inversion Hin; lia|]); destruct Hin).
    rewrite slice_app_l_gen by (rewrite hdr20_len; exact Ho).
    unfold elf_hdr20. fold S.
    cbn [In] in Hin. destruct Hin as [Hin|[Hin|[Hin|[Hin|[Hin|[]]]]]]; inversion Hin; subst o v.
    - rewrite slice_app_l_gen by (rewrite L32'; lia). rewrite A32'. apply E32'. exact Hv.
    - rewrite slice_app_r by (rewrite L32'; lia). rewrite L32'. change (4 - 4) with 0.
      rewrite slice_app_l_gen by (rewrite L32'; lia). rewrite A32'. apply E32'. exact Hv.
    - rewrite slice_app_r by (rewrite L32'; lia). rewrite L32'. change (8 - 4) with 4.
      rewrite slice_app_r by (rewrite L32'; lia). rewrite L32'. change (4 - 4) with 0.
      rewrite slice_app_l_gen by (rewrite L32'; lia). rewrite A32'. apply E32'. exact Hv.
    - rewrite slice_app_r by (rewrite L32'; lia). rewrite L32'. change (12 - 4) with 8.
      rewrite slice_app_r by (rewrite L32'; lia). rewrite L32'. change (8 - 4) with 4.
      rewrite slice_app_r by (rewrite L32'; lia). rewrite L32'. change (4 - 4) with 0.
      rewrite slice_app_l_gen by (rewrite L32'; lia). rewrite A32'. apply E32'. exact Hv.
    - rewrite slice_app_r by (rewrite L32'; lia). rewrite L32'. change (16 - 4) with 12.
      rewrite slice_app_r by (rewrite L32'; lia). rewrite L32'. change (12 - 4) with 8.
      rewrite slice_app_r by (rewrite L32'; lia). rewrite L32'. change (8 - 4) with 4.
      rewrite slice_app_r by (rewrite L32'; lia). rewrite L32'. change (4 - 4) with 0.
      rewrite A32'. apply E32'. exact Hv.
  Qed.

  Lemma tag_size : le (slice tag 4 4) = S.
  Proof. apply tag_word; [cbn; tauto|unfold S; lia]. Qed.

  Lemma tag_ok : 8 <= le (slice tag 4 4) /\ round8 (le (slice tag 4 4)) = len tag /\ 16 + N.of_nat 1 * len tag < pow2_32.
  Proof.
    rewrite tag_size, tag_len. unfold S, round8. destruct Hes as [E|E]; rewrite E in *; repeat split; lia.
  Qed.

  Let T := 16 + N.of_nat 1 * len tag.
  Let m a := {| m_base := a; m_bytes := bs |}.

  (* bytes of the region inside the tag; entries inside the tag *)
  Lemma in_tag o w : o + w <= len tag -> slice bs (8 + o) w = slice tag o w.
  Proof.
    intros H. unfold bs, elf_big_region, big_region. fold tag.
    rewrite (app_assoc (enc32 _) (enc32 0)).
    replace (8 + o) with (len (enc32 (16 + N.of_nat 1 * len tag) ++ enc32 0) + N.of_nat 0 * len tag + o)
      by (rewrite len_app, !L32'; lia).
    apply slice_repeat; [lia|exact H].
  Qed.

  Lemma in_entry j : (j < n)%nat -> slice bs (28 + N.of_nat j * es) es = entry.
  Proof.
    intros Hj. replace (28 + N.of_nat j * es) with (8 + (20 + N.of_nat j * es)) by lia.
    rewrite in_tag by (rewrite tag_len; nia).
    unfold tag, elf_big_tag.
    replace (20 + N.of_nat j * es) with (len (elf_hdr20 nn es sh) + N.of_nat j * len entry + 0)
      by (rewrite hdr20_len; fold es; lia).
    rewrite slice_repeat by (fold es; lia || exact Hj). fold es. apply slice_all.
  Qed.

  Lemma bs_len : len bs = T.
  Proof. destruct tag_ok as (A & B & C). exact (big_len tag 1 A B C). Qed.
  Lemma bs_total : le (slice bs 0 4) = T.
  Proof. destruct tag_ok as (A & B & C). exact (big_total tag 1 A B C). Qed.

  (* the typed getter finds the tag and views it with n*es section bytes *)
  Lemma elf_big_get p a : a mod 8 = 0 ->
    get_tag p KElfSections (m a) {| d_off := 0; d_plen := T - 8 |} = Val (Some {| t_off := 8; t_meta := Some (nn * es) |}).
  Proof.
    intros Ha. destruct tag_ok as (A & B & C).
    destruct (big_run tag 1 A B C p a Ha) as [Hload _].
    unfold m, T.
    rewrite (get_tag_spec p a bs _ KElfSections _ true Ha ltac:(rewrite bs_len; unfold T; lia)
               ltac:(rewrite bs_total, bs_len; lia) Hload ltac:(rewrite bs_total; exact (big_walk tag 1 A B C))).
    fold T.
    unfold get_tag_closed, first_of_type, big_items_from. cbn [seq map app find i_off].
    pose proof (big_typ_at tag 1 A B C 0%nat ltac:(lia)) as Ety. change (big_region 1 tag) with bs in Ety.
    rewrite Ety. rewrite (tag_word 0 9) by (cbn; tauto || reflexivity).
    change (9 =? kind_typ KElfSections) with true. cbn [i_off i_size].
    unfold cast_closed. change (is_dst KElfSections) with true. change (kind_base KElfSections) with 20.
    change (tail_esize KElfSections) with 1. rewrite tag_size. unfold S.
    destruct (N.ltb_spec (20 + nn * es) 20) as [X|_]; [lia|].
    rewrite N.mod_1_r. cbn [N.eqb negb bind]. unfold big_off. rewrite N.div_1_r.
    replace (8 + N.of_nat 0 * len tag) with 8 by lia. replace (20 + nn * es - 20) with (nn * es) by lia. reflexivity.
  Qed.

  Let t0 := {| t_off := 8; t_meta := Some (nn * es) |}.
  Let str := 28 + (if nn =? 0 then 0 else sh * es).

  (* sections(): accepted exactly when the tag is empty or shndx designates one of its entries *)
  Lemma elf_big_sections p a :
    elf_sections p (m a) t0 =
      if (nn =? 0) || (sh <? nn) then Val {| el_cur := 28; el_rem := nn; el_es := es; el_str := str |} else Panic.
  Proof.
    assert (Hn : nn < pow2_32) by (destruct Hes as [E|E]; rewrite E in HT; lia).
    assert (He : es < pow2_32) by (destruct Hes as [E|E]; rewrite E; reflexivity).
    unfold elf_sections, fld.
    change (field_ow (kind_struct KElfSections) "number_of_sections") with (8, 4).
    change (field_ow (kind_struct KElfSections) "entry_size") with (12, 4).
    change (field_ow (kind_struct KElfSections) "shndx") with (16, 4).
    unfold m, t0. cbn [m_bytes t_off].
    rewrite !in_tag by (rewrite tag_len; lia).
    rewrite (tag_word 8 nn) by (cbn; tauto || exact Hn).
    rewrite (tag_word 12 es) by (cbn; tauto || exact He).
    rewrite (tag_word 16 sh) by (cbn; tauto || exact Hsh).
    unfold tail_count. cbn [t_meta]. rewrite N.leb_refl. cbn [assert bind].
    unfold tail_off. cbn [t_off]. change (sd_tail_off (kind_struct KElfSections)) with 20.
    destruct ((nn =? 0) || (sh <? nn)); cbn [assert bind]; reflexivity.
  Qed.

  Definition it_j (j : nat) : elf_iter :=
    {| el_cur := 28 + N.of_nat j * es; el_rem := N.of_nat (n - j); el_es := es; el_str := str |}.
  Definition sec_j (j : nat) : elf_section := {| es_inner := 28 + N.of_nat j * es; es_str := str; es_es := es |}.

  Lemma elf_big_type a j : (j < n)%nat -> elf_section_type_of (m a) (sec_j j) = Val (elf_section_type ty).
  Proof.
    intros Hj. unfold elf_section_type_of, elf_typ, elf_field, elf_get, sec_j. cbn [es_es es_inner].
    pose proof (in_entry j Hj) as Ee.
    assert (Hin : 28 + N.of_nat j * es + es <= len bs) by (rewrite bs_len; unfold T; rewrite tag_len; nia).
    destruct Hes as [E|E]; rewrite E in *.
    - change (40 =? 40) with true. cbn iota. unfold mrd, rd. cbn [m m_bytes].
      destruct (N.leb_spec (28 + N.of_nat j * 40 + 40) (len bs)) as [_|X]; [|lia]. cbn [bind].
      rewrite Ee. reflexivity.
    - change (64 =? 40) with false. change (64 =? 64) with true. cbn iota. unfold mrd, rd. cbn [m m_bytes].
      destruct (N.leb_spec (28 + N.of_nat j * 64 + 64) (len bs)) as [_|X]; [|lia]. cbn [bind].
      rewrite Ee. reflexivity.
  Qed.

  Lemma elf_big_next p a j fuel : (j < n)%nat ->
    elf_next (Datatypes.S fuel) p (m a) (it_j j) = Val (Some (sec_j j), it_j (Datatypes.S j)).
  Proof.
    intros Hj. cbn [elf_next].
    change (el_rem (it_j j)) with (N.of_nat (n - j)).
    destruct (N.eqb_spec (N.of_nat (n - j)) 0) as [X|_]; [lia|].
    change {| es_inner := el_cur (it_j j); es_str := el_str (it_j j); es_es := el_es (it_j j) |} with (sec_j j).
    rewrite elf_big_type by exact Hj. cbn [bind]. rewrite Huse.
    unfold it_j, sec_j. cbn [el_cur el_rem el_es el_str]. f_equal. f_equal. f_equal; lia.
  Qed.

  Lemma elf_big_next_end p a fuel : elf_next (Datatypes.S fuel) p (m a) (it_j n) = Val (None, it_j n).
  Proof. cbn [elf_next]. change (el_rem (it_j n)) with (N.of_nat (n - n)). rewrite Nat.sub_diag. reflexivity. Qed.

  Lemma elf_fuel_pos j : exists f, elf_fuel (it_j j) = Datatypes.S f.
  Proof. unfold elf_fuel. eexists. reflexivity. Qed.

  (* the iterator run to its end yields the n entries in order *)
  Lemma elf_big_collect p a : forall k j fuel, (j + k = n)%nat -> (k < fuel)%nat ->
    elf_collect fuel p (m a) (it_j j) = (map sec_j (seq j k), Val tt).
  Proof.
    induction k as [|k IH]; intros j fuel Hjk Hf; (destruct fuel as [|fuel]; [lia|]); cbn [elf_collect].
    - assert (j = n) by lia. subst j. destruct (elf_fuel_pos n) as [f ->]. rewrite elf_big_next_end. reflexivity.
    - destruct (elf_fuel_pos j) as [f ->]. rewrite elf_big_next by lia.
      rewrite (IH (Datatypes.S j) fuel) by lia. reflexivity.
  Qed.
End ElfBig.
