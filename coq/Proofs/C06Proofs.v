(* Proofs for C06 / C12: building then loading preserves exactly the supplied tags. *)
Require Import Bytes Outcome Layout Common TagType Mbi MbiTags Header HeaderTags Build WalkSpec
               BytesFacts ArithFacts CommonFacts IterFacts CastFacts BuildFacts C02Proofs C10Proofs C16Proofs.
From Coq Require Import Lia ZArith ZifyN ZifyBool ZifyNat String.
Ltac Zify.zify_post_hook ::= Z.div_mod_to_equations.
Open Scope list_scope.
Open Scope N_scope.

(* ---- slots ------------------------------------------------------------------------------------- *)
Lemma get_set_same l k v : get_slot (set_slot l k v) k = Some v.
Proof.
  induction l as [|[k' v'] r IH]; cbn [set_slot get_slot]; [rewrite N.eqb_refl; reflexivity|].
  destruct (N.eqb_spec k' k) as [->|Hne]; cbn [get_slot]; [rewrite N.eqb_refl; reflexivity|].
  destruct (N.eqb_spec k' k); [contradiction|exact IH].
Qed.
Lemma get_set_other l k v k2 : k2 <> k -> get_slot (set_slot l k v) k2 = get_slot l k2.
Proof.
  intros Hne. induction l as [|[k' v'] r IH]; cbn [set_slot get_slot].
  - destruct (N.eqb_spec k k2); [congruence|reflexivity].
  - destruct (N.eqb_spec k' k) as [->|Hne']; cbn [get_slot].
    + destruct (N.eqb_spec k k2); [congruence|reflexivity].
    + destruct (N.eqb_spec k' k2); [reflexivity|exact IH].
Qed.

(* ---- the walk over a sequence of well-formed tag images ---------------------------------------- *)
Definition img_size (t : list byte) : N := le (slice t 4 4).

Lemma wf_img_len t : wf_img t -> 8 <= len t /\ len t mod 8 = 0 /\ len t = round8 (img_size t) /\ 8 <= img_size t.
Proof. intros [A B]. unfold img_size. rewrite B. pose proof (round8_ge (le (slice t 4 4))). pose proof (round8_mod (le (slice t 4 4))). lia. Qed.

Fixpoint items_of (ts : list (list byte)) (off : N) : list item :=
  match ts with
  | [] => []
  | t :: r => {| i_off := off; i_size := img_size t |} :: items_of r (off + len t)
  end.

Lemma size_at_embedded pre t post : 8 <= len t -> size_at (pre ++ t ++ post) (len pre) = img_size t.
Proof.
  intros H. unfold size_at, img_size. rewrite slice_app_r by lia.
  replace (len pre + 4 - len pre) with 4 by lia. rewrite slice_app_l_gen by lia. reflexivity.
Qed.

Lemma walk_images : forall ts pre post total,
  Forall wf_img ts -> total = len pre + len (List.concat ts) ->
  walk (pre ++ List.concat ts ++ post) total (len pre) (items_of ts (len pre)) true.
Proof.
  induction ts as [|t r IH]; intros pre post total Hwf Ht.
  - cbn [List.concat items_of] in *. rewrite len_nil in Ht. replace total with (len pre) by lia. constructor.
  - pose proof (Forall_inv Hwf) as Hw. pose proof (Forall_inv_tail Hwf) as Hr. destruct (wf_img_len t Hw) as (A & B & C & D).
    cbn [List.concat items_of] in *. rewrite len_app in Ht.
    rewrite <- app_assoc.
    pose proof (size_at_embedded pre t (List.concat r ++ post) A) as Es.
    rewrite <- Es.
    apply W_step; rewrite ?Es; try lia.
    rewrite <- C.
    replace (pre ++ t ++ List.concat r ++ post) with ((pre ++ t) ++ List.concat r ++ post) by (rewrite <- app_assoc; reflexivity).
    replace (len pre + len t) with (len (pre ++ t)) by (rewrite len_app; reflexivity).
    apply IH; [exact Hr|rewrite len_app; lia].
Qed.

Lemma items_of_app ts1 ts2 off : items_of (ts1 ++ ts2) off = items_of ts1 off ++ items_of ts2 (off + len (List.concat ts1)).
Proof.
  revert off. induction ts1 as [|t r IH]; intro off; cbn [app items_of List.concat].
  - rewrite len_nil, N.add_0_r. reflexivity.
  - rewrite IH, len_app. f_equal. f_equal. f_equal. lia.
Qed.

(* each image sits byte-identically at the offset of its item *)
Lemma images_embedded : forall ts pre post i t,
  nth_error ts i = Some t ->
  exists off, nth_error (items_of ts (len pre)) i = Some {| i_off := off; i_size := img_size t |} /\
              slice (pre ++ List.concat ts ++ post) off (len t) = t.
Proof.
  induction ts as [|t0 r IH]; intros pre post i t Hn; [destruct i; discriminate|].
  destruct i as [|i]; cbn [nth_error] in Hn.
  - injection Hn as <-. exists (len pre). cbn [items_of nth_error List.concat]. split; [reflexivity|].
    rewrite <- app_assoc. apply slice_app_mid. reflexivity.
  - cbn [items_of nth_error List.concat]. rewrite <- app_assoc.
    replace (pre ++ t0 ++ List.concat r ++ post) with ((pre ++ t0) ++ List.concat r ++ post) by (rewrite <- app_assoc; reflexivity).
    replace (len pre + len t0) with (len (pre ++ t0)) by (rewrite len_app; reflexivity).
    apply IH. exact Hn.
Qed.

Lemma wf_end_tag : wf_img END_TAG.
Proof. split; vm_compute; [discriminate|reflexivity]. Qed.

Lemma concat_len_mod8 ts : Forall wf_img ts -> len (List.concat ts) mod 8 = 0.
Proof.
  induction 1 as [|t r Hw _ IH]; [reflexivity|]. cbn [List.concat]. rewrite len_app.
  destruct (wf_img_len t Hw) as (_ & B & _). lia.
Qed.

(* ---- the boot-information builder ---------------------------------------------------------------- *)
Definition built_image (slices : list (list byte)) : list byte :=
  enc32 (8 + len (List.concat (slices ++ [END_TAG]))) ++ enc32 0 ++ List.concat (slices ++ [END_TAG]).

Lemma builder_build_closed p b pad :
  Forall wf_img (builder_slices b) -> 8 + len (List.concat (builder_slices b ++ [END_TAG])) < pow2_32 ->
  builder_build p b pad = Val (built_image (builder_slices b)).
Proof.
  intros Hwf Hs. unfold builder_build.
  assert (Hc : content_len (builder_slices b ++ [END_TAG]) = len (List.concat (builder_slices b ++ [END_TAG])))
    by apply content_len_concat.
  rewrite new_boxed_generic by (cbn [hsize]; rewrite ?Hc; try reflexivity; assumption).
  cbn [hsize]. rewrite Hc. unfold built_image.
  assert (H8 : len (List.concat (builder_slices b ++ [END_TAG])) mod 8 = 0).
  { apply concat_len_mod8. apply Forall_app. split; [exact Hwf|constructor; [apply wf_end_tag|constructor]]. }
  rewrite round8_id by lia.
  replace (8 + len (List.concat (builder_slices b ++ [END_TAG])) - (8 + len (List.concat (builder_slices b ++ [END_TAG])))) with 0 by lia.
  unfold set_size. rewrite slice_app_r by (rewrite len_enc32; lia). rewrite len_enc32. replace (4 - 4) with 0 by lia.
  rewrite slice_enc32_all. change (slice pad 0 0) with (@nil byte). rewrite app_nil_r. rewrite <- app_assoc. reflexivity.
Qed.

Lemma built_image_props a slices :
  Forall wf_img slices -> 8 + len (List.concat (slices ++ [END_TAG])) < pow2_32 -> a mod 8 = 0 ->
  let img := built_image slices in
  let total := len img in
  total mod 8 = 0 /\ le (slice img 0 4) = total /\
  (forall p, mbi_load p false {| m_base := a; m_bytes := img |} = Val {| d_off := 0; d_plen := total - 8 |}) /\
  walk img total 8 (items_of (slices ++ [END_TAG]) 8) true /\
  slice img (total - 8) 8 = END_TAG /\
  (forall i t, nth_error slices i = Some t ->
     exists off, nth_error (items_of (slices ++ [END_TAG]) 8) i = Some {| i_off := off; i_size := img_size t |} /\
                 slice img off (len t) = t).
Proof.
  intros Hwf Hs Ha. cbv zeta. set (img := built_image slices). remember (len img) as total eqn:Etot.
  assert (Hwf' : Forall wf_img (slices ++ [END_TAG])).
  { apply Forall_app. split; [exact Hwf|constructor; [apply wf_end_tag|constructor]]. }
  pose proof (concat_len_mod8 _ Hwf') as H8.
  set (c := List.concat (slices ++ [END_TAG])) in *.
  assert (Hpre : len (enc32 (8 + len c) ++ enc32 0) = 8) by (rewrite len_app, !len_enc32; reflexivity).
  assert (Htot : total = 8 + len c).
  { rewrite Etot. unfold img, built_image. fold c. rewrite !len_app, !len_enc32. lia. }
  assert (Himg : img = (enc32 (8 + len c) ++ enc32 0) ++ c ++ []).
  { unfold img, built_image. fold c. rewrite app_nil_r, <- app_assoc. reflexivity. }
  assert (Hlo : le (slice img 0 4) = total).
  { unfold img, built_image. fold c. rewrite slice_app_l_exact by (rewrite len_enc32; reflexivity).
    rewrite le_enc32 by exact Hs. lia. }
  assert (Hend : len c >= 8).
  { unfold c. rewrite concat_app, len_app. cbn [List.concat]. rewrite app_nil_r. change (len END_TAG) with 8. lia. }
  assert (Hlast : slice img (total - 8) 8 = END_TAG).
  { rewrite Himg, app_nil_r. rewrite slice_app_r by lia. rewrite Hpre.
    unfold c. rewrite concat_app. cbn [List.concat]. rewrite app_nil_r.
    rewrite slice_app_r by (rewrite Htot; unfold c; rewrite concat_app, len_app; cbn [List.concat]; rewrite app_nil_r; change (len END_TAG) with 8; lia).
    replace (total - 8 - 8 - len (List.concat slices)) with 0.
    - change 8 with (len END_TAG) at 1. apply slice_all.
    - rewrite Htot. unfold c. rewrite concat_app, len_app. cbn [List.concat]. rewrite app_nil_r. change (len END_TAG) with 8. lia. }
  split; [lia|]. split; [exact Hlo|]. split; [|split; [|split]].
  - intro p.
    assert (G1 : 8 <= len img) by (rewrite <- Etot, Htot; lia).
    assert (G2 : le (slice img 0 4) <= len img) by (rewrite Hlo, <- Etot; lia).
    rewrite (c02_load_spec p a img Ha G1 G2).
    unfold c02_closed. rewrite Hlo.
    destruct (N.ltb_spec total 8); [lia|]. replace (total mod 8 =? 0) with true by lia. cbn [negb].
    assert (E1 : slice img (total - 8) 4 = slice END_TAG 0 4).
    { rewrite <- Hlast. rewrite slice_slice by lia. f_equal. lia. }
    assert (E2 : slice img (total - 4) 4 = slice END_TAG 4 4).
    { rewrite <- Hlast. rewrite slice_slice by lia. f_equal. lia. }
    rewrite E1, E2. reflexivity.
  - rewrite Himg. rewrite <- Hpre at 2 3. apply walk_images; [exact Hwf'|rewrite Hpre; subst c; lia].
  - exact Hlast.
  - intros i t Hn. rewrite Himg.
    replace (items_of (slices ++ [END_TAG]) 8) with (items_of (slices ++ [END_TAG]) (len (enc32 (8 + len c) ++ enc32 0)))
      by (rewrite Hpre; reflexivity).
    apply images_embedded. rewrite nth_error_app1; [exact Hn|]. apply nth_error_Some. congruence.
Qed.

(* ---- which tags the builder retains ------------------------------------------------------------- *)
Fixpoint run_calls (b : builder) (calls : list (N * list byte)) : res builder :=
  match calls with
  | [] => Val b
  | (slot, img) :: r => b' <- builder_call b slot img ;; run_calls b' r
  end.

Definition is_custom_img (img : list byte) : bool :=
  match tagtype_of_u32 (tag_typ_of img) with Custom _ => true | _ => false end.
Definition repeatable (slot : N) : bool := (slot =? 3) || (slot =? 13) || (slot =? 22).

Definition imgs_of (slot : N) (calls : list (N * list byte)) : list (list byte) :=
  map snd (filter (fun c => fst c =? slot) calls).
Definition last_of (slot : N) (calls : list (N * list byte)) : option (list byte) :=
  match rev (imgs_of slot calls) with x :: _ => Some x | [] => None end.

Lemma imgs_of_cons slot s img r :
  imgs_of slot ((s, img) :: r) = if s =? slot then img :: imgs_of slot r else imgs_of slot r.
Proof. unfold imgs_of. cbn [filter fst]. destruct (s =? slot); reflexivity. Qed.

Lemma last_of_cons slot s img r :
  last_of slot ((s, img) :: r) = match last_of slot r with Some x => Some x | None => if s =? slot then Some img else None end.
Proof.
  unfold last_of. rewrite imgs_of_cons. destruct (s =? slot).
  - cbn [rev]. destruct (rev (imgs_of slot r)) as [|x l]; reflexivity.
  - destruct (rev (imgs_of slot r)) as [|x l]; reflexivity.
Qed.

Lemma run_calls_spec : forall calls b,
  (forall img, In (22, img) calls -> is_custom_img img = true) ->
  exists b', run_calls b calls = Val b' /\
    b_modules b' = b_modules b ++ imgs_of 3 calls /\
    b_smbios b' = b_smbios b ++ imgs_of 13 calls /\
    b_custom b' = b_custom b ++ imgs_of 22 calls /\
    (forall k, repeatable k = false ->
       get_slot (b_single b') k = match last_of k calls with Some x => Some x | None => get_slot (b_single b) k end).
Proof.
  induction calls as [|[s img] r IH]; intros b Hc.
  - exists b. cbn [run_calls]. unfold imgs_of, last_of. cbn. rewrite !app_nil_r. repeat split; reflexivity.
  - cbn [run_calls]. unfold builder_call.
    assert (Hc' : forall img0, In (22, img0) r -> is_custom_img img0 = true) by (intros i Hi; apply Hc; right; exact Hi).
    destruct (s =? 3) eqn:E3; [|destruct (s =? 13) eqn:E13; [|destruct (s =? 22) eqn:E22]].
    + apply N.eqb_eq in E3. subst s. cbn [bind].
      destruct (IH {| b_single := b_single b; b_modules := b_modules b ++ [img]; b_smbios := b_smbios b; b_custom := b_custom b |} Hc')
        as (b' & E & A & B & C & D). exists b'. split; [exact E|].
      cbn [b_modules b_smbios b_custom b_single] in *. rewrite !imgs_of_cons.
      change (3 =? 3) with true. change (3 =? 13) with false. change (3 =? 22) with false. cbv iota.
      rewrite A, <- app_assoc. split; [reflexivity|]. split; [exact B|]. split; [exact C|].
      intros k Hk. rewrite D by exact Hk. rewrite last_of_cons.
      destruct (N.eqb_spec 3 k) as [<-|]; [discriminate Hk|]. destruct (last_of k r); reflexivity.
    + apply N.eqb_eq in E13. subst s. cbn [bind].
      destruct (IH {| b_single := b_single b; b_modules := b_modules b; b_smbios := b_smbios b ++ [img]; b_custom := b_custom b |} Hc')
        as (b' & E & A & B & C & D). exists b'. split; [exact E|].
      cbn [b_modules b_smbios b_custom b_single] in *. rewrite !imgs_of_cons.
      change (13 =? 3) with false. change (13 =? 13) with true. change (13 =? 22) with false. cbv iota.
      rewrite B, <- app_assoc. split; [exact A|]. split; [reflexivity|]. split; [exact C|].
      intros k Hk. rewrite D by exact Hk. rewrite last_of_cons.
      destruct (N.eqb_spec 13 k) as [<-|]; [discriminate Hk|]. destruct (last_of k r); reflexivity.
    + apply N.eqb_eq in E22. subst s.
      specialize (Hc img (or_introl eq_refl)). unfold is_custom_img in Hc.
      destruct (tagtype_of_u32 (tag_typ_of img)); try discriminate Hc. cbn [bind].
      destruct (IH {| b_single := b_single b; b_modules := b_modules b; b_smbios := b_smbios b; b_custom := b_custom b ++ [img] |} Hc')
        as (b' & E & A & B & C & D). exists b'. split; [exact E|].
      cbn [b_modules b_smbios b_custom b_single] in *. rewrite !imgs_of_cons.
      change (22 =? 3) with false. change (22 =? 13) with false. change (22 =? 22) with true. cbv iota.
      rewrite C, <- app_assoc. split; [exact A|]. split; [exact B|]. split; [reflexivity|].
      intros k Hk. rewrite D by exact Hk. rewrite last_of_cons.
      destruct (N.eqb_spec 22 k) as [<-|]; [discriminate Hk|]. destruct (last_of k r); reflexivity.
    + cbn [bind].
      destruct (IH {| b_single := set_slot (b_single b) s img; b_modules := b_modules b; b_smbios := b_smbios b; b_custom := b_custom b |} Hc')
        as (b' & E & A & B & C & D). exists b'. split; [exact E|].
      cbn [b_modules b_smbios b_custom b_single] in *. rewrite !imgs_of_cons. rewrite E3, E13, E22.
      split; [exact A|]. split; [exact B|]. split; [exact C|].
      intros k Hk. rewrite D by exact Hk. rewrite last_of_cons.
      destruct (last_of k r) as [x|]; [reflexivity|].
      destruct (N.eqb_spec s k) as [->|Hne]; [apply get_set_same|apply get_set_other; congruence].
Qed.

(* ---- constructor outputs are well-formed images; the retained tags are among the supplied ones ---- *)
Lemma Val_inj {A} (a b : A) : Val a = Val b -> a = b.
Proof. congruence. Qed.

Lemma boxed_wf p k slices pad img : is_dst k = true -> 8 + content_len slices < pow2_32 -> 8 <= len pad ->
  boxed p k slices pad = Val img -> wf_img img.
Proof.
  intros Hd Hs Hp H. rewrite boxed_closed in H by assumption.
  set (ts := 8 + content_len slices) in *.
  destruct (ts <? kind_base k); [discriminate|]. destruct (negb _); [discriminate|]. apply Val_inj in H. subst img.
  assert (E4 : slice (enc32 (kind_typ k) ++ enc32 ts ++ List.concat slices ++ slice pad 0 (round8 ts - ts)) 4 4 = enc32 ts).
  { rewrite <- (len_enc32 (kind_typ k)) at 2. apply slice_app_mid. rewrite len_enc32. reflexivity. }
  unfold wf_img. rewrite E4, le_enc32 by exact Hs. split; [unfold ts; lia|].
  rewrite !len_app, !len_enc32, len_concat, len_slice. fold (content_len slices).
  pose proof (round8_ge ts). pose proof (round8_lt ts). unfold ts in *. lia.
Qed.

Lemma in_imgs_of slot calls x : In x (imgs_of slot calls) -> In x (map snd calls).
Proof.
  unfold imgs_of. intros H. apply in_map_iff in H. destruct H as ([s i] & <- & Hin). apply filter_In in Hin.
  apply in_map_iff. exists (s, i). split; [reflexivity|apply Hin].
Qed.

Lemma last_of_in slot calls x : last_of slot calls = Some x -> In x (map snd calls).
Proof.
  unfold last_of. destruct (rev (imgs_of slot calls)) as [|y l] eqn:E; [discriminate|]. intros H. injection H as ->.
  apply (in_imgs_of slot). apply in_rev. rewrite E. left. reflexivity.
Qed.

Lemma retained_subset calls b' (P : list byte -> Prop) :
  (forall img, In (22, img) calls -> is_custom_img img = true) ->
  run_calls builder_new calls = Val b' -> Forall P (map snd calls) -> Forall P (builder_slices b').
Proof.
  intros Hc Hr HP. destruct (run_calls_spec calls builder_new Hc) as (b2 & E & Am & As & Ac & Ag).
  rewrite Hr in E. injection E as <-. cbn [builder_new b_modules b_smbios b_custom b_single app] in *.
  rewrite Forall_forall in HP.
  assert (Hslot : forall k, repeatable k = false -> Forall P (opt_list (get_slot (b_single b') k))).
  { intros k Hk. rewrite (Ag k Hk). cbn [get_slot]. destruct (last_of k calls) as [x|] eqn:El; cbn [opt_list]; [|constructor].
    constructor; [apply HP; apply (last_of_in k); exact El|constructor]. }
  assert (Hl : forall slot, Forall P (imgs_of slot calls)).
  { intros slot. apply Forall_forall. intros x Hx. apply HP. apply (in_imgs_of slot). exact Hx. }
  unfold builder_slices. rewrite Am, As, Ac.
  repeat (apply Forall_app; split); try (apply Hslot; reflexivity); apply Hl.
Qed.
