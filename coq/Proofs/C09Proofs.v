(* Proofs for C09: no sequence of safe API calls on a loaded header faults, provided the enumerated
   fields of the header and of its tags hold defined values. *)
Require Import Bytes Outcome Layout Common TagType Mbi Header HeaderTags HHandles WalkSpec
               BytesFacts ArithFacts CommonFacts IterFacts CastFacts HCastFacts C10Proofs C11Proofs.
From Coq Require Import Lia ZArith ZifyN ZifyBool ZifyNat String.
Ltac Zify.zify_post_hook ::= Z.div_mod_to_equations.
Open Scope list_scope.
Open Scope N_scope.

Record hregion_ok (m : mem) (total : N) : Prop := {
  hr_al : m_base m mod 8 = 0;
  hr_t : total = le (slice (m_bytes m) 8 4);
  hr_in : total <= len (m_bytes m);
  hr_16 : 16 <= total;
  hr_m8 : total mod 8 = 0;
  hr_arch : arch_defined (le (slice (m_bytes m) 4 4)) = true
}.

Definition hboot_ref (total : N) : dref := {| d_off := 0; d_plen := total - 16 |}.

(* the enumerated fields of one tag: type, flags, and - for console / relocatable tags large enough to
   have them - console flags and relocation preference *)
Definition tag_enums_ok (bs : list byte) (it : item) : Prop :=
  htyp_at bs (i_off it) <= 10 /\ le (slice bs (i_off it + 2) 2) <= 1 /\
  (htyp_at bs (i_off it) = 4 -> le (slice bs (i_off it + 8) 4) <= 1) /\
  (htyp_at bs (i_off it) = 10 -> le (slice bs (i_off it + 20) 4) <= 2).

Definition walk_enums_ok (m : mem) (total off : N) : Prop :=
  exists l ok, walk (m_bytes m) total off l ok /\ Forall (tag_enums_ok (m_bytes m)) l.

Definition hgref_ok (m : mem) (total : N) (g : dref) : Prop :=
  16 <= d_off g /\ d_off g mod 8 = 0 /\ 8 <= size_at (m_bytes m) (d_off g) /\
  d_plen g = size_at (m_bytes m) (d_off g) - 8 /\ d_off g + round8 (size_at (m_bytes m) (d_off g)) <= total /\
  tag_enums_ok (m_bytes m) {| i_off := d_off g; i_size := size_at (m_bytes m) (d_off g) |}.

Definition htref_ok (m : mem) (total : N) (k : hkind2) (t : tref) : Prop :=
  exists g, hgref_ok m total g /\ htyp_at (m_bytes m) (d_off g) = hkind_typ k /\
            hcast_closed k (d_off g) (size_at (m_bytes m) (d_off g)) = Val t.

Definition HInv (m : mem) (total : N) (h : hhandle) : Prop :=
  match h with
  | HhHeader r => r = hboot_ref total /\ walk_enums_ok m total 16
  | HhIter r nxt => r = hboot_ref total /\ nxt mod 8 = 0 /\ nxt <= total - 16 /\ walk_enums_ok m total (16 + nxt)
  | HhGen g => hgref_ok m total g
  | HhTag k t => htref_ok m total k t
  | HhView off n => off + n <= total
  | HhVal => True
  end.

Definition houtcome_ok (m : mem) (total : N) (r : res (list hhandle)) : Prop :=
  match r with
  | Val hs => Forall (HInv m total) hs
  | Err _ => True
  | Panic => True
  | Fault _ => False
  end.

Lemma hinv1 m total h : HInv m total h -> Forall (HInv m total) [h].
Proof. intros H. constructor; [exact H|constructor]. Qed.
Lemma hinv2 m total h1 h2 : HInv m total h1 -> HInv m total h2 -> Forall (HInv m total) [h1; h2].
Proof. intros H1 H2. constructor; [exact H1|apply hinv1; exact H2]. Qed.

Lemma hregion_iter_ok m total : hregion_ok m total -> iter_ok HHdrTagH m 16 (total - 16).
Proof.
  intros [A B C D E F]. pose proof (le_slice4_bound (m_bytes m) 8) as Hb. unfold pow2_32 in *.
  constructor; try reflexivity; try lia. unfold pow2_32. lia.
Qed.

Lemma item_hgref_ok m total off l ok it : walk (m_bytes m) total off l ok -> 16 <= off -> off mod 8 = 0 ->
  Forall (tag_enums_ok (m_bytes m)) l -> In it l -> hgref_ok m total (dref_of it).
Proof.
  intros W H16 Ha He Hin. pose proof (walk_items_inside _ _ _ _ _ W Ha) as F. rewrite Forall_forall in F, He.
  destruct (F it Hin) as (A & B & C & D & E). specialize (He it Hin).
  unfold hgref_ok, dref_of. cbn [d_off d_plen]. rewrite <- E. destruct it as [o s]. cbn [i_off i_size] in *.
  repeat split; try lia; apply He.
Qed.

Lemma enum_ok v hi : v <= hi -> enum_in v hi = Val v.
Proof. intros H. unfold enum_in. destruct (N.leb_spec v hi); [reflexivity|lia]. Qed.

(* next(): yields the head of the walk from the iterator's position *)
Lemma hnext_inv p m total nxt : hregion_ok m total -> nxt mod 8 = 0 -> nxt <= total - 16 ->
  walk_enums_ok m total (16 + nxt) ->
  match tagiter_next p HHdrTagH m 16 (total - 16) nxt with
  | Val (Some g, n') => hgref_ok m total g /\ n' mod 8 = 0 /\ n' <= total - 16 /\ walk_enums_ok m total (16 + n')
  | Val (None, n') => n' mod 8 = 0 /\ n' <= total - 16 /\ walk_enums_ok m total (16 + n')
  | Panic => True
  | _ => False
  end.
Proof.
  intros Hr Hn Hle (l & ok & W & He). pose proof (hregion_iter_ok m total Hr) as Hok. destruct Hr as [A B C D E F].
  rewrite tagiter_next_closed by assumption. unfold next_closed.
  destruct (N.eqb_spec nxt (total - 16)) as [->|Hne].
  { repeat split; try lia. exists l, ok. split; assumption. }
  rewrite (stored_size_8 HHdrTagH _ _ eq_refl).
  set (size := size_at (m_bytes m) (16 + nxt)).
  destruct (N.ltb_spec size 8) as [H8|H8]; [exact I|].
  destruct (N.ltb_spec (total - 16) (nxt + round8 size)) as [Ho|Ho]; [exact I|].
  apply walk_inv in W. fold size in W.
  destruct W as [(X & _)|[(X & Y & _)|[(X & Y & Z & _)|(X & Y & Z & l' & -> & W')]]]; try (exfalso; lia).
  pose proof (Forall_inv He) as He0. pose proof (Forall_inv_tail He) as He'.
  pose proof (round8_ge size) as Rg. pose proof (round8_mod size) as Rm.
  split.
  - unfold hgref_ok. cbn [d_off d_plen]. fold size. repeat split; try lia; apply He0.
  - split; [lia|]. split; [lia|]. exists l', ok.
    replace (16 + (nxt + round8 size)) with (16 + nxt + round8 size) by lia. split; [exact W'|exact He'].
Qed.

Lemma hcast_inv p m total k g : hregion_ok m total -> hgref_ok m total g -> htyp_at (m_bytes m) (d_off g) = hkind_typ k ->
  match hcast_kind p k m g with
  | Val t => htref_ok m total k t
  | Panic => True
  | _ => False
  end.
Proof.
  intros [A B C D E F] Hg Hty. pose proof Hg as (G1 & G2 & G3 & G4 & G5 & G6).
  rewrite hcast_kind_closed; try assumption; [|unfold round8 in *; lia].
  destruct (hcast_closed k (d_off g) (size_at (m_bytes m) (d_off g))) as [t| | |] eqn:Ec.
  - exists g. split; [exact Hg|]. split; [exact Hty|exact Ec].
  - unfold hcast_closed in Ec. destruct k; repeat (match type of Ec with (if ?c then _ else _) = _ => destruct c end); discriminate.
  - exact I.
  - unfold hcast_closed in Ec. destruct k; repeat (match type of Ec with (if ?c then _ else _) = _ => destruct c end); discriminate.
Qed.

Lemma hget_tag_inv p m total k : hregion_ok m total -> walk_enums_ok m total 16 ->
  match hget_tag p k m (hboot_ref total) with
  | Val (Some t) => htref_ok m total k t
  | Val None => True
  | Panic => True
  | _ => False
  end.
Proof.
  intros Hr (l & ok & W & He). pose proof (hregion_iter_ok m total Hr) as Hok.
  assert (Hty : types_defined (m_bytes m) l) by (eapply Forall_impl; [|exact He]; intros it H; apply H).
  unfold hget_tag, hboot_ref. cbn [d_off d_plen]. change (0 + 16) with 16.
  destruct Hr as [A B C D E F].
  rewrite (hfind_walk p m 16 (total - 16) (hkind_typ k) Hok _ 0 l ok); try reflexivity; try lia;
    [|unfold iter_fuel; lia|replace (16 + (total - 16)) with total by lia; rewrite N.add_0_r; exact W|exact Hty].
  unfold hfind_closed.
  destruct (find (fun it => htyp_at (m_bytes m) (i_off it) =? hkind_typ k) l) as [it|] eqn:Ef; cbn [bind].
  - assert (Hin : In it l /\ htyp_at (m_bytes m) (i_off it) = hkind_typ k).
    { clear - Ef. induction l as [|y l IH]; [discriminate|]. cbn [find] in Ef.
      destruct (N.eqb_spec (htyp_at (m_bytes m) (i_off y)) (hkind_typ k)) as [E|E].
      - injection Ef as ->. split; [left; reflexivity|exact E].
      - destruct (IH Ef) as [I1 I2]. split; [right; exact I1|exact I2]. }
    destruct Hin as [Hin Hty'].
    pose proof (item_hgref_ok m total 16 l ok it W ltac:(lia) eq_refl He Hin) as G.
    pose proof (hcast_inv p m total k (dref_of it) (Build_hregion_ok _ _ A B C D E F) G Hty') as Cst.
    destruct (hcast_kind p k m (dref_of it)) as [t| | |]; cbn [bind]; exact Cst.
  - destruct ok; exact I.
Qed.

Lemma htref_extent m total k t : htref_ok m total k t ->
  16 <= t_off t /\ exists size, size = size_at (m_bytes m) (t_off t) /\ 8 <= size /\ t_off t + round8 size <= total /\
    htref_size_of_val k t = round8 size /\
    tag_enums_ok (m_bytes m) {| i_off := t_off t; i_size := size |} /\ htyp_at (m_bytes m) (t_off t) = hkind_typ k /\
    (k = HkInfoReq -> hrequests t = (t_off t + 8, (size - 8) / 4) /\ (size - 8) mod 4 = 0).
Proof.
  intros (g & (G1 & G2 & G3 & G4 & G5 & G6) & Hty & Hc). unfold hcast_closed in Hc.
  set (size := size_at (m_bytes m) (d_off g)) in *.
  destruct k.
  all: try (match type of Hc with (if ?c then _ else _) = _ => destruct c eqn:H1 end; [|discriminate Hc];
            apply N.eqb_eq in H1;
            injection Hc as <-; cbn [t_off t_meta]; split; [exact G1|]; exists size;
            split; [reflexivity|]; split; [exact G3|]; split; [exact G5|];
            split; [unfold htref_size_of_val; cbn [t_meta]; symmetry; exact H1|];
            split; [exact G6|]; split; [exact Hty|]; discriminate).
  destruct (N.eqb_spec ((size - 8) mod 4) 0) as [H4|X]; cbn [negb] in Hc; [|discriminate].
  injection Hc as <-. cbn [t_off t_meta]. split; [exact G1|]. exists size.
  split; [reflexivity|]. split; [exact G3|]. split; [exact G5|]. split.
  - unfold htref_size_of_val. cbn [t_meta].
    change (sd_size_of_val (hkind_struct HkInfoReq) (Some ((size - 8) / 4))) with (align_up (8 + (size - 8) / 4 * 4) 8).
    rewrite align_up_8. f_equal. lia.
  - split; [exact G6|]. split; [exact Hty|]. intros _. unfold hrequests. cbn [t_off t_meta]. split; [reflexivity|exact H4].
Qed.

Lemma hunit_step m total (r : res N) : is_fault r = false -> houtcome_ok m total (bind r (fun _ => hret [HhVal])).
Proof. destruct r; cbn [bind houtcome_ok is_fault]; intros H; try exact I; try discriminate. apply hinv1. exact I. Qed.

Ltac hnil := unfold hret; cbn [houtcome_ok]; apply Forall_nil.

Theorem hstep_safe p m total h o : hregion_ok m total -> HInv m total h -> houtcome_ok m total (hstep p m h o).
Proof.
  intros Hr Hinv. pose proof Hr as [R1 R2 R3 R4 R5 R6].
  destruct h as [r|r nxt|g|k t|off n|]; cbn [HInv] in Hinv.
  - (* header *) destruct Hinv as [-> Hw].
    destruct o; cbn [hstep]; try hnil.
    + apply hinv1. cbn [HInv]. repeat split; try lia. rewrite N.add_0_r. exact Hw.
    + pose proof (hget_tag_inv p m total k Hr Hw) as G.
      destruct (hget_tag p k m (hboot_ref total)) as [[t|]| | |]; cbn [bind houtcome_ok]; try exact G; try exact I.
      * apply hinv1. exact G.
      * constructor.
    + unfold verify_checksum, hdr_arch, hboot_ref. cbn [d_off]. rewrite N.add_0_l. rewrite R6. cbn [bind houtcome_ok].
      apply hinv1. exact I.
  - (* iterator *) destruct Hinv as (-> & Hn & Hle & Hw).
    destruct o; cbn [hstep]; try hnil.
    + unfold hboot_ref. cbn [d_off d_plen]. change (0 + 16) with 16.
      pose proof (hnext_inv p m total nxt Hr Hn Hle Hw) as N.
      destruct (tagiter_next p HHdrTagH m 16 (total - 16) nxt) as [[[g|] n']| | |]; cbn [bind houtcome_ok]; try exact N; try exact I.
      * destruct N as (G & A & B & C). apply hinv2; cbn [HInv]; [repeat split; assumption|exact G].
      * destruct N as (A & B & C). apply hinv1; cbn [HInv]; repeat split; assumption.
    + apply hinv1; cbn [HInv]; repeat split; assumption.
  - (* generic tag *) pose proof Hinv as (G1 & G2 & G3 & G4 & G5 & (E1 & E2 & E3 & E4)). cbn [i_off] in *.
    destruct o; cbn [hstep]; try hnil.
    + unfold htag_typ. fold (htyp_at (m_bytes m) (d_off g)). rewrite (enum_ok _ _ E1). cbn [bind].
      destruct (N.eqb_spec (htyp_at (m_bytes m) (d_off g)) (hkind_typ k)) as [Ety|]; [|hnil].
      pose proof (hcast_inv p m total k g Hr Hinv Ety) as C.
      destruct (hcast_kind p k m g) as [t| | |]; cbn [bind houtcome_ok]; try exact C; try exact I.
      apply hinv1. exact C.
    + apply hinv1. cbn [HInv]. rewrite G4. pose proof (round8_ge (size_at (m_bytes m) (d_off g))). lia.
    + apply hunit_step. unfold htag_typ. fold (htyp_at (m_bytes m) (d_off g)). rewrite (enum_ok _ _ E1). reflexivity.
    + apply hunit_step. unfold htag_flags. rewrite (enum_ok _ _ E2). reflexivity.
    + apply hinv1. exact I.
  - (* typed tag *)
    destruct (htref_extent m total k t Hinv) as (A & size & Es & S8 & Sin & Sov & (E1 & E2 & E3 & E4) & Ety & Hreq).
    cbn [i_off] in *. pose proof (round8_ge size) as Hrg.
    destruct o; try (destruct k; cbn [hstep]; hnil).
    + destruct k; cbn [hstep]; apply hinv1; cbn [HInv]; rewrite Sov; unfold round8 in *; lia.
    + destruct k; cbn [hstep]; apply hunit_step; unfold htag_typ; fold (htyp_at (m_bytes m) (t_off t));
        rewrite (enum_ok _ _ E1); reflexivity.
    + destruct k; cbn [hstep]; apply hunit_step; unfold htag_flags; rewrite (enum_ok _ _ E2); reflexivity.
    + destruct k; cbn [hstep]; apply hinv1; exact I.
    + destruct k; cbn [hstep]; apply hinv1; exact I.
    + destruct k; cbn [hstep]; try hnil; apply hunit_step.
      * assert (Ef : hfld HkConsole m t "console_flags" = le (slice (m_bytes m) (t_off t + 8) 4)) by reflexivity.
        rewrite Ef, (enum_ok _ _ (E3 Ety)). reflexivity.
      * assert (Ef : hfld HkRelocatable m t "preference" = le (slice (m_bytes m) (t_off t + 20) 4)) by reflexivity.
        rewrite Ef, (enum_ok _ _ (E4 Ety)). reflexivity.
    + destruct k; cbn [hstep]; try hnil. destruct (Hreq eq_refl) as [Eq H4]. rewrite Eq. cbn [fst snd].
      apply hinv1. cbn [HInv]. lia.
  - destruct o; cbn [hstep]; hnil.
  - destruct o; cbn [hstep]; hnil.
Qed.

Theorem hrun_safe p m total : hregion_ok m total ->
  forall prog pool, Forall (HInv m total) pool -> houtcome_ok m total (hrun p m pool prog).
Proof.
  intros Hr. induction prog as [|[i o] rest IH]; intros pool Hp; cbn [hrun].
  - exact Hp.
  - destruct (nth_error pool i) as [h|] eqn:En; [|apply IH; exact Hp].
    assert (Hh : HInv m total h).
    { rewrite Forall_forall in Hp. apply Hp. eapply nth_error_In. exact En. }
    pose proof (hstep_safe p m total h o Hr Hh) as S.
    destruct (hstep p m h o) as [hs| | |]; cbn [bind houtcome_ok] in *; try exact I; try exact S.
    apply IH. apply Forall_app. split; assumption.
Qed.

Theorem hload_and_run_safe p a bs r prog :
  a mod 8 = 0 -> 16 <= len bs -> le (slice bs 8 4) <= len bs -> arch_defined (le (slice bs 4 4)) = true ->
  let m := {| m_base := a; m_bytes := bs |} in
  is_fault (hdr_load p false m) = false /\
  (hdr_load p false m = Val r -> walk_enums_ok m (le (slice bs 8 4)) 16 ->
   is_fault (hrun p m [HhHeader r] prog) = false).
Proof.
  intros Ha H16 Hl Harch m. split.
  - unfold m. rewrite c10_load_spec by assumption. unfold c10_closed. cbv zeta.
    destruct (le (slice bs 8 4) <? 16); [reflexivity|]. destruct (negb _); [reflexivity|].
    destruct (negb _); [reflexivity|]. destruct (negb _); reflexivity.
  - intros Hld Hw. destruct (hload_shape _ _ _ _ Ha H16 Hl Harch Hld) as (A & B & -> & _).
    assert (Hr : hregion_ok m (le (slice bs 8 4))) by (constructor; cbn [m m_base m_bytes]; try assumption; reflexivity).
    pose proof (hrun_safe p m _ Hr prog [HhHeader (hboot_ref (le (slice bs 8 4)))] ltac:(apply hinv1; split; [reflexivity|exact Hw])) as S.
    unfold hboot_ref in S.
    destruct (hrun p m [HhHeader {| d_off := 0; d_plen := le (slice bs 8 4) - 16 |}] prog); cbn [houtcome_ok is_fault] in *; try reflexivity. destruct S.
Qed.
