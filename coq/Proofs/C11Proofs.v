(* Proofs for C11 (and the walk part of C09): header accessors, tag iterator, typed getters. *)
Require Import Bytes Outcome Layout Common TagType Mbi Header HeaderTags WalkSpec Mb2Spec
               BytesFacts ArithFacts CommonFacts IterFacts CastFacts HCastFacts C10Proofs LayoutFacts.
From Coq Require Import Lia ZArith ZifyN ZifyBool ZifyNat String.
Ltac Zify.zify_post_hook ::= Z.div_mod_to_equations.
Open Scope list_scope.
Open Scope N_scope.

(* what a successful load establishes *)
Lemma hload_shape p a bs r :
  a mod 8 = 0 -> 16 <= len bs -> le (slice bs 8 4) <= len bs -> arch_defined (le (slice bs 4 4)) = true ->
  hdr_load p false {| m_base := a; m_bytes := bs |} = Val r ->
  let l := le (slice bs 8 4) in
  16 <= l /\ l mod 8 = 0 /\ r = {| d_off := 0; d_plen := l - 16 |} /\ le (slice bs 0 4) = HDR_MAGIC /\
  (le (slice bs 0 4) + le (slice bs 4 4) + l + le (slice bs 12 4)) mod pow2_32 = 0.
Proof.
  intros Ha H16 Hl Harch H. rewrite c10_load_spec in H by assumption. unfold c10_closed in H. cbv zeta in *.
  set (l := le (slice bs 8 4)) in *.
  destruct (N.ltb_spec l 16) as [X|H1]; [discriminate|].
  destruct (N.eqb_spec (l mod 8) 0) as [H2|X]; cbn [negb] in H; [|discriminate].
  destruct (N.eqb_spec (le (slice bs 0 4)) HDR_MAGIC) as [H3|X]; cbn [negb] in H; [|discriminate].
  destruct (N.eqb_spec ((le (slice bs 0 4) + le (slice bs 4 4) + l + le (slice bs 12 4)) mod pow2_32) 0) as [H4|X];
    cbn [negb] in H; [|discriminate].
  injection H as <-. repeat split; assumption.
Qed.

Lemma hload_iter_ok p a bs r :
  a mod 8 = 0 -> 16 <= len bs -> le (slice bs 8 4) <= len bs -> arch_defined (le (slice bs 4 4)) = true ->
  hdr_load p false {| m_base := a; m_bytes := bs |} = Val r ->
  iter_ok HHdrTagH {| m_base := a; m_bytes := bs |} 16 (d_plen r) /\ d_off r = 0 /\ 16 + d_plen r = le (slice bs 8 4).
Proof.
  intros Ha H16 Hl Harch H. destruct (hload_shape _ _ _ _ Ha H16 Hl Harch H) as (A & B & -> & _).
  cbn [d_off d_plen]. pose proof (le_slice4_bound bs 8) as Hb. unfold pow2_32 in *.
  split; [|split; [reflexivity|lia]].
  constructor; cbn [m_base m_bytes]; try reflexivity; try lia. unfold pow2_32. lia.
Qed.

(* the basic accessors *)
Lemma c11_basic m r : d_off r = 0 ->
  hdr_magic m r = le (slice (m_bytes m) 0 4) /\ hdr_arch m r = le (slice (m_bytes m) 4 4) /\
  hdr_length m r = le (slice (m_bytes m) 8 4) /\ hdr_checksum m r = le (slice (m_bytes m) 12 4).
Proof. intros E. unfold hdr_magic, hdr_arch, hdr_length, hdr_checksum. rewrite E. repeat split; reflexivity. Qed.

(* the tag iterator reproduces the spec walk from offset 16 to the declared length *)
Lemma c11_walk p a bs r :
  a mod 8 = 0 -> 16 <= len bs -> le (slice bs 8 4) <= len bs -> arch_defined (le (slice bs 4 4)) = true ->
  let m := {| m_base := a; m_bytes := bs |} in
  hdr_load p false m = Val r ->
  exists l ok,
    tagiter_run (iter_fuel (d_plen r)) p HHdrTagH m (d_off r + 16) (d_plen r) 0 = (map dref_of l, status ok) /\
    walk bs (le (slice bs 8 4)) 16 l ok /\
    (forall l' ok', walk bs (le (slice bs 8 4)) 16 l' ok' -> l' = l /\ ok' = ok).
Proof.
  intros Ha H16 Hl Harch m H. destruct (hload_iter_ok _ _ _ _ Ha H16 Hl Harch H) as (Hok & E0 & Et).
  rewrite E0. cbn [N.add].
  destruct (run_walk p HHdrTagH m 16 (d_plen r) Hok (iter_fuel (d_plen r)) 0) as (l & ok & Hrun & Hw).
  - reflexivity.
  - lia.
  - unfold iter_fuel. rewrite N.sub_0_r. lia.
  - exists l, ok. rewrite Et, N.add_0_r in Hw. cbn [m m_bytes] in Hw. split; [exact Hrun|]. split; [exact Hw|].
    intros l' ok' W'. destruct (walk_fun _ _ _ _ _ W' _ _ Hw) as [-> ->]. split; reflexivity.
Qed.

(* ---- typed getters ------------------------------------------------------------------------------- *)
Definition htyp_at (bs : list byte) (off : N) : N := le (slice bs off 2).
(* the property's hypothesis on tag types: every tag of the walk has a defined type value *)
Definition types_defined (bs : list byte) (l : list item) : Prop := Forall (fun it => htyp_at bs (i_off it) <= 10) l.

Definition hfind_closed (bs : list byte) (b blen : N) (typ : N) (l : list item) (ok : bool) : res (option dref * N) :=
  match find (fun it => htyp_at bs (i_off it) =? typ) l with
  | Some it => Val (Some (dref_of it), i_off it + round8 (i_size it) - b)
  | None => if ok then Val (None, blen) else Panic
  end.

Lemma hfind_walk p m b blen typ : iter_ok HHdrTagH m b blen ->
  forall fuel nxt l ok, nxt mod 8 = 0 -> nxt <= blen -> (N.to_nat ((blen - nxt) / 8) < fuel)%nat ->
  walk (m_bytes m) (b + blen) (b + nxt) l ok -> types_defined (m_bytes m) l ->
  htagiter_find fuel p m b blen nxt typ = hfind_closed (m_bytes m) b blen typ l ok.
Proof.
  intros Hok. induction fuel as [|fuel IH]; intros nxt l ok Hn Hle Hf W Hty; [lia|].
  cbn [htagiter_find]. rewrite tagiter_next_closed by assumption.
  pose proof (next_closed_inv HHdrTagH m b blen nxt) as Hinv.
  unfold next_closed in *.
  rewrite (stored_size_8 HHdrTagH _ _ (io_h _ _ _ _ Hok)) in *.
  apply walk_inv in W.
  destruct (N.eqb_spec nxt blen) as [E|E].
  - destruct W as [(A & -> & ->)|[(A & _)|[(A & _)|(A & _)]]]; try (exfalso; lia).
    subst nxt. reflexivity.
  - set (size := size_at (m_bytes m) (b + nxt)) in *.
    destruct (N.ltb_spec size 8) as [H8|H8].
    + destruct W as [(A & _)|[(A & B & -> & ->)|[(A & B & _)|(A & B & _)]]]; try (exfalso; lia). reflexivity.
    + destruct (N.ltb_spec blen (nxt + round8 size)) as [Ho|Ho].
      * destruct W as [(A & _)|[(A & B & _)|[(A & B & C & -> & ->)|(A & B & C & _)]]]; try (exfalso; lia). reflexivity.
      * destruct W as [(A & _)|[(A & B & _)|[(A & B & C & _)|(A & B & C & l' & -> & W')]]]; try (exfalso; lia).
        cbn [bind]. unfold hfind_closed. cbn [find i_off i_size].
        pose proof (Forall_inv Hty) as Hty0. pose proof (Forall_inv_tail Hty) as Hty'. cbn [i_off] in Hty0.
        unfold htag_typ, enum_in. cbn [d_off]. fold (htyp_at (m_bytes m) (b + nxt)).
        destruct (N.leb_spec (htyp_at (m_bytes m) (b + nxt)) 10) as [_|X]; [|lia]. cbn [bind].
        destruct (htyp_at (m_bytes m) (b + nxt) =? typ) eqn:Et.
        -- unfold dref_of. cbn [i_off i_size].
           replace (b + nxt + round8 size - b) with (nxt + round8 size) by lia. reflexivity.
        -- specialize (Hinv _ _ (io_blen _ _ _ _ Hok) Hn Hle eq_refl). destruct Hinv as (A' & B' & C').
           specialize (C' ltac:(discriminate)).
           rewrite (IH (nxt + round8 size) l' ok A' B').
           ++ reflexivity.
           ++ assert ((blen - (nxt + round8 size)) / 8 < (blen - nxt) / 8) by (unfold round8 in *; lia). lia.
           ++ replace (b + (nxt + round8 size)) with (b + nxt + round8 size) by lia. exact W'.
           ++ exact Hty'.
Qed.

Definition hget_tag_closed (bs : list byte) (k : hkind2) (l : list item) (ok : bool) : res (option tref) :=
  match find (fun it => htyp_at bs (i_off it) =? hkind_typ k) l with
  | Some it => t <- hcast_closed k (i_off it) (i_size it) ;; Val (Some t)
  | None => if ok then Val None else Panic
  end.

Lemma hget_tag_spec p a bs r k l ok :
  a mod 8 = 0 -> 16 <= len bs -> le (slice bs 8 4) <= len bs -> arch_defined (le (slice bs 4 4)) = true ->
  let m := {| m_base := a; m_bytes := bs |} in
  hdr_load p false m = Val r -> walk bs (le (slice bs 8 4)) 16 l ok -> types_defined bs l ->
  hget_tag p k m r = hget_tag_closed bs k l ok.
Proof.
  intros Ha H16 Hl Harch m H W Hty. destruct (hload_iter_ok _ _ _ _ Ha H16 Hl Harch H) as (Hok & E0 & Et).
  unfold hget_tag. rewrite E0. cbn [N.add].
  rewrite (hfind_walk p m 16 (d_plen r) (hkind_typ k) Hok _ 0 l ok); try reflexivity; try lia;
    [|unfold iter_fuel; lia| |exact Hty].
  2:{ rewrite Et, N.add_0_r. exact W. }
  unfold hfind_closed, hget_tag_closed. subst m. cbn [m_bytes].
  destruct (find (fun it => htyp_at bs (i_off it) =? hkind_typ k) l) as [it|] eqn:Ef; [|destruct ok; reflexivity].
  cbn [bind].
  pose proof (walk_items_inside _ _ _ _ _ W ltac:(reflexivity)) as Hin. rewrite Forall_forall in Hin.
  assert (Hit : In it l).
  { clear - Ef. induction l as [|y l IH]; [discriminate|]. cbn [find] in Ef.
    destruct (htyp_at bs (i_off y) =? hkind_typ k); [injection Ef as ->; left; reflexivity|right; auto]. }
  specialize (Hin it Hit). destruct Hin as (I1 & I2 & I3 & I4 & I5).
  rewrite hcast_kind_closed; unfold dref_of; cbn [d_off d_plen m_bytes]; try (unfold round8 in *; lia).
  rewrite <- I5. reflexivity.
Qed.

(* field accessors read the specified offsets and widths *)
Lemma hfld_spec k m t name o w :
  In (name, o, w) (spec_htag_fields (hkind_typ k)) ->
  hfld k m t name = le (slice (m_bytes m) (t_off t + o) w).
Proof.
  intros Hin. unfold hfld, field_ow.
  destruct (hdr_layout k) as (E & _). rewrite E.
  assert (G : lookup name (("header", 0, 8) :: spec_htag_fields (hkind_typ k)) = Some (o, w)).
  { destruct k; cbn in Hin; repeat (destruct Hin as [Hin|Hin]; [injection Hin as <- <- <-; reflexivity|]); contradiction. }
  rewrite G. reflexivity.
Qed.
