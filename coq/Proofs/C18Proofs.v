(* Proofs for C18: EFI memory-map iteration. *)
Require Import Bytes Outcome Layout Common TagType Mbi MbiTags Strings MbiAccess BytesFacts ArithFacts CastFacts.
From Coq Require Import Lia ZArith ZifyN ZifyBool ZifyNat String.
Ltac Zify.zify_post_hook ::= Z.div_mod_to_equations.
Open Scope N_scope.

(* an EFI memory map tag reference: L map bytes behind the 16-byte fixed part, all inside memory, 8-aligned *)
Record efi_tag_ok (m : mem) (t : tref) (L : N) : Prop := {
  eo_meta : t_meta t = Some L;
  eo_in : t_off t + 16 + L <= len (m_bytes m);
  eo_al : (m_base m + t_off t) mod 8 = 0;
  eo_small : L < pow2_32
}.

Definition efi_d (m : mem) (t : tref) : N := fld KEfiMmap m t "desc_size".
Definition efi_v (m : mem) (t : tref) : N := fld KEfiMmap m t "desc_version".
Definition efi_accepts (m : mem) (t : tref) (L : N) : bool :=
  (efi_v m t =? 1) && (40 <=? efi_d m t) && (efi_d m t mod 8 =? 0) && (L mod efi_d m t =? 0).

Lemma efi_tail_off t : tail_off KEfiMmap t = t_off t + 16.
Proof. reflexivity. Qed.

Lemma efi_d_bound m t : efi_d m t < pow2_32.
Proof. unfold efi_d, fld. cbn. apply le_slice4_bound. Qed.

Lemma efi_areas_closed m t L : efi_tag_ok m t L ->
  efi_memory_areas m t =
    if efi_accepts m t L then Val {| ei_tag := t; ei_i := 0; ei_entries := L / efi_d m t |} else Panic.
Proof.
  intros [Hm Hin Hal Hs]. unfold efi_memory_areas, efi_accepts. fold (efi_v m t) (efi_d m t).
  rewrite efi_tail_off. unfold tail_count. rewrite Hm. unfold assert.
  destruct (efi_v m t =? 1); cbn [andb bind]; [|reflexivity].
  replace ((m_base m + (t_off t + 16)) mod 8 =? 0) with true by lia. cbn [bind].
  destruct (40 <=? efi_d m t); cbn [andb bind]; [|reflexivity].
  destruct (efi_d m t mod 8 =? 0); cbn [andb bind]; [|reflexivity].
  destruct (L mod efi_d m t =? 0); cbn [andb bind]; reflexivity.
Qed.

(* invariant of an iterator produced by memory_areas() *)
Record efi_inv (m : mem) (L : N) (it : efi_iter) : Prop := {
  ei_ok : efi_tag_ok m (ei_tag it) L;
  ei_d40 : 40 <= efi_d m (ei_tag it);
  ei_d8 : efi_d m (ei_tag it) mod 8 = 0;
  ei_n : ei_entries it * efi_d m (ei_tag it) = L;
  ei_le : ei_i it <= ei_entries it
}.

Lemma efi_areas_inv m t L it : efi_tag_ok m t L -> efi_memory_areas m t = Val it -> efi_inv m L it.
Proof.
  intros Hok H. rewrite (efi_areas_closed m t L Hok) in H. unfold efi_accepts in H.
  destruct (efi_v m t =? 1); [|discriminate].
  destruct (N.leb_spec 40 (efi_d m t)) as [H40|]; [|discriminate].
  destruct (N.eqb_spec (efi_d m t mod 8) 0) as [H8|]; [|discriminate].
  destruct (N.eqb_spec (L mod efi_d m t) 0) as [Hd|]; [|discriminate].
  cbn [andb] in H. injection H as <-. constructor; cbn [ei_tag ei_i ei_entries]; try assumption; try lia.
  - rewrite N.mul_comm. symmetry. apply N.div_exact; lia.
  - apply N.le_0_l.
Qed.

Definition efi_next_closed (m : mem) (it : efi_iter) : res (option N * efi_iter) :=
  if ei_entries it <=? ei_i it then Val (None, it)
  else Val (Some (t_off (ei_tag it) + 16 + ei_i it * efi_d m (ei_tag it)),
            {| ei_tag := ei_tag it; ei_i := ei_i it + 1; ei_entries := ei_entries it |}).

Lemma efi_next_spec p m L it : efi_inv m L it ->
  efi_next p m it = efi_next_closed m it /\
  (forall x it', efi_next_closed m it = Val (x, it') -> efi_inv m L it') /\
  efi_len p it = Val (ei_entries it - ei_i it).
Proof.
  intros [[Hm Hin Hal Hs] H40 H8 Hn Hle]. pose proof (efi_d_bound m (ei_tag it)) as Hdb. unfold pow2_32 in *.
  split; [|split].
  - unfold efi_next, efi_next_closed. fold (efi_d m (ei_tag it)).
    destruct (N.leb_spec (ei_entries it) (ei_i it)) as [He|He]; [reflexivity|].
    assert (Hb : (ei_i it + 1) * efi_d m (ei_tag it) <= L) by nia.
    rewrite umul_ok by (unfold pow2_64; nia). cbn [bind]. rewrite efi_tail_off.
    unfold mrd, rd.
    destruct (N.leb_spec (t_off (ei_tag it) + 16 + ei_i it * efi_d m (ei_tag it) + 40) (len (m_bytes m))) as [_|X]; [|nia].
    cbn [bind]. rewrite uadd_ok by (unfold pow2_64; nia). reflexivity.
  - intros x it'. unfold efi_next_closed.
    destruct (N.leb_spec (ei_entries it) (ei_i it)) as [He|He]; intros E; injection E as <- <-.
    + constructor; try assumption. constructor; assumption.
    + constructor; cbn [ei_tag ei_i ei_entries]; try assumption; try lia. constructor; assumption.
  - unfold efi_len. apply usub_ok. exact Hle.
Qed.

(* every descriptor produced lies inside the tag (hence inside the map) and is 8-aligned *)
Lemma efi_desc_inside m L it off it' : efi_inv m L it ->
  efi_next_closed m it = Val (Some off, it') ->
  t_off (ei_tag it) + 16 <= off /\ off + 40 <= t_off (ei_tag it) + 16 + L /\ (m_base m + off) mod 8 = 0 /\
  off = t_off (ei_tag it) + 16 + ei_i it * efi_d m (ei_tag it).
Proof.
  intros [[Hm Hin Hal Hs] H40 H8 Hn Hle]. unfold efi_next_closed.
  destruct (N.leb_spec (ei_entries it) (ei_i it)) as [He|He]; intros E; [discriminate|].
  injection E as <- <-.
  assert (Hb : (ei_i it + 1) * efi_d m (ei_tag it) <= L) by nia.
  assert (Hm8 : (ei_i it * efi_d m (ei_tag it)) mod 8 = 0).
  { rewrite N.mul_mod by lia. rewrite H8. rewrite N.mul_0_r. reflexivity. }
  repeat split; try nia; try lia.
Qed.

(* iteration: exactly L/d descriptors, the j-th at map offset j*d *)
Lemma efi_collect_spec p m L : forall fuel it, efi_inv m L it ->
  (N.to_nat (ei_entries it - ei_i it) < fuel)%nat ->
  efi_collect fuel p m it =
    (map (fun j => t_off (ei_tag it) + 16 + (ei_i it + N.of_nat j) * efi_d m (ei_tag it))
         (seq 0 (N.to_nat (ei_entries it - ei_i it))), Val tt).
Proof.
  induction fuel as [|fuel IH]; intros it Hinv Hf; [lia|].
  cbn [efi_collect]. destruct (efi_next_spec p m L it Hinv) as (E & Hpres & _). rewrite E.
  unfold efi_next_closed in *.
  destruct (N.leb_spec (ei_entries it) (ei_i it)) as [He|He].
  - replace (ei_entries it - ei_i it) with 0 by lia. reflexivity.
  - specialize (Hpres _ _ eq_refl). rewrite (IH _ Hpres) by (cbn [ei_i ei_entries]; lia).
    cbn [ei_tag ei_i ei_entries].
    replace (N.to_nat (ei_entries it - ei_i it)) with (S (N.to_nat (ei_entries it - (ei_i it + 1)))) by lia.
    cbn [seq map]. f_equal. f_equal; [f_equal; lia|].
    rewrite <- seq_shift, map_map. apply map_ext. intros j. f_equal. f_equal. lia.
Qed.

Example efi_example :
  let m := {| m_base := 0; m_bytes := (enc32 17 ++ enc32 (16 + 96) ++ enc32 48 ++ enc32 1 ++ repeatN x07 96)%list |} in
  efi_memory_areas m {| t_off := 0; t_meta := Some 96 |} =
    Val {| ei_tag := {| t_off := 0; t_meta := Some 96 |}; ei_i := 0; ei_entries := 2 |}.
Proof. vm_compute. reflexivity. Qed.

(* ---- the provided Iterator methods: nth(k) (k+1 calls of next, stopping at the first None) is the k-th item of
   the run to exhaustion; count() is its length ---- *)
Lemma efi_nth_collect fuel p m : forall it items k,
  efi_collect fuel p m it = (items, Val tt) -> rmap fst (efi_nth p m it k) = Val (nth_error items k).
Proof.
  induction fuel as [|f IH]; intros it items k H; cbn [efi_collect] in H; [discriminate|].
  destruct k as [|k']; cbn [efi_nth];
    destruct (efi_next p m it) as [[[off|] it']| | |]; try discriminate.
  - destruct (efi_collect f p m it') as [l e]. injection H as <- ->. reflexivity.
  - injection H as <-. reflexivity.
  - destruct (efi_collect f p m it') as [l e] eqn:E. injection H as <- ->. cbn [nth_error]. apply (IH it' l k' E).
  - injection H as <-. reflexivity.
Qed.
