(* cast::<T>() for the 22 tag kinds: closed form (C05 / C15 for the built-in kinds). *)
Require Import Bytes Outcome Layout Common TagType Mbi MbiTags WalkSpec BytesFacts ArithFacts CommonFacts IterFacts.
From Coq Require Import Lia ZArith ZifyN ZifyBool ZifyNat String.
Ltac Zify.zify_post_hook ::= Z.div_mod_to_equations.
Open Scope N_scope.

Lemma align_up_8 x : align_up x 8 = round8 x.
Proof. unfold align_up, round8. lia. Qed.

Lemma kind_align k : sd_align (kind_struct k) = 8.
Proof. destruct k; vm_compute; reflexivity. Qed.

Definition is_dst (k : kind) : bool := match sd_tail (kind_struct k) with Some _ => true | None => false end.

Lemma dst_tail_off k : is_dst k = true -> sd_tail_off (kind_struct k) = kind_base k.
Proof. destruct k; intros H; try discriminate H; vm_compute; reflexivity. Qed.

Lemma dst_esize_pos k : is_dst k = true -> 1 <= tail_esize k.
Proof. destruct k; intros H; try discriminate H; vm_compute; discriminate. Qed.

Lemma base_ge_8 k : 8 <= kind_base k.
Proof. destruct k; vm_compute; discriminate. Qed.

Lemma sov_dst k n : is_dst k = true ->
  sd_size_of_val (kind_struct k) (Some n) = round8 (kind_base k + n * tail_esize k).
Proof.
  intros H. rewrite <- dst_tail_off by exact H. rewrite <- align_up_8. rewrite <- (kind_align k).
  unfold sd_size_of_val, tail_esize, is_dst in *. destruct (sd_tail (kind_struct k)) as [[es ea]|]; [reflexivity|discriminate].
Qed.

Lemma sov_sized k n : is_dst k = false -> sd_size_of_val (kind_struct k) n = sd_size_of (kind_struct k).
Proof.
  intros H. unfold sd_size_of_val, is_dst in *. destruct (sd_tail (kind_struct k)) as [[es ea]|]; [discriminate|reflexivity].
Qed.

(* the closed form of cast for kind k, applied to a tag at offset off whose size field is size *)
Definition cast_closed (k : kind) (off size : N) : res tref :=
  if is_dst k then
    if size <? kind_base k then Panic
    else if negb ((size - kind_base k) mod tail_esize k =? 0) then Panic
    else Val {| t_off := off; t_meta := Some ((size - kind_base k) / tail_esize k) |}
  else
    if round8 size =? sd_size_of (kind_struct k) then Val {| t_off := off; t_meta := None |} else Panic.

Lemma dstlen_closed p k hdr :
  8 <= tag_size_field hdr < pow2_32 ->
  kind_dstlen k p hdr =
    if is_dst k then
      let size := tag_size_field hdr in
      if size <? kind_base k then Panic
      else if negb ((size - kind_base k) mod tail_esize k =? 0) then Panic
      else Val (Some ((size - kind_base k) / tail_esize k))
    else Val None.
Proof.
  intros Hs. unfold pow2_32 in Hs.
  destruct k; unfold kind_dstlen; try reflexivity;
    change (is_dst _) with true; cbv iota; cbv zeta;
    set (size := tag_size_field hdr) in *;
    match goal with |- context [kind_base ?K] => set (B := kind_base K) in *; vm_compute in B; subst B end;
    match goal with |- context [tail_esize ?K] => set (E := tail_esize K) in *; vm_compute in E; subst E end;
    unfold assert;
    try (match goal with |- context [?b <=? size] => destruct (N.leb_spec b size) end);
    try (match goal with |- context [size <? ?b] => destruct (N.ltb_spec size b) end);
    try lia;
    cbn [bind]; try reflexivity;
    rewrite usub_ok by lia; cbn [bind];
    try (rewrite N.mod_1_r, N.div_1_r; reflexivity).
  (* KMmap: element size 24 *)
  destruct (N.eqb_spec ((size - 16) mod 24) 0); cbn [negb bind]; reflexivity.
Qed.

Lemma cast_kind_closed p k m g :
  d_off g + 8 <= len (m_bytes m) ->
  let size := size_at (m_bytes m) (d_off g) in
  8 <= size -> d_plen g = size - 8 ->
  cast_kind p k m g = cast_closed k (d_off g) size.
Proof.
  intros Hin size H8 Hpl.
  unfold cast_kind, cast. cbn [kind_tdesc t_base t_dstlen t_sizeof hsize].
  pose proof (base_ge_8 k) as Hb.
  unfold assert at 1. destruct (N.leb_spec 8 (kind_base k)) as [_|X]; [|lia]. cbn [bind].
  unfold mrd, rd. destruct (N.leb_spec (d_off g + 8) (len (m_bytes m))) as [_|X]; [|lia]. cbn [bind].
  assert (Esz : tag_size_field (slice (m_bytes m) (d_off g) 8) = size).
  { unfold tag_size_field, size, size_at. rewrite slice_slice by lia. reflexivity. }
  assert (Hlt : size < pow2_32) by (apply le_slice4_bound).
  rewrite dstlen_closed by (rewrite Esz; lia). rewrite Esz.
  unfold cast_closed, dref_size_of_val. cbn [hsize]. rewrite Hpl.
  replace (8 + (size - 8)) with size by lia.
  destruct (is_dst k) eqn:Ed.
  - cbv zeta. destruct (N.ltb_spec size (kind_base k)) as [H1|H1]; cbn [bind]; [reflexivity|].
    pose proof (dst_esize_pos k Ed) as He.
    destruct (N.eqb_spec ((size - kind_base k) mod tail_esize k) 0) as [H2|H2]; cbn [negb bind]; [|reflexivity].
    rewrite sov_dst by exact Ed.
    assert (Ex : (size - kind_base k) / tail_esize k * tail_esize k = size - kind_base k).
    { rewrite N.mul_comm. symmetry. apply N.div_exact; [lia|exact H2]. }
    rewrite Ex. replace (kind_base k + (size - kind_base k)) with size by lia.
    unfold assert. rewrite N.eqb_refl. reflexivity.
  - cbn [bind]. rewrite sov_sized by exact Ed. unfold assert.
    destruct (round8 size =? sd_size_of (kind_struct k)); reflexivity.
Qed.
