(* Facts about index_nul, utf8_valid, parse_str (C17). *)
Require Import Bytes Outcome Strings BytesFacts.
From Coq Require Import Lia ZArith ZifyN ZifyBool ZifyNat.
Ltac Zify.zify_post_hook ::= Z.div_mod_to_equations.

Definition nthb (bs : list byte) (i : N) : N := bN (nth (N.to_nat i) bs x00).

Lemma nthb_cons_0 b r : nthb (b :: r) 0 = bN b.
Proof. reflexivity. Qed.
Lemma nthb_cons_succ b r i : nthb (b :: r) (i + 1) = nthb r i.
Proof. unfold nthb. replace (N.to_nat (i + 1)) with (S (N.to_nat i)) by lia. reflexivity. Qed.

(* index_nul finds the first NUL *)
Lemma index_nul_some bs i : index_nul bs = Some i <->
  (i < len bs /\ nthb bs i = 0 /\ forall j, j < i -> nthb bs j <> 0).
Proof.
  revert i. induction bs as [|b r IH]; intro i.
  - cbn [index_nul]. split; [discriminate|]. intros (H & _). rewrite len_nil in H. lia.
  - cbn [index_nul]. rewrite len_cons. destruct (N.eqb_spec (bN b) 0) as [E|E].
    + split.
      * intros H. injection H as <-. rewrite nthb_cons_0. repeat split; try lia; try exact E.
      * intros (H1 & H2 & H3). destruct (N.eq_dec i 0) as [->|Hnz]; [reflexivity|].
        exfalso. apply (H3 0); [lia|]. rewrite nthb_cons_0. exact E.
    + destruct (index_nul r) as [k|] eqn:Ek.
      * split.
        -- intros H. injection H as <-. destruct (proj1 (IH k) eq_refl) as (A & B & C).
           rewrite nthb_cons_succ. repeat split; try lia; try assumption.
           intros j Hj. destruct (N.eq_dec j 0) as [->|Hnz]; [rewrite nthb_cons_0; exact E|].
           replace j with ((j - 1) + 1) by lia. rewrite nthb_cons_succ. apply C. lia.
        -- intros (H1 & H2 & H3). destruct (N.eq_dec i 0) as [->|Hnz]; [rewrite nthb_cons_0 in H2; contradiction|].
           replace i with ((i - 1) + 1) in * by lia. rewrite nthb_cons_succ in H2.
           assert (Hk : Some k = Some (i - 1)).
           { apply IH. repeat split; try lia; try assumption.
             intros j Hj. specialize (H3 (j + 1) ltac:(lia)). rewrite nthb_cons_succ in H3. exact H3. }
           injection Hk as ->. reflexivity.
      * split; [discriminate|]. intros (H1 & H2 & H3). exfalso.
        destruct (N.eq_dec i 0) as [->|Hnz]; [rewrite nthb_cons_0 in H2; contradiction|].
        replace i with ((i - 1) + 1) in * by lia. rewrite nthb_cons_succ in H2.
        assert (Hk : None = Some (i - 1)).
        { apply IH. repeat split; try lia; try assumption.
          intros j Hj. specialize (H3 (j + 1) ltac:(lia)). rewrite nthb_cons_succ in H3. exact H3. }
        discriminate.
Qed.

Lemma index_nul_none bs : index_nul bs = None <-> (forall j, j < len bs -> nthb bs j <> 0).
Proof.
  induction bs as [|b r IH].
  - cbn [index_nul]. split; [intros _ j Hj; rewrite len_nil in Hj; lia|reflexivity].
  - cbn [index_nul]. rewrite len_cons. destruct (N.eqb_spec (bN b) 0) as [E|E].
    + split; [discriminate|]. intros H. exfalso. apply (H 0); [lia|]. rewrite nthb_cons_0. exact E.
    + destruct (index_nul r) as [k|] eqn:Ek.
      * split; [discriminate|]. intros H. exfalso.
        assert (X : Some k = None); [|discriminate]. apply IH.
        intros j Hj. specialize (H (j + 1) ltac:(lia)). rewrite nthb_cons_succ in H. exact H.
      * split; [|reflexivity]. intros _ j Hj.
        destruct (N.eq_dec j 0) as [->|Hnz]; [rewrite nthb_cons_0; exact E|].
        replace j with ((j - 1) + 1) by lia. rewrite nthb_cons_succ. apply (proj1 IH eq_refl). lia.
Qed.

(* a string without NUL, followed by one NUL *)
Definition no_nul (s : list byte) : Prop := forall j, j < len s -> nthb s j <> 0.

Lemma nthb_app_l s t j : j < len s -> nthb (s ++ t) j = nthb s j.
Proof. intros H. unfold nthb. rewrite app_nth1 by (unfold len in H; lia). reflexivity. Qed.
Lemma nthb_app_r s t j : len s <= j -> nthb (s ++ t) j = nthb t (j - len s).
Proof.
  intros H. unfold nthb. rewrite app_nth2 by (unfold len in H; lia).
  f_equal. f_equal. unfold len in *. lia.
Qed.

Lemma index_nul_terminated s rest : no_nul s -> index_nul (s ++ x00 :: rest) = Some (len s).
Proof.
  intros H. apply index_nul_some. rewrite len_app, len_cons. repeat split; try lia.
  - rewrite nthb_app_r by lia. replace (len s - len s) with 0 by lia. reflexivity.
  - intros j Hj. rewrite nthb_app_l by exact Hj. apply H. exact Hj.
Qed.

Lemma slice_app_exact {A} (a b : list A) : slice (a ++ b) 0 (len a) = a.
Proof. rewrite slice_app_l by lia. apply slice_all. Qed.

(* reading back what the constructors store *)
Lemma parse_str_terminated s rest : no_nul s -> utf8_valid s = true -> parse_str (s ++ x00 :: rest) = Val (len s).
Proof.
  intros Hn Hu. unfold parse_str. rewrite index_nul_terminated by exact Hn.
  rewrite slice_app_exact, Hu. reflexivity.
Qed.

(* the result depends only on the bytes before (and including) the first NUL:
   nothing behind the slice is looked at (the slice *is* the argument) *)
Lemma parse_str_closed bs :
  parse_str bs = match index_nul bs with
                 | None => Err EMissingNul
                 | Some i => if utf8_valid (slice bs 0 i) then Val i else Err EUtf8
                 end.
Proof. reflexivity. Qed.

Lemma parse_str_total bs : is_panic (parse_str bs) = false /\ is_fault (parse_str bs) = false.
Proof. unfold parse_str. destruct (index_nul bs); [destruct (utf8_valid _)|]; split; reflexivity. Qed.

Lemma parse_str_bound bs n : parse_str bs = Val n -> n < len bs.
Proof.
  unfold parse_str. destruct (index_nul bs) as [i|] eqn:E; [|discriminate].
  destruct (utf8_valid _); [|discriminate]. intros H. injection H as <-.
  apply index_nul_some in E. lia.
Qed.
