(* Facts about new_boxed and the constructors (C06 / C07 / C16 / C17). *)
Require Import Bytes Outcome Layout Common TagType Mbi MbiTags Strings MbiAccess Header HeaderTags Build
               BytesFacts ArithFacts CommonFacts CastFacts StringFacts.
From Coq Require Import Lia ZArith ZifyN ZifyBool ZifyNat String.
Ltac Zify.zify_post_hook ::= Z.div_mod_to_equations.
Open Scope N_scope.

Lemma len_enc k n : len (enc k n) = N.of_nat k.
Proof. unfold len. rewrite enc_length. reflexivity. Qed.
Lemma len_enc32 n : len (enc32 n) = 4. Proof. apply len_enc. Qed.

Lemma le_enc32 n : n < pow2_32 -> le (enc32 n) = n.
Proof. intros H. unfold enc32. rewrite le_enc. change (256 ^ N.of_nat 4) with pow2_32. apply N.mod_small. exact H. Qed.

Lemma slice_app_l_exact {A} (a b : list A) n : n = len a -> slice (a ++ b) 0 n = a.
Proof. intros ->. apply slice_app_exact. Qed.

Lemma slice_app_mid {A} (a b c : list A) n : n = len b -> slice (a ++ b ++ c) (len a) n = b.
Proof.
  intros ->. rewrite slice_app_r by lia. replace (len a - len a) with 0 by lia. apply slice_app_exact.
Qed.

(* header of a boxed boot-information tag after set_size *)
Lemma set_size_tag typ ts : set_size HTagH (enc32 typ ++ enc32 0) ts = (enc32 typ ++ enc32 ts)%list.
Proof.
  unfold set_size. rewrite slice_app_l_exact by (rewrite len_enc32; reflexivity). reflexivity.
Qed.

Lemma tag_size_field_hdr typ ts : ts < pow2_32 -> tag_size_field (enc32 typ ++ enc32 ts) = ts.
Proof.
  intros H. unfold tag_size_field.
  rewrite slice_app_r by (rewrite len_enc32; lia). rewrite len_enc32. replace (4 - 4) with 0 by lia.
  rewrite <- (len_enc32 ts). rewrite slice_all. apply le_enc32. exact H.
Qed.

(* closed form of new_boxed for the boxed boot-information kinds *)
Definition content_len (slices : list (list byte)) : N := sumN (map len slices).

Lemma boxed_closed p k slices pad :
  is_dst k = true ->
  let ts := 8 + content_len slices in
  ts < pow2_32 ->
  boxed p k slices pad =
    if ts <? kind_base k then Panic
    else if negb ((ts - kind_base k) mod tail_esize k =? 0) then Panic
    else Val (enc32 (kind_typ k) ++ enc32 ts ++ List.concat slices ++ slice pad 0 (round8 ts - ts))%list.
Proof.
  intros Hd ts Hts. unfold boxed, new_boxed. cbn [hsize]. fold (content_len slices).
  subst ts. unfold pow2_32 in Hts.
  rewrite uadd_ok by (unfold pow2_64; lia). cbn [bind].
  remember (8 + content_len slices) as ts eqn:Ets. assert (Hge : 8 <= ts) by lia. clear Ets.
  rewrite inc_align_spec by (unfold pow2_64; lia). cbn [bind].
  rewrite set_size_tag. cbn [kind_tdesc t_dstlen t_sizeof].
  rewrite dstlen_closed by (rewrite tag_size_field_hdr by (unfold pow2_32; lia); unfold pow2_32; lia).
  rewrite Hd. cbv zeta. rewrite tag_size_field_hdr by (unfold pow2_32; lia).
  destruct (N.ltb_spec ts (kind_base k)) as [H1|H1]; cbn [bind]; [reflexivity|].
  pose proof (dst_esize_pos k Hd) as He.
  destruct (N.eqb_spec ((ts - kind_base k) mod tail_esize k) 0) as [H2|H2]; cbn [negb bind]; [|reflexivity].
  rewrite sov_dst by exact Hd.
  assert (Ex : (ts - kind_base k) / tail_esize k * tail_esize k = ts - kind_base k).
  { rewrite N.mul_comm. symmetry. apply N.div_exact; [lia|exact H2]. }
  rewrite Ex. replace (kind_base k + (ts - kind_base k)) with ts by lia.
  unfold assert. rewrite N.eqb_refl. cbn [bind]. rewrite <- app_assoc. reflexivity.
Qed.

Lemma len_concat (l : list (list byte)) : len (List.concat l) = content_len l.
Proof.
  induction l as [|x l IH]; [reflexivity|]. cbn [List.concat]. rewrite len_app, IH. reflexivity.
Qed.

(* ---- string tags ------------------------------------------------------------------- *)
Lemma ends_with_nul_no_nul s : no_nul s -> ends_with_nul s = false.
Proof.
  intros H. unfold ends_with_nul. destruct (rev s) as [|b r] eqn:E; [reflexivity|].
  assert (Hs : s = (rev r ++ [b])%list) by (rewrite <- (rev_involutive s), E; reflexivity).
  destruct (N.eqb_spec (bN b) 0) as [Hb|]; [|reflexivity]. exfalso.
  apply (H (len (rev r))).
  - rewrite Hs, len_app, len_cons, len_nil. lia.
  - rewrite Hs, nthb_app_r by lia. replace (len (rev r) - len (rev r)) with 0 by lia. exact Hb.
Qed.

(* the image of a string tag built from a NUL-free string *)
Definition str_image (typ : N) (fixed : list byte) (s : list byte) (pad : list byte) : list byte :=
  let ts := 8 + len fixed + len s + 1 in
  (enc32 typ ++ enc32 ts ++ fixed ++ s ++ [x00] ++ slice pad 0 (round8 ts - ts))%list.

Lemma content_len_cons x l : content_len (x :: l) = len x + content_len l.
Proof. reflexivity. Qed.
Lemma content_len_nil : content_len [] = 0.
Proof. reflexivity. Qed.
Lemma len_single (b : byte) : len [b] = 1. Proof. reflexivity. Qed.

(* a string tag (kind k with fixed bytes `fixed` between header and string) built from a NUL-free string *)
Lemma boxed_str_closed p k fixed s pad :
  is_dst k = true -> tail_esize k = 1 -> kind_base k = 8 + len fixed ->
  no_nul s -> len fixed + len s < pow2_32 - 16 ->
  boxed p k (fixed :: str_slices s) pad = Val (str_image (kind_typ k) fixed s pad).
Proof.
  intros Hd He Hb Hn Hl. unfold str_slices. rewrite ends_with_nul_no_nul by exact Hn.
  unfold pow2_32 in *.
  assert (Ec : content_len [fixed; s; [x00]] = len fixed + len s + 1).
  { unfold content_len. cbn [map sumN]. rewrite len_single. lia. }
  rewrite boxed_closed by (try exact Hd; rewrite Ec; unfold pow2_32; lia).
  rewrite Ec, He, Hb. rewrite N.mod_1_r.
  destruct (N.ltb_spec (8 + (len fixed + len s + 1)) (8 + len fixed)); [lia|].
  change (0 =? 0) with true. cbn [negb].
  unfold str_image. replace (8 + len fixed + len s + 1) with (8 + (len fixed + len s + 1)) by lia.
  cbn [List.concat]. rewrite app_nil_r. rewrite <- !app_assoc. reflexivity.
Qed.

(* reading the built tag back: size, stored bytes, the string *)
Definition str_ts (fixed s : list byte) : N := 8 + len fixed + len s + 1.
Lemma str_image_read typ fixed s pad :
  no_nul s -> utf8_valid s = true -> len fixed + len s < pow2_32 - 16 ->
  (le (slice (str_image typ fixed s pad) 0 4) = typ mod pow2_32) /\
  (le (slice (str_image typ fixed s pad) 4 4) = str_ts fixed s) /\
  (slice (str_image typ fixed s pad) (8 + len fixed) (str_ts fixed s - (8 + len fixed)) = (s ++ [x00])%list) /\
  (parse_str (slice (str_image typ fixed s pad) (8 + len fixed) (str_ts fixed s - (8 + len fixed))) = Val (len s)).
Proof.
  intros Hn Hu Hl. set (img := str_image typ fixed s pad). set (ts := str_ts fixed s). unfold str_ts in ts.
  unfold pow2_32 in *.
  assert (E1 : slice img 0 4 = enc32 typ).
  { unfold img, str_image. apply slice_app_l_exact. rewrite len_enc32. reflexivity. }
  assert (E2 : slice img 4 4 = enc32 ts).
  { unfold img, str_image. fold ts. rewrite <- (len_enc32 typ) at 1. apply slice_app_mid. rewrite len_enc32. reflexivity. }
  assert (E3 : slice img (8 + len fixed) (ts - (8 + len fixed)) = (s ++ [x00])%list).
  { unfold img, str_image. fold ts.
    replace (enc32 typ ++ enc32 ts ++ fixed ++ s ++ [x00] ++ slice pad 0 (round8 ts - ts))%list
      with ((enc32 typ ++ enc32 ts ++ fixed) ++ (s ++ [x00]) ++ slice pad 0 (round8 ts - ts))%list
      by (rewrite <- !app_assoc; reflexivity).
    replace (8 + len fixed) with (len (enc32 typ ++ enc32 ts ++ fixed)%list) by (rewrite !len_app, !len_enc32; lia).
    apply slice_app_mid. rewrite !len_app, len_single, !len_enc32. unfold ts. lia. }
  rewrite E1, E2, E3. unfold enc32. rewrite !le_enc. change (256 ^ N.of_nat 4) with pow2_32.
  repeat split; try reflexivity.
  - apply N.mod_small. unfold ts, pow2_32. lia.
  - apply parse_str_terminated; assumption.
Qed.

(* new_boxed depends on the slices only through their concatenation *)
Lemma content_len_concat l : content_len l = len (List.concat l).
Proof. symmetry. apply len_concat. Qed.

Lemma new_boxed_ext p h T hdr l1 l2 pad : List.concat l1 = List.concat l2 ->
  new_boxed p h T hdr l1 pad = new_boxed p h T hdr l2 pad.
Proof.
  intros E. unfold new_boxed. fold (content_len l1) (content_len l2).
  rewrite !content_len_concat, E. reflexivity.
Qed.

Lemma new_cmdline_closed p s pad : no_nul s -> len s < pow2_32 - 16 ->
  new_cmdline p s pad = Val (str_image 1 [] s pad).
Proof.
  intros Hn Hl. unfold new_cmdline. change 1 with (kind_typ KCmdline) at 1.
  rewrite <- (boxed_str_closed p KCmdline [] s pad) by (try reflexivity; try assumption; rewrite len_nil; lia).
  unfold boxed. apply new_boxed_ext. reflexivity.
Qed.

Lemma new_bootloader_closed p s pad : no_nul s -> len s < pow2_32 - 16 ->
  new_bootloader p s pad = Val (str_image 2 [] s pad).
Proof.
  intros Hn Hl. unfold new_bootloader. change 2 with (kind_typ KBootLoaderName) at 1.
  rewrite <- (boxed_str_closed p KBootLoaderName [] s pad) by (try reflexivity; try assumption; rewrite len_nil; lia).
  unfold boxed. apply new_boxed_ext. reflexivity.
Qed.

Lemma new_module_closed p a b s pad : no_nul s -> len s < pow2_32 - 32 ->
  new_module p a b s pad =
    if a <? b then Val (str_image 3 (enc32 a ++ enc32 b) s pad) else Panic.
Proof.
  intros Hn Hl. unfold new_module, assert. destruct (a <? b); cbn [bind]; [|reflexivity].
  assert (Hf : len (enc32 a ++ enc32 b)%list = 8) by (rewrite len_app, !len_enc32; reflexivity).
  change 3 with (kind_typ KModule) at 1.
  rewrite <- (boxed_str_closed p KModule (enc32 a ++ enc32 b) s pad)
    by (try reflexivity; try assumption; rewrite ?Hf; unfold pow2_32 in *; try reflexivity; lia).
  unfold boxed. apply new_boxed_ext. cbn [List.concat]. rewrite <- !app_assoc. reflexivity.
Qed.

Lemma c17_build p s pad : no_nul s -> len s < pow2_32 - 32 ->
  new_cmdline p s pad = Val (str_image 1 [] s pad) /\
  new_bootloader p s pad = Val (str_image 2 [] s pad) /\
  (forall a b, new_module p a b s pad = if a <? b then Val (str_image 3 (enc32 a ++ enc32 b) s pad) else Panic).
Proof.
  intros Hn Hl. unfold pow2_32 in *.
  split; [apply new_cmdline_closed; [assumption|unfold pow2_32; lia]|].
  split; [apply new_bootloader_closed; [assumption|unfold pow2_32; lia]|].
  intros a b. apply new_module_closed; [assumption|unfold pow2_32; lia].
Qed.

Lemma c17_parse bs :
  parse_str bs = match index_nul bs with
                 | None => Err EMissingNul
                 | Some i => if utf8_valid (slice bs 0 i) then Val i else Err EUtf8
                 end /\
  is_panic (parse_str bs) = false /\ is_fault (parse_str bs) = false /\
  (forall i, index_nul bs = Some i <-> (i < len bs /\ nthb bs i = 0 /\ forall j, j < i -> nthb bs j <> 0)) /\
  (index_nul bs = None <-> forall j, j < len bs -> nthb bs j <> 0).
Proof.
  split; [apply parse_str_closed|]. destruct (parse_str_total bs) as [A B].
  split; [exact A|]. split; [exact B|]. split; [intro i; apply index_nul_some|apply index_nul_none].
Qed.

Lemma c17_no_lookahead k m1 m2 t : tail_bytes k m1 t = tail_bytes k m2 t -> tag_str k m1 t = tag_str k m2 t.
Proof. intros H. unfold tag_str. rewrite H. reflexivity. Qed.

Lemma c17_inside k m t off n : tag_str k m t = Val (off, n) -> off = tail_off k t /\ n < len (tail_bytes k m t).
Proof.
  unfold tag_str. destruct (parse_str (tail_bytes k m t)) as [x| | |] eqn:E; try discriminate.
  cbn [bind]. intros H. injection H as <- <-. split; [reflexivity|]. apply parse_str_bound. exact E.
Qed.

Lemma c17_already_terminated s : ends_with_nul s = true -> str_slices s = [s].
Proof. intros H. unfold str_slices. rewrite H. reflexivity. Qed.
