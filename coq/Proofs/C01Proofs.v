(* Proofs for C01: no sequence of safe API calls on a loaded boot information faults; every reference
   handed out lies inside the tag it was derived from. *)
Require Import Bytes Outcome Layout Common TagType Mbi MbiTags Strings MbiAccess Debug Handles WalkSpec
               BytesFacts ArithFacts CommonFacts IterFacts CastFacts StringFacts C02Proofs C03Proofs C18Proofs C19Proofs.
From Coq Require Import Lia ZArith ZifyN ZifyBool ZifyNat String.
Ltac Zify.zify_post_hook ::= Z.div_mod_to_equations.
Open Scope list_scope.
Open Scope N_scope.

(* the loaded region: 8-aligned, the memory made valid covers the declared total size, and load succeeded
   (total is a multiple of 8, at least 8) *)
Record region_ok (m : mem) (total : N) : Prop := {
  ro_al : m_base m mod 8 = 0;
  ro_t : total = le (slice (m_bytes m) 0 4);
  ro_in : total <= len (m_bytes m);
  ro_8 : 8 <= total;
  ro_m8 : total mod 8 = 0
}.

Definition boot_ref (total : N) : dref := {| d_off := 0; d_plen := total - 8 |}.

(* a generic tag reference as the iterators hand them out *)
Definition gref_ok (m : mem) (total : N) (g : dref) : Prop :=
  8 <= d_off g /\ d_off g mod 8 = 0 /\ 8 <= size_at (m_bytes m) (d_off g) /\
  d_plen g = size_at (m_bytes m) (d_off g) - 8 /\ d_off g + round8 (size_at (m_bytes m) (d_off g)) <= total.

(* a typed tag reference: the successful cast of such a generic reference *)
Definition tref_ok (m : mem) (total : N) (k : kind) (t : tref) : Prop :=
  exists g, gref_ok m total g /\ cast_closed k (d_off g) (size_at (m_bytes m) (d_off g)) = Val t.

Definition Inv (m : mem) (total : N) (h : handle) : Prop :=
  match h with
  | HBoot r => r = boot_ref total
  | HIter r nxt | HModIter r nxt => r = boot_ref total /\ nxt mod 8 = 0 /\ nxt <= total - 8
  | HGen g => gref_ok m total g
  | HTag k t => tref_ok m total k t
  | HEfiIter it => exists L, efi_inv m L it /\ t_off (ei_tag it) + 16 + L <= total
  | HElfIter it => exists tag_off L, elf_inv m tag_off L it /\ tag_off + 20 + L <= total
  | HElfSec s => exists tag_off L, section_ok m tag_off L s /\ tag_off + 20 + L <= total
  | HView off n => off + n <= total
  | HVal => True
  end.

Lemma region_iter_ok m total : region_ok m total -> iter_ok HTagH m 8 (total - 8).
Proof.
  intros [A B C D E]. pose proof (le_slice4_bound (m_bytes m) 0) as Hb. unfold pow2_32 in *.
  constructor; try reflexivity; try lia. unfold pow2_32. lia.
Qed.

Lemma load_region p a bs r :
  a mod 8 = 0 -> 8 <= len bs -> le (slice bs 0 4) <= len bs ->
  mbi_load p false {| m_base := a; m_bytes := bs |} = Val r ->
  region_ok {| m_base := a; m_bytes := bs |} (le (slice bs 0 4)) /\ r = boot_ref (le (slice bs 0 4)).
Proof.
  intros Ha H8 Ht H. destruct (load_shape _ _ _ _ Ha H8 Ht H) as (A & B & ->).
  split; [constructor; cbn [m_base m_bytes]; try assumption; reflexivity|reflexivity].
Qed.

(* ---- the iterator ----------------------------------------------------------------------------- *)
Lemma next_inv p m total nxt : region_ok m total -> nxt mod 8 = 0 -> nxt <= total - 8 ->
  match tagiter_next p HTagH m 8 (total - 8) nxt with
  | Val (Some g, n') => gref_ok m total g /\ n' mod 8 = 0 /\ n' <= total - 8
  | Val (None, n') => n' mod 8 = 0 /\ n' <= total - 8
  | Panic => True
  | _ => False
  end.
Proof.
  intros Hr Hn Hle. pose proof (region_iter_ok m total Hr) as Hok. destruct Hr as [A B C D E].
  rewrite tagiter_next_closed by assumption. unfold next_closed.
  destruct (N.eqb_spec nxt (total - 8)) as [->|Hne]; [split; lia|].
  rewrite (stored_size_8 HTagH _ _ eq_refl).
  set (size := size_at (m_bytes m) (8 + nxt)).
  destruct (N.ltb_spec size 8) as [H8|H8]; [exact I|].
  destruct (N.ltb_spec (total - 8) (nxt + round8 size)) as [Ho|Ho]; [exact I|].
  unfold gref_ok. cbn [d_off d_plen]. fold size. unfold round8 in *. repeat split; lia.
Qed.

(* the walk from an iterator position exists (used to characterise find) *)
Lemma walk_from (p : profile) m total nxt : region_ok m total -> nxt mod 8 = 0 -> nxt <= total - 8 ->
  exists l ok, walk (m_bytes m) total (8 + nxt) l ok.
Proof.
  intros Hr Hn Hle. pose proof (region_iter_ok m total Hr) as Hok. destruct Hr as [A B C D E].
  destruct (run_walk p HTagH m 8 (total - 8) Hok (S (N.to_nat ((total - 8 - nxt) / 8))) nxt Hn Hle ltac:(lia)) as (l & ok & _ & W).
  exists l, ok. replace (8 + (total - 8)) with total in W by lia. exact W.
Qed.

Lemma item_gref_ok m total off l ok it : walk (m_bytes m) total off l ok -> 8 <= off -> off mod 8 = 0 -> In it l ->
  gref_ok m total (dref_of it).
Proof.
  intros W H8 Ha Hin. pose proof (walk_items_inside _ _ _ _ _ W Ha) as F. rewrite Forall_forall in F.
  destruct (F it Hin) as (A & B & C & D & E). unfold gref_ok, dref_of. cbn [d_off d_plen]. rewrite <- E.
  repeat split; lia.
Qed.

Lemma find_inv p m total nxt typ : region_ok m total -> nxt mod 8 = 0 -> nxt <= total - 8 ->
  match tagiter_find (iter_fuel (total - 8)) p HTagH m 8 (total - 8) nxt typ with
  | Val (Some g, n') => gref_ok m total g /\ n' mod 8 = 0 /\ n' <= total - 8
  | Val (None, n') => n' mod 8 = 0 /\ n' <= total - 8
  | Panic => True
  | _ => False
  end.
Proof.
  intros Hr Hn Hle. pose proof (region_iter_ok m total Hr) as Hok.
  destruct (walk_from p m total nxt Hr Hn Hle) as (l & ok & W). destruct Hr as [A B C D E].
  rewrite (find_walk p HTagH m 8 (total - 8) typ Hok _ nxt l ok Hn Hle);
    [|unfold iter_fuel; lia|replace (8 + (total - 8)) with total by lia; exact W].
  unfold find_closed.
  destruct (find (fun it => typ_at (m_bytes m) (i_off it) =? typ) l) as [it|] eqn:Ef.
  - assert (Hin : In it l).
    { clear - Ef. induction l as [|y l IH]; [discriminate|]. cbn [find] in Ef.
      destruct (typ_at (m_bytes m) (i_off y) =? typ); [injection Ef as ->; left; reflexivity|right; auto]. }
    pose proof (item_gref_ok m total (8 + nxt) l ok it W ltac:(lia) ltac:(lia) Hin) as G.
    split; [exact G|]. destruct G as (G1 & G2 & G3 & G4 & G5). unfold dref_of in *. cbn [d_off d_plen] in *.
    pose proof (walk_items_inside _ _ _ _ _ W ltac:(lia)) as F. rewrite Forall_forall in F.
    destruct (F it Hin) as (_ & _ & _ & _ & Es). rewrite <- Es in *. unfold round8 in *. split; lia.
  - destruct ok; [split; lia|exact I].
Qed.

(* ---- casts ---------------------------------------------------------------------------------------- *)
Lemma cast_inv p m total k g : region_ok m total -> gref_ok m total g ->
  match cast_kind p k m g with
  | Val t => tref_ok m total k t
  | Panic => True
  | _ => False
  end.
Proof.
  intros [A B C D E] (G1 & G2 & G3 & G4 & G5).
  rewrite cast_kind_closed; try assumption; [|unfold round8 in *; lia].
  destruct (cast_closed k (d_off g) (size_at (m_bytes m) (d_off g))) as [t| | |] eqn:Ec.
  - exists g. split; [repeat split; assumption|exact Ec].
  - unfold cast_closed in Ec. destruct (is_dst k); repeat (match type of Ec with (if ?c then _ else _) = _ => destruct c end); discriminate.
  - exact I.
  - unfold cast_closed in Ec. destruct (is_dst k); repeat (match type of Ec with (if ?c then _ else _) = _ => destruct c end); discriminate.
Qed.

(* what a typed reference guarantees: its whole extent, and its unsized tail, lie inside its tag *)
Lemma tref_extent m total k t : tref_ok m total k t ->
  8 <= t_off t /\ t_off t mod 8 = 0 /\
  exists size, size = size_at (m_bytes m) (t_off t) /\ 8 <= size /\ t_off t + round8 size <= total /\
    tref_size_of_val k t = round8 size /\
    (is_dst k = true -> t_meta t = Some ((size - kind_base k) / tail_esize k) /\ kind_base k <= size /\
                        tail_off k t = t_off t + kind_base k /\
                        tail_count t * tail_esize k = size - kind_base k) /\
    (is_dst k = false -> t_meta t = None /\ round8 size = sd_size_of (kind_struct k)).
Proof.
  intros (g & (G1 & G2 & G3 & G4 & G5) & Hc). unfold cast_closed in Hc.
  set (size := size_at (m_bytes m) (d_off g)) in *.
  destruct (is_dst k) eqn:Ed.
  - destruct (N.ltb_spec size (kind_base k)) as [X|H1]; [discriminate|].
    destruct (N.eqb_spec ((size - kind_base k) mod tail_esize k) 0) as [H2|X]; cbn [negb] in Hc; [|discriminate].
    injection Hc as <-. cbn [t_off t_meta]. split; [exact G1|]. split; [exact G2|].
    exists size. pose proof (dst_esize_pos k Ed) as He.
    assert (Ex : (size - kind_base k) / tail_esize k * tail_esize k = size - kind_base k).
    { rewrite N.mul_comm. symmetry. apply N.div_exact; [lia|exact H2]. }
    split; [reflexivity|]. split; [exact G3|]. split; [exact G5|]. split.
    + unfold tref_size_of_val. cbn [t_meta]. rewrite sov_dst by exact Ed. rewrite Ex. f_equal. lia.
    + split; [|discriminate]. intros _. unfold tail_off, tail_count. cbn [t_off t_meta]. rewrite (dst_tail_off k Ed).
      repeat split; try lia; try exact Ex.
  - destruct (N.eqb_spec (round8 size) (sd_size_of (kind_struct k))) as [H1|X]; [|discriminate].
    injection Hc as <-. cbn [t_off t_meta]. split; [exact G1|]. split; [exact G2|].
    exists size. split; [reflexivity|]. split; [exact G3|]. split; [exact G5|]. split.
    + unfold tref_size_of_val. cbn [t_meta]. rewrite sov_sized by exact Ed. symmetry. exact H1.
    + split; [discriminate|]. intros _. split; [reflexivity|exact H1].
Qed.

(* ---- accessors ------------------------------------------------------------------------------------ *)
Lemma len_tail_bytes m total k t : region_ok m total -> tref_ok m total k t -> is_dst k = true ->
  len (tail_bytes k m t) = tail_count t * tail_esize k /\ tail_off k t + tail_count t * tail_esize k <= total.
Proof.
  intros Hr Ht Hd. destruct (tref_extent m total k t Ht) as (A & B & size & Es & S8 & Sin & Sov & Hdst & _).
  destruct (Hdst Hd) as (M & Bk & To & Tc). destruct Hr as [R1 R2 R3 R4 R5].
  pose proof (round8_ge size). unfold tail_bytes. rewrite len_slice. rewrite To, Tc. split; lia.
Qed.

Lemma str_inv m total k t : region_ok m total -> tref_ok m total k t -> is_dst k = true -> tail_esize k = 1 ->
  match tag_str k m t with
  | Val (off, n) => off + n <= total /\ tail_off k t <= off /\ off + n <= tail_off k t + tail_count t
  | Err _ => True
  | _ => False
  end.
Proof.
  intros Hr Ht Hd He. destruct (len_tail_bytes m total k t Hr Ht Hd) as [L1 L2]. rewrite He, N.mul_1_r in *.
  unfold tag_str. destruct (parse_str (tail_bytes k m t)) as [n| | |] eqn:E; cbn [bind].
  - apply parse_str_bound in E. lia.
  - exact I.
  - destruct (parse_str_total (tail_bytes k m t)) as [P _]. rewrite E in P. discriminate.
  - destruct (parse_str_total (tail_bytes k m t)) as [_ P]. rewrite E in P. discriminate.
Qed.

Lemma efi_tag_ok_of m total t : region_ok m total -> tref_ok m total KEfiMmap t ->
  exists L, efi_tag_ok m t L /\ t_off t + 16 + L <= total.
Proof.
  intros Hr Ht. destruct (tref_extent m total KEfiMmap t Ht) as (A & B & size & Es & S8 & Sin & Sov & Hdst & _).
  destruct (Hdst eq_refl) as (M & Bk & To & Tc). destruct Hr as [R1 R2 R3 R4 R5].
  change (kind_base KEfiMmap) with 16 in *. change (tail_esize KEfiMmap) with 1 in *. rewrite N.div_1_r in M.
  pose proof (round8_ge size). assert (Hs : size < pow2_32) by (rewrite Es; apply le_slice4_bound). unfold pow2_32 in Hs.
  exists (size - 16). split; [|lia]. constructor; try assumption; try lia. unfold pow2_32. lia.
Qed.

Lemma elf_tag_ok_of m total t : region_ok m total -> tref_ok m total KElfSections t ->
  exists L, elf_tag_ok m t L /\ t_off t + 20 + L <= total.
Proof.
  intros Hr Ht. destruct (tref_extent m total KElfSections t Ht) as (A & B & size & Es & S8 & Sin & Sov & Hdst & _).
  destruct (Hdst eq_refl) as (M & Bk & To & Tc). destruct Hr as [R1 R2 R3 R4 R5].
  change (kind_base KElfSections) with 20 in *. change (tail_esize KElfSections) with 1 in *. rewrite N.div_1_r in M.
  pose proof (round8_ge size). exists (size - 20). split; [|lia]. constructor; try assumption; lia.
Qed.

Lemma fb_inv m total t : region_ok m total -> tref_ok m total KFramebuffer t ->
  match fb_buffer_type m t with
  | Val (FbtIndexed off n) => off + n * 3 <= total /\ tail_off KFramebuffer t <= off /\
                              off + n * 3 <= tail_off KFramebuffer t + tail_count t
  | Val _ => True
  | Err _ => True
  | Panic => True
  | Fault _ => False
  end.
Proof.
  intros Hr Ht. destruct (len_tail_bytes m total KFramebuffer t Hr Ht eq_refl) as [L1 L2].
  change (tail_esize KFramebuffer) with 1 in *. rewrite N.mul_1_r in *.
  unfold fb_buffer_type. set (buf := tail_bytes KFramebuffer m t) in *.
  destruct (fb_try_from (fld KFramebuffer m t "framebuffer_type")) as [id| | |] eqn:Ef; cbn [bind]; try exact I.
  - destruct id.
    + unfold rd_u8. destruct (N.ltb_spec 0 (len buf)) as [H0|H0]; cbn [bind]; [|exact I].
      destruct (N.ltb_spec 1 (len buf)) as [H1|H1]; cbn [bind]; [|exact I].
      unfold assert.
      destruct (N.leb_spec ((le (slice buf 1 1) * 256 + le (slice buf 0 1)) * 3) (len buf - 2)) as [Hp|]; cbn [bind]; [|exact I].
      cbv beta iota. lia.
    + unfold rd_u8.
      repeat (match goal with |- context [?a <? len buf] => destruct (a <? len buf); cbn [bind]; [|exact I] end). exact I.
    + exact I.
  - unfold fb_try_from in Ef. destruct (fld KFramebuffer m t "framebuffer_type") as [|[[q|q|]|[q|q|]|]]; discriminate.
Qed.

Lemma rsdp_inv m total : region_ok m total ->
  (forall t, tref_ok m total KAcpiV1 t -> is_fault (rsdp1_checksum_valid m t) = false /\ is_panic (rsdp1_checksum_valid m t) = false) /\
  (forall t, tref_ok m total KAcpiV2 t -> is_fault (rsdp2_checksum_valid m t) = false /\ is_panic (rsdp2_checksum_valid m t) = false).
Proof.
  intros Hr. split; intros t Ht.
  - destruct (tref_extent m total KAcpiV1 t Ht) as (A & B & size & Es & S8 & Sin & Sov & _ & Hs).
    destruct (Hs eq_refl) as (_ & E). change (sd_size_of (kind_struct KAcpiV1)) with 32 in E. destruct Hr as [R1 R2 R3 R4 R5].
    unfold rsdp1_checksum_valid, mrd, rd. destruct (N.leb_spec (t_off t + 28) (len (m_bytes m))); [split; reflexivity|lia].
  - destruct (tref_extent m total KAcpiV2 t Ht) as (A & B & size & Es & S8 & Sin & Sov & _ & Hs).
    destruct (Hs eq_refl) as (_ & E). change (sd_size_of (kind_struct KAcpiV2)) with 48 in E. destruct Hr as [R1 R2 R3 R4 R5].
    unfold rsdp2_checksum_valid. destruct (N.ltb_spec 36 (fld KAcpiV2 m t "length")); [split; reflexivity|].
    unfold mrd, rd. destruct (N.leb_spec (t_off t + (fld KAcpiV2 m t "length" + 8)) (len (m_bytes m))); [split; reflexivity|lia].
Qed.

(* the one known finding: VBEModeInfo.memory_model (see known_findings.json, F18) *)
Definition no_f18 (m : mem) (total : N) : Prop :=
  forall t, tref_ok m total KVbe t -> fld KVbe m t "mi.memory_model" <= 7.

(* ---- one step ---------------------------------------------------------------------------------------- *)
Definition outcome_ok (m : mem) (total : N) (r : res (list handle)) : Prop :=
  match r with
  | Val hs => Forall (Inv m total) hs
  | Err _ => True
  | Panic => True
  | Fault _ => False
  end.

Lemma bind_outcome {A} m total (r : res A) (f : A -> res (list handle)) (P : A -> Prop) :
  match r with Val a => P a | Err _ => True | Panic => True | Fault _ => False end ->
  (forall a, P a -> outcome_ok m total (f a)) ->
  outcome_ok m total (bind r f).
Proof. destruct r as [a| | |]; cbn [bind outcome_ok]; intros H Hf; try exact H; try exact I. apply Hf. exact H. Qed.

Lemma get_tag_inv p m total k : region_ok m total ->
  match get_tag p k m (boot_ref total) with
  | Val (Some t) => tref_ok m total k t
  | Val None => True
  | Panic => True
  | _ => False
  end.
Proof.
  intros Hr. unfold get_tag, boot_ref. cbn [d_off d_plen]. change (0 + 8) with 8.
  pose proof (find_inv p m total 0 (kind_typ k) Hr eq_refl ltac:(lia)) as F.
  destruct (tagiter_find (iter_fuel (total - 8)) p HTagH m 8 (total - 8) 0 (kind_typ k)) as [[[g|] n']| | |]; cbn [bind]; try exact F; try exact I.
  destruct F as (G & _). pose proof (cast_inv p m total k g Hr G) as C.
  destruct (cast_kind p k m g) as [t| | |]; cbn [bind]; exact C.
Qed.

Ltac nil_case := unfold ret; cbn [outcome_ok]; apply Forall_nil.

Lemma inv1 m total h : Inv m total h -> Forall (Inv m total) [h].
Proof. intros H. constructor; [exact H|constructor]. Qed.
Lemma inv2 m total h1 h2 : Inv m total h1 -> Inv m total h2 -> Forall (Inv m total) [h1; h2].
Proof. intros H1 H2. constructor; [exact H1|apply inv1; exact H2]. Qed.

Lemma ret_ok m total hs : Forall (Inv m total) hs -> outcome_ok m total (ret hs).
Proof. intros H. exact H. Qed.


(* ---- Debug formatters ------------------------------------------------------------------------------- *)
Definition nofault {A} (r : res A) : Prop := is_fault r = false.

Lemma nofault_bind {A B} (r : res A) (f : A -> res B) :
  nofault r -> (forall a, r = Val a -> nofault (f a)) -> nofault (bind r f).
Proof. destruct r as [a| | |]; cbn [bind]; intros H Hf; try reflexivity; try exact H. apply Hf. reflexivity. Qed.

Lemma nofault_ignore {A} (r : res A) : nofault r -> nofault (ignore r).
Proof. destruct r; intros H; try reflexivity; exact H. Qed.
Lemma nofault_ignore_err {A} (r : res A) : nofault r -> nofault (ignore_err r).
Proof. destruct r; intros H; try reflexivity; exact H. Qed.

Lemma dbg_efi_val p m L it : efi_inv m L it -> dbg_efi_iter p m it = Val tt.
Proof.
  intros Hi. unfold dbg_efi_iter. rewrite (efi_collect_spec p m L _ it Hi); [reflexivity|].
  destruct Hi as [_ _ _ _ Hle]. lia.
Qed.

Lemma elf_take_nofault p m tag_off L : forall n it, elf_inv m tag_off L it -> nofault (elf_take n p m it).
Proof.
  induction n as [|n IH]; intros it Hi; cbn [elf_take]; [reflexivity|].
  pose proof (elf_next_inv p m tag_off L (elf_fuel it) it Hi ltac:(unfold elf_fuel; lia)) as N.
  destruct (elf_next (elf_fuel it) p m it) as [[[s|] it']| | |]; cbn [bind]; try reflexivity; try (destruct N; fail).
  destruct N as (_ & Hi' & _). apply IH. exact Hi'.
Qed.

Lemma status_nofault ok : nofault (status ok).
Proof. destruct ok; reflexivity. Qed.

Lemma modules_spec_nofault bs l ok : nofault (snd (modules_spec bs l ok)).
Proof.
  induction l as [|it l IH]; cbn [modules_spec]; [apply status_nofault|].
  destruct (is_module bs it); [|exact IH]. destruct (i_size it <? 16); [reflexivity|].
  destruct (modules_spec bs l ok) as [x e]. exact IH.
Qed.

Lemma modules_run_nofault p m total nxt : region_ok m total -> nxt mod 8 = 0 -> nxt <= total - 8 ->
  nofault (snd (modules_run (iter_fuel (total - 8)) p m 8 (total - 8) nxt)).
Proof.
  intros Hr Hn Hle. pose proof (region_iter_ok m total Hr) as Hok.
  destruct (walk_from p m total nxt Hr Hn Hle) as (l & ok & W). destruct Hr as [A B C D E].
  rewrite (modules_walk p m 8 (total - 8) Hok (iter_fuel (total - 8)) l ok nxt Hn Hle).
  - apply modules_spec_nofault.
  - pose proof (walk_length _ _ _ _ _ W ltac:(lia)) as Hl. unfold iter_fuel, len in *. lia.
  - replace (8 + (total - 8)) with total by lia. exact W.
Qed.

Lemma tagiter_run_nofault p m total : region_ok m total ->
  nofault (snd (tagiter_run (iter_fuel (total - 8)) p HTagH m 8 (total - 8) 0)).
Proof.
  intros Hr. pose proof (region_iter_ok m total Hr) as Hok. destruct Hr as [A B C D E].
  destruct (run_walk p HTagH m 8 (total - 8) Hok (iter_fuel (total - 8)) 0 eq_refl ltac:(lia) ltac:(unfold iter_fuel; rewrite N.sub_0_r; lia))
    as (l & ok & Hrun & _).
  rewrite Hrun. apply status_nofault.
Qed.

Lemma kind_tail_none_end k : sd_tail (kind_struct k) = None -> sd_tail_off (kind_struct k) <= sd_size_of (kind_struct k).
Proof. destruct k; intros H; try discriminate H; vm_compute; discriminate. Qed.

Lemma dbg_kind_nofault p m total k t : region_ok m total -> no_f18 m total -> tref_ok m total k t ->
  nofault (dbg_kind p k m t).
Proof.
  intros Hr Hf Hinv. destruct k; cbn [dbg_kind]; try reflexivity.
  - (* VBE *) apply nofault_ignore. unfold vbe_memory_model. specialize (Hf t Hinv).
    destruct (N.leb_spec (fld KVbe m t "mi.memory_model") 7); [reflexivity|lia].
  - (* framebuffer *) apply nofault_ignore_err. pose proof (fb_inv m total t Hr Hinv) as F.
    destruct (fb_buffer_type m t); try reflexivity. destruct F.
  - (* ELF *) destruct (elf_tag_ok_of m total t Hr Hinv) as (L & Hok & Hin).
    rewrite (elf_sections_closed p m t L Hok). destruct (elf_fits m t L) eqn:Ef; cbn [bind]; [|reflexivity].
    apply (elf_take_nofault p m (t_off t) L). apply (elf_sections_inv p m t L _ Hok).
    rewrite (elf_sections_closed p m t L Hok), Ef. reflexivity.
  - (* EFI *) destruct (efi_tag_ok_of m total t Hr Hinv) as (L & Hok & Hin).
    rewrite (efi_areas_closed m t L Hok). destruct (efi_accepts m t L) eqn:Ea; cbn [bind]; [|reflexivity].
    rewrite (dbg_efi_val p m L); [reflexivity|].
    apply (efi_areas_inv m t L _ Hok). rewrite (efi_areas_closed m t L Hok), Ea. reflexivity.
Qed.

Lemma dbg_get_nofault p m total k : region_ok m total -> no_f18 m total ->
  nofault (dbg_opt p k m (get_tag p k m (boot_ref total))).
Proof.
  intros Hr Hf. unfold dbg_opt. pose proof (get_tag_inv p m total k Hr) as G.
  destruct (get_tag p k m (boot_ref total)) as [[t|]| | |]; cbn [bind]; try reflexivity; try (destruct G; fail).
  apply (dbg_kind_nofault p m total k t Hr Hf G).
Qed.

Lemma dbg_boot_nofault p m total : region_ok m total -> no_f18 m total -> nofault (dbg_boot p m (boot_ref total)).
Proof.
  intros Hr Hf. pose proof Hr as [R1 R2 R3 R4 R5]. unfold dbg_boot.
  assert (Ha : forall k (f : unit -> res unit), (forall u, nofault (f u)) ->
               nofault (bind (dbg_opt p k m (get_tag p k m (boot_ref total))) f)).
  { intros k f Hfn. apply nofault_bind; [apply dbg_get_nofault; assumption|intros a _; apply Hfn]. }
  apply nofault_bind.
  { apply nofault_ignore. unfold mbi_end_address, uadd, add_w. destruct (_ <? pow2_64); [reflexivity|destruct p; reflexivity]. }
  intros _ _.
  do 8 (apply Ha; intros _).
  apply nofault_bind.
  { unfold dbg_opt, efi_memory_map_tag. pose proof (get_tag_inv p m total KEfiBs Hr) as G.
    destruct (get_tag p KEfiBs m (boot_ref total)) as [[t|]| | |]; cbn [bind]; try reflexivity; try (destruct G; fail).
    pose proof (get_tag_inv p m total KEfiMmap Hr) as G2.
    destruct (get_tag p KEfiMmap m (boot_ref total)) as [[t|]| | |]; cbn [bind]; try reflexivity; try (destruct G2; fail).
    apply (dbg_kind_nofault p m total KEfiMmap t Hr Hf G2). }
  intros _ _.
  do 3 (apply Ha; intros _).
  apply nofault_bind.
  { unfold framebuffer_tag. pose proof (get_tag_inv p m total KFramebuffer Hr) as G.
    destruct (get_tag p KFramebuffer m (boot_ref total)) as [[t|]| | |]; cbn [bind]; try reflexivity; try (destruct G; fail).
    pose proof (fb_inv m total t Hr G) as F.
    destruct (fb_buffer_type m t) as [x| | |] eqn:Eb; cbn [bind]; try reflexivity; try (destruct F; fail).
    cbn [dbg_kind]. rewrite Eb. reflexivity. }
  intros _ _.
  do 2 (apply Ha; intros _).
  apply nofault_bind.
  { unfold tags_b, tags_len, boot_ref. cbn [d_off d_plen]. change (0 + 8) with 8.
    apply (modules_run_nofault p m total 0 Hr); [reflexivity|lia]. }
  intros _ _.
  do 5 (apply Ha; intros _).
  unfold tags_b, tags_len, boot_ref. cbn [d_off d_plen]. change (0 + 8) with 8.
  apply (tagiter_run_nofault p m total Hr).
Qed.

Lemma nofault_unit_step m total (r : res unit) : nofault r -> outcome_ok m total (bind r (fun _ => ret [HVal])).
Proof. destruct r; cbn [bind outcome_ok]; intros H; try exact I; try discriminate H. unfold ret. constructor; [exact I|constructor]. Qed.

Lemma step_safe_tag p m total k t o : region_ok m total -> no_f18 m total -> tref_ok m total k t ->
  outcome_ok m total (step p m (HTag k t) o).
Proof.
  intros Hr Hf Hinv. pose proof Hr as [R1 R2 R3 R4 R5].
  destruct (tref_extent m total k t Hinv) as (A & B & size & Es & S8 & Sin & Sov & Hdst & Hsz).
  pose proof (round8_ge size) as Hrg.
  assert (Htail : tail_off k t + tail_count t * tail_esize k <= total).
  { destruct (is_dst k) eqn:Ed.
    - destruct (Hdst eq_refl) as (M & Bk & To & Tc). rewrite To, Tc. lia.
    - destruct (Hsz eq_refl) as (M & Er). unfold tail_count. rewrite M, N.mul_0_l.
      assert (Hst : sd_tail (kind_struct k) = None).
      { unfold is_dst in Ed. destruct (sd_tail (kind_struct k)); [discriminate|reflexivity]. }
      pose proof (kind_tail_none_end k Hst). unfold tail_off. lia. }
  destruct o; try (destruct k; cbn [step]; nil_case).
  - (* OPayload *) destruct k; cbn [step]; apply ret_ok, inv1; cbn [Inv]; rewrite Sov; unfold round8 in *; lia.
  - (* OField *) destruct k; cbn [step]; apply ret_ok, inv1; exact I.
  - (* OStr *)
    destruct k; cbn [step]; try nil_case.
    + pose proof (str_inv m total KCmdline t Hr Hinv eq_refl eq_refl) as S.
      destruct (tag_str KCmdline m t) as [[off n]| | |]; cbn [outcome_ok]; try exact S; try exact I; try nil_case.
      apply inv1. cbn [Inv]. lia.
    + pose proof (str_inv m total KBootLoaderName t Hr Hinv eq_refl eq_refl) as S.
      destruct (tag_str KBootLoaderName m t) as [[off n]| | |]; cbn [outcome_ok]; try exact S; try exact I; try nil_case.
      apply inv1. cbn [Inv]. lia.
    + pose proof (str_inv m total KModule t Hr Hinv eq_refl eq_refl) as S.
      destruct (tag_str KModule m t) as [[off n]| | |]; cbn [outcome_ok]; try exact S; try exact I; try nil_case.
      apply inv1. cbn [Inv]. lia.
  - (* OTail *) destruct k; cbn [step]; apply ret_ok, inv1; cbn [Inv]; exact Htail.
  - (* OMemoryAreas *)
    destruct k; cbn [step]; try nil_case.
    + unfold mmap_areas, assert. destruct (fld KMmap m t "entry_size" =? 24); cbn [bind outcome_ok]; [|exact I].
      apply inv1. cbn [Inv fst snd]. change (tail_esize KMmap) with 24 in Htail. exact Htail.
    + destruct (efi_tag_ok_of m total t Hr Hinv) as (L & Hok & Hin).
      rewrite (efi_areas_closed m t L Hok).
      destruct (efi_accepts m t L) eqn:Ea; cbn [bind outcome_ok]; [|exact I].
      apply inv1. cbn [Inv]. exists L. split; [|exact Hin].
      apply (efi_areas_inv m t L _ Hok). rewrite (efi_areas_closed m t L Hok), Ea. reflexivity.
  - (* OSections *)
    destruct k; cbn [step]; try nil_case.
    destruct (elf_tag_ok_of m total t Hr Hinv) as (L & Hok & Hin).
    pose proof (elf_sections_inv p m t L) as SI.
    destruct (elf_sections p m t) as [it| | |] eqn:Es2; cbn [bind outcome_ok]; try exact I.
    + apply inv1. cbn [Inv]. exists (t_off t), L. split; [apply SI; [exact Hok|reflexivity]|exact Hin].
    + rewrite (elf_sections_closed p m t L Hok) in Es2. destruct (elf_fits m t L); discriminate.
  - (* OBufferType *)
    destruct k; cbn [step]; try nil_case.
    pose proof (fb_inv m total t Hr Hinv) as F.
    destruct (fb_buffer_type m t) as [[off n|a b c d e f|]| | |]; cbn [bind outcome_ok]; try exact I; try exact F;
      apply inv1; cbn [Inv]; try exact I. lia.
  - (* OChecksumValid *)
    destruct (rsdp_inv m total Hr) as [R1' R2'].
    destruct k; cbn [step]; try nil_case.
    + destruct (R1' t Hinv) as [F1 F2]. destruct (rsdp1_checksum_valid m t); cbn [bind outcome_ok]; try discriminate; try exact I. apply inv1; exact I.
    + destruct (R2' t Hinv) as [F1 F2]. destruct (rsdp2_checksum_valid m t); cbn [bind outcome_ok]; try discriminate; try exact I. apply inv1; exact I.
  - (* OMemoryModel *)
    destruct k; cbn [step]; try nil_case.
    unfold vbe_memory_model. specialize (Hf t Hinv).
    destruct (N.leb_spec (fld KVbe m t "mi.memory_model") 7); [|lia]. cbn [bind outcome_ok]. apply inv1; exact I.
  - (* ODebug *)
    assert (Hd : nofault (dbg_kind p k m t)) by (apply (dbg_kind_nofault p m total k t Hr Hf Hinv)).
    destruct k; cbn [step]; apply nofault_unit_step; exact Hd.
Qed.

Lemma rmap_fault {A B} (f : A -> B) (r : res A) : is_fault (rmap f r) = is_fault r.
Proof. destruct r; reflexivity. Qed.
Lemma unit_step m total (r : res unit) : is_fault r = false -> outcome_ok m total (bind r (fun _ => ret [HVal])).
Proof. destruct r; cbn [bind outcome_ok is_fault]; intros H; try exact I; try discriminate. apply inv1. exact I. Qed.

Theorem step_safe p m total h o : region_ok m total -> no_f18 m total -> Inv m total h ->
  outcome_ok m total (step p m h o).
Proof.
  intros Hr Hf Hinv. pose proof Hr as [R1 R2 R3 R4 R5].
  destruct h as [r|r nxt|r nxt|g|k t|it|it|s|off n|]; cbn [Inv] in Hinv.
  - (* HBoot *) subst r.
    destruct o; cbn [step]; try nil_case.
    + apply ret_ok. apply inv1; cbn [Inv]; repeat split; lia.
    + apply ret_ok. apply inv1; cbn [Inv]; repeat split; lia.
    + pose proof (get_tag_inv p m total k Hr) as G.
      destruct (get_tag p k m (boot_ref total)) as [[t|]| | |]; cbn [bind outcome_ok]; try exact G; try exact I.
      * apply inv1. exact G.
      * constructor.
    + unfold efi_memory_map_tag. pose proof (get_tag_inv p m total KEfiBs Hr) as G.
      destruct (get_tag p KEfiBs m (boot_ref total)) as [[t|]| | |]; cbn [bind outcome_ok]; try exact G; try exact I.
      * constructor.
      * pose proof (get_tag_inv p m total KEfiMmap Hr) as G2.
        destruct (get_tag p KEfiMmap m (boot_ref total)) as [[t|]| | |]; cbn [bind outcome_ok]; try exact G2; try exact I.
        -- apply inv1. exact G2.
        -- constructor.
    + unfold framebuffer_tag. pose proof (get_tag_inv p m total KFramebuffer Hr) as G.
      destruct (get_tag p KFramebuffer m (boot_ref total)) as [[t|]| | |]; cbn [bind outcome_ok]; try exact G; try exact I.
      * pose proof (fb_inv m total t Hr G) as F.
        destruct (fb_buffer_type m t) as [x| | |]; cbn [bind outcome_ok]; try exact I; try (constructor; fail).
        -- apply inv1. exact G.
        -- destruct F.
      * constructor.
    + (* deprecated elf_sections() *)
      unfold elf_sections_deprecated. pose proof (get_tag_inv p m total KElfSections Hr) as G.
      destruct (get_tag p KElfSections m (boot_ref total)) as [[t|]| | |]; cbn [bind outcome_ok]; try exact G; try exact I.
      * unfold assert. destruct (_ <=? _); cbn [bind outcome_ok]; [|exact I].
        destruct (elf_tag_ok_of m total t Hr G) as (L & Hok & Hin).
        pose proof (elf_sections_inv p m t L) as SI.
        destruct (elf_sections p m t) as [it| | |] eqn:Es2; cbn [bind outcome_ok]; try exact I.
        -- apply inv1. cbn [Inv]. exists (t_off t), L. split; [apply SI; [exact Hok|reflexivity]|exact Hin].
        -- rewrite (elf_sections_closed p m t L Hok) in Es2. destruct (elf_fits m t L); discriminate.
      * constructor.
    + (* Debug *) apply nofault_unit_step. apply dbg_boot_nofault; assumption.
  - (* HIter *) destruct Hinv as (-> & Hn & Hle).
    destruct o; cbn [step]; try nil_case.
    + unfold tags_b, tags_len, boot_ref. cbn [d_off d_plen]. change (0 + 8) with 8.
      pose proof (next_inv p m total nxt Hr Hn Hle) as N.
      destruct (tagiter_next p HTagH m 8 (total - 8) nxt) as [[[g|] n']| | |]; cbn [bind outcome_ok]; try exact N; try exact I.
      * destruct N as (G & A & B). apply inv2; cbn [Inv]; [repeat split; assumption|exact G].
      * destruct N as (A & B). apply inv1; cbn [Inv]; repeat split; assumption.
    + apply ret_ok. apply inv1; cbn [Inv]; repeat split; assumption.
  - (* HModIter *) destruct Hinv as (-> & Hn & Hle).
    destruct o; cbn [step]; try nil_case.
    + unfold tags_b, tags_len, boot_ref. cbn [d_off d_plen]. change (0 + 8) with 8.
      pose proof (find_inv p m total nxt MODULE_TYP Hr Hn Hle) as F.
      destruct (tagiter_find (iter_fuel (total - 8)) p HTagH m 8 (total - 8) nxt MODULE_TYP) as [[[g|] n']| | |];
        cbn [bind outcome_ok]; try exact F; try exact I.
      * destruct F as (G & A & B). pose proof (cast_inv p m total KModule g Hr G) as C.
        destruct (cast_kind p KModule m g) as [t| | |]; cbn [bind outcome_ok]; try exact C; try exact I.
        apply inv2; cbn [Inv]; [repeat split; assumption|exact C].
      * destruct F as (A & B). apply inv1; cbn [Inv]; repeat split; assumption.
    + apply ret_ok. apply inv1; cbn [Inv]; repeat split; assumption.
    + (* Debug *) apply nofault_unit_step. unfold tags_b, tags_len, boot_ref. cbn [d_off d_plen]. change (0 + 8) with 8.
      apply (modules_run_nofault p m total nxt Hr Hn Hle).
  - (* HGen *) destruct o; cbn [step]; try nil_case.
    + pose proof (cast_inv p m total k g Hr Hinv) as C.
      destruct (cast_kind p k m g) as [t| | |]; cbn [bind outcome_ok]; try exact C; try exact I.
      apply inv1. exact C.
    + apply ret_ok. destruct Hinv as (G1 & G2 & G3 & G4 & G5). apply inv1. cbn [Inv]. rewrite G4.
      pose proof (round8_ge (size_at (m_bytes m) (d_off g))). lia.
  - (* HTag *) apply step_safe_tag; assumption.
  - (* HEfiIter *) destruct Hinv as (L & Hi & Hin).
    destruct (efi_next_spec p m L it Hi) as (En & Hpres & El).
    destruct o; cbn [step]; try nil_case.
    + rewrite En. unfold efi_next_closed in *.
      destruct (N.leb_spec (ei_entries it) (ei_i it)) as [He|He]; cbn [bind outcome_ok].
      * apply inv1. cbn [Inv]. exists L. split; assumption.
      * pose proof (efi_desc_inside m L it _ _ Hi ltac:(unfold efi_next_closed; destruct (N.leb_spec (ei_entries it) (ei_i it)); [lia|reflexivity])) as (D1 & D2 & D3 & D4).
        apply inv2; cbn [Inv].
        -- exists L. split; [apply (Hpres _ _ eq_refl)|exact Hin].
        -- lia.
    + apply ret_ok. apply inv1. cbn [Inv]. exists L. split; assumption.
    + rewrite El. cbn [bind outcome_ok]. apply inv1; exact I.
    + (* Debug *) rewrite (dbg_efi_val p m L it Hi). cbn [bind outcome_ok]. apply inv1; exact I.
  - (* HElfIter *) destruct Hinv as (tag_off & L & Hi & Hin).
    destruct o; cbn [step]; try nil_case.
    + pose proof (elf_next_inv p m tag_off L (elf_fuel it) it Hi ltac:(unfold elf_fuel; lia)) as N.
      destruct (elf_next (elf_fuel it) p m it) as [[[s|] it']| | |]; cbn [bind outcome_ok]; try exact N; try exact I.
      * destruct N as (S1 & S2 & _). apply inv2; cbn [Inv]; exists tag_off, L; split; assumption.
      * destruct N as (_ & S2). apply inv1. cbn [Inv]. exists tag_off, L. split; assumption.
    + apply ret_ok. apply inv1. cbn [Inv]. exists tag_off, L. split; assumption.
    + apply ret_ok. apply inv1; exact I.
    + (* Debug *) apply nofault_unit_step. apply (elf_take_nofault p m tag_off L 7 it Hi).
  - (* HElfSec *) destruct Hinv as (tag_off & L & Hs & Hin).
    destruct (elf_accessors_nofault p m tag_off L s Hs) as (A1 & A2 & A3 & A4 & A5 & A6 & A7 & A8).
    destruct o; cbn [step]; try nil_case.
    apply unit_step.
    destruct which as [|[[[q|q|]|[q|q|]|]|[[q|q|]|[q|q|]|]|]]; rewrite rmap_fault; assumption.
  - (* HView *) destruct o; cbn [step]; nil_case.
  - (* HVal *) destruct o; cbn [step]; nil_case.
Qed.

(* ---- programs: any sequence of operations on any handles obtained so far ---------------------------- *)
Theorem run_safe p m total : region_ok m total -> no_f18 m total ->
  forall prog pool, Forall (Inv m total) pool -> outcome_ok m total (run p m pool prog).
Proof.
  intros Hr Hf. induction prog as [|[i o] rest IH]; intros pool Hp; cbn [run].
  - exact Hp.
  - destruct (nth_error pool i) as [h|] eqn:En; [|apply IH; exact Hp].
    assert (Hh : Inv m total h).
    { rewrite Forall_forall in Hp. apply Hp. eapply nth_error_In. exact En. }
    pose proof (step_safe p m total h o Hr Hf Hh) as S.
    destruct (step p m h o) as [hs| | |]; cbn [bind outcome_ok] in *; try exact I; try exact S.
    apply IH. apply Forall_app. split; assumption.
Qed.

Theorem load_and_run_safe p a bs r prog :
  a mod 8 = 0 -> 8 <= len bs -> le (slice bs 0 4) <= len bs ->
  let m := {| m_base := a; m_bytes := bs |} in
  is_fault (mbi_load p false m) = false /\
  (mbi_load p false m = Val r -> no_f18 m (le (slice bs 0 4)) ->
   is_fault (run p m [HBoot r] prog) = false).
Proof.
  intros Ha H8 Ht m. split.
  - unfold m. rewrite c02_load_spec by assumption. unfold c02_closed. cbv zeta.
    destruct (le (slice bs 0 4) <? 8); [reflexivity|]. destruct (negb _); [reflexivity|].
    destruct (_ && _); reflexivity.
  - intros Hl Hf. destruct (load_region p a bs r Ha H8 Ht Hl) as [Hr ->].
    pose proof (run_safe p m _ Hr Hf prog [HBoot (boot_ref (le (slice bs 0 4)))] ltac:(apply inv1; reflexivity)) as S.
    destruct (run p m [HBoot (boot_ref (le (slice bs 0 4)))] prog); cbn [outcome_ok is_fault] in *; try reflexivity. destruct S.
Qed.

Lemma step_tag_debug p m k t : step p m (HTag k t) ODebug = (_ <- dbg_kind p k m t ;; ret [HVal]).
Proof. destruct k; reflexivity. Qed.

(* ---- every reference or slice handed out by a tag lies entirely inside that tag ------------------------ *)
Theorem views_inside_tag p m total k t o hs off n : region_ok m total -> tref_ok m total k t ->
  step p m (HTag k t) o = Val hs -> In (HView off n) hs ->
  t_off t <= off /\ off + n <= t_off t + tref_size_of_val k t.
Proof.
  intros Hr Hinv Hs Hin. pose proof Hr as [R1 R2 R3 R4 R5].
  destruct (tref_extent m total k t Hinv) as (A & B & size & Es & S8 & Sin & Sov & Hdst & Hsz).
  pose proof (round8_ge size) as Hrg. rewrite Sov.
  assert (Htail : t_off t <= tail_off k t /\ tail_off k t + tail_count t * tail_esize k <= t_off t + round8 size).
  { destruct (is_dst k) eqn:Ed.
    - destruct (Hdst eq_refl) as (M & Bk & To & Tc). rewrite To, Tc. lia.
    - destruct (Hsz eq_refl) as (M & Er). unfold tail_count. rewrite M, N.mul_0_l.
      assert (Hst : sd_tail (kind_struct k) = None).
      { unfold is_dst in Ed. destruct (sd_tail (kind_struct k)); [discriminate|reflexivity]. }
      pose proof (kind_tail_none_end k Hst). unfold tail_off. lia. }
  assert (Hnone : forall hs', Val hs' = Val hs -> hs' = [] -> False).
  { intros hs' E1 E2. injection E1 as <-. subst hs'. destruct Hin. }
  assert (Hone : forall h', Val [h'] = Val hs -> h' = HView off n).
  { intros h' E1. injection E1 as <-. destruct Hin as [E|[]]. exact E. }
  destruct o; try (destruct k; cbn [step] in Hs; unfold ret in Hs; match type of Hs with Val [] = _ => exfalso; exact (Hnone [] Hs eq_refl) end).
  - (* OPayload *)
    assert (E : HView (t_off t + 8) (tref_size_of_val k t - 8) = HView off n) by (destruct k; cbn [step] in Hs; unfold ret in Hs; apply Hone; exact Hs).
    injection E as <- <-. rewrite Sov. unfold round8 in *. lia.
  - (* OField *)
    assert (E : HVal = HView off n) by (destruct k; cbn [step] in Hs; unfold ret in Hs; apply Hone; exact Hs). discriminate.
  - (* OStr *)
    destruct k; cbn [step] in Hs; unfold ret in Hs; try (match type of Hs with Val [] = _ => exfalso; exact (Hnone [] Hs eq_refl) end).
    + pose proof (str_inv m total KCmdline t Hr Hinv eq_refl eq_refl) as S.
      destruct (tag_str KCmdline m t) as [[o1 n1]| | |]; try discriminate; try (match type of Hs with Val [] = _ => exfalso; exact (Hnone [] Hs eq_refl) end).
      assert (E : HView o1 n1 = HView off n) by (apply Hone; exact Hs). injection E as <- <-.
      change (tail_esize KCmdline) with 1 in Htail. lia.
    + pose proof (str_inv m total KBootLoaderName t Hr Hinv eq_refl eq_refl) as S.
      destruct (tag_str KBootLoaderName m t) as [[o1 n1]| | |]; try discriminate; try (match type of Hs with Val [] = _ => exfalso; exact (Hnone [] Hs eq_refl) end).
      assert (E : HView o1 n1 = HView off n) by (apply Hone; exact Hs). injection E as <- <-.
      change (tail_esize KBootLoaderName) with 1 in Htail. lia.
    + pose proof (str_inv m total KModule t Hr Hinv eq_refl eq_refl) as S.
      destruct (tag_str KModule m t) as [[o1 n1]| | |]; try discriminate; try (match type of Hs with Val [] = _ => exfalso; exact (Hnone [] Hs eq_refl) end).
      assert (E : HView o1 n1 = HView off n) by (apply Hone; exact Hs). injection E as <- <-.
      change (tail_esize KModule) with 1 in Htail. lia.
  - (* OTail *)
    assert (E : HView (tail_off k t) (tail_count t * tail_esize k) = HView off n) by (destruct k; cbn [step] in Hs; unfold ret in Hs; apply Hone; exact Hs).
    injection E as <- <-. lia.
  - (* OMemoryAreas *)
    destruct k; cbn [step] in Hs; unfold ret in Hs; try (match type of Hs with Val [] = _ => exfalso; exact (Hnone [] Hs eq_refl) end).
    + unfold mmap_areas, assert in Hs. destruct (fld KMmap m t "entry_size" =? 24); cbn [bind] in Hs; unfold ret in Hs; [|discriminate].
      assert (E : HView (tail_off KMmap t) (tail_count t * 24) = HView off n) by (apply Hone; exact Hs).
      injection E as <- <-. change (tail_esize KMmap) with 24 in Htail. lia.
    + destruct (efi_memory_areas m t) as [it| | |]; cbn [bind] in Hs; unfold ret in Hs; try discriminate.
      assert (E : HEfiIter it = HView off n) by (apply Hone; exact Hs). discriminate.
  - (* OSections *)
    destruct k; cbn [step] in Hs; unfold ret in Hs; try (match type of Hs with Val [] = _ => exfalso; exact (Hnone [] Hs eq_refl) end).
    destruct (elf_sections p m t) as [it| | |]; cbn [bind] in Hs; unfold ret in Hs; try discriminate.
    assert (E : HElfIter it = HView off n) by (apply Hone; exact Hs). discriminate.
  - (* OBufferType *)
    destruct k; cbn [step] in Hs; unfold ret in Hs; try (match type of Hs with Val [] = _ => exfalso; exact (Hnone [] Hs eq_refl) end).
    pose proof (fb_inv m total t Hr Hinv) as F.
    destruct (fb_buffer_type m t) as [[o1 n1|a b c d e f|]| | |]; cbn [bind] in Hs; unfold ret in Hs; try discriminate.
    + assert (E : HView o1 (n1 * 3) = HView off n) by (apply Hone; exact Hs). injection E as <- <-.
      change (tail_esize KFramebuffer) with 1 in Htail. lia.
    + assert (E : HVal = HView off n) by (apply Hone; exact Hs). discriminate.
    + assert (E : HVal = HView off n) by (apply Hone; exact Hs). discriminate.
  - (* OChecksumValid *)
    destruct k; cbn [step] in Hs; unfold ret in Hs; try (match type of Hs with Val [] = _ => exfalso; exact (Hnone [] Hs eq_refl) end).
    + destruct (rsdp1_checksum_valid m t); cbn [bind] in Hs; unfold ret in Hs; try discriminate.
      assert (E : HVal = HView off n) by (apply Hone; exact Hs). discriminate.
    + destruct (rsdp2_checksum_valid m t); cbn [bind] in Hs; unfold ret in Hs; try discriminate.
      assert (E : HVal = HView off n) by (apply Hone; exact Hs). discriminate.
  - (* OMemoryModel *)
    destruct k; cbn [step] in Hs; unfold ret in Hs; try (match type of Hs with Val [] = _ => exfalso; exact (Hnone [] Hs eq_refl) end).
    unfold vbe_memory_model in Hs.
    clear - Hs Hone. set (b := fld KVbe m t "mi.memory_model" <=? 7) in Hs. clearbody b.
    destruct b; cbn [bind] in Hs; unfold ret in Hs; try discriminate.
    assert (E : HVal = HView off n) by (apply Hone; exact Hs). discriminate.
  - (* ODebug *)
    assert (E : forall r : res unit, bind r (fun _ => ret [HVal]) = Val hs -> HVal = HView off n).
    { intros r Hb. destruct r; cbn [bind] in Hb; try discriminate. unfold ret in Hb. apply Hone. exact Hb. }
    rewrite step_tag_debug in Hs. apply E in Hs. discriminate.
Qed.

(* the known finding is real: a conformant VBE tag with memory-model byte 8 makes the model fault *)
Example f18_refuted :
  exists m t, fld KVbe m t "mi.memory_model" = 8 /\ vbe_memory_model m t = Fault FEnum.
Proof.
  exists {| m_base := 0; m_bytes := (repeatN x00 555 ++ [x08] ++ repeatN x00 228)%list |}, {| t_off := 0; t_meta := None |}.
  vm_compute. split; reflexivity.
Qed.

(* ---- non-vacuity: a concrete region on which a program reaches every kind of handle ------------------- *)
Definition c01_example_region : list byte :=
  [x68; x01; x00; x00; x00; x00; x00; x00; x01; x00; x00; x00; x0b; x00; x00; x00; x68; x69; x00; x00; x00; x00; x00; x00; x03; x00; x00; x00; x12; x00; x00; x00; x01; x00; x00; x00; x09; x00; x00; x00; x6d; x00; x00; x00; x00; x00; x00; x00; x11; x00; x00; x00; x70; x00; x00; x00; x30; x00; x00; x00; x01; x00; x00; x00; x07; x00; x00; x00; x00; x00; x00; x00; x00; x10; x00; x00; x00; x00; x00; x00; x00; x00; x00; x00; x00; x00; x00; x00; x01; x00; x00; x00; x00; x00; x00; x00; x08; x00; x00; x00; x00; x00; x00; x00; xcc; xcc; xcc; xcc; xcc; xcc; xcc; xcc; x04; x00; x00; x00; x00; x00; x00; x00; x01; x00; x00; x00; x00; x00; x00; x00; x02; x00; x00; x00; x00; x00; x00; x00; x03; x00; x00; x00; x00; x00; x00; x00; x04; x00; x00; x00; x00; x00; x00; x00; xdd; xdd; xdd; xdd; xdd; xdd; xdd; xdd; x09; x00; x00; x00; x94; x00; x00; x00; x02; x00; x00; x00; x40; x00; x00; x00; x01; x00; x00; x00; x01; x00; x00; x00; x01; x00; x00; x00; x02; x00; x00; x00; x00; x00; x00; x00; x00; x10; x00; x00; x00; x00; x00; x00; x00; x00; x00; x00; x00; x00; x00; x00; x20; x00; x00; x00; x00; x00; x00; x00; x00; x00; x00; x00; x00; x00; x00; x00; x08; x00; x00; x00; x00; x00; x00; x00; x00; x00; x00; x00; x00; x00; x00; x00; x02; x00; x00; x00; x03; x00; x00; x00; x00; x00; x00; x00; x00; x00; x00; x00; x00; x20; x00; x00; x00; x00; x00; x00; x00; x00; x00; x00; x00; x00; x00; x00; x10; x00; x00; x00; x00; x00; x00; x00; x00; x00; x00; x00; x00; x00; x00; x00; x01; x00; x00; x00; x00; x00; x00; x00; x00; x00; x00; x00; x00; x00; x00; x00; x00; x00; x00; x00; x08; x00; x00; x00; x28; x00; x00; x00; x00; x10; x00; x00; x00; x00; x00; x00; x01; x00; x00; x00; x02; x00; x00; x00; x03; x00; x00; x00; x08; x00; x00; x00; x02; x00; x01; x02; x03; x04; x05; x06; x00; x00; x00; x00; x08; x00; x00; x00].

Definition handle_tag (h : handle) : N :=
  match h with HBoot _ => 0 | HIter _ _ => 1 | HModIter _ _ => 2 | HGen _ => 3 | HTag _ _ => 4 | HEfiIter _ => 5
          | HElfIter _ => 6 | HElfSec _ => 7 | HView _ _ => 8 | HVal => 9 end.

Definition c01_example_prog : list (nat * op) :=
  [ (0, OTags); (1, ONext); (0, OModuleTags); (4, ONext); (0, OEfiMemoryMapTag); (7, OMemoryAreas); (8, ONext);
    (0, OGetTag KElfSections); (11, OSections); (12, ONext); (14, OSecField 3); (0, OFramebufferTag); (16, OBufferType);
    (0, OGetTag KCmdline); (18, OStr); (0, ODebug) ]%nat.

Example c01_reaches_every_handle :
  let m := {| m_base := 4096; m_bytes := c01_example_region |} in
  match mbi_load Dev false m with
  | Val r =>
      match run Dev m [HBoot r] c01_example_prog with
      | Val pool => forallb (fun t => existsb (fun h => handle_tag h =? t) pool) [0; 1; 2; 3; 4; 5; 6; 7; 8; 9] = true
      | _ => False
      end
  | _ => False
  end.
Proof. vm_compute. reflexivity. Qed.
