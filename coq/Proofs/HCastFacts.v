(* cast::<T>() for the 11 header-tag kinds: closed form. *)
Require Import Bytes Outcome Layout Common TagType Mbi Header HeaderTags WalkSpec BytesFacts ArithFacts CommonFacts IterFacts CastFacts.
From Coq Require Import Lia ZArith ZifyN ZifyBool ZifyNat String.
Ltac Zify.zify_post_hook ::= Z.div_mod_to_equations.
Open Scope N_scope.

Lemma hkind_align k : sd_align (hkind_struct k) = 8.
Proof. destruct k; vm_compute; reflexivity. Qed.

Lemma hbase_ge_8 k : 8 <= hkind_base k.
Proof. destruct k; vm_compute; discriminate. Qed.

Definition hcast_closed (k : hkind2) (off size : N) : res tref :=
  match k with
  | HkInfoReq =>
      if negb ((size - 8) mod 4 =? 0) then Panic
      else Val {| t_off := off; t_meta := Some ((size - 8) / 4) |}
  | _ => if round8 size =? sd_size_of (hkind_struct k) then Val {| t_off := off; t_meta := None |} else Panic
  end.

Lemma hcast_kind_closed p k m g :
  d_off g + 8 <= len (m_bytes m) ->
  let size := size_at (m_bytes m) (d_off g) in
  8 <= size -> d_plen g = size - 8 ->
  hcast_kind p k m g = hcast_closed k (d_off g) size.
Proof.
  intros Hin size H8 Hpl.
  unfold hcast_kind, cast. cbn [hkind_tdesc t_base t_dstlen t_sizeof hsize].
  pose proof (hbase_ge_8 k) as Hb.
  unfold assert at 1. destruct (N.leb_spec 8 (hkind_base k)) as [_|X]; [|lia]. cbn [bind].
  unfold mrd, rd. destruct (N.leb_spec (d_off g + 8) (len (m_bytes m))) as [_|X]; [|lia]. cbn [bind].
  assert (Esz : le (slice (slice (m_bytes m) (d_off g) 8) 4 4) = size).
  { unfold size, size_at. rewrite slice_slice by lia. reflexivity. }
  assert (Hlt : size < pow2_32) by (apply le_slice4_bound). unfold pow2_32 in Hlt.
  unfold dref_size_of_val. cbn [hsize]. rewrite Hpl. replace (8 + (size - 8)) with size by lia.
  destruct k; unfold hkind_dstlen, hcast_closed; cbn [bind];
    try (unfold assert; match goal with |- context [sd_size_of_val ?d None] => change (sd_size_of_val d None) with (sd_size_of d) end;
         destruct (round8 size =? _); reflexivity).
  (* information request *)
  rewrite Esz. change (hkind_base HkInfoReq) with 8. rewrite usub_ok by lia. cbn [bind]. unfold assert.
  destruct (N.eqb_spec ((size - 8) mod 4) 0) as [H4|H4]; cbn [negb bind]; [|reflexivity].
  change (sd_size_of_val (hkind_struct HkInfoReq) (Some ((size - 8) / 4))) with (align_up (8 + (size - 8) / 4 * 4) 8).
  rewrite align_up_8.
  replace (8 + (size - 8) / 4 * 4) with size by lia.
  rewrite N.eqb_refl. reflexivity.
Qed.
