(* Proofs for C12: building then loading a header. *)
Require Import Bytes Outcome Layout Common TagType Mbi MbiTags Header HeaderTags Build WalkSpec
               BytesFacts ArithFacts CommonFacts IterFacts CastFacts BuildFacts C02Proofs C10Proofs C16Proofs C06Proofs.
From Coq Require Import Lia ZArith ZifyN ZifyBool ZifyNat String.
Ltac Zify.zify_post_hook ::= Z.div_mod_to_equations.
Open Scope list_scope.
Open Scope N_scope.

Lemma wf_hend_tag : wf_img HEND_TAG.
Proof. split; vm_compute; [discriminate|reflexivity]. Qed.

Definition hbuilt_image (arch : N) (slices : list (list byte)) : list byte :=
  let total := 16 + len (List.concat (slices ++ [HEND_TAG])) in
  enc32 HDR_MAGIC ++ enc32 arch ++ enc32 total ++ enc32 (calc_checksum HDR_MAGIC (arch mod pow2_32) total)
  ++ List.concat (slices ++ [HEND_TAG]).

Lemma hbuilder_build_closed p b pad :
  Forall wf_img (hbuilder_slices b) -> 16 + len (List.concat (hbuilder_slices b ++ [HEND_TAG])) < pow2_32 ->
  hbuilder_build p b pad = Val (hbuilt_image (hb_arch b) (hbuilder_slices b)).
Proof.
  intros Hwf Hs. unfold hbuilder_build.
  assert (Hc : content_len (hbuilder_slices b ++ [HEND_TAG]) = len (List.concat (hbuilder_slices b ++ [HEND_TAG])))
    by apply content_len_concat.
  assert (Hl : len (basic_header (hb_arch b)) = hsize HBasicH).
  { unfold basic_header. rewrite !len_app, !len_enc32. reflexivity. }
  rewrite new_boxed_generic by (cbn [hsize]; rewrite ?Hc; try exact Hl; assumption).
  cbn [hsize]. rewrite Hc. unfold hbuilt_image. cbv zeta.
  set (c := List.concat (hbuilder_slices b ++ [HEND_TAG])) in *.
  assert (H8 : len c mod 8 = 0).
  { apply concat_len_mod8. apply Forall_app. split; [exact Hwf|constructor; [apply wf_hend_tag|constructor]]. }
  rewrite round8_id by lia. replace (16 + len c - (16 + len c)) with 0 by lia.
  change (slice pad 0 0) with (@nil byte). rewrite app_nil_r.
  unfold set_size, basic_header.
  assert (E8 : slice (enc32 HDR_MAGIC ++ enc32 (hb_arch b) ++ enc32 0 ++ enc32 (calc_checksum HDR_MAGIC (hb_arch b) 0)) 0 8
               = enc32 HDR_MAGIC ++ enc32 (hb_arch b)).
  { rewrite app_assoc. apply slice_app_l_exact. rewrite len_app, !len_enc32. reflexivity. }
  assert (E0 : slice (enc32 HDR_MAGIC ++ enc32 (hb_arch b) ++ enc32 0 ++ enc32 (calc_checksum HDR_MAGIC (hb_arch b) 0)) 0 4
               = enc32 HDR_MAGIC).
  { apply slice_app_l_exact. rewrite len_enc32. reflexivity. }
  assert (E4 : slice (enc32 HDR_MAGIC ++ enc32 (hb_arch b) ++ enc32 0 ++ enc32 (calc_checksum HDR_MAGIC (hb_arch b) 0)) 4 4
               = enc32 (hb_arch b)).
  { rewrite <- (len_enc32 HDR_MAGIC) at 2. apply slice_app_mid. rewrite len_enc32. reflexivity. }
  rewrite E8, E0, E4. rewrite le_enc32 by reflexivity. rewrite le_enc32_mod.
  rewrite (N.mod_small (16 + len c)) by exact Hs.
  rewrite <- !app_assoc. reflexivity.
Qed.

Lemma hbuilt_image_props a arch slices :
  Forall wf_img slices -> 16 + len (List.concat (slices ++ [HEND_TAG])) < pow2_32 -> a mod 8 = 0 ->
  arch_defined arch = true ->
  let img := hbuilt_image arch slices in
  let total := len img in
  total mod 8 = 0 /\
  le (slice img 0 4) = HDR_MAGIC /\ le (slice img 4 4) = arch /\ le (slice img 8 4) = total /\
  (le (slice img 0 4) + le (slice img 4 4) + le (slice img 8 4) + le (slice img 12 4)) mod pow2_32 = 0 /\
  (forall p, hdr_load p false {| m_base := a; m_bytes := img |} = Val {| d_off := 0; d_plen := total - 16 |}) /\
  walk img total 16 (items_of (slices ++ [HEND_TAG]) 16) true /\
  slice img (total - 8) 8 = HEND_TAG /\
  (forall i t, nth_error slices i = Some t ->
     exists off, nth_error (items_of (slices ++ [HEND_TAG]) 16) i = Some {| i_off := off; i_size := img_size t |} /\
                 slice img off (len t) = t).
Proof.
  intros Hwf Hs Ha Harch. cbv zeta. set (img := hbuilt_image arch slices). remember (len img) as total eqn:Etot.
  assert (Hwf' : Forall wf_img (slices ++ [HEND_TAG])).
  { apply Forall_app. split; [exact Hwf|constructor; [apply wf_hend_tag|constructor]]. }
  pose proof (concat_len_mod8 _ Hwf') as H8.
  assert (Harch32 : arch < pow2_32).
  { unfold arch_defined in Harch. destruct (N.eqb_spec arch 0); [subst; reflexivity|].
    destruct (N.eqb_spec arch 4); [subst; reflexivity|discriminate]. }
  set (c := List.concat (slices ++ [HEND_TAG])) in *.
  set (ck := calc_checksum HDR_MAGIC (arch mod pow2_32) (16 + len c)).
  set (pre := enc32 HDR_MAGIC ++ enc32 arch ++ enc32 (16 + len c) ++ enc32 ck).
  assert (Hpre : len pre = 16) by (unfold pre; rewrite !len_app, !len_enc32; reflexivity).
  assert (Himg : img = pre ++ c ++ []).
  { unfold img, hbuilt_image, pre, ck. cbv zeta. fold c. rewrite app_nil_r, <- !app_assoc. reflexivity. }
  assert (Htot : total = 16 + len c) by (rewrite Etot, Himg, app_nil_r, len_app, Hpre; reflexivity).
  assert (F0 : slice img 0 4 = enc32 HDR_MAGIC).
  { rewrite Himg. unfold pre. rewrite <- !app_assoc. apply slice_app_l_exact. rewrite len_enc32. reflexivity. }
  assert (F4 : slice img 4 4 = enc32 arch).
  { rewrite Himg. unfold pre. rewrite <- !app_assoc. rewrite <- (len_enc32 HDR_MAGIC) at 2. apply slice_app_mid. rewrite len_enc32. reflexivity. }
  assert (F8 : slice img 8 4 = enc32 (16 + len c)).
  { rewrite Himg. unfold pre. rewrite <- !app_assoc.
    replace (enc32 HDR_MAGIC ++ enc32 arch ++ enc32 (16 + len c) ++ enc32 ck ++ c ++ [])
      with ((enc32 HDR_MAGIC ++ enc32 arch) ++ enc32 (16 + len c) ++ (enc32 ck ++ c ++ [])) by (rewrite <- !app_assoc; reflexivity).
    replace 8 with (len (enc32 HDR_MAGIC ++ enc32 arch)) at 1 by (rewrite len_app, !len_enc32; reflexivity).
    apply slice_app_mid. rewrite len_enc32. reflexivity. }
  assert (F12 : slice img 12 4 = enc32 ck).
  { rewrite Himg. unfold pre. rewrite <- !app_assoc.
    replace (enc32 HDR_MAGIC ++ enc32 arch ++ enc32 (16 + len c) ++ enc32 ck ++ c ++ [])
      with ((enc32 HDR_MAGIC ++ enc32 arch ++ enc32 (16 + len c)) ++ enc32 ck ++ (c ++ [])) by (rewrite <- !app_assoc; reflexivity).
    replace 12 with (len (enc32 HDR_MAGIC ++ enc32 arch ++ enc32 (16 + len c))) at 1 by (rewrite !len_app, !len_enc32; reflexivity).
    apply slice_app_mid. rewrite len_enc32. reflexivity. }
  assert (G0 : le (slice img 0 4) = HDR_MAGIC) by (rewrite F0; apply le_enc32; reflexivity).
  assert (G4 : le (slice img 4 4) = arch) by (rewrite F4; apply le_enc32; exact Harch32).
  assert (G8 : le (slice img 8 4) = total) by (rewrite F8, Htot; apply le_enc32; exact Hs).
  destruct (checksum_law HDR_MAGIC (arch mod pow2_32) (16 + len c)) as [Ck1 Ck2]. fold ck in Ck1, Ck2.
  assert (G12 : le (slice img 12 4) = ck) by (rewrite F12; apply le_enc32; exact Ck1).
  assert (Hsum : (le (slice img 0 4) + le (slice img 4 4) + le (slice img 8 4) + le (slice img 12 4)) mod pow2_32 = 0).
  { rewrite G0, G4, G8, G12, Htot. rewrite (N.mod_small arch) in Ck2 by exact Harch32.
    replace (HDR_MAGIC + arch + (16 + len c) + ck) with (ck + HDR_MAGIC + arch + (16 + len c)) by lia. exact Ck2. }
  assert (Hend : len c >= 8).
  { unfold c. rewrite concat_app, len_app. cbn [List.concat]. rewrite app_nil_r. change (len HEND_TAG) with 8. lia. }
  assert (Hlast : slice img (total - 8) 8 = HEND_TAG).
  { rewrite Himg, app_nil_r. rewrite slice_app_r by lia. rewrite Hpre.
    unfold c. rewrite concat_app. cbn [List.concat]. rewrite app_nil_r.
    rewrite slice_app_r by (rewrite Htot; unfold c; rewrite concat_app, len_app; cbn [List.concat]; rewrite app_nil_r; change (len HEND_TAG) with 8; lia).
    replace (total - 8 - 16 - len (List.concat slices)) with 0.
    - change 8 with (len HEND_TAG) at 1. apply slice_all.
    - rewrite Htot. unfold c. rewrite concat_app, len_app. cbn [List.concat]. rewrite app_nil_r. change (len HEND_TAG) with 8. lia. }
  split; [lia|]. split; [exact G0|]. split; [exact G4|]. split; [exact G8|]. split; [exact Hsum|].
  split; [|split; [|split]].
  - intro p.
    assert (K1 : 16 <= len img) by (rewrite <- Etot, Htot; lia).
    assert (K2 : le (slice img 8 4) <= len img) by (rewrite G8, <- Etot; lia).
    assert (K3 : arch_defined (le (slice img 4 4)) = true) by (rewrite G4; exact Harch).
    rewrite (c10_load_spec p a img Ha K1 K2 K3). unfold c10_closed. rewrite G8.
    destruct (N.ltb_spec total 16); [lia|]. replace (total mod 8 =? 0) with true by lia. cbn [negb].
    rewrite G0, N.eqb_refl. cbn [negb]. rewrite G0, G4, G8 in Hsum. rewrite G4. rewrite Hsum. reflexivity.
  - rewrite Himg.
    assert (W := walk_images (slices ++ [HEND_TAG]) pre [] total Hwf' ltac:(rewrite Hpre; subst c; lia)).
    rewrite Hpre in W. exact W.
  - exact Hlast.
  - intros i t Hn. rewrite Himg.
    replace (items_of (slices ++ [HEND_TAG]) 16) with (items_of (slices ++ [HEND_TAG]) (len pre)) by (rewrite Hpre; reflexivity).
    apply images_embedded. rewrite nth_error_app1; [exact Hn|]. apply nth_error_Some. congruence.
Qed.
