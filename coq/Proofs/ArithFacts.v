(* Arithmetic facts: increase_to_alignment, round8, profile arithmetic. *)
Require Import Bytes Outcome Common.
From Coq Require Import Lia ZArith ZifyN ZifyBool.
Ltac Zify.zify_post_hook ::= Z.div_mod_to_equations.

Lemma mask_not7_shift : mask_not7 = N.shiftl (N.ones 61) 3.
Proof. reflexivity. Qed.

Lemma mask_testbit n : N.testbit mask_not7 n = (3 <=? n) && (n <? 64).
Proof.
  rewrite mask_not7_shift.
  destruct (N.leb_spec 3 n) as [H|H].
  - rewrite N.shiftl_spec_high' by exact H.
    destruct (N.ltb_spec n 64) as [H2|H2].
    + rewrite N.ones_spec_low by lia. reflexivity.
    + rewrite N.ones_spec_high by lia. reflexivity.
  - rewrite N.shiftl_spec_low by exact H. reflexivity.
Qed.

Lemma land_mask_not7 x : x < pow2_64 -> N.land x mask_not7 = 8 * (x / 8).
Proof.
  intros Hx. apply N.bits_inj. intro n.
  rewrite N.land_spec, mask_testbit.
  change 8 with (2 ^ 3).
  destruct (N.leb_spec 3 n) as [H|H].
  - rewrite N.mul_comm, N.mul_pow2_bits_high by exact H.
    rewrite N.div_pow2_bits.
    replace (n - 3 + 3) with n by lia.
    destruct (N.ltb_spec n 64) as [H2|H2].
    + rewrite andb_true_r. reflexivity.
    + rewrite andb_false_r. symmetry.
      destruct (N.eq_dec x 0) as [->|Hnz]; [apply N.bits_0|].
      apply N.bits_above_log2.
      apply N.log2_lt_pow2; [lia|].
      eapply N.lt_le_trans; [exact Hx|].
      change pow2_64 with (2 ^ 64). apply N.pow_le_mono_r; lia.
  - rewrite N.mul_comm, N.mul_pow2_bits_low by exact H.
    rewrite andb_false_r. reflexivity.
Qed.

Lemma round8_mod s : round8 s mod 8 = 0.
Proof. unfold round8. lia. Qed.
Lemma round8_ge s : s <= round8 s.
Proof. unfold round8. lia. Qed.
Lemma round8_lt s : round8 s < s + 8.
Proof. unfold round8. lia. Qed.
Lemma round8_least s m : m mod 8 = 0 -> s <= m -> round8 s <= m.
Proof. unfold round8. lia. Qed.
Lemma round8_id s : s mod 8 = 0 -> round8 s = s.
Proof. unfold round8. lia. Qed.
Lemma round8_mono a b : a <= b -> round8 a <= round8 b.
Proof. unfold round8. lia. Qed.

Lemma inc_align_spec p s : s + 7 < pow2_64 -> inc_align p s = Val (round8 s).
Proof.
  intros H. unfold inc_align, uadd, add_w.
  destruct (N.ltb_spec (s + 7) pow2_64) as [_|H2]; [|lia].
  cbn [bind]. rewrite land_mask_not7 by exact H. reflexivity.
Qed.

Lemma uadd_ok p a b : a + b < pow2_64 -> uadd p a b = Val (a + b).
Proof. intros H. unfold uadd, add_w. destruct (N.ltb_spec (a + b) pow2_64); [reflexivity|lia]. Qed.
Lemma usub_ok p a b : b <= a -> usub p a b = Val (a - b).
Proof. intros H. unfold usub, sub_w. destruct (N.leb_spec b a); [reflexivity|lia]. Qed.
Lemma umul_ok p a b : a * b < pow2_64 -> umul p a b = Val (a * b).
Proof. intros H. unfold umul, mul_w. destruct (N.ltb_spec (a * b) pow2_64); [reflexivity|lia]. Qed.
