(* Proofs for C02: closed form of BootInformation::load. *)
Require Import Bytes Outcome Common Mbi BytesFacts ArithFacts CommonFacts.
From Coq Require Import Lia ZArith ZifyN ZifyBool ZifyNat.
Ltac Zify.zify_post_hook ::= Z.div_mod_to_equations.

Definition c02_closed (bs : list byte) : res dref :=
  let t := le (slice bs 0 4) in
  if t <? 8 then Err EShorterThanHeader
  else if negb (t mod 8 =? 0) then Err EMissingPadding
  else if (le (slice bs (t - 8) 4) =? 0) && (le (slice bs (t - 4) 4) =? 8)
       then Val {| d_off := 0; d_plen := t - 8 |}
       else Err ENoEndTag.

Lemma stored_boot bs : 8 <= len bs -> stored_size HBootH (slice bs 0 8) = le (slice bs 0 4).
Proof. intros H. cbn [stored_size]. rewrite slice_slice by lia. reflexivity. Qed.

Lemma c02_load_spec p a bs :
  a mod 8 = 0 -> 8 <= len bs -> le (slice bs 0 4) <= len bs ->
  mbi_load p false {| m_base := a; m_bytes := bs |} = c02_closed bs.
Proof.
  intros Ha H8 Ht. unfold mbi_load, c02_closed, ref_from_ptr, mrd, rd. cbn [m_bytes hsize].
  destruct (N.leb_spec (0 + 8) (len bs)) as [_|X]; [|lia]. cbn [bind].
  rewrite total_size_spec, stored_boot by lia. cbn [bind].
  set (t := le (slice bs 0 4)) in *.
  rewrite ref_from_slice_closed. unfold ref_from_slice_spec. cbn [hsize].
  rewrite N.add_0_r, N.add_0_l, Ha. cbn [N.eqb negb].
  change (0 =? 0) with true. cbn [negb].
  destruct (N.ltb_spec t 8) as [H1|H1]; [reflexivity|].
  destruct (N.eqb_spec (t mod 8) 0) as [H2|H2]; cbn [negb]; [|reflexivity].
  destruct (N.ltb_spec (len bs) 8) as [X|_]; [lia|].
  rewrite stored_boot by lia. fold t.
  destruct (N.ltb_spec t 8) as [X|_]; [lia|].
  destruct (N.ltb_spec t t) as [X|_]; [lia|].
  cbn [bind].
  unfold has_valid_end_tag, mrd, rd. cbn [m_bytes d_off d_plen].
  destruct (N.leb_spec (0 + 8) (len bs)) as [_|X]; [|lia]. cbn [bind].
  rewrite payload_len_spec, stored_boot by lia. fold t. cbn [hsize].
  destruct (N.ltb_spec t 8) as [X|_]; [lia|]. cbn [bind].
  replace (0 + 8 + (t - 8) - 8) with (t - 8) by lia.
  destruct (N.leb_spec (t - 8 + 8) (len bs)) as [_|X]; [|lia]. cbn [bind].
  rewrite !slice_slice by lia.
  replace (t - 8 + 0) with (t - 8) by lia. replace (t - 8 + 4) with (t - 4) by lia.
  destruct ((le (slice bs (t - 8) 4) =? 0) && (le (slice bs (t - 4) 4) =? 8)); reflexivity.
Qed.

(* a misaligned pointer: the size test of BytesRef::try_from comes first, then the alignment test; nothing else is read *)
Lemma c02_misaligned p a bs :
  a mod 8 <> 0 -> 8 <= len bs ->
  mbi_load p false {| m_base := a; m_bytes := bs |} =
    if le (slice bs 0 4) <? 8 then Err EShorterThanHeader else Err EWrongAlignment.
Proof.
  intros Ha H8. unfold mbi_load, ref_from_ptr, mrd, rd. cbn [m_bytes hsize].
  destruct (N.leb_spec (0 + 8) (len bs)) as [_|X]; [|lia]. cbn [bind].
  rewrite total_size_spec, stored_boot by lia. cbn [bind].
  set (t := le (slice bs 0 4)) in *.
  rewrite ref_from_slice_closed. unfold ref_from_slice_spec. cbn [hsize].
  rewrite N.add_0_r.
  destruct (N.ltb_spec t 8) as [H1|H1]; [reflexivity|].
  destruct (N.eqb_spec (a mod 8) 0) as [H2|H2]; [contradiction|reflexivity].
Qed.

Example c02_misaligned_example :
  mbi_load Dev false {| m_base := 4; m_bytes := [x10;x00;x00;x00; x00;x00;x00;x00; x00;x00;x00;x00;x08;x00;x00;x00] |}
  = Err EWrongAlignment.
Proof. vm_compute. reflexivity. Qed.

Lemma c02_null p m : mbi_load p true m = Err ENull.
Proof. reflexivity. Qed.

Lemma c02_addresses p a bs r :
  a mod 8 = 0 -> 8 <= len bs -> le (slice bs 0 4) <= len bs -> a + le (slice bs 0 4) < pow2_64 ->
  let m := {| m_base := a; m_bytes := bs |} in
  mbi_load p false m = Val r ->
  mbi_start_address m r = a /\ mbi_end_address p m r = Val (a + le (slice bs 0 4)) /\
  mbi_total_size m r = le (slice bs 0 4).
Proof.
  intros Ha H8 Ht Hov m H. unfold m in H. rewrite c02_load_spec in H by assumption.
  unfold c02_closed in H.
  destruct (le (slice bs 0 4) <? 8); [discriminate|].
  destruct (negb (le (slice bs 0 4) mod 8 =? 0)); [discriminate|].
  destruct ((le (slice bs (le (slice bs 0 4) - 8) 4) =? 0) && (le (slice bs (le (slice bs 0 4) - 4) 4) =? 8));
    [|discriminate].
  injection H as <-.
  unfold mbi_start_address, mbi_end_address, mbi_total_size, mbi_start_address. cbn [m m_base m_bytes d_off].
  rewrite N.add_0_r. repeat split. apply uadd_ok. exact Hov.
Qed.

(* non-vacuity: the smallest well-formed boot information *)
Example c02_example :
  mbi_load Dev false {| m_base := 4096; m_bytes := [x10;x00;x00;x00;x00;x00;x00;x00;x00;x00;x00;x00;x08;x00;x00;x00] |}
  = Val {| d_off := 0; d_plen := 8 |}.
Proof. vm_compute. reflexivity. Qed.
Example c02_example_8 :
  mbi_load Release false {| m_base := 0; m_bytes := [x08;x00;x00;x00;x08;x00;x00;x00] |} = Err ENoEndTag.
Proof. vm_compute. reflexivity. Qed.
