(* Proofs for C13: find_header is exact and total. *)
Require Import Bytes Outcome Common TagType Header BytesFacts ArithFacts.
From Coq Require Import Lia ZArith ZifyN ZifyBool ZifyNat.
Ltac Zify.zify_post_hook ::= Z.div_mod_to_equations.

(* specification vocabulary (independent of the model's search loop) *)
Definition search_len (buf : list byte) : N := N.min 8192 (len buf).
Definition occurs_at (buf : list byte) (i : N) : Prop :=
  i + 4 <= search_len buf /\ le (slice buf i 4) = HDR_MAGIC.
Definition first_occ (buf : list byte) (i : N) : Prop :=
  occurs_at buf i /\ forall j, j < i -> ~ occurs_at buf j.

Lemma slice_cons_succ {A} (x : A) l j n : slice (x :: l) (j + 1) n = slice l j n.
Proof. unfold slice. replace (N.to_nat (j + 1)) with (S (N.to_nat j)) by lia. reflexivity. Qed.

Lemma slice_head4 (b0 b1 b2 b3 : byte) r : slice (b0 :: b1 :: b2 :: b3 :: r) 0 4 = [b0; b1; b2; b3].
Proof. reflexivity. Qed.

Lemma magic_pos_cons4 b0 b1 b2 b3 r k :
  magic_pos (b0 :: b1 :: b2 :: b3 :: r) k =
    if le [b0; b1; b2; b3] =? HDR_MAGIC then Some k else magic_pos (b1 :: b2 :: b3 :: r) (k + 1).
Proof. reflexivity. Qed.

(* windows(4).position(== MAGIC), started at index k *)
Lemma magic_pos_spec w : forall k,
  match magic_pos w k with
  | None => forall j, j + 4 <= len w -> le (slice w j 4) <> HDR_MAGIC
  | Some i => k <= i /\ (i - k) + 4 <= len w /\ le (slice w (i - k) 4) = HDR_MAGIC /\
              forall j, j < i - k -> le (slice w j 4) <> HDR_MAGIC
  end.
Proof.
  induction w as [|b0 r IH]; intro k.
  - cbn [magic_pos]. intros j Hj. rewrite len_nil in Hj. lia.
  - destruct r as [|b1 [|b2 [|b3 r']]].
    + cbn [magic_pos]. intros j Hj. rewrite !len_cons, len_nil in Hj. lia.
    + cbn [magic_pos]. intros j Hj. rewrite !len_cons, len_nil in Hj. lia.
    + cbn [magic_pos]. intros j Hj. rewrite !len_cons, len_nil in Hj. lia.
    + rewrite magic_pos_cons4.
      destruct (N.eqb_spec (le [b0; b1; b2; b3]) HDR_MAGIC) as [E|E].
      * cbv beta iota. replace (k - k) with 0 by lia. rewrite slice_head4. rewrite !len_cons.
        repeat split; try lia; try exact E.
      * specialize (IH (k + 1)).
        destruct (magic_pos (b1 :: b2 :: b3 :: r') (k + 1)) as [i|].
        -- cbv beta iota. destruct IH as (H1 & H2 & H3 & H4).
           replace (i - k) with ((i - (k + 1)) + 1) by lia.
           rewrite slice_cons_succ. rewrite (len_cons b0).
           repeat split; try lia; try assumption.
           intros j Hj. destruct (N.eq_dec j 0) as [->|Hnz].
           ++ rewrite slice_head4. exact E.
           ++ replace j with ((j - 1) + 1) by lia. rewrite slice_cons_succ. apply H4. lia.
        -- cbv beta iota. intros j Hj. rewrite (len_cons b0) in Hj. destruct (N.eq_dec j 0) as [->|Hnz].
           ++ rewrite slice_head4. exact E.
           ++ replace j with ((j - 1) + 1) by lia. rewrite slice_cons_succ. apply IH. lia.
Qed.

Lemma len_window buf : len (slice buf 0 (search_len buf)) = search_len buf.
Proof. rewrite len_slice. unfold search_len. lia. Qed.

Lemma window_slice buf j : j + 4 <= search_len buf -> slice (slice buf 0 (search_len buf)) j 4 = slice buf j 4.
Proof. intros H. rewrite slice_slice by exact H. reflexivity. Qed.

(* the model's search result characterised by the specification vocabulary *)
Lemma search_spec buf :
  match magic_pos (slice buf 0 (search_len buf)) 0 with
  | None => forall i, ~ occurs_at buf i
  | Some i => first_occ buf i
  end.
Proof.
  pose proof (magic_pos_spec (slice buf 0 (search_len buf)) 0) as H.
  destruct (magic_pos (slice buf 0 (search_len buf)) 0) as [i|].
  - destruct H as (_ & H2 & H3 & H4). rewrite N.sub_0_r in *. rewrite len_window in H2.
    rewrite window_slice in H3 by exact H2.
    split; [split; assumption|].
    intros j Hj [Hj1 Hj2]. apply (H4 j Hj). rewrite window_slice by exact Hj1. exact Hj2.
  - intros i [Hi1 Hi2]. apply (H i).
    + rewrite len_window. exact Hi1.
    + rewrite window_slice by exact Hi1. exact Hi2.
Qed.

Lemma first_occ_unique buf i j : first_occ buf i -> first_occ buf j -> i = j.
Proof.
  intros [Hi Hi'] [Hj Hj'].
  destruct (N.lt_trichotomy i j) as [H|[H|H]]; [exfalso; exact (Hj' i H Hi)|exact H|exfalso; exact (Hi' j H Hj)].
Qed.

Definition c13_closed (buf : list byte) (i : N) : res (option (N * N * N)) :=
  if negb (i mod 8 =? 0) then Err EWrongAlignment
  else if len buf <? i + 12 then Err EMissingPadding
  else if len buf <? i + le (slice buf (i + 8) 4) then Err EInvalidReportedTotalSize
  else Val (Some (i, le (slice buf (i + 8) 4), i)).

Lemma c13_none p a buf : a mod 8 = 0 ->
  ((forall i, ~ occurs_at buf i) <-> find_header p a buf = Val None).
Proof.
  intros Ha. unfold find_header. rewrite Ha. change (0 =? 0) with true. cbn [negb].
  fold (search_len buf). pose proof (search_spec buf) as S.
  destruct (magic_pos (slice buf 0 (search_len buf)) 0) as [i|].
  - split.
    + intros Hno. exfalso. destruct S as [Hocc _]. exact (Hno i Hocc).
    + intros H. exfalso.
      destruct (negb (i mod 8 =? 0)); [discriminate|].
      destruct (len buf <? i + 12); [discriminate|].
      destruct (len buf <? i + le (slice buf (i + 8) 4)); discriminate.
  - split; [reflexivity|intros _; exact S].
Qed.

Lemma c13_some p a buf i : a mod 8 = 0 -> first_occ buf i -> find_header p a buf = c13_closed buf i.
Proof.
  intros Ha Hf. unfold find_header. rewrite Ha. change (0 =? 0) with true. cbn [negb].
  fold (search_len buf). pose proof (search_spec buf) as S.
  destruct (magic_pos (slice buf 0 (search_len buf)) 0) as [i'|].
  - rewrite (first_occ_unique _ _ _ S Hf). reflexivity.
  - exfalso. destruct Hf as [Hocc _]. exact (S i Hocc).
Qed.

Lemma c13_misaligned p a buf : a mod 8 <> 0 -> find_header p a buf = Err EWrongAlignment.
Proof.
  intros Ha. unfold find_header. destruct (N.eqb_spec (a mod 8) 0); [contradiction|reflexivity].
Qed.

Lemma c13_total p a buf : is_panic (find_header p a buf) = false /\ is_fault (find_header p a buf) = false.
Proof.
  unfold find_header.
  destruct (negb (a mod 8 =? 0)); [split; reflexivity|].
  destruct (magic_pos _ 0) as [i|]; [|split; reflexivity].
  destruct (negb (i mod 8 =? 0)); [split; reflexivity|].
  destruct (len buf <? i + 12); [split; reflexivity|].
  destruct (len buf <? i + le (slice buf (i + 8) 4)); split; reflexivity.
Qed.

Example c13_example :
  find_header Dev 0 ([x00;x00;x00;x00;x00;x00;x00;x00;
                      xd6;x50;x52;xe8; x00;x00;x00;x00; x10;x00;x00;x00; x1a;xaf;xad;x17]) = Val (Some (8, 16, 8)).
Proof. vm_compute. reflexivity. Qed.
Example c13_example_empty : find_header Dev 0 [] = Val None.
Proof. vm_compute. reflexivity. Qed.
