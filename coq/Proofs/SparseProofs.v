(* The sparse closed forms of Model/Sparse.v are what the model computes on every memory with the given prefix
   (and suffix), whatever lies in between. *)
Require Import Bytes Outcome Common TagType Mbi Header Sparse BytesFacts ArithFacts CommonFacts C02Proofs C10Proofs C13Proofs.
From Coq Require Import Lia ZArith ZifyN ZifyBool ZifyNat List.
Ltac Zify.zify_post_hook ::= Z.div_mod_to_equations.

Lemma hdr_load_sparse_ok p a hdr16 rest :
  a mod 8 = 0 -> len hdr16 = 16 -> le (slice hdr16 8 4) <= 16 + len rest -> arch_defined (le (slice hdr16 4 4)) = true ->
  hdr_load p false {| m_base := a; m_bytes := hdr16 ++ rest |} = hdr_load_sparse hdr16.
Proof.
  intros Ha H16 Hl Harch.
  assert (S : forall o n, o + n <= 16 -> slice (hdr16 ++ rest) o n = slice hdr16 o n)
    by (intros o n H; apply slice_app_l_gen; lia).
  rewrite c10_load_spec; try assumption.
  - unfold c10_closed, hdr_load_sparse. rewrite !S by lia. reflexivity.
  - rewrite len_app. lia.
  - rewrite S by lia. rewrite len_app. lia.
  - rewrite S by lia. exact Harch.
Qed.

Lemma mbi_load_sparse_ok p a hdr8 mid last8 :
  a mod 8 = 0 -> len hdr8 = 8 -> len last8 = 8 ->
  le (slice hdr8 0 4) = 16 + len mid \/ (le (slice hdr8 0 4) < 16 /\ le (slice hdr8 0 4) <= 16 + len mid) ->
  mbi_load p false {| m_base := a; m_bytes := hdr8 ++ mid ++ last8 |} = mbi_load_sparse hdr8 last8.
Proof.
  intros Ha H8 HL Ht.
  assert (S : forall o n, o + n <= 8 -> slice (hdr8 ++ mid ++ last8) o n = slice hdr8 o n)
    by (intros o n H; apply slice_app_l_gen; lia).
  rewrite c02_load_spec; try assumption.
  - unfold c02_closed, mbi_load_sparse. rewrite !S by lia.
    set (t := le (slice hdr8 0 4)) in *.
    destruct (N.ltb_spec t 8) as [H1|H1]; [reflexivity|].
    destruct (N.eqb_spec (t mod 8) 0) as [H2|H2]; cbn [negb]; [|reflexivity].
    destruct (N.eqb_spec t 8) as [E8|N8].
    + (* the header itself is looked at as the end tag: its first word is 8, not 0 *)
      rewrite E8. change (8 - 8) with 0. rewrite S by lia. fold t. rewrite E8. reflexivity.
    + destruct Ht as [Ht|[Ht _]]; [|lia].
      assert (Q : forall o n, o + n <= 8 -> slice (hdr8 ++ mid ++ last8) (t - 8 + o) n = slice last8 o n).
      { intros o n H. rewrite slice_app_r by lia. rewrite slice_app_r by lia.
        replace (t - 8 + o - len hdr8 - len mid) with o by lia. reflexivity. }
      pose proof (Q 0 4 ltac:(lia)) as Q0. pose proof (Q 4 4 ltac:(lia)) as Q4.
      rewrite N.add_0_r in Q0. replace (t - 8 + 4) with (t - 4) in Q4 by lia.
      rewrite Q0, Q4. reflexivity.
  - rewrite !len_app. lia.
  - rewrite S by lia. rewrite !len_app. lia.
Qed.

Lemma find_header_sparse_ok p a prefix rest :
  8204 <= len prefix \/ rest = nil ->
  find_header p a (prefix ++ rest) = find_header_sparse a prefix (len prefix + len rest).
Proof.
  intros H. unfold find_header, find_header_sparse. rewrite len_app.
  destruct (negb (a mod 8 =? 0)); [reflexivity|].
  set (L := len prefix + len rest).
  assert (W : slice (prefix ++ rest) 0 (N.min 8192 L) = slice prefix 0 (N.min 8192 L)).
  { destruct H as [H| ->]; [apply slice_app_l; lia|]. rewrite app_nil_r. reflexivity. }
  rewrite W.
  pose proof (magic_pos_spec (slice prefix 0 (N.min 8192 L)) 0) as M.
  destruct (magic_pos (slice prefix 0 (N.min 8192 L)) 0) as [idx|]; [|reflexivity].
  destruct M as (_ & M2 & _). rewrite N.sub_0_r, len_slice in M2.
  destruct (negb (idx mod 8 =? 0)); [reflexivity|].
  destruct (N.ltb_spec L (idx + 12)) as [H1|H1]; [reflexivity|].
  assert (E : slice (prefix ++ rest) (idx + 8) 4 = slice prefix (idx + 8) 4).
  { destruct H as [H| ->]; [apply slice_app_l_gen; lia|]. rewrite app_nil_r. reflexivity. }
  rewrite E. reflexivity.
Qed.

(* non-vacuity: a header declaring 2^31 + 16 bytes *)
Example sparse_example :
  hdr_load_sparse [xd6;x50;x52;xe8; x00;x00;x00;x00; x10;x00;x00;x80; x1a;xaf;xad;x97] = Val {| d_off := 0; d_plen := 2147483648 |}.
Proof. vm_compute. reflexivity. Qed.
