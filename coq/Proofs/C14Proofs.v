(* Proofs for C14. *)
Require Import Bytes Outcome Common BytesFacts ArithFacts CommonFacts.
From Coq Require Import Lia ZArith ZifyN ZifyBool ZifyNat.
Ltac Zify.zify_post_hook ::= Z.div_mod_to_equations.

Definition c14_closed (h : hkind) (a : N) (bs : list byte) : res dref :=
  if len bs <? hsize h then Err EShorterThanHeader
  else if negb (a mod 8 =? 0) then Err EWrongAlignment
  else if negb (len bs mod 8 =? 0) then Err EMissingPadding
  else let d := stored_size h (slice bs 0 (hsize h)) in
       if d <? hsize h then Panic
       else if len bs <? d then Err EInvalidReportedTotalSize
       else Val {| d_off := 0; d_plen := d - hsize h |}.

Lemma c14_spec p h a bs :
  ref_from_slice p h {| m_base := a; m_bytes := bs |} 0 (len bs) = c14_closed h a bs.
Proof.
  rewrite ref_from_slice_closed. unfold ref_from_slice_spec, c14_closed.
  rewrite N.add_0_r, N.add_0_l.
  destruct (len bs <? hsize h) eqn:E; reflexivity.
Qed.

Lemma c14_success p h a bs r :
  ref_from_slice p h {| m_base := a; m_bytes := bs |} 0 (len bs) = Val r ->
  let d := stored_size h (slice bs 0 (hsize h)) in
  hsize h <= len bs /\ a mod 8 = 0 /\ len bs mod 8 = 0 /\ hsize h <= d <= len bs /\
  d_off r = 0 /\ d_plen r = d - hsize h /\
  dref_size_of_val h r = round8 d /\ dref_size_of_val h r <= len bs.
Proof.
  rewrite c14_spec. unfold c14_closed. intros H. cbv zeta in *.
  set (d := stored_size h (slice bs 0 (hsize h))) in *.
  destruct (N.ltb_spec (len bs) (hsize h)) as [H1|H1]; [discriminate|].
  destruct (N.eqb_spec (a mod 8) 0) as [H2|H2]; cbn [negb] in H; [|discriminate].
  destruct (N.eqb_spec (len bs mod 8) 0) as [H3|H3]; cbn [negb] in H; [|discriminate].
  destruct (N.ltb_spec d (hsize h)) as [H4|H4]; [discriminate|].
  destruct (N.ltb_spec (len bs) d) as [H5|H5]; [discriminate|].
  injection H as <-. cbn [d_off d_plen]. unfold dref_size_of_val. cbn [d_plen].
  replace (hsize h + (d - hsize h)) with d by lia.
  repeat split; try assumption; try lia.
  apply round8_least; assumption.
Qed.

(* a declaration smaller than the header never yields a structure *)
Lemma c14_small_decl p h a bs :
  stored_size h (slice bs 0 (hsize h)) < hsize h ->
  forall r, ref_from_slice p h {| m_base := a; m_bytes := bs |} 0 (len bs) <> Val r.
Proof.
  intros Hd r H. apply c14_success in H. lia.
Qed.

Lemma c14_round p s : s < pow2_32 ->
  inc_align p s = Val (round8 s) /\ round8 s mod 8 = 0 /\ s <= round8 s < s + 8 /\
  (forall m, m mod 8 = 0 -> s <= m -> round8 s <= m).
Proof.
  intros H. split; [apply inc_align_spec; pose proof pow2_32_lt_64; unfold pow2_32, pow2_64 in *; lia|].
  split; [apply round8_mod|]. split; [split; [apply round8_ge|apply round8_lt]|].
  intros m; apply round8_least.
Qed.

(* non-vacuity: a 16-byte aligned slice declaring 12 bytes is accepted *)
Example c14_example :
  ref_from_slice Dev HTagH {| m_base := 4096; m_bytes := [x01;x00;x00;x00;x0c;x00;x00;x00;xaa;xbb;xcc;xdd;x00;x00;x00;x00] |} 0 16
  = Val {| d_off := 0; d_plen := 4 |}.
Proof. vm_compute. reflexivity. Qed.
