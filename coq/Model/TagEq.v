(* Model of the PartialEq impls of the tag types (`==` / `!=` between two typed tag references): all are derived,
   i.e. field by field in declaration order and then the unsized tail element-wise - alignment padding between the
   fields and behind the tail is never compared; FramebufferTag has a hand-written impl that leaves `_padding` out. *)
Require Import Bytes Outcome Render Layout Common TagType Mbi MbiTags.
From Coq Require Import String List.
Import ListNotations.
Open Scope N_scope.

Fixpoint bytes_eqb (a b : list byte) : bool :=
  match a, b with
  | [], [] => true
  | x :: a', y :: b' => byte_eqb x y && bytes_eqb a' b'
  | _, _ => false
  end.

(* fields the impl does not compare *)
Definition eq_skip (k : kind) : list string := match k with KFramebuffer => ["_padding"%string] | _ => [] end.

Definition fields_eqb (k : kind) (b1 b2 : list byte) (o1 o2 : N) : bool :=
  forallb (fun f => match f with (name, o, w) =>
                      existsb (String.eqb name) (eq_skip k) || bytes_eqb (slice b1 (o1 + o) w) (slice b2 (o2 + o) w)
                    end)
          (sd_offsets (kind_struct k)).

Definition tag_eqb (k : kind) (m1 : mem) (t1 : tref) (m2 : mem) (t2 : tref) : bool :=
  fields_eqb k (m_bytes m1) (m_bytes m2) (t_off t1) (t_off t2)
  && match sd_tail (kind_struct k), t_meta t1, t_meta t2 with
     | Some (es, _), Some n1, Some n2 =>
         (n1 =? n2) && bytes_eqb (slice (m_bytes m1) (tail_off k t1) (n1 * es)) (slice (m_bytes m2) (tail_off k t2) (n2 * es))
     | None, _, _ => true
     | _, _, _ => false
     end.

(* tageq <region1> <region2>: both loaded; for every tag kind present in both, `a == b` and `a != b` of the first tags
   of that kind (BootInformation::get_tag::<T>) *)
Definition eq_kinds : list kind :=
  (* BootdevTag, ApmTag and NetworkTag do not implement PartialEq *)
  [KCmdline; KBootLoaderName; KModule; KBasicMeminfo; KMmap; KVbe; KFramebuffer; KElfSections; KEfi32;
   KEfi64; KSmbios; KAcpiV1; KAcpiV2; KEfiMmap; KEfiBs; KEfi32Ih; KEfi64Ih; KLoadBaseAddr].

Open Scope string_scope.
Definition kind_label (k : kind) : string := sN (kind_typ k).

Definition line_tageq (p : profile) (k : kind) (m1 : mem) (r1 : dref) (m2 : mem) (r2 : dref) : string :=
  line "eq" (kind_label k ++ " " ++
    match get_tag p k m1 r1, get_tag p k m2 r2 with
    | Val (Some t1), Val (Some t2) =>
        (* VBEModeInfo.memory_model is an enum-typed field: comparing an undeclared discriminant is undefined (F18) *)
        if (match k with KVbe => negb ((fld KVbe m1 t1 "mi.memory_model" <=? 7)%N && (fld KVbe m2 t2 "mi.memory_model" <=? 7)%N)
                       | _ => false end)
        then "skip"
        else let e := tag_eqb k m1 t1 m2 t2 in "VAL eq=" ++ sBool e ++ " ne=" ++ sBool (negb e)
    | _, _ => "skip"
    end).

Definition run_tageq (p : profile) (bs1 bs2 : list byte) : list string :=
  let m1 := {| m_base := 0; m_bytes := bs1 |} in
  let m2 := {| m_base := 0; m_bytes := bs2 |} in
  match mbi_load p false m1, mbi_load p false m2 with
  | Val r1, Val r2 => map (fun k => line_tageq p k m1 r1 m2 r2) eq_kinds
  | _, _ => [line "eq" "noload"]
  end.
