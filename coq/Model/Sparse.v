(* Structures far larger than a list of bytes can hold (declared sizes around 2^31 and 2^32, buffers of 4 GiB):
   the memory is SPARSE - a short prefix (and, for the boot information, the last 8 bytes) is given, everything
   between is unspecified (the harness maps zero pages).  The functions below are what load / find_header return
   on every memory that starts with that prefix (and ends with that suffix) - proved in Props/C02, C10, C13 for
   all contents in between - and are what the oracle evaluates for the domains mbihuge, hdrhuge, findhuge. *)
Require Import Bytes Outcome Render Common TagType Mbi Header.
From Coq Require Import String.
Open Scope N_scope.

(* Multiboot2Header::load on any memory that starts with these 16 bytes and holds at least the declared length *)
Definition hdr_load_sparse (hdr16 : list byte) : res dref :=
  let l := le (slice hdr16 8 4) in
  if l <? 16 then Err EShorterThanHeader
  else if negb (l mod 8 =? 0) then Err EMissingPadding
  else if negb (le (slice hdr16 0 4) =? HDR_MAGIC) then Err EMagicNotFound
  else if negb ((le (slice hdr16 0 4) + le (slice hdr16 4 4) + l + le (slice hdr16 12 4)) mod pow2_32 =? 0)
       then Err EChecksumMismatch
       else Val {| d_off := 0; d_plen := l - 16 |}.

(* BootInformation::load on any memory of the declared size (>= 16) that starts with these 8 bytes and ends with those 8 *)
Definition mbi_load_sparse (hdr8 last8 : list byte) : res dref :=
  let t := le (slice hdr8 0 4) in
  if t <? 8 then Err EShorterThanHeader
  else if negb (t mod 8 =? 0) then Err EMissingPadding
  else if t =? 8 then Err ENoEndTag
  else if (le (slice last8 0 4) =? 0) && (le (slice last8 4 4) =? 8)
       then Val {| d_off := 0; d_plen := t - 8 |}
       else Err ENoEndTag.

(* find_header on any buffer of L bytes that starts with `prefix` (which covers the search window and the length
   word of a header found there: 8204 bytes, or the whole buffer) *)
Definition find_header_sparse (addr : N) (prefix : list byte) (L : N) : res (option (N * N * N)) :=
  if negb (addr mod 8 =? 0) then Err EWrongAlignment else
  let wlen := N.min 8192 L in
  let w := slice prefix 0 wlen in
  match magic_pos w 0 with
  | None => Val None
  | Some idx =>
      if negb (idx mod 8 =? 0) then Err EWrongAlignment else
      if L <? idx + 12 then Err EMissingPadding else
      let hl := le (slice prefix (idx + 8) 4) in
      if L <? idx + hl then Err EInvalidReportedTotalSize else
      Val (Some (idx, hl, idx))
  end.

Open Scope string_scope.
Definition run_hdrhuge (hdr16 : list byte) : list string :=
  [ line "load" (sRes (fun r => "length=" ++ sN (d_plen r + 16)) (hdr_load_sparse hdr16)) ].
Definition run_mbihuge (hdr8 last8 : list byte) : list string :=
  [ line "load" (sRes (fun r => "total=" ++ sN (d_plen r + 8)) (mbi_load_sparse hdr8 last8)) ].
Definition run_findhuge (L : N) (prefix : list byte) : list string :=
  [ line "find_header"
      (sRes (sOpt (fun x => match x with (off, n, idx) => sView off n ++ " idx=" ++ sN idx end))
            (find_header_sparse 0 prefix L)) ].
