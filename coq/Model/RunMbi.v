(* Case runners for the boot-information domains: mbi, mbinull, iters. *)
Require Import Bytes Outcome Render Layout Common TagType Mbi MbiTags RunCommon.
From Coq Require Import String.
Open Scope string_scope.
Open Scope N_scope.

Definition sDref (h : hkind) (r : dref) : string := sView (d_off r) (dref_size_of_val h r).

Definition sTagLine (m : mem) (r : dref) : string :=
  sDref HTagH r ++ " typ=" ++ sN (tag_typ m r) ++ " size=" ++ sN (tag_size m r) ++ " plen=" ++ sN (d_plen r)
  ++ " payload=" ++ sBytes (slice (m_bytes m) (d_off r + 8) (d_plen r)).

Definition sEnd (e : res unit) : string := sRes (fun _ => "END") e.

(* the provided Iterator methods of a tag iterator are iterated next(): nth(k) on a fresh iterator is the k-th item of the
   run, None behind a complete run, and the run's panic otherwise; count() is the number of items of a complete run *)
Definition nth_ks (n : N) : list N := [0; 1; n - 1; n; n + 1; n + 2; n + 3; n + 7].
Definition lines_iter_nth (p : profile) (h : hkind) (m : mem) (b blen : N) (items : list dref) (e : res unit) : list string :=
  (map (fun k => line "tags_nth" (sN k ++ " " ++ match tagiter_nth p h m b blen 0 (N.to_nat k) with
                                                  | Val (Some t, _) => "VAL " ++ sDref h t
                                                  | Val (None, _) => "VAL none"
                                                  | x => sRes (fun _ => "") x
                                                  end)) (nth_ks (len items))
   ++ [line "tags_count" (sRes (fun _ => sN (len items)) e);
       (* the provided last(): the last item of a complete walk, the walk's panic otherwise; and on an exhausted iterator *)
       line "tags_last" (sRes (fun _ => match List.last (map Some items) None with
                                        | Some t => sDref h t
                                        | None => "none"
                                        end) e);
       line "tags_last_exhausted" (sRes (fun _ => "none") e);
       (* next() once, then clone().count(): the clone continues behind the first tag *)
       line "tags_clone" (match items with
                          | [] => sRes (fun _ => "first=false rest=0") e
                          | _ => sRes (fun _ => ("first=true rest=" ++ sN (len items - 1))%string) e
                          end)])%list.

(* the generic walk of a loaded boot information *)
Definition lines_walk (p : profile) (m : mem) (r : dref) : list string :=
  let '(items, e) := tagiter_run (iter_fuel (tags_len r)) p HTagH m (tags_b r) (tags_len r) 0 in
  (map (fun t => line "tag" (sTagLine m t)) items ++ [line "tags" (sEnd e)] ++ lines_iter_nth p HTagH m (tags_b r) (tags_len r) items e)%list.

Definition run_mbi_core (p : profile) (m : mem) : res dref * list string :=
  let l := mbi_load p false m in
  (l, [ line "load" (sRes (fun r => "start=" ++ sN (mbi_start_address m r)
                              ++ " end=" ++ sRes sN (mbi_end_address p m r)
                              ++ " total=" ++ sN (mbi_total_size m r)) l) ]).

Definition run_mbinull (p : profile) : list string :=
  [ line "load" (sRes (fun _ : dref => "") (mbi_load p true {| m_base := 0; m_bytes := [] |})) ].

(* mbimis <addr mod 8> <bytes>: load through a pointer that need not be 8-aligned *)
Definition run_mbimis (p : profile) (a : N) (bs : list byte) : list string :=
  [ line "load" (sRes (fun _ : dref => "") (mbi_load p false {| m_base := a; m_bytes := bs |})) ].

(* iterator histories: a pool of iterators over the same loaded region;
   op = AL [AN 0] new | AL [AN 1; AN i] next on i | AL [AN 2; AN i] clone of i *)
Inductive iter_st := ItLive (nxt : N) | ItDead.   (* dead: a call on it panicked *)

Fixpoint run_iter_ops (p : profile) (h : hkind) (m : mem) (b blen : N) (show : dref -> string)
                      (pool : list iter_st) (ops : list arg) : list string :=
  let upd i st := (firstn (N.to_nat i) pool ++ [st] ++ skipn (S (N.to_nat i)) pool)%list in
  match ops with
  | [] => []
  | AL [AN 0] :: rest => line "new" (sN (len pool)) :: run_iter_ops p h m b blen show (pool ++ [ItLive 0])%list rest
  | AL [AN 2; AN i] :: rest =>
      match nth_error pool (N.to_nat i) with
      | Some st => line "clone" (sN (len pool)) :: run_iter_ops p h m b blen show (pool ++ [st])%list rest
      | None => line "clone" "skip" :: run_iter_ops p h m b blen show pool rest
      end
  | AL [AN 1; AN i] :: rest =>
      match nth_error pool (N.to_nat i) with
      | Some (ItLive nxt) =>
          (* a panic is caught by the caller: the iterator lives on with the offset next() left behind *)
          let '(x, n') := tagiter_step p h m b blen nxt in
          match x with
          | Val (Some t) => line "next" ("VAL some " ++ show t) :: run_iter_ops p h m b blen show (upd i (ItLive n')) rest
          | Val None => line "next" "VAL none" :: run_iter_ops p h m b blen show (upd i (ItLive n')) rest
          | _ => line "next" (sRes (fun _ => "") x) :: run_iter_ops p h m b blen show (upd i (ItLive n')) rest
          end
      | _ => line "next" "skip" :: run_iter_ops p h m b blen show pool rest
      end
  | AL [AN 3; AN i; AN k] :: rest =>
      (* the provided nth(k) on iterator i, in whatever state earlier calls left it *)
      match nth_error pool (N.to_nat i) with
      | Some (ItLive nxt) =>
          let '(x, n') := tagiter_nth_step p h m b blen nxt (N.to_nat k) in
          match x with
          | Val (Some t) => line "nth" ("VAL some " ++ show t) :: run_iter_ops p h m b blen show (upd i (ItLive n')) rest
          | Val None => line "nth" "VAL none" :: run_iter_ops p h m b blen show (upd i (ItLive n')) rest
          | _ => line "nth" (sRes (fun _ => "") x) :: run_iter_ops p h m b blen show (upd i (ItLive n')) rest
          end
      | _ => line "nth" "skip" :: run_iter_ops p h m b blen show pool rest
      end
  | _ :: rest => line "op" "bad" :: run_iter_ops p h m b blen show pool rest
  end.

Definition run_iters (p : profile) (bs : list byte) (ops : list arg) : list string :=
  let m := {| m_base := 0; m_bytes := bs |} in
  let '(l, lines) := run_mbi_core p m in
  match l with
  | Val r => (lines ++ run_iter_ops p HTagH m (tags_b r) (tags_len r) (sTagLine m) [] ops)%list
  | _ => lines
  end.

Definition lines_modules (p : profile) (m : mem) (r : dref) : list string :=
  let '(items, e) := modules_run (iter_fuel (tags_len r)) p m (tags_b r) (tags_len r) 0 in
  (map (fun t => line "module" (sView (t_off t) (tref_size_of_val KModule t))) items ++ [line "modules" (sEnd e)])%list.

(* mbi <bytes>: load, addresses, generic walk, module iterator *)
Definition run_mbi_walk (p : profile) (bs : list byte) : list string :=
  let m := {| m_base := 0; m_bytes := bs |} in
  let '(l, lines) := run_mbi_core p m in
  match l with
  | Val r => (lines ++ lines_walk p m r ++ lines_modules p m r)%list
  | _ => lines
  end.
