(* Case runners for the header-crate domains: hdr (load + walk), hdrnull, find, cksum. *)
Require Import Bytes Outcome Render Common TagType Mbi Header RunCommon RunMbi.
From Coq Require Import String.
Open Scope string_scope.
Open Scope N_scope.

Definition sHTagLine (m : mem) (r : dref) : string :=
  sDref HHdrTagH r ++ " typ=" ++ sN (le (slice (m_bytes m) (d_off r) 2))
  ++ " flags=" ++ sN (le (slice (m_bytes m) (d_off r + 2) 2))
  ++ " size=" ++ sN (le (slice (m_bytes m) (d_off r + 4) 4)) ++ " plen=" ++ sN (d_plen r)
  ++ " payload=" ++ sBytes (slice (m_bytes m) (d_off r + 8) (d_plen r)).

Definition run_hdr_core (p : profile) (m : mem) : res dref * list string :=
  let l := hdr_load p false m in
  (l, [ line "load" (sRes (fun r => "magic=" ++ sN (hdr_magic m r) ++ " arch=" ++ sN (hdr_arch m r)
                              ++ " length=" ++ sN (hdr_length m r) ++ " checksum=" ++ sN (hdr_checksum m r)
                              ++ " verify=" ++ sRes sBool (verify_checksum m r)
                              (* Debug of the header reads the four fields; formatted only when the architecture word is defined *)
                              ++ " dbg=" ++ (if (hdr_arch m r =? 0) || (hdr_arch m r =? 4) then "VAL" else "UB")) l) ]).

Definition hlines_walk (p : profile) (m : mem) (r : dref) : list string :=
  let b := d_off r + 16 in
  let '(items, e) := tagiter_run (iter_fuel (d_plen r)) p HHdrTagH m b (d_plen r) 0 in
  (map (fun t => line "tag" (sHTagLine m t)) items ++ [line "tags" (sEnd e)] ++ lines_iter_nth p HHdrTagH m b (d_plen r) items e)%list.

Definition run_hdr_walk (p : profile) (bs : list byte) : list string :=
  let m := {| m_base := 0; m_bytes := bs |} in
  let '(l, lines) := run_hdr_core p m in
  match l with
  | Val r => (lines ++ hlines_walk p m r)%list
  | _ => lines
  end.

(* hiters <bytes> [ops]: iterator histories over the tags of a loaded header (same operations as `iters`) *)
Definition run_hiters (p : profile) (bs : list byte) (ops : list arg) : list string :=
  let m := {| m_base := 0; m_bytes := bs |} in
  let '(l, lines) := run_hdr_core p m in
  match l with
  | Val r => (lines ++ run_iter_ops p HHdrTagH m (d_off r + 16) (d_plen r) (sHTagLine m) [] ops)%list
  | _ => lines
  end.

Definition run_hdrnull (p : profile) : list string :=
  [ line "load" (sRes (fun _ : dref => "") (hdr_load p true {| m_base := 0; m_bytes := [] |})) ].

(* hdrmis <addr mod 8> <bytes>: load through a pointer that need not be 8-aligned *)
Definition run_hdrmis (p : profile) (a : N) (bs : list byte) : list string :=
  [ line "load" (sRes (fun _ : dref => "") (hdr_load p false {| m_base := a; m_bytes := bs |})) ].

Definition run_find (p : profile) (a : N) (bs : list byte) : list string :=
  [ line "find_header"
      (sRes (sOpt (fun x => match x with (off, n, idx) => sView off n ++ " idx=" ++ sN idx end))
            (find_header p a bs)) ].

Definition run_cksum (magic arch length : N) : list string :=
  [ line "calc_checksum" (sN (calc_checksum magic arch length)) ].

(* ---- full dump of a header (domain `hdr`) ----------------------------------- *)
Require Import Layout HeaderTags.

Definition hkv (n : string) (v : N) : string := n ++ "=" ++ sN v.
Definition hsp (l : list string) : string := sJoin " " l.
Definition hfields (k : hkind2) (m : mem) (t : tref) (names : list string) : string :=
  hsp (map (fun n => hkv n (hfld k m t n)) names).

Definition hgetter_name (k : hkind2) : string :=
  match k with
  | HkEnd => "end" | HkInfoReq => "information_request" | HkAddress => "address" | HkEntryAddress => "entry_address"
  | HkConsole => "console_flags" | HkFramebuffer => "framebuffer" | HkModuleAlign => "module_align"
  | HkEfiBs => "efi_boot_services" | HkEntryEfi32 => "entry_address_efi32" | HkEntryEfi64 => "entry_address_efi64"
  | HkRelocatable => "relocatable"
  end.

Definition hgetter_kinds : list hkind2 :=
  [HkInfoReq; HkAddress; HkEntryAddress; HkEntryEfi32; HkEntryEfi64; HkConsole; HkFramebuffer; HkModuleAlign;
   HkEfiBs; HkRelocatable].

Definition hlines_kind (k : hkind2) (m : mem) (t : tref) : list string :=
  let common := "typ=" ++ sRes sN (htag_typ m (t_off t)) ++ " flags=" ++ sRes sN (htag_flags m (t_off t))
                ++ " " ++ hkv "size" (htag_size m (t_off t)) in
  let extra :=
    match k with
    | HkInfoReq =>
        let '(off, n) := hrequests t in
        " requests=" ++ sView off (n * 4) ++ " "
        ++ sList (fun i => sN (le (slice (m_bytes m) (off + 4 * i) 4))) (map N.of_nat (seq 0 (N.to_nat n)))
    | HkAddress => " " ++ hfields k m t ["header_addr"; "load_addr"; "load_end_addr"; "bss_end_addr"]
    | HkEntryAddress | HkEntryEfi32 | HkEntryEfi64 => " " ++ hfields k m t ["entry_addr"]
    | HkConsole => " console_flags=" ++ sRes sN (enum_in (hfld k m t "console_flags") 1)
    | HkFramebuffer => " " ++ hfields k m t ["width"; "height"; "depth"]
    | HkRelocatable => " " ++ hfields k m t ["min_addr"; "max_addr"; "align"]
                       ++ " preference=" ++ sRes sN (enum_in (hfld k m t "preference") 2)
    | _ => ""
    end in
  (* Debug of a typed header tag reads its fields (never panics); formatted only when every enum-typed field is defined *)
  let enums_ok :=
    is_val (htag_typ m (t_off t)) && is_val (htag_flags m (t_off t)) &&
    match k with
    | HkConsole => is_val (enum_in (hfld k m t "console_flags") 1)
    | HkRelocatable => is_val (enum_in (hfld k m t "preference") 2)
    | _ => true
    end in
  [line (hgetter_name k ++ "_tag") (common ++ extra ++ " dbg=" ++ (if enums_ok then "VAL" else "UB"))].

Definition hlines_get (p : profile) (k : hkind2) (m : mem) (r : dref) : list string :=
  let nm := hgetter_name k in
  match hget_tag p k m r with
  | Val None => [line "get" (nm ++ " none")]
  | Val (Some t) =>
      let v := sView (t_off t) (htref_size_of_val k t) in
      line "get" (nm ++ " some " ++ v ++ " bytes=" ++ v ++ " payload=" ++ sView (t_off t + 8) (htref_size_of_val k t - 8)
                  ++ " header=@" ++ sN (t_off t) ++ " ptr=@" ++ sN (t_off t))
      :: hlines_kind k m t
  | x => [line "get" (nm ++ " " ++ sRes (fun _ => "") x)]
  end.

Definition run_hdr (p : profile) (bs : list byte) : list string :=
  let m := {| m_base := 0; m_bytes := bs |} in
  let '(l, lines) := run_hdr_core p m in
  match l with
  | Val r => (lines ++ hlines_walk p m r ++ flat_map (fun k => hlines_get p k m r) hgetter_kinds)%list
  | _ => lines
  end.

(* verify <16 header bytes>: Multiboot2BasicHeader::verify_checksum on a bare basic header *)
Definition run_verify (bs : list byte) : list string :=
  let m := {| m_base := 0; m_bytes := bs |} in
  [ line "verify_checksum" (sRes sBool (verify_checksum m {| d_off := 0; d_plen := 0 |})) ].
