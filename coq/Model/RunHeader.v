(* Case runners for the header-crate domains: hdr (load + walk), hdrnull, find, cksum. *)
Require Import Bytes Outcome Render Common TagType Mbi Header RunCommon RunMbi.
From Coq Require Import String.
Open Scope string_scope.
Open Scope N_scope.

Definition sHTagLine (m : mem) (r : dref) : string :=
  sDref HHdrTagH r ++ " typ=" ++ sN (le (slice (m_bytes m) (d_off r) 2))
  ++ " flags=" ++ sN (le (slice (m_bytes m) (d_off r + 2) 2))
  ++ " size=" ++ sN (le (slice (m_bytes m) (d_off r + 4) 4)) ++ " plen=" ++ sN (d_plen r)
  ++ " payload=" ++ sBytes (slice (m_bytes m) (d_off r + 8) (d_plen r)).

Definition run_hdr_core (p : profile) (m : mem) : res dref * list string :=
  let l := hdr_load p false m in
  (l, [ line "load" (sRes (fun r => "magic=" ++ sN (hdr_magic m r) ++ " arch=" ++ sN (hdr_arch m r)
                              ++ " length=" ++ sN (hdr_length m r) ++ " checksum=" ++ sN (hdr_checksum m r)
                              ++ " verify=" ++ sRes sBool (verify_checksum m r)) l) ]).

Definition hlines_walk (p : profile) (m : mem) (r : dref) : list string :=
  let b := d_off r + 16 in
  let '(items, e) := tagiter_run (iter_fuel (d_plen r)) p HHdrTagH m b (d_plen r) 0 in
  (map (fun t => line "tag" (sHTagLine m t)) items ++ [line "tags" (sEnd e)])%list.

Definition run_hdr_walk (p : profile) (bs : list byte) : list string :=
  let m := {| m_base := 0; m_bytes := bs |} in
  let '(l, lines) := run_hdr_core p m in
  match l with
  | Val r => (lines ++ hlines_walk p m r)%list
  | _ => lines
  end.

Definition run_hdrnull (p : profile) : list string :=
  [ line "load" (sRes (fun _ : dref => "") (hdr_load p true {| m_base := 0; m_bytes := [] |})) ].

Definition run_find (p : profile) (a : N) (bs : list byte) : list string :=
  [ line "find_header"
      (sRes (sOpt (fun x => match x with (off, n, idx) => sView off n ++ " idx=" ++ sN idx end))
            (find_header p a bs)) ].

Definition run_cksum (magic arch length : N) : list string :=
  [ line "calc_checksum" (sN (calc_checksum magic arch length)) ].
