(* Which operations the Debug formatters of the multiboot2 crate perform (hand-written `impl Debug`s and
   derives); the produced text is not modelled.  A formatter yields Val tt, or the Panic / Fault of the
   first operation that does not return. *)
Require Import Bytes Outcome Layout Common TagType Mbi MbiTags Strings MbiAccess.
From Coq Require Import String.
Open Scope string_scope.
Open Scope N_scope.

Definition ignore {A} (r : res A) : res unit := rmap (fun _ => tt) r.
(* formatting a Result: Ok and Err are both printed *)
Definition ignore_err {A} (r : res A) : res unit :=
  match r with Val _ => Val tt | Err _ => Val tt | Panic => Panic | Fault f => Fault f end.

(* BootInformation::elf_sections() (deprecated): get_tag, `assert!(entry_size * shndx <= size)`, sections() *)
Definition elf_sections_deprecated (p : profile) (m : mem) (r : dref) : res (option elf_iter) :=
  x <- get_tag p KElfSections m r ;;
  match x with
  | None => Val None
  | Some t =>
      _ <- assert (fld KElfSections m t "entry_size" * fld KElfSections m t "shndx" <=? le (slice (m_bytes m) (t_off t + 4) 4)) ;;
      it <- elf_sections p m t ;; Val (Some it)
  end.

(* EFIMemoryAreaIter: Debug iterates a clone to its end *)
Definition dbg_efi_iter (p : profile) (m : mem) (it : efi_iter) : res unit :=
  snd (efi_collect (S (S (N.to_nat (ei_entries it)))) p m it).

(* ElfSectionIter: Debug takes at most 7 items of a clone (each ElfSection Debug calls get() again,
   which cannot fail after next() succeeded) *)
Fixpoint elf_take (n : nat) (p : profile) (m : mem) (it : elf_iter) : res unit :=
  match n with
  | O => Val tt
  | S n' =>
      x <- elf_next (elf_fuel it) p m it ;;
      match x with
      | (None, _) => Val tt
      | (Some _, it') => elf_take n' p m it'
      end
  end.

(* Debug of &T for each tag kind *)
Definition dbg_kind (p : profile) (k : kind) (m : mem) (t : tref) : res unit :=
  match k with
  | KEfiMmap => it <- efi_memory_areas m t ;; dbg_efi_iter p m it
  | KElfSections => it <- elf_sections p m t ;; elf_take 7 p m it
  | KFramebuffer => ignore_err (fb_buffer_type m t)
  | KVbe => ignore (vbe_memory_model m t)
  | _ => Val tt          (* derives and the string/RSDP/SMBIOS formatters: field reads and Result-returning accessors only *)
  end.

Definition dbg_opt (p : profile) (k : kind) (m : mem) (g : res (option tref)) : res unit :=
  x <- g ;; match x with Some t => dbg_kind p k m t | None => Val tt end.

(* Debug of BootInformation, in the order of the `debug_struct` fields *)
Definition dbg_boot (p : profile) (m : mem) (r : dref) : res unit :=
  let g k := dbg_opt p k m (get_tag p k m r) in
  _ <- ignore (mbi_end_address p m r) ;;
  _ <- g KApm ;; _ <- g KBasicMeminfo ;; _ <- g KBootLoaderName ;; _ <- g KBootdev ;; _ <- g KCmdline ;;
  _ <- g KEfiBs ;; _ <- g KEfi32Ih ;; _ <- g KEfi64Ih ;;
  _ <- dbg_opt p KEfiMmap m (efi_memory_map_tag p m r) ;;
  _ <- g KEfi32 ;; _ <- g KEfi64 ;; _ <- g KElfSections ;;
  _ <- (x <- framebuffer_tag p m r ;;
        match x with Some (Val t) => dbg_kind p KFramebuffer m t | _ => Val tt end) ;;
  _ <- g KLoadBaseAddr ;; _ <- g KMmap ;;
  _ <- snd (modules_run (iter_fuel (tags_len r)) p m (tags_b r) (tags_len r) 0) ;;
  _ <- g KNetwork ;; _ <- g KAcpiV1 ;; _ <- g KAcpiV2 ;; _ <- g KSmbios ;; _ <- g KVbe ;;
  (* custom_tags_count: a complete walk *)
  snd (tagiter_run (iter_fuel (tags_len r)) p HTagH m (tags_b r) (tags_len r) 0).

(* the harness does not format a boot information whose VBE tag carries an undefined memory-model byte
   (known finding F18); the same syntactic condition is used on the model side *)
Definition vbe_undefined (p : profile) (m : mem) (r : dref) : bool :=
  match get_tag p KVbe m r with
  | Val (Some t) => 7 <? fld KVbe m t "mi.memory_model"
  | _ => false
  end.
