(* Transcription of the 11 header-tag structs of the multiboot2-header crate,
   their MaybeDynSized impls and Tag::ID, the typed getters. *)
Require Import Bytes Outcome Layout Common TagType Mbi Header.
From Coq Require Import String.
Open Scope string_scope.
Open Scope N_scope.

Inductive hkind2 :=
| HkEnd | HkInfoReq | HkAddress | HkEntryAddress | HkConsole | HkFramebuffer | HkModuleAlign | HkEfiBs
| HkEntryEfi32 | HkEntryEfi64 | HkRelocatable.

Definition all_hkinds : list hkind2 :=
  [HkEnd; HkInfoReq; HkAddress; HkEntryAddress; HkConsole; HkFramebuffer; HkModuleAlign; HkEfiBs;
   HkEntryEfi32; HkEntryEfi64; HkRelocatable].

(* Tag::ID as the u16 discriminant of HeaderTagType *)
Definition hkind_typ (k : hkind2) : N :=
  match k with
  | HkEnd => 0 | HkInfoReq => 1 | HkAddress => 2 | HkEntryAddress => 3 | HkConsole => 4 | HkFramebuffer => 5
  | HkModuleAlign => 6 | HkEfiBs => 7 | HkEntryEfi32 => 8 | HkEntryEfi64 => 9 | HkRelocatable => 10
  end.

(* `header: HeaderTagHeader` : #[repr(C)] { typ: u16, flags: u16, size: u32 } -- size 8, align 4 *)
Definition fHHeader := fStruct "header" 8 4.

Definition hsized (fs : list field) : sdesc := {| sd_fields := fs; sd_attr_align := 8; sd_tail := None |}.

Definition hkind_struct (k : hkind2) : sdesc :=
  match k with
  | HkEnd => hsized [fHHeader]
  | HkInfoReq => {| sd_fields := [fHHeader]; sd_attr_align := 8; sd_tail := Some (4, 4) |}
  | HkAddress => hsized [fHHeader; fU32 "header_addr"; fU32 "load_addr"; fU32 "load_end_addr"; fU32 "bss_end_addr"]
  | HkEntryAddress => hsized [fHHeader; fU32 "entry_addr"]
  | HkConsole => hsized [fHHeader; fU32 "console_flags"]
  | HkFramebuffer => hsized [fHHeader; fU32 "width"; fU32 "height"; fU32 "depth"]
  | HkModuleAlign => hsized [fHHeader]
  | HkEfiBs => hsized [fHHeader]
  | HkEntryEfi32 => hsized [fHHeader; fU32 "entry_addr"]
  | HkEntryEfi64 => hsized [fHHeader; fU32 "entry_addr"]
  | HkRelocatable => hsized [fHHeader; fU32 "min_addr"; fU32 "max_addr"; fU32 "align"; fU32 "preference"]
  end.

(* MaybeDynSized::BASE_SIZE as the source writes it *)
Definition hkind_base (k : hkind2) : N :=
  match k with
  | HkInfoReq => 8
  | HkEntryAddress | HkConsole | HkEntryEfi32 | HkEntryEfi64 => 8 + 4
  | HkFramebuffer => 8 + 3 * 4
  | _ => sd_size_of (hkind_struct k)
  end.

Definition hkind_dstlen (k : hkind2) (p : profile) (hdr : list byte) : res (option N) :=
  match k with
  | HkInfoReq =>
      n <- usub p (le (slice hdr 4 4)) (hkind_base k) ;;
      _ <- assert (n mod 4 =? 0) ;;
      Val (Some (n / 4))
  | _ => Val None
  end.

Definition hkind_tdesc (k : hkind2) : tdesc :=
  {| t_base := hkind_base k; t_dstlen := hkind_dstlen k; t_sizeof := sd_size_of_val (hkind_struct k) |}.

Definition hcast_kind (p : profile) (k : hkind2) (m : mem) (r : dref) : res tref :=
  cast p HHdrTagH (hkind_tdesc k) m r.

Definition htref_size_of_val (k : hkind2) (t : tref) : N := sd_size_of_val (hkind_struct k) (t_meta t).

Definition hfld (k : hkind2) (m : mem) (t : tref) (name : string) : N :=
  let '(o, w) := field_ow (hkind_struct k) name in le (slice (m_bytes m) (t_off t + o) w).

(* enum-typed fields: a stored value outside the declared discriminants is a fault *)
Definition enum_in (v : N) (hi : N) : res N := if v <=? hi then Val v else Fault FEnum.
Definition htag_typ (m : mem) (off : N) : res N := enum_in (le (slice (m_bytes m) off 2)) 10.
Definition htag_flags (m : mem) (off : N) : res N := enum_in (le (slice (m_bytes m) (off + 2) 2)) 1.
Definition htag_size (m : mem) (off : N) : N := le (slice (m_bytes m) (off + 4) 4).

(* Iterator::find(|tag| tag.header().typ() == ID): reads the enum-typed typ of every visited tag *)
Fixpoint htagiter_find (fuel : nat) (p : profile) (m : mem) (b blen nxt : N) (typ : N)
  : res (option dref * N) :=
  match fuel with
  | O => Fault FFuel
  | S f =>
      x <- tagiter_next p HHdrTagH m b blen nxt ;;
      match x with
      | (None, n') => Val (None, n')
      | (Some r, n') =>
          ty <- htag_typ m (d_off r) ;;
          if ty =? typ then Val (Some r, n') else htagiter_find f p m b blen n' typ
      end
  end.

(* Multiboot2Header::get_tag::<T>() *)
Definition hget_tag (p : profile) (k : hkind2) (m : mem) (r : dref) : res (option tref) :=
  let b := d_off r + 16 in
  x <- htagiter_find (iter_fuel (d_plen r)) p m b (d_plen r) 0 (hkind_typ k) ;;
  match x with
  | (None, _) => Val None
  | (Some g, _) => t <- hcast_kind p k m g ;; Val (Some t)
  end.

(* InformationRequestHeaderTag::requests(): &[MbiTagTypeId] as (offset, count) *)
Definition hrequests (k := HkInfoReq) (t : tref) : N * N :=
  (t_off t + 8, match t_meta t with Some n => n | None => 0 end).
