(* Model of multiboot2::util::parse_slice_as_string:
   CStr::from_bytes_until_nul followed by CStr::to_str (UTF-8 validation). *)
Require Import Bytes Outcome.

(* index of the first NUL byte *)
Fixpoint index_nul (bs : list byte) : option N :=
  match bs with
  | [] => None
  | b :: r => if bN b =? 0 then Some 0 else match index_nul r with Some i => Some (i + 1) | None => None end
  end.

Definition in_range (b : byte) (lo hi : N) : bool := (lo <=? bN b) && (bN b <=? hi).
Definition cont (b : byte) : bool := in_range b 128 191.

(* Well-formed UTF-8 byte sequences, Unicode Standard Table 3-7 (the
   definition core::str::from_utf8 implements) *)
Fixpoint utf8_valid (l : list byte) : bool :=
  match l with
  | [] => true
  | b0 :: r =>
      let n := bN b0 in
      if n <? 128 then utf8_valid r
      else if (194 <=? n) && (n <=? 223) then
        match r with b1 :: r1 => cont b1 && utf8_valid r1 | _ => false end
      else if n =? 224 then
        match r with b1 :: b2 :: r2 => in_range b1 160 191 && cont b2 && utf8_valid r2 | _ => false end
      else if ((225 <=? n) && (n <=? 236)) || (n =? 238) || (n =? 239) then
        match r with b1 :: b2 :: r2 => cont b1 && cont b2 && utf8_valid r2 | _ => false end
      else if n =? 237 then
        match r with b1 :: b2 :: r2 => in_range b1 128 159 && cont b2 && utf8_valid r2 | _ => false end
      else if n =? 240 then
        match r with b1 :: b2 :: b3 :: r3 => in_range b1 144 191 && cont b2 && cont b3 && utf8_valid r3 | _ => false end
      else if (241 <=? n) && (n <=? 243) then
        match r with b1 :: b2 :: b3 :: r3 => cont b1 && cont b2 && cont b3 && utf8_valid r3 | _ => false end
      else if n =? 244 then
        match r with b1 :: b2 :: b3 :: r3 => in_range b1 128 143 && cont b2 && cont b3 && utf8_valid r3 | _ => false end
      else false
  end.

(* parse_slice_as_string(bytes): the length of the returned &str (it starts at
   the slice's first byte) *)
Definition parse_str (bs : list byte) : res N :=
  match index_nul bs with
  | None => Err EMissingNul
  | Some i => if utf8_valid (slice bs 0 i) then Val i else Err EUtf8
  end.

(* str::from_utf8 on a fixed-size array *)
Definition from_utf8 (bs : list byte) : res N := if utf8_valid bs then Val (len bs) else Err EUtf8.
