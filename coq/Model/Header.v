(* Model of multiboot2_header::Multiboot2Header: load, find_header, iter,
   basic accessors, calc/verify checksum. *)
Require Import Bytes Outcome Common TagType.

Definition hdr_magic (m : mem) (r : dref) : N := le (slice (m_bytes m) (d_off r) 4).
Definition hdr_arch (m : mem) (r : dref) : N := le (slice (m_bytes m) (d_off r + 4) 4).
Definition hdr_length (m : mem) (r : dref) : N := le (slice (m_bytes m) (d_off r + 8) 4).
Definition hdr_checksum (m : mem) (r : dref) : N := le (slice (m_bytes m) (d_off r + 12) 4).

(* HeaderTagISA: I386 = 0, MIPS32 = 4 ; any other stored value is an invalid
   discriminant of a fieldless enum *)
Definition arch_defined (a : N) : bool := (a =? 0) || (a =? 4).

Definition verify_checksum (m : mem) (r : dref) : res bool :=
  if arch_defined (hdr_arch m r)
  then Val (calc_checksum (hdr_magic m r) (hdr_arch m r) (hdr_length m r) =? hdr_checksum m r)
  else Fault FEnum.

Definition hdr_load (p : profile) (null : bool) (m : mem) : res dref :=
  if null then Err ENull else
  r <- ref_from_ptr p HBasicH m 0 ;;
  if negb (hdr_magic m r =? HDR_MAGIC) then Err EMagicNotFound else
  ok <- verify_checksum m r ;;
  if ok then Val r else Err EChecksumMismatch.

(* ---- find_header --------------------------------------------------------- *)
(* position of the first 4-byte window equal to MAGIC among the windows of w *)
Fixpoint magic_pos (w : list byte) (i : N) : option N :=
  match w with
  | b0 :: ((b1 :: b2 :: b3 :: _) as r) =>
      if le [b0; b1; b2; b3] =? HDR_MAGIC then Some i else magic_pos r (i + 1)
  | _ => None
  end.

(* find_header(buffer): Ok(Some((sub-slice view, index))) | Ok(None) | Err *)
Definition find_header (p : profile) (addr : N) (buf : list byte) : res (option (N * N * N)) :=
  if negb (addr mod 8 =? 0) then Err EWrongAlignment else
  let wlen := N.min 8192 (len buf) in
  let w := slice buf 0 wlen in
  match magic_pos w 0 with
  | None => Val None
  | Some idx =>
      if negb (idx mod 8 =? 0) then Err EWrongAlignment else
      (* the length word: bytes idx+8 .. idx+12 of the buffer *)
      if len buf <? idx + 12 then Err EMissingPadding else
      let hl := le (slice buf (idx + 8) 4) in
      if len buf <? idx + hl then Err EInvalidReportedTotalSize else
      Val (Some (idx, hl, idx))
  end.
