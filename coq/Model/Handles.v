(* "All sequences of safe API calls": handles (what safe code can hold after loading a boot
   information) and operations (the public, safe API functions applicable to each).  A program is a
   list of (index into the pool of handles obtained so far, operation). *)
Require Import Bytes Outcome Layout Common TagType Mbi MbiTags Strings MbiAccess Debug.
From Coq Require Import String.
Open Scope string_scope.
Open Scope N_scope.

Inductive handle :=
| HBoot (r : dref)                      (* BootInformation *)
| HIter (r : dref) (nxt : N)            (* TagIter (also the iterator inside ModuleIter) *)
| HModIter (r : dref) (nxt : N)         (* ModuleIter *)
| HGen (g : dref)                       (* &DynSizedStructure<TagHeader> *)
| HTag (k : kind) (t : tref)            (* &T for a tag kind *)
| HEfiIter (it : efi_iter)
| HElfIter (it : elf_iter)
| HElfSec (s : elf_section)
| HView (off n : N)                     (* a &[u8] / &str / &[T] handed to the caller *)
| HVal.                                 (* a plain value *)

Inductive op :=
| OTags | OModuleTags | ONext | OClone
| OGetTag (k : kind) | OEfiMemoryMapTag | OFramebufferTag
| OCast (k : kind)
| OPayload                              (* DynSizedStructure::payload / MaybeDynSized::as_bytes, payload *)
| OField (name : string)                (* any plain field accessor *)
| OStr                                  (* cmdline() / name() *)
| OTail                                 (* tables(), the dhcp data, &areas ... : the unsized tail *)
| OMemoryAreas                          (* MemoryMapTag::memory_areas / EFIMemoryMapTag::memory_areas *)
| OLen                                  (* ExactSizeIterator::len *)
| OSections | OBufferType | OChecksumValid | OMemoryModel
| OSecField (which : N)                 (* section_type, flags, start/end address, size, addralign, name address *)
| OElfSectionsDeprecated                (* BootInformation::elf_sections() *)
| ODebug.                               (* `{:?}` of the handle *)

Definition ret (l : list handle) : res (list handle) := Val l.

Definition step (p : profile) (m : mem) (h : handle) (o : op) : res (list handle) :=
  match h, o with
  | HBoot r, OTags => ret [HIter r 0]
  | HBoot r, OModuleTags => ret [HModIter r 0]
  | HBoot r, OGetTag k => x <- get_tag p k m r ;; ret (match x with Some t => [HTag k t] | None => [] end)
  | HBoot r, OEfiMemoryMapTag => x <- efi_memory_map_tag p m r ;; ret (match x with Some t => [HTag KEfiMmap t] | None => [] end)
  | HBoot r, OFramebufferTag =>
      x <- framebuffer_tag p m r ;; ret (match x with Some (Val t) => [HTag KFramebuffer t] | _ => [] end)
  | HBoot r, OElfSectionsDeprecated =>
      x <- elf_sections_deprecated p m r ;; ret (match x with Some it => [HElfIter it] | None => [] end)
  | HBoot r, ODebug => _ <- dbg_boot p m r ;; ret [HVal]
  | HTag k t, ODebug => _ <- dbg_kind p k m t ;; ret [HVal]
  | HEfiIter it, ODebug => _ <- dbg_efi_iter p m it ;; ret [HVal]
  | HElfIter it, ODebug => _ <- elf_take 7 p m it ;; ret [HVal]
  | HModIter r nxt, ODebug =>
      _ <- snd (modules_run (iter_fuel (tags_len r)) p m (tags_b r) (tags_len r) nxt) ;; ret [HVal]
  | HIter r nxt, ONext =>
      x <- tagiter_next p HTagH m (tags_b r) (tags_len r) nxt ;;
      ret (match x with (Some g, n') => [HIter r n'; HGen g] | (None, n') => [HIter r n'] end)
  | HIter r nxt, OClone => ret [HIter r nxt]
  | HModIter r nxt, ONext =>
      x <- tagiter_find (iter_fuel (tags_len r)) p HTagH m (tags_b r) (tags_len r) nxt MODULE_TYP ;;
      match x with
      | (Some g, n') => t <- cast_kind p KModule m g ;; ret [HModIter r n'; HTag KModule t]
      | (None, n') => ret [HModIter r n']
      end
  | HModIter r nxt, OClone => ret [HModIter r nxt]
  | HGen g, OCast k => t <- cast_kind p k m g ;; ret [HTag k t]
  | HGen g, OPayload => ret [HView (d_off g + 8) (d_plen g)]
  | HTag k t, OPayload => ret [HView (t_off t + 8) (tref_size_of_val k t - 8)]
  | HTag k t, OField _ => ret [HVal]
  | HTag k t, OTail => ret [HView (tail_off k t) (tail_count t * tail_esize k)]
  | HTag k t, OStr =>
      match k with
      | KCmdline | KBootLoaderName | KModule =>
          match tag_str k m t with
          | Val (off, n) => ret [HView off n]
          | Err _ => ret []
          | Panic => Panic
          | Fault f => Fault f
          end
      | _ => ret []
      end
  | HTag KMmap t, OMemoryAreas => x <- mmap_areas m t ;; ret [HView (fst x) (snd x * 24)]
  | HTag KEfiMmap t, OMemoryAreas => it <- efi_memory_areas m t ;; ret [HEfiIter it]
  | HEfiIter it, ONext =>
      x <- efi_next p m it ;;
      ret (match x with (Some off, it') => [HEfiIter it'; HView off 40] | (None, it') => [HEfiIter it'] end)
  | HEfiIter it, OLen => _ <- efi_len p it ;; ret [HVal]
  | HEfiIter it, OClone => ret [HEfiIter it]
  | HTag KElfSections t, OSections => it <- elf_sections p m t ;; ret [HElfIter it]
  | HElfIter it, ONext =>
      x <- elf_next (elf_fuel it) p m it ;;
      ret (match x with (Some s, it') => [HElfIter it'; HElfSec s] | (None, it') => [HElfIter it'] end)
  | HElfIter it, OLen => ret [HVal]
  | HElfIter it, OClone => ret [HElfIter it]
  | HElfSec s, OSecField w =>
      _ <- (match w with
            | 0 => rmap (fun _ => tt) (elf_section_type_of m s)
            | 1 => rmap (fun _ => tt) (elf_typ m s)
            | 2 => rmap (fun _ => tt) (elf_flags m s)
            | 3 => rmap (fun _ => tt) (elf_addr m s)
            | 4 => rmap (fun _ => tt) (elf_end_address m s)
            | 5 => rmap (fun _ => tt) (elf_size m s)
            | 6 => rmap (fun _ => tt) (elf_addralign m s)
            | _ => rmap (fun _ => tt) (elf_name_addr p m s)
            end) ;;
      ret [HVal]
  | HTag KFramebuffer t, OBufferType =>
      x <- fb_buffer_type m t ;;
      ret (match x with FbtIndexed off n => [HView off (n * 3)] | _ => [HVal] end)
  | HTag KAcpiV1 t, OChecksumValid => _ <- rsdp1_checksum_valid m t ;; ret [HVal]
  | HTag KAcpiV2 t, OChecksumValid => _ <- rsdp2_checksum_valid m t ;; ret [HVal]
  | HTag KVbe t, OMemoryModel => _ <- vbe_memory_model m t ;; ret [HVal]
  | _, _ => ret []                       (* the operation does not exist on this handle *)
  end.

(* a program: operations applied to handles of a growing pool; stops at the first non-value *)
Fixpoint run (p : profile) (m : mem) (pool : list handle) (prog : list (nat * op)) : res (list handle) :=
  match prog with
  | [] => Val pool
  | (i, o) :: rest =>
      match nth_error pool i with
      | None => run p m pool rest
      | Some h => hs <- step p m h o ;; run p m (pool ++ hs) rest
      end
  end.
