(* Boot informations with very many tags (more than a 16-bit counter holds, deeper than a recursion per tag survives):
   the region is n copies of one padded tag between the header and the end tag.  The list-based model cannot run on
   such regions in reasonable time; `run_bigwalk` is the CLOSED FORM of what the model yields on them - proved for every
   n and every tag in Props/C03 (C03_big_walk, C03_big_run) - and is what the oracle evaluates for the domain bigwalk. *)
Require Import Bytes Outcome Render Layout Common TagType Mbi MbiTags MbiAccess Header HeaderTags.
From Coq Require Import String List.
Import ListNotations.
Open Scope N_scope.

Definition big_region (n : nat) (tag : list byte) : list byte :=
  enc32 (16 + N.of_nat n * len tag) ++ enc32 0 ++ concat (repeat tag n) ++ enc32 0 ++ enc32 8.

(* offset and stored size of the i-th tag of the walk (i = n: the end tag) *)
Definition big_off (L : N) (i : nat) : N := 8 + N.of_nat i * L.

Open Scope string_scope.
(* bigwalk <n> <tag>: tag = one complete tag padded to a multiple of 8 (8 <= size, round8 size = len tag) *)
Definition run_bigwalk (n : N) (tag : list byte) : list string :=
  let L := len tag in
  let s := le (slice tag 4 4) in
  let typ := le (slice tag 0 4) in
  let T := 16 + n * L in
  let nn := N.to_nat n in
  if negb ((8 <=? s)%N && (round8 s =? L)%N && (T <? pow2_32)%N && ((negb (typ =? 3)%N) || (16 <=? s)%N)) then ["BADARGS"] else
  [ line "load" ("VAL total=" ++ sN T);
    line "tags_count" ("VAL " ++ sN (n + 1));
    line "tags_last" ("VAL " ++ sView (big_off L nn) 8);
    line "tags_nth" (sN (n - 1) ++ " VAL " ++ (if (n =? 0)%N then sView 8 8 else sView (big_off L (nn - 1)) L));
    line "tags_nth" (sN n ++ " VAL " ++ sView (big_off L nn) 8);
    line "tags_nth" (sN (n + 1) ++ " VAL none");
    line "modules_count" ("VAL " ++ sN (if (typ =? 3)%N then n else 0%N));
    line "debug" "boot VAL " ].

(* ---- the same for the header crate: n copies of one padded header tag between the 16-byte basic header (I386, valid
   checksum) and the end tag; the typed getters walk all of them ---------------------------------------------------- *)
Open Scope N_scope.
Definition hbig_total (n : nat) (tag : list byte) : N := 16 + N.of_nat n * len tag + 8.
Definition hbig_pre (n : nat) (tag : list byte) : list byte :=
  enc32 HDR_MAGIC ++ enc32 0 ++ enc32 (hbig_total n tag) ++ enc32 (calc_checksum HDR_MAGIC 0 (hbig_total n tag)).
Definition hbig_post : list byte := enc16 0 ++ enc16 0 ++ enc32 8.
Definition hbig_region (n : nat) (tag : list byte) : list byte := hbig_pre n tag ++ concat (repeat tag n) ++ hbig_post.

(* what a typed getter of kind k yields: the first tag (at offset 16) when its type is k's, cast to k *)
Definition hbig_get (k : hkind2) (n : N) (typ s : N) : res (option tref) :=
  if (hkind_typ k =? typ) && (1 <=? n) then
    match k with
    | HkInfoReq => if negb ((s - 8) mod 4 =? 0) then Panic else Val (Some {| t_off := 16; t_meta := Some ((s - 8) / 4) |})
    | _ => if round8 s =? sd_size_of (hkind_struct k) then Val (Some {| t_off := 16; t_meta := None |}) else Panic
    end
  else Val None.

Open Scope string_scope.
Definition hbig_getters : list (hkind2 * string) :=
  [(HkInfoReq, "information_request"); (HkAddress, "address"); (HkEntryAddress, "entry_address");
   (HkEntryEfi32, "entry_address_efi32"); (HkEntryEfi64, "entry_address_efi64"); (HkConsole, "console_flags");
   (HkFramebuffer, "framebuffer"); (HkModuleAlign, "module_align"); (HkEfiBs, "efi_boot_services"); (HkRelocatable, "relocatable")].

(* hbigwalk <n> <tag>: tag = one complete header tag padded to a multiple of 8, type 1..10, flags 0..1 *)
Definition run_hbigwalk (n : N) (tag : list byte) : list string :=
  let L := len tag in
  let s := le (slice tag 4 4) in
  let typ := le (slice tag 0 2) in
  let nn := N.to_nat n in
  let T := hbig_total nn tag in
  if negb ((8 <=? s)%N && (round8 s =? L)%N && (T <? pow2_32)%N && (1 <=? typ)%N && (typ <=? 10)%N && (le (slice tag 2 2) <=? 1)%N)
  then ["BADARGS"] else
  ([ line "load" ("VAL length=" ++ sN T);
     line "tags_count" ("VAL " ++ sN (n + 1));
     line "tags_last" ("VAL " ++ sView (16 + n * L) 8);
     line "tags_nth" (sN (n - 1) ++ " VAL " ++ (if (n =? 0)%N then sView 16 8 else sView (16 + (n - 1) * L) L));
     line "tags_nth" (sN n ++ " VAL " ++ sView (16 + n * L) 8);
     line "tags_nth" (sN (n + 1) ++ " VAL none") ]
   ++ map (fun kn => line "get" (snd kn ++ " " ++
                       match hbig_get (fst kn) n typ s with
                       | Val (Some t) => "some " ++ sView (t_off t) (htref_size_of_val (fst kn) t)
                       | Val None => "none"
                       | x => sRes (fun _ => "") x
                       end)) hbig_getters)%list.

(* ---- ELF-sections tags with very many entries (2^16 and more): a boot information whose only tag holds n copies of one
   section header (40 or 64 bytes, an in-use type); closed form of sections() and of the iteration (C19_big) -------- *)
Open Scope N_scope.
Definition elf_hdr20 (n es sh : N) : list byte := enc32 9 ++ enc32 (20 + n * es) ++ enc32 n ++ enc32 es ++ enc32 sh.
Definition elf_big_tag (n : nat) (es sh : N) (entry : list byte) : list byte :=
  elf_hdr20 (N.of_nat n) es sh ++ concat (repeat entry n) ++ [x00; x00; x00; x00].
Definition elf_big_region (n : nat) (es sh : N) (entry : list byte) : list byte := big_region 1 (elf_big_tag n es sh entry).
(* the j-th section the iterator yields: the entry at 28 + j*es *)
Definition elf_big_section (n : nat) (es sh : N) (j : nat) : elf_section :=
  {| es_inner := 28 + N.of_nat j * es; es_str := 28 + (if N.of_nat n =? 0 then 0 else sh * es); es_es := es |}.

Open Scope string_scope.
(* bigelf <n> <shndx> <entry>: entry = one section header of 40 or 64 bytes whose type is in use *)
Definition run_bigelf (n sh : N) (entry : list byte) : list string :=
  let es := len entry in
  let ty := le (slice entry 4 4) in
  if negb (((es =? 40)%N || (es =? 64)%N) && negb (is_unused (elf_section_type ty)) && (44 + n * es <? pow2_32)%N && (sh <? pow2_32)%N)
  then ["BADARGS"] else
  let head := "number_of_sections=" ++ sN n ++ " entry_size=" ++ sN es ++ " shndx=" ++ sN sh in
  if (n =? 0)%N || (sh <? n)%N then
    [ line "elf" (head ++ " sections=VAL rem=" ++ sN n);
      line "elf_count" ("VAL " ++ sN n);
      line "elf_last" ("VAL " ++ (if (n =? 0)%N then "none" else sN (28 + (n - 1) * es)));
      line "elf_nth" (sN (n - 1) ++ " VAL " ++ (if (n =? 0)%N then "none" else sN (28 + (n - 1) * es)));
      line "elf_nth" (sN n ++ " VAL none") ]
  else [ line "elf" (head ++ " sections=PANIC") ].
