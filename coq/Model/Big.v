(* Boot informations with very many tags (more than a 16-bit counter holds, deeper than a recursion per tag survives):
   the region is n copies of one padded tag between the header and the end tag.  The list-based model cannot run on
   such regions in reasonable time; `run_bigwalk` is the CLOSED FORM of what the model yields on them - proved for every
   n and every tag in Props/C03 (C03_big_walk, C03_big_run) - and is what the oracle evaluates for the domain bigwalk. *)
Require Import Bytes Outcome Render Common TagType Mbi.
From Coq Require Import String List.
Import ListNotations.
Open Scope N_scope.

Definition big_region (n : nat) (tag : list byte) : list byte :=
  enc32 (16 + N.of_nat n * len tag) ++ enc32 0 ++ concat (repeat tag n) ++ enc32 0 ++ enc32 8.

(* offset and stored size of the i-th tag of the walk (i = n: the end tag) *)
Definition big_off (L : N) (i : nat) : N := 8 + N.of_nat i * L.

Open Scope string_scope.
(* bigwalk <n> <tag>: tag = one complete tag padded to a multiple of 8 (8 <= size, round8 size = len tag) *)
Definition run_bigwalk (n : N) (tag : list byte) : list string :=
  let L := len tag in
  let s := le (slice tag 4 4) in
  let typ := le (slice tag 0 4) in
  let T := 16 + n * L in
  let nn := N.to_nat n in
  if negb ((8 <=? s)%N && (round8 s =? L)%N && (T <? pow2_32)%N && ((negb (typ =? 3)%N) || (16 <=? s)%N)) then ["BADARGS"] else
  [ line "load" ("VAL total=" ++ sN T);
    line "tags_count" ("VAL " ++ sN (n + 1));
    line "tags_last" ("VAL " ++ sView (big_off L nn) 8);
    line "tags_nth" (sN (n - 1) ++ " VAL " ++ (if (n =? 0)%N then sView 8 8 else sView (big_off L (nn - 1)) L));
    line "tags_nth" (sN n ++ " VAL " ++ sView (big_off L nn) 8);
    line "tags_nth" (sN (n + 1) ++ " VAL none");
    line "modules_count" ("VAL " ++ sN (if (typ =? 3)%N then n else 0%N));
    line "debug" "boot VAL " ].
