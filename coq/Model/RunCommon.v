(* Case runners (model side of the correspondence check) for the domains of
   multiboot2-common and the conversions: c14, align, conv, conveq, elfty, fb, magic. *)
Require Import Bytes Outcome Render Layout Common TagType UserTypes.
From Coq Require Import String.
Open Scope string_scope.

Definition prof_of (n : N) : profile := match n with 0%N => Dev | _ => Release end.

Definition hkind_of (n : N) : hkind :=
  match n with 0%N => HDummy | 1%N => HTagH | 2%N => HHdrTagH | 3%N => HBootH | 5%N => HUser12 | _ => HBasicH end.

(* c14 <profile> <hkind> <addr mod 8> <bytes>: DynSizedStructure::<H>::ref_from_slice *)
Definition run_c14 (p : profile) (h : hkind) (a : N) (bs : list byte) : list string :=
  let m := {| m_base := a; m_bytes := bs |} in
  let r := ref_from_slice p h m 0 (len bs) in
  (* the same in two public steps: BytesRef::try_from(slice), then DynSizedStructure::ref_from_bytes(bytes) *)
  let r2 := _ <- bytesref_check h (m_base m) (len bs) ;; ref_from_bytes p h m 0 (len bs) in
  let show := sRes (fun d => "off=" ++ sN (d_off d) ++ " plen=" ++ sN (d_plen d) ++ " sov=" ++ sN (dref_size_of_val h d)
                      ++ " hdr=" ++ sBytes (slice bs (d_off d) (hsize h))
                      ++ " payload=" ++ sBytes (slice bs (d_off d + hsize h) (d_plen d))) in
  [ line "ref_from_slice" (show r); line "ref_from_bytes" (show r2) ].

Definition run_align (p : profile) (n : N) : list string :=
  [ line "increase_to_alignment" (sRes sN (inc_align p n)) ].

Definition sTagType (t : tagtype) : string :=
  match t with
  | End => "End" | Cmdline => "Cmdline" | BootLoaderName => "BootLoaderName" | Module => "Module"
  | BasicMeminfo => "BasicMeminfo" | Bootdev => "Bootdev" | Mmap => "Mmap" | Vbe => "Vbe"
  | Framebuffer => "Framebuffer" | ElfSections => "ElfSections" | Apm => "Apm" | Efi32 => "Efi32"
  | Efi64 => "Efi64" | Smbios => "Smbios" | AcpiV1 => "AcpiV1" | AcpiV2 => "AcpiV2" | Network => "Network"
  | EfiMmap => "EfiMmap" | EfiBs => "EfiBs" | Efi32Ih => "Efi32Ih" | Efi64Ih => "Efi64Ih"
  | LoadBaseAddr => "LoadBaseAddr" | Custom c => "Custom(" ++ sN c ++ ")"
  end.

Definition sAreaType (t : areatype) : string :=
  match t with
  | Available => "Available" | Reserved => "Reserved" | AcpiAvailable => "AcpiAvailable"
  | ReservedHibernate => "ReservedHibernate" | Defective => "Defective" | ACustom c => "Custom(" ++ sN c ++ ")"
  end.

Definition sElfType (t : elftype) : string :=
  match t with
  | EUnused => "Unused" | EProgramSection => "ProgramSection" | ELinkerSymbolTable => "LinkerSymbolTable"
  | EStringTable => "StringTable" | ERelaRelocation => "RelaRelocation" | ESymbolHashTable => "SymbolHashTable"
  | EDynamicLinkingTable => "DynamicLinkingTable" | ENote => "Note" | EUninitialized => "Uninitialized"
  | ERelRelocation => "RelRelocation" | EReserved => "Reserved" | EDynamicLoaderSymbolTable => "DynamicLoaderSymbolTable"
  | EEnvironmentSpecific => "EnvironmentSpecific" | EProcessorSpecific => "ProcessorSpecific"
  end.

Definition sFbId (t : fbtypeid) : string :=
  match t with FbIndexed => "Indexed" | FbRGB => "RGB" | FbText => "Text" end.

(* conv <x>: every conversion path starting from the raw value x *)
Definition run_conv (x : N) : list string :=
  [ line "tt" (sTagType (tagtype_of_u32 x));
    line "tt_back" (sN (u32_of_tagtype (tagtype_of_u32 x)));
    line "tt_val" (sN (tagtype_val (tagtype_of_u32 x)));
    line "id_new" (sN (u32_of_id (id_new x)));
    line "id_dbg" "VAL";   (* Debug of a TagTypeId: only whether it panics (texts are not compared) *)
    line "id_back" (sN (u32_of_id (id_of_u32 x)));
    line "tt_via_id" (sTagType (tagtype_of_id (id_of_u32 x)));
    line "id_via_tt" (sN (u32_of_id (id_of_tagtype (tagtype_of_u32 x))));
    line "area" (sAreaType (areatype_of_id x));
    line "area_back" (sN (id_of_areatype (areatype_of_id x))) ].

(* conveq <x> <y>: the six cross-type PartialEq impls (x on the left, y on the
   right, each in the representation the impl demands) and the two for areas *)
Definition run_conveq (x y : N) : list string :=
  [ line "eq"
      ("ty_ty=" ++ sBool (tagtype_eqb (tagtype_of_u32 x) (tagtype_of_u32 y))
       ++ " id_id=" ++ sBool (N.eqb (u32_of_id (id_of_u32 x)) (u32_of_id (id_of_u32 y)))
       ++ " ty_id=" ++ sBool (eq_type_id (tagtype_of_u32 x) (id_of_u32 y))
       ++ " id_ty=" ++ sBool (eq_id_type (id_of_u32 x) (tagtype_of_u32 y))
       ++ " id_u32=" ++ sBool (eq_id_u32 (id_of_u32 x) y)
       ++ " u32_id=" ++ sBool (eq_u32_id x (id_of_u32 y))
       ++ " ty_u32=" ++ sBool (eq_type_u32 (tagtype_of_u32 x) y)
       ++ " u32_ty=" ++ sBool (eq_u32_type x (tagtype_of_u32 y))
       ++ " aid_aty=" ++ sBool (eq_areaid_type x (areatype_of_id y))
       ++ " aty_aid=" ++ sBool (eq_areatype_id (areatype_of_id x) y));
    (* the `!=` operator of the same ten impls (PartialEq::ne, provided or overridden) *)
    line "ne"
      ("ty_ty=" ++ sBool (negb (tagtype_eqb (tagtype_of_u32 x) (tagtype_of_u32 y)))
       ++ " id_id=" ++ sBool (negb (N.eqb (u32_of_id (id_of_u32 x)) (u32_of_id (id_of_u32 y))))
       ++ " ty_id=" ++ sBool (negb (eq_type_id (tagtype_of_u32 x) (id_of_u32 y)))
       ++ " id_ty=" ++ sBool (negb (eq_id_type (id_of_u32 x) (tagtype_of_u32 y)))
       ++ " id_u32=" ++ sBool (negb (eq_id_u32 (id_of_u32 x) y))
       ++ " u32_id=" ++ sBool (negb (eq_u32_id x (id_of_u32 y)))
       ++ " ty_u32=" ++ sBool (negb (eq_type_u32 (tagtype_of_u32 x) y))
       ++ " u32_ty=" ++ sBool (negb (eq_u32_type x (tagtype_of_u32 y)))
       ++ " aid_aty=" ++ sBool (negb (eq_areaid_type x (areatype_of_id y)))
       ++ " aty_aid=" ++ sBool (negb (eq_areatype_id (areatype_of_id x) y))) ].

(* conveqc <x> <y>: the same impls on a symbolic value built directly as TagType::Custom(x), canonical or not
   (Custom(5) is a legal value although from(5) never yields it): equality is equality of the numbers *)
Definition run_conveqc (x y : N) : list string :=
  [ line "eqc"
      ("ty_id=" ++ sBool (eq_type_id (Custom x) (id_of_u32 y))
       ++ " id_ty=" ++ sBool (eq_id_type (id_of_u32 y) (Custom x))
       ++ " ty_u32=" ++ sBool (eq_type_u32 (Custom x) y)
       ++ " u32_ty=" ++ sBool (eq_u32_type y (Custom x))
       ++ " val=" ++ sN (tagtype_val (Custom x))
       ++ " id=" ++ sN (u32_of_id (id_of_tagtype (Custom x)))) ].

Definition run_elfty (raw : N) : list string :=
  [ line "section_type" (sElfType (elf_section_type raw)); line "section_type_raw" (sN raw) ].
Definition run_fb (b : N) : list string := [ line "fb_type" (sRes sFbId (fb_try_from b)) ].
Definition run_magic : list string :=
  [ line "magic" ("mbi=" ++ sN MBI_MAGIC ++ " hdr=" ++ sN HDR_MAGIC ++ " header_tag_types=" ++ sN HDR_TAG_TYPES) ].

(* cast 0 <k> <bytes> | cast 1 <F> <es> <ea> <bytes> *)
Definition run_cast (p : profile) (d : sdesc) (bs : list byte) : list string :=
  [ line "cast" (sRes (fun t => sView (t_off t) (sd_size_of_val d (t_meta t)) ++ " meta=" ++ sOpt sN (t_meta t))
                      (run_cast_user p d bs)) ].
