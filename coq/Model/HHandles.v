(* Handles and operations of the header crate (for C09): see Handles.v for the idea. *)
Require Import Bytes Outcome Layout Common TagType Mbi Header HeaderTags.
From Coq Require Import String.
Open Scope string_scope.
Open Scope N_scope.

Inductive hhandle :=
| HhHeader (r : dref)                   (* Multiboot2Header *)
| HhIter (r : dref) (nxt : N)           (* TagIter over the header's tags *)
| HhGen (g : dref)                      (* &DynSizedStructure<HeaderTagHeader> *)
| HhTag (k : hkind2) (t : tref)
| HhView (off n : N)
| HhVal.

Inductive hop :=
| HoIter | HoNext | HoClone | HoGetTag (k : hkind2) | HoCast (k : hkind2)
| HoBasic                               (* header_magic / arch / length / checksum / verify_checksum *)
| HoPayload | HoTyp | HoFlags | HoSize | HoField (name : string) | HoEnumField | HoRequests.

Definition hret (l : list hhandle) : res (list hhandle) := Val l.

Definition hstep (p : profile) (m : mem) (h : hhandle) (o : hop) : res (list hhandle) :=
  match h, o with
  | HhHeader r, HoIter => hret [HhIter r 0]
  | HhHeader r, HoBasic => _ <- verify_checksum m r ;; hret [HhVal]
  | HhHeader r, HoGetTag k => x <- hget_tag p k m r ;; hret (match x with Some t => [HhTag k t] | None => [] end)
  | HhIter r nxt, HoNext =>
      x <- tagiter_next p HHdrTagH m (d_off r + 16) (d_plen r) nxt ;;
      hret (match x with (Some g, n') => [HhIter r n'; HhGen g] | (None, n') => [HhIter r n'] end)
  | HhIter r nxt, HoClone => hret [HhIter r nxt]
  | HhGen g, HoCast k =>
      (* casting a tag to the kind of its own type (what the typed getters do); casting to another kind
         re-interprets foreign bytes as enum-typed fields and is outside the property's hypothesis *)
      ty <- htag_typ m (d_off g) ;;
      if ty =? hkind_typ k then t <- hcast_kind p k m g ;; hret [HhTag k t] else hret []
  | HhGen g, HoPayload => hret [HhView (d_off g + 8) (d_plen g)]
  | HhGen g, HoTyp => _ <- htag_typ m (d_off g) ;; hret [HhVal]
  | HhGen g, HoFlags => _ <- htag_flags m (d_off g) ;; hret [HhVal]
  | HhGen g, HoSize => hret [HhVal]
  | HhTag k t, HoTyp => _ <- htag_typ m (t_off t) ;; hret [HhVal]
  | HhTag k t, HoFlags => _ <- htag_flags m (t_off t) ;; hret [HhVal]
  | HhTag k t, HoSize => hret [HhVal]
  | HhTag k t, HoField _ => hret [HhVal]
  | HhTag HkConsole t, HoEnumField => _ <- enum_in (hfld HkConsole m t "console_flags") 1 ;; hret [HhVal]
  | HhTag HkRelocatable t, HoEnumField => _ <- enum_in (hfld HkRelocatable m t "preference") 2 ;; hret [HhVal]
  | HhTag HkInfoReq t, HoRequests => hret [HhView (fst (hrequests t)) (4 * snd (hrequests t))]
  | HhTag k t, HoPayload => hret [HhView (t_off t + 8) (htref_size_of_val k t - 8)]
  | _, _ => hret []
  end.

Fixpoint hrun (p : profile) (m : mem) (pool : list hhandle) (prog : list (nat * hop)) : res (list hhandle) :=
  match prog with
  | [] => Val pool
  | (i, o) :: rest =>
      match nth_error pool i with
      | None => hrun p m pool rest
      | Some h => hs <- hstep p m h o ;; hrun p m (pool ++ hs) rest
      end
  end.
