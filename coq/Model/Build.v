(* Model of the tag constructors of both crates and of the two builders. *)
Require Import Bytes Outcome Layout Common TagType Mbi MbiTags Header HeaderTags.
From Coq Require Import String.
Open Scope string_scope.
Open Scope N_scope.

Inductive fval := VN (n : N) | VB (bs : list byte).
Definition enc_fval (w : N) (v : fval) : list byte :=
  match v with VN n => enc (N.to_nat w) n | VB bs => bs end.

(* the fields written at their layout offsets; gaps (padding) come from `pad`,
   the unknown prior content of the memory the struct is built in *)
Fixpoint emit (offs : list (string * N * N)) (vals : list fval) (cur : N) (pad : list byte) : list byte :=
  match offs, vals with
  | (_, o, w) :: offs', v :: vals' => (slice pad cur (o - cur) ++ enc_fval w v ++ emit offs' vals' (o + w) pad)%list
  | _, _ => []
  end.
Definition image (d : sdesc) (vals : list fval) (pad : list byte) : list byte :=
  let body := emit (sd_offsets d) vals 0 pad in
  (body ++ slice pad (len body) (sd_size_of d - len body))%list.

(* TagHeader::new(typ, size) as the 8 bytes of the `header` field *)
Definition tag_header (typ size : N) : fval := VB (enc32 typ ++ enc32 size)%list.
(* HeaderTagHeader::new(typ, flags, size) *)
Definition htag_header (typ flags size : N) : fval := VB (enc16 typ ++ enc16 flags ++ enc32 size)%list.

(* ---- sized boot-information tags: `Self { header: TagHeader::new(ID, <size expr>), .. }` ---- *)
(* the size expression each constructor uses *)
Definition ctor_size (k : kind) : N :=
  match k with
  | KBootdev => 8 + 3 * 4                      (* Self::BASE_SIZE (inherent) *)
  | KApm => 8 + 4 + 8 * 2
  | KEfi32 | KEfi32Ih | KLoadBaseAddr => 8 + 4
  | KAcpiV1 => 8 + 16 + 4
  | KAcpiV2 => 8 + 16 + 2 * 4 + 8 + 4
  | _ => sd_size_of (kind_struct k)            (* size_of::<Self>() *)
  end.

Definition ctor_sized (k : kind) (args : list fval) (pad : list byte) : list byte :=
  image (kind_struct k) (tag_header (kind_typ k) (ctor_size k) :: args) pad.

Definition RSDP_SIGNATURE : list byte := [x52; x53; x44; x20; x50; x54; x52; x20].   (* "RSD PTR " *)

(* ---- boxed boot-information tags: new_boxed(TagHeader::new(ID, 0), slices) ---- *)
Definition boxed (p : profile) (k : kind) (slices : list (list byte)) (pad : list byte) : res (list byte) :=
  new_boxed p HTagH (kind_tdesc k) (enc32 (kind_typ k) ++ enc32 0)%list slices pad.

Definition ends_with_nul (s : list byte) : bool :=
  match rev s with b :: _ => bN b =? 0 | [] => false end.
Definition str_slices (s : list byte) : list (list byte) := if ends_with_nul s then [s] else [s; [x00]].

Definition new_cmdline p s pad := boxed p KCmdline (str_slices s) pad.
Definition new_bootloader p s pad := boxed p KBootLoaderName (str_slices s) pad.
Definition new_module p (start end_ : N) s pad : res (list byte) :=
  _ <- assert (start <? end_) ;;
  boxed p KModule (enc32 start :: enc32 end_ :: str_slices s) pad.
Definition area_bytes (a : N * N * N) : list byte :=
  match a with (base, length, typ) => (enc64 base ++ enc64 length ++ enc32 typ ++ enc32 0)%list end.
Definition new_mmap p (areas : list (N * N * N)) pad :=
  boxed p KMmap [enc32 24; enc32 0; List.concat (map area_bytes areas)] pad.
Inductive fbarg := FaIndexed (palette : list (N * N * N)) | FaRGB (rp rs gp gs bp bs : N) | FaText.
Definition fb_id (a : fbarg) : N := match a with FaIndexed _ => 0 | FaRGB _ _ _ _ _ _ => 1 | FaText => 2 end.
Definition fb_serialize (a : fbarg) : res (list byte) :=
  match a with
  | FaIndexed pal =>
      _ <- assert (len pal <=? 65535) ;;
      Val (enc16 (len pal) ++ List.concat (map (fun c => match c with (r, g, b) => enc8 r ++ enc8 g ++ enc8 b end) pal))%list
  | FaRGB a b c d e f => Val (enc8 a ++ enc8 b ++ enc8 c ++ enc8 d ++ enc8 e ++ enc8 f)%list
  | FaText => Val []
  end.
Definition new_framebuffer p (addr pitch width height bpp : N) (a : fbarg) pad : res (list byte) :=
  ser <- fb_serialize a ;;
  boxed p KFramebuffer [enc64 addr; enc32 pitch; enc32 width; enc32 height; enc8 bpp; enc8 (fb_id a); [x00; x00]; ser] pad.
Definition new_elf p (n es shndx : N) (sections : list byte) pad :=
  boxed p KElfSections [enc32 n; enc32 es; enc32 shndx; sections] pad.
Definition new_smbios p (major minor : N) (tables : list byte) pad :=
  boxed p KSmbios [(enc8 major ++ enc8 minor)%list; repeatN x00 6; tables] pad.
Definition new_network p (dhcp : list byte) pad := boxed p KNetwork [dhcp] pad.
Definition new_efi_mmap p (desc_size desc_version : N) (map_ : list byte) pad : res (list byte) :=
  _ <- assert (negb (desc_size =? 0)) ;;
  boxed p KEfiMmap [enc32 desc_size; enc32 desc_version; map_] pad.

(* ---- header-crate tags ----------------------------------------------------------------- *)
Definition hctor_size (k : hkind2) : N :=
  match k with
  | HkEntryAddress | HkConsole | HkEntryEfi32 | HkEntryEfi64 | HkFramebuffer => hkind_base k   (* Self::BASE_SIZE *)
  | _ => sd_size_of (hkind_struct k)                                                          (* size_of::<Self>() *)
  end.
Definition hctor_sized (k : hkind2) (flags : N) (args : list fval) (pad : list byte) : list byte :=
  image (hkind_struct k) (htag_header (hkind_typ k) flags (hctor_size k) :: args) pad.
Definition new_info_request p (flags : N) (reqs : list N) pad : res (list byte) :=
  new_boxed p HHdrTagH (hkind_tdesc HkInfoReq) (enc16 1 ++ enc16 flags ++ enc32 0)%list [List.concat (map enc32 reqs)] pad.

(* ---- MaybeDynSized::as_bytes of a stored tag: its whole image; fails unless 8-aligned and padded ---- *)
Definition as_bytes (addr : N) (img : list byte) : res (list byte) :=
  _ <- unwrap (bytesref_check HTagH addr (len img)) ;; Val img.

(* ---- boot-information Builder ----------------------------------------------------------- *)
(* Builder state: the single-valued slots (keyed by the tag type number of the
   method's parameter type; a later call replaces the earlier value) and the
   three repeatable lists.  Values are tag images (as_bytes of the stored tag). *)
Record builder := {
  b_single : list (N * list byte);
  b_modules : list (list byte);
  b_smbios : list (list byte);
  b_custom : list (list byte)
}.
Definition builder_new : builder := {| b_single := []; b_modules := []; b_smbios := []; b_custom := [] |}.

Fixpoint set_slot (l : list (N * list byte)) (k : N) (img : list byte) : list (N * list byte) :=
  match l with
  | [] => [(k, img)]
  | (k', v) :: r => if k' =? k then (k, img) :: r else (k', v) :: set_slot r k img
  end.
Fixpoint get_slot (l : list (N * list byte)) (k : N) : option (list byte) :=
  match l with
  | [] => None
  | (k', v) :: r => if k' =? k then Some v else get_slot r k
  end.

Definition tag_typ_of (img : list byte) : N := le (slice img 0 4).

(* one builder method call: `slot` = 3 add_module, 13 add_smbios, 22 add_custom_tag,
   otherwise the setter of the single-valued kind with that type number *)
Definition builder_call (b : builder) (slot : N) (img : list byte) : res builder :=
  if slot =? 3 then Val {| b_single := b_single b; b_modules := (b_modules b ++ [img])%list; b_smbios := b_smbios b; b_custom := b_custom b |}
  else if slot =? 13 then Val {| b_single := b_single b; b_modules := b_modules b; b_smbios := (b_smbios b ++ [img])%list; b_custom := b_custom b |}
  else if slot =? 22 then
    match tagtype_of_u32 (tag_typ_of img) with
    | Custom _ => Val {| b_single := b_single b; b_modules := b_modules b; b_smbios := b_smbios b; b_custom := (b_custom b ++ [img])%list |}
    | _ => Panic
    end
  else Val {| b_single := set_slot (b_single b) slot img; b_modules := b_modules b; b_smbios := b_smbios b; b_custom := b_custom b |}.

Definition opt_list {A} (o : option A) : list A := match o with Some x => [x] | None => [] end.

(* build(): the order in which the source pushes the slots *)
Definition builder_slices (b : builder) : list (list byte) :=
  let s k := opt_list (get_slot (b_single b) k) in
  (s 1 ++ s 2 ++ b_modules b ++ s 4 ++ s 5 ++ s 6 ++ s 7 ++ s 8 ++ s 9 ++ s 10 ++ s 11 ++ s 12 ++ b_smbios b
   ++ s 14 ++ s 15 ++ s 16 ++ s 17 ++ s 18 ++ s 19 ++ s 20 ++ s 21 ++ b_custom b)%list.

Definition END_TAG : list byte := (enc32 0 ++ enc32 8)%list.

Definition builder_build (p : profile) (b : builder) (pad : list byte) : res (list byte) :=
  new_boxed p HBootH (tdesc_generic HBootH) (enc32 0 ++ enc32 0)%list (builder_slices b ++ [END_TAG])%list pad.

(* ---- header Builder ------------------------------------------------------------------------ *)
Record hbuilder := { hb_arch : N; hb_slots : list (N * list byte) }.
Definition hbuilder_new (arch : N) : hbuilder := {| hb_arch := arch; hb_slots := [] |}.
Definition hbuilder_call (b : hbuilder) (slot : N) (img : list byte) : hbuilder :=
  {| hb_arch := hb_arch b; hb_slots := set_slot (hb_slots b) slot img |}.
Definition HEND_TAG : list byte := (enc16 0 ++ enc16 0 ++ enc32 8)%list.
(* push order of build(): information request, address, entry, console, framebuffer,
   module align, efi bs, efi32, efi64, relocatable; then the end tag *)
Definition hbuilder_slices (b : hbuilder) : list (list byte) :=
  let s k := opt_list (get_slot (hb_slots b) k) in
  (s 1 ++ s 2 ++ s 3 ++ s 4 ++ s 5 ++ s 6 ++ s 7 ++ s 8 ++ s 9 ++ s 10)%list.
(* Multiboot2BasicHeader::new(arch, 0) *)
Definition basic_header (arch : N) : list byte :=
  (enc32 HDR_MAGIC ++ enc32 arch ++ enc32 0 ++ enc32 (calc_checksum HDR_MAGIC arch 0))%list.
Definition hbuilder_build (p : profile) (b : hbuilder) (pad : list byte) : res (list byte) :=
  new_boxed p HBasicH (tdesc_generic HBasicH) (basic_header (hb_arch b)) (hbuilder_slices b ++ [HEND_TAG])%list pad.

(* ---- clone_dyn ---------------------------------------------------------------------------------- *)
(* clone_dyn(tag): new_boxed(header.clone(), [&payload()[..header.payload_len()]]) *)
Definition clone_dyn (p : profile) (h : hkind) (T : tdesc) (img : list byte) (pad : list byte) : res (list byte) :=
  let hdr := slice img 0 (hsize h) in
  pl <- payload_len p h hdr ;;
  _ <- idx_range (len img - hsize h) 0 pl ;;
  new_boxed p h T hdr [slice img (hsize h) pl] pad.
