(* Model of multiboot2::BootInformation: load, has_valid_end_tag, addresses,
   tags(), get_tag's search, module iterator. *)
Require Import Bytes Outcome Common TagType.

(* BootInformation::load(ptr); `null` models a null pointer, otherwise the
   pointer designates offset 0 of m *)
Definition has_valid_end_tag (p : profile) (m : mem) (r : dref) : res bool :=
  hdr <- mrd m (d_off r) 8 ;;
  pl <- payload_len p HBootH hdr ;;
  (* payload.as_ptr().add(payload_len).sub(size_of::<EndTag>()) *)
  e <- mrd m (d_off r + 8 + pl - 8) 8 ;;
  Val ((le (slice e 0 4) =? 0) && (le (slice e 4 4) =? 8)).

Definition mbi_load (p : profile) (null : bool) (m : mem) : res dref :=
  if null then Err ENull else
  r <- ref_from_ptr p HBootH m 0 ;;
  ok <- has_valid_end_tag p m r ;;
  if ok then Val r else Err ENoEndTag.

Definition mbi_total_size (m : mem) (r : dref) : N := le (slice (m_bytes m) (d_off r) 4).
Definition mbi_start_address (m : mem) (r : dref) : N := m_base m + d_off r.
Definition mbi_end_address (p : profile) (m : mem) (r : dref) : res N :=
  uadd p (mbi_start_address m r) (mbi_total_size m r).

(* tags(): TagIter::new(self.0.payload()) -- buffer [8, 8 + payload_len) *)
Definition tags_b (r : dref) : N := d_off r + 8.
Definition tags_len (r : dref) : N := d_plen r.

(* run an iterator to its end: the items produced and how it ended *)
Fixpoint tagiter_run (fuel : nat) (p : profile) (h : hkind) (m : mem) (b blen nxt : N)
  : list dref * res unit :=
  match fuel with
  | O => ([], Fault FFuel)
  | S f =>
      match tagiter_next p h m b blen nxt with
      | Val (None, _) => ([], Val tt)
      | Val (Some r, nxt') => let (l, e) := tagiter_run f p h m b blen nxt' in (r :: l, e)
      | Err e => ([], Err e)
      | Panic => ([], Panic)
      | Fault x => ([], Fault x)
      end
  end.

(* header fields of a generic tag reference *)
Definition tag_typ (m : mem) (r : dref) : N := le (slice (m_bytes m) (d_off r) 4).
Definition tag_size (m : mem) (r : dref) : N := le (slice (m_bytes m) (d_off r + 4) 4).

(* Iterator::find(|tag| tag.header().typ == typ) on a TagIter at nxt:
   result and the iterator's new position *)
Fixpoint tagiter_find (fuel : nat) (p : profile) (h : hkind) (m : mem) (b blen nxt : N) (typ : N)
  : res (option dref * N) :=
  match fuel with
  | O => Fault FFuel
  | S f =>
      x <- tagiter_next p h m b blen nxt ;;
      match x with
      | (None, n') => Val (None, n')
      | (Some r, n') =>
          if tag_typ m r =? typ then Val (Some r, n') else tagiter_find f p h m b blen n' typ
      end
  end.

(* ModuleIter: find(typ == Module).map(cast) repeatedly; modelled at the level
   of the generic references (the cast is applied by the caller) *)
Definition MODULE_TYP : N := 3.


(* the provided Iterator methods are iterated next(): nth(k) = k+1 calls, stopping at the first None; a panic propagates *)
Fixpoint tagiter_nth (p : profile) (h : hkind) (m : mem) (b blen nxt : N) (k : nat) : res (option dref * N) :=
  match tagiter_next p h m b blen nxt with
  | Val (Some r, nxt') => match k with O => Val (Some r, nxt') | S k' => tagiter_nth p h m b blen nxt' k' end
  | x => x
  end.

(* Iterator::nth on an iterator in any state (also one a caught panic left behind): next() is called until the k-th item,
   the first None or the first panic; the outcome and the offset the iterator is left with *)
Fixpoint tagiter_nth_step (p : profile) (h : hkind) (m : mem) (b blen nxt : N) (k : nat) : res (option dref) * N :=
  let '(x, n') := tagiter_step p h m b blen nxt in
  match x with
  | Val (Some t) => match k with O => (x, n') | S k' => tagiter_nth_step p h m b blen n' k' end
  | _ => (x, n')
  end.
