(* Transcription of the 22 boot-information tag structs of the multiboot2
   crate, their MaybeDynSized impls (BASE_SIZE, dst_len) and Tag::ID. *)
Require Import Bytes Outcome Layout Common TagType Mbi.
From Coq Require Import String.
Open Scope string_scope.
Open Scope N_scope.

Inductive kind :=
| KEnd | KCmdline | KBootLoaderName | KModule | KBasicMeminfo | KBootdev | KMmap | KVbe | KFramebuffer
| KElfSections | KApm | KEfi32 | KEfi64 | KSmbios | KAcpiV1 | KAcpiV2 | KNetwork | KEfiMmap | KEfiBs
| KEfi32Ih | KEfi64Ih | KLoadBaseAddr.

Definition all_kinds : list kind :=
  [KEnd; KCmdline; KBootLoaderName; KModule; KBasicMeminfo; KBootdev; KMmap; KVbe; KFramebuffer;
   KElfSections; KApm; KEfi32; KEfi64; KSmbios; KAcpiV1; KAcpiV2; KNetwork; KEfiMmap; KEfiBs;
   KEfi32Ih; KEfi64Ih; KLoadBaseAddr].

(* Tag::ID, as TagType *)
Definition kind_id (k : kind) : tagtype :=
  match k with
  | KEnd => End | KCmdline => Cmdline | KBootLoaderName => BootLoaderName | KModule => Module
  | KBasicMeminfo => BasicMeminfo | KBootdev => Bootdev | KMmap => Mmap | KVbe => Vbe
  | KFramebuffer => Framebuffer | KElfSections => ElfSections | KApm => Apm | KEfi32 => Efi32
  | KEfi64 => Efi64 | KSmbios => Smbios | KAcpiV1 => AcpiV1 | KAcpiV2 => AcpiV2 | KNetwork => Network
  | KEfiMmap => EfiMmap | KEfiBs => EfiBs | KEfi32Ih => Efi32Ih | KEfi64Ih => Efi64Ih
  | KLoadBaseAddr => LoadBaseAddr
  end.
Definition kind_typ (k : kind) : N := u32_of_tagtype (kind_id k).

(* `header: TagHeader` : #[repr(C, align(8))] { typ: TagTypeId, size: u32 } *)
Definition fHeader := fStruct "header" 8 8.

(* VBEControlInfo, #[repr(C, packed)], 512 bytes *)
Definition vbe_control_fields : list field :=
  [ fBytes "ci.signature" 4; pU16 "ci.version"; pU32 "ci.oem_string_ptr"; pU32 "ci.capabilities";
    pU32 "ci.mode_list_ptr"; pU16 "ci.total_memory"; pU16 "ci.oem_software_revision";
    pU32 "ci.oem_vendor_name_ptr"; pU32 "ci.oem_product_name_ptr"; pU32 "ci.oem_product_revision_ptr";
    fBytes "ci.reserved" 222; fBytes "ci.oem_data" 256 ].
(* VBEModeInfo, #[repr(C, packed)], 256 bytes *)
Definition vbe_mode_fields : list field :=
  [ pU16 "mi.mode_attributes"; fU8 "mi.window_a_attributes"; fU8 "mi.window_b_attributes";
    pU16 "mi.window_granularity"; pU16 "mi.window_size"; pU16 "mi.window_a_segment"; pU16 "mi.window_b_segment";
    pU32 "mi.window_function_ptr"; pU16 "mi.pitch"; pU16 "mi.resolution.0"; pU16 "mi.resolution.1";
    fU8 "mi.character_size.0"; fU8 "mi.character_size.1"; fU8 "mi.number_of_planes"; fU8 "mi.bpp";
    fU8 "mi.number_of_banks"; fU8 "mi.memory_model"; fU8 "mi.bank_size"; fU8 "mi.number_of_image_pages";
    fU8 "mi.reserved0";
    fU8 "mi.red_field.size"; fU8 "mi.red_field.position"; fU8 "mi.green_field.size"; fU8 "mi.green_field.position";
    fU8 "mi.blue_field.size"; fU8 "mi.blue_field.position"; fU8 "mi.reserved_field.size"; fU8 "mi.reserved_field.position";
    fU8 "mi.direct_color_attributes"; pU32 "mi.framebuffer_base_ptr"; pU32 "mi.offscreen_memory_offset";
    pU16 "mi.offscreen_memory_size"; fBytes "mi.reserved1" 206 ].

Definition sized (fs : list field) : sdesc := {| sd_fields := fs; sd_attr_align := 8; sd_tail := None |}.
Definition dst (fs : list field) (es ea : N) : sdesc := {| sd_fields := fs; sd_attr_align := 8; sd_tail := Some (es, ea) |}.

(* the struct declarations; the align attribute is 8 for all (either written
   on the struct or inherited from TagHeader, whose alignment is 8) *)
Definition kind_struct (k : kind) : sdesc :=
  match k with
  | KEnd => sized [fHeader]
  | KCmdline => dst [fHeader] 1 1
  | KBootLoaderName => dst [fHeader] 1 1
  | KModule => dst [fHeader; fU32 "mod_start"; fU32 "mod_end"] 1 1
  | KBasicMeminfo => sized [fHeader; fU32 "memory_lower"; fU32 "memory_upper"]
  | KBootdev => sized [fHeader; fU32 "biosdev"; fU32 "slice"; fU32 "part"]
  | KMmap => dst [fHeader; fU32 "entry_size"; fU32 "entry_version"] 24 8
  | KVbe => sized ([fHeader; fU16 "mode"; fU16 "interface_segment"; fU16 "interface_offset"; fU16 "interface_length"]
                   ++ vbe_control_fields ++ vbe_mode_fields)%list
  | KFramebuffer => dst [fHeader; fU64 "address"; fU32 "pitch"; fU32 "width"; fU32 "height"; fU8 "bpp";
                         fU8 "framebuffer_type"; fU16 "_padding"] 1 1
  | KElfSections => dst [fHeader; fU32 "number_of_sections"; fU32 "entry_size"; fU32 "shndx"] 1 1
  | KApm => sized [fHeader; fU16 "version"; fU16 "cseg"; fU32 "offset"; fU16 "cset_16"; fU16 "dseg"; fU16 "flags";
                   fU16 "cseg_len"; fU16 "cseg_16_len"; fU16 "dseg_len"]
  | KEfi32 => sized [fHeader; fU32 "pointer"]
  | KEfi64 => sized [fHeader; fU64 "pointer"]
  | KSmbios => dst [fHeader; fU8 "major"; fU8 "minor"; fBytes "_reserved" 6] 1 1
  | KAcpiV1 => sized [fHeader; fBytes "signature" 8; fU8 "checksum"; fBytes "oem_id" 6; fU8 "revision"; fU32 "rsdt_address"]
  | KAcpiV2 => sized [fHeader; fBytes "signature" 8; fU8 "checksum"; fBytes "oem_id" 6; fU8 "revision"; fU32 "rsdt_address";
                      fU32 "length"; fU64 "xsdt_address"; fU8 "ext_checksum"; fBytes "_reserved" 3]
  | KNetwork => dst [fU32 "typ"; fU32 "size"] 1 1
  | KEfiMmap => dst [fHeader; fU32 "desc_size"; fU32 "desc_version"] 1 1
  | KEfiBs => sized [fHeader]
  | KEfi32Ih => sized [fHeader; fU32 "pointer"]
  | KEfi64Ih => sized [fHeader; fU64 "pointer"]
  | KLoadBaseAddr => sized [fHeader; fU32 "load_base_addr"]
  end.

(* MaybeDynSized::BASE_SIZE as the source writes it *)
Definition kind_base (k : kind) : N :=
  match k with
  | KCmdline | KBootLoaderName | KNetwork => 8              (* size_of::<TagHeader>() *)
  | KModule | KMmap => 8 + 2 * 4
  | KFramebuffer => 8 + 8 + 3 * 4 + 2 * 1 + 2
  | KElfSections => 8 + 3 * 4
  | KSmbios => 8 + 1 * 8
  | KEfiMmap => 4 + 3 * 4                                   (* size_of::<TagTypeId>() + 3 * size_of::<u32>() *)
  | _ => sd_size_of (kind_struct k)                         (* size_of::<Self>() *)
  end.

Definition tag_size_field (hdr : list byte) : N := le (slice hdr 4 4).

(* MaybeDynSized::dst_len *)
Definition kind_dstlen (k : kind) (p : profile) (hdr : list byte) : res (option N) :=
  let size := tag_size_field hdr in
  match k with
  | KCmdline | KBootLoaderName | KModule | KFramebuffer | KElfSections | KSmbios | KEfiMmap =>
      _ <- assert (kind_base k <=? size) ;;
      n <- usub p size (kind_base k) ;; Val (Some n)
  | KMmap =>
      _ <- assert (kind_base k <=? size) ;;
      n <- usub p size (kind_base k) ;;
      _ <- assert (n mod 24 =? 0) ;;
      Val (Some (n / 24))
  | KNetwork => n <- usub p size (kind_base k) ;; Val (Some n)
  | _ => Val None
  end.

Definition kind_tdesc (k : kind) : tdesc :=
  {| t_base := kind_base k; t_dstlen := kind_dstlen k; t_sizeof := sd_size_of_val (kind_struct k) |}.

(* DynSizedStructure::cast::<T>() for tag kind k *)
Definition cast_kind (p : profile) (k : kind) (m : mem) (r : dref) : res tref :=
  cast p HTagH (kind_tdesc k) m r.

(* typed view: the unsized tail as (offset, element count) *)
Definition tail_off (k : kind) (t : tref) : N := t_off t + sd_tail_off (kind_struct k).
Definition tail_count (t : tref) : N := match t_meta t with Some n => n | None => 0 end.
Definition tail_esize (k : kind) : N := match sd_tail (kind_struct k) with Some (es, _) => es | None => 0 end.
Definition tref_size_of_val (k : kind) (t : tref) : N := sd_size_of_val (kind_struct k) (t_meta t).

(* numeric field accessor through the layout table *)
Definition fld (k : kind) (m : mem) (t : tref) (name : string) : N :=
  let '(o, w) := field_ow (kind_struct k) name in le (slice (m_bytes m) (t_off t + o) w).
Definition fld_bytes (k : kind) (m : mem) (t : tref) (name : string) : list byte :=
  let '(o, w) := field_ow (kind_struct k) name in slice (m_bytes m) (t_off t + o) w.

(* BootInformation::get_tag::<T>(): tags().find(typ == T::ID).map(cast) *)
Definition get_tag (p : profile) (k : kind) (m : mem) (r : dref) : res (option tref) :=
  let b := d_off r + 8 in
  x <- tagiter_find (iter_fuel (d_plen r)) p HTagH m b (d_plen r) 0 (kind_typ k) ;;
  match x with
  | (None, _) => Val None
  | (Some g, _) => t <- cast_kind p k m g ;; Val (Some t)
  end.

(* the same generic getter instantiated with a user-defined tag type T (its ID and type descriptor) *)
Definition get_tag_user (p : profile) (typ : N) (T : tdesc) (m : mem) (r : dref) : res (option tref) :=
  let b := d_off r + 8 in
  x <- tagiter_find (iter_fuel (d_plen r)) p HTagH m b (d_plen r) 0 typ ;;
  match x with
  | (None, _) => Val None
  | (Some g, _) => t <- cast p HTagH T m g ;; Val (Some t)
  end.

(* ModuleIter::next: self.iter.find(typ == Module).map(|tag| tag.cast()) ; run to the end *)
Fixpoint modules_run (fuel : nat) (p : profile) (m : mem) (b blen nxt : N) : list tref * res unit :=
  match fuel with
  | O => ([], Fault FFuel)
  | S f =>
      match tagiter_find (iter_fuel blen) p HTagH m b blen nxt MODULE_TYP with
      | Val (None, _) => ([], Val tt)
      | Val (Some g, n') =>
          match cast_kind p KModule m g with
          | Val t => let (l, e) := modules_run f p m b blen n' in (t :: l, e)
          | Err e => ([], Err e)
          | Panic => ([], Panic)
          | Fault x => ([], Fault x)
          end
      | Err e => ([], Err e)
      | Panic => ([], Panic)
      | Fault x => ([], Fault x)
      end
  end.
