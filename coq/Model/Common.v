(* Model of multiboot2-common: Header impls of the three crates, BytesRef,
   DynSizedStructure::{ref_from_bytes, ref_from_slice, ref_from_ptr, cast},
   TagIter, increase_to_alignment, new_boxed, clone_dyn.
   Mirrors the Rust source function by function (same checks, same order,
   same arithmetic).  Definitions only. *)
Require Import Bytes Outcome.

(* ---- memory ------------------------------------------------------------ *)
(* The memory the caller made valid: its bytes and the address of byte 0.
   All "references" of the model are offsets into it. *)
Record mem := { m_base : N; m_bytes : list byte }.
Definition mrd (m : mem) (off n : N) : res (list byte) := rd (m_bytes m) off n.

(* ---- the five Header implementations of the crates, and a user-defined one ---------- *)
Inductive hkind :=
| HDummy    (* multiboot2_common::test_utils::DummyTestHeader {typ:u32, size:u32} *)
| HTagH     (* multiboot2::TagHeader {typ:u32, size:u32} *)
| HHdrTagH  (* multiboot2_header::HeaderTagHeader {typ:u16, flags:u16, size:u32} *)
| HBootH    (* multiboot2::BootInformationHeader {total_size:u32, reserved:u32} *)
| HBasicH   (* multiboot2_header::Multiboot2BasicHeader {magic, arch, length, checksum} *)
| HUser12.  (* a user-defined Header whose size is no multiple of 8: #[repr(C)] {typ:u32, size:u32, extra:u32}, 12 bytes,
               alignment 4, payload_len = size - 12 (asserted), the trait's default total_size *)

Definition hsize (h : hkind) : N := match h with HBasicH => 16 | HUser12 => 12 | _ => 8 end.

(* the stored size field, read from the header bytes *)
Definition stored_size (h : hkind) (hdr : list byte) : N :=
  match h with
  | HBootH => le (slice hdr 0 4)
  | HBasicH => le (slice hdr 8 4)
  | _ => le (slice hdr 4 4)
  end.

(* Header::payload_len: `assert!(size >= size_of::<Self>()); size - size_of::<Self>()` *)
Definition payload_len (p : profile) (h : hkind) (hdr : list byte) : res N :=
  _ <- assert (hsize h <=? stored_size h hdr) ;;
  usub p (stored_size h hdr) (hsize h).

(* Header::total_size: default `size_of::<Self>() + payload_len()`; overridden
   for the two top-level headers to return the stored field *)
Definition total_size (p : profile) (h : hkind) (hdr : list byte) : res N :=
  match h with
  | HBootH | HBasicH => Val (stored_size h hdr)
  | _ => pl <- payload_len p h hdr ;; uadd p (hsize h) pl
  end.

(* Multiboot2BasicHeader::calc_checksum (wrapping u32 arithmetic) *)
Definition wsub32 (a b : N) : N := (a + pow2_32 - b mod pow2_32) mod pow2_32.
Definition calc_checksum (magic arch length : N) : N :=
  wsub32 (wsub32 (wsub32 0 magic) arch) length.

(* Header::set_size: `total_size as u32` into the size field; the basic header
   also recomputes its checksum *)
Definition set_size (h : hkind) (hdr : list byte) (ts : N) : list byte :=
  let s := enc32 ts in
  match h with
  | HBootH => s ++ slice hdr 4 4
  | HBasicH =>
      let magic := le (slice hdr 0 4) in
      let arch := le (slice hdr 4 4) in
      slice hdr 0 8 ++ s ++ enc32 (calc_checksum magic arch (ts mod pow2_32))
  | HUser12 => slice hdr 0 4 ++ s ++ slice hdr 8 4
  | _ => slice hdr 0 4 ++ s
  end.

(* ---- increase_to_alignment --------------------------------------------- *)
Definition mask_not7 : N := 18446744073709551608.  (* !7usize *)
Definition inc_align (p : profile) (size : N) : res N :=
  s <- uadd p size 7 ;; Val (N.land s mask_not7).

(* ---- BytesRef::try_from ------------------------------------------------- *)
Definition bytesref_check (h : hkind) (addr n : N) : res unit :=
  if n <? hsize h then Err EShorterThanHeader
  else if negb (addr mod 8 =? 0) then Err EWrongAlignment
  else if negb (n mod 8 =? 0) then Err EMissingPadding
  else Val tt.

(* ---- DynSizedStructure -------------------------------------------------- *)
(* &DynSizedStructure<H>: thin address (as offset) + metadata (payload length) *)
Record dref := { d_off : N; d_plen : N }.

Definition dref_size_of_val (h : hkind) (r : dref) : N := round8 (hsize h + d_plen r).

Definition ref_from_bytes (p : profile) (h : hkind) (m : mem) (off n : N) : res dref :=
  hdr <- mrd m off (hsize h) ;;
  ts <- total_size p h hdr ;;
  if n <? ts then Err EInvalidReportedTotalSize
  else pl <- payload_len p h hdr ;; Val {| d_off := off; d_plen := pl |}.

Definition ref_from_slice (p : profile) (h : hkind) (m : mem) (off n : N) : res dref :=
  _ <- bytesref_check h (m_base m + off) n ;;
  ref_from_bytes p h m off n.

Definition ref_from_ptr (p : profile) (h : hkind) (m : mem) (off : N) : res dref :=
  hdr <- mrd m off (hsize h) ;;
  ts <- total_size p h hdr ;;
  ref_from_slice p h m off ts.

(* ---- MaybeDynSized type descriptors and cast --------------------------- *)
(* A tag type T: BASE_SIZE, dst_len (None = sized type, metadata `()`), and
   size_of_val as a function of the metadata. *)
Record tdesc := {
  t_base : N;
  t_dstlen : profile -> list byte -> res (option N);
  t_sizeof : option N -> N
}.

(* &T : address (offset) + metadata *)
Record tref := { t_off : N; t_meta : option N }.

Definition cast (p : profile) (h : hkind) (T : tdesc) (m : mem) (r : dref) : res tref :=
  _ <- assert (hsize h <=? t_base T) ;;
  hdr <- mrd m (d_off r) (hsize h) ;;
  n <- t_dstlen T p hdr ;;
  _ <- assert (dref_size_of_val h r =? t_sizeof T n) ;;
  Val {| t_off := d_off r; t_meta := n |}.

(* DynSizedStructure<H> itself as a MaybeDynSized type *)
Definition tdesc_generic (h : hkind) : tdesc :=
  {| t_base := hsize h;
     t_dstlen := fun p hdr => pl <- payload_len p h hdr ;; Val (Some pl);
     t_sizeof := fun n => match n with Some n => round8 (hsize h + n) | None => hsize h end |}.

(* ---- TagIter ------------------------------------------------------------ *)
(* iterator over buffer [b, b+blen) of m, at next_tag_offset nxt *)
Definition tagiter_next (p : profile) (h : hkind) (m : mem) (b blen nxt : N)
  : res (option dref * N) :=
  if nxt =? blen then Val (None, nxt) else
  _ <- assert (nxt <? blen) ;;
  hdr <- mrd m (b + nxt) (hsize h) ;;
  pl <- payload_len p h hdr ;;
  ln <- uadd p (hsize h) pl ;;
  to <- uadd p nxt ln ;;
  to' <- inc_align p to ;;
  d <- usub p to' nxt ;;
  nxt' <- uadd p nxt d ;;
  _ <- idx_range blen nxt to' ;;
  r <- unwrap (ref_from_slice p h m (b + nxt) (to' - nxt)) ;;
  Val (Some r, nxt').

(* Collect the remaining items; fuel bounds the number of steps. *)
Fixpoint tagiter_collect (fuel : nat) (p : profile) (h : hkind) (m : mem) (b blen nxt : N)
  : res (list dref) :=
  match fuel with
  | O => Fault FFuel
  | S f =>
      x <- tagiter_next p h m b blen nxt ;;
      match x with
      | (None, _) => Val []
      | (Some r, nxt') => rest <- tagiter_collect f p h m b blen nxt' ;; Val (r :: rest)
      end
  end.

(* enough fuel for any buffer: every step advances by at least 8 *)
Definition iter_fuel (blen : N) : nat := S (N.to_nat (blen / 8)).

(* ---- new_boxed / clone_dyn --------------------------------------------- *)
(* `pad`: the contents of the allocation beyond the written bytes (the
   allocator does not zero it; universally quantified in the theorems). *)
Definition new_boxed (p : profile) (h : hkind) (T : tdesc) (hdr : list byte)
           (slices : list (list byte)) (pad : list byte) : res (list byte) :=
  let add := sumN (map len slices) in
  ts <- uadd p (hsize h) add ;;
  let hdr' := set_size h hdr ts in
  asz <- inc_align p ts ;;
  n <- t_dstlen T p hdr' ;;
  _ <- assert (t_sizeof T n =? asz) ;;
  Val (hdr' ++ concat slices ++ slice pad 0 (asz - ts)).

(* the offset a TagIter is left with when next() panics: `self.next_tag_offset += to - from` runs before the slice is
   taken, so a panic of the slice index (or of the unwrap behind it) leaves the advanced offset, an earlier panic the old one *)
Definition tagiter_left (p : profile) (h : hkind) (m : mem) (b blen nxt : N) : N :=
  if nxt =? blen then nxt else
  match (_ <- assert (nxt <? blen) ;;
         hdr <- mrd m (b + nxt) (hsize h) ;;
         pl <- payload_len p h hdr ;;
         ln <- uadd p (hsize h) pl ;;
         to <- uadd p nxt ln ;;
         to' <- inc_align p to ;;
         d <- usub p to' nxt ;;
         uadd p nxt d) with
  | Val nxt' => nxt'
  | _ => nxt
  end.
(* next() as a state transition of the iterator: the outcome and the offset afterwards, whatever the outcome *)
Definition tagiter_step (p : profile) (h : hkind) (m : mem) (b blen nxt : N) : res (option dref) * N :=
  match tagiter_next p h m b blen nxt with
  | Val (o, nxt') => (Val o, nxt')
  | Err e => (Err e, tagiter_left p h m b blen nxt)
  | Panic => (Panic, tagiter_left p h m b blen nxt)
  | Fault f => (Fault f, tagiter_left p h m b blen nxt)
  end.
