(* The full dump of a boot information (domain `mbi`): every typed getter and
   every accessor of every tag kind, iterators run to exhaustion. *)
Require Import Bytes Outcome Render Layout Common TagType UserTypes Mbi MbiTags Strings MbiAccess Debug RunCommon RunMbi.
From Coq Require Import String.
Open Scope string_scope.
Open Scope N_scope.

Definition kv (n : string) (v : N) : string := n ++ "=" ++ sN v.
Definition sp (l : list string) : string := sJoin " " l.

Definition sTref (k : kind) (t : tref) : string := sView (t_off t) (tref_size_of_val k t).

(* Result<&str, StringError> *)
Definition sStr (m : mem) (r : res (N * N)) : string :=
  sRes (fun v => sView (fst v) (snd v) ++ " " ++ sBytes (slice (m_bytes m) (fst v) (snd v))) r.
(* Result<&str, Utf8Error> of a fixed array field *)
Definition sArrStr (k : kind) (m : mem) (t : tref) (f : string) : string :=
  let bs := fld_bytes k m t f in sRes (fun _ => sBytes bs) (from_utf8 bs).

Definition fields (k : kind) (m : mem) (t : tref) (names : list string) : string :=
  sp (map (fun n => kv n (fld k m t n)) names).

Definition vbe_ci_names : list string :=
  ["ci.version"; "ci.oem_string_ptr"; "ci.capabilities"; "ci.mode_list_ptr"; "ci.total_memory";
   "ci.oem_software_revision"; "ci.oem_vendor_name_ptr"; "ci.oem_product_name_ptr"; "ci.oem_product_revision_ptr"].
Definition vbe_mi_names : list string :=
  ["mi.mode_attributes"; "mi.window_a_attributes"; "mi.window_b_attributes"; "mi.window_granularity";
   "mi.window_size"; "mi.window_a_segment"; "mi.window_b_segment"; "mi.window_function_ptr"; "mi.pitch";
   "mi.resolution.0"; "mi.resolution.1"; "mi.character_size.0"; "mi.character_size.1"; "mi.number_of_planes";
   "mi.bpp"; "mi.number_of_banks"; "mi.bank_size"; "mi.number_of_image_pages";
   "mi.red_field.size"; "mi.red_field.position"; "mi.green_field.size"; "mi.green_field.position";
   "mi.blue_field.size"; "mi.blue_field.position"; "mi.reserved_field.size"; "mi.reserved_field.position";
   "mi.direct_color_attributes"; "mi.framebuffer_base_ptr"; "mi.offscreen_memory_offset"; "mi.offscreen_memory_size"].

(* ---- iterations -------------------------------------------------------------- *)
Definition lines_mmap (p : profile) (m : mem) (t : tref) : list string :=
  let a := mmap_areas m t in
  line "mmap" (fields KMmap m t ["entry_size"; "entry_version"] ++ " areas=" ++
               sRes (fun v => sView (fst v) (snd v * 24)) a)
  :: match a with
     | Val (off, n) =>
         map (fun i =>
                let o := off + i * 24 in
                let b := le (slice (m_bytes m) o 8) in
                let l := le (slice (m_bytes m) (o + 8) 8) in
                line "area" (sView o 24 ++ " " ++ sp [kv "base" b; kv "length" l;
                                                       kv "typ" (le (slice (m_bytes m) (o + 16) 4));
                                                       kv "end" (sat_add64 b l)]))
             (map N.of_nat (seq 0 (N.to_nat n)))
     | _ => []
     end.

Fixpoint efi_run (fuel : nat) (p : profile) (m : mem) (it : efi_iter) : list string :=
  match fuel with
  | O => [line "efi_end" "UB"]
  | S f =>
      match efi_next p m it with
      | Val (Some off, it') =>
          let g o w := le (slice (m_bytes m) (off + o) w) in
          line "efi_desc" (sView off 40 ++ " " ++ sp [kv "ty" (g 0 4); kv "phys" (g 8 8); kv "virt" (g 16 8);
                                                      kv "pages" (g 24 8); kv "att" (g 32 8)]
                           ++ " len=" ++ sRes sN (efi_len p it'))
          :: efi_run f p m it'
      | Val (None, it') => [line "efi_end" ("VAL len=" ++ sRes sN (efi_len p it'))]
      | r => [line "efi_end" (sRes (fun _ => "") r)]
      end
  end.

(* short histories on ONE iterator object mixing next() and the provided nth(k): an overriding nth must compose with
   next() and with itself exactly as k+1 calls of next() do.  A history stops at the first panic. *)
Inductive hop := HNext | HNth (k : N) | HCount | HLast.
Definition hists (n : N) : list (list hop) :=
  [ [HNext; HNth 0]; [HNext; HNth 1]; [HNext; HNext; HNth 0]; [HNth 1; HNth 0]; [HNth 0; HNext]; [HNext; HNth n];
    [HNext; HNth (n - 1)]; [HNth (n - 1); HNext; HNext]; [HNth n; HNext]; [HNth 0; HNth 0; HNth 0];
    (* count() / last() of a clone of an advanced iterator (fold-driven provided methods), then the iterator goes on *)
    [HNext; HCount; HNext]; [HNext; HNext; HLast]; [HNth 1; HCount]; [HCount; HLast; HNext] ].
(* rest s: the items still to come from state s (what a clone run to its end yields) *)
Fixpoint run_hops {S A : Type} (next : S -> res (option A * S)) (nth : S -> nat -> res (option A * S))
                  (rest : S -> list A * res unit) (show : A -> S -> string) (showl : A -> string)
                  (s : S) (ops : list hop) : list string :=
  match ops with
  | [] => []
  | HCount :: more =>
      let '(l, e) := rest s in
      match e with
      | Val _ => ("count " ++ sN (len l))%string :: run_hops next nth rest show showl s more
      | _ => [sRes (fun _ => ""%string) e]
      end
  | HLast :: more =>
      let '(l, e) := rest s in
      match e with
      | Val _ => (match List.last (map Some l) None with Some a => ("last " ++ showl a)%string | None => "last none"%string end)
                 :: run_hops next nth rest show showl s more
      | _ => [sRes (fun _ => ""%string) e]
      end
  | o :: more =>
      match (match o with HNth k => nth s (N.to_nat k) | _ => next s end) with
      | Val (Some a, s') => ("some " ++ show a s')%string :: run_hops next nth rest show showl s' more
      | Val (None, s') => "none"%string :: run_hops next nth rest show showl s' more
      | x => [sRes (fun _ => ""%string) x]
      end
  end.
Definition lines_hists {S A : Type} (key : string) (next : S -> res (option A * S)) (nth : S -> nat -> res (option A * S))
                       (rest : S -> list A * res unit) (show : A -> S -> string) (showl : A -> string) (s : S) (n : N)
  : list string :=
  snd (fold_left (fun '(i, acc) ops =>
                    (i + 1, acc ++ [line key (sN i ++ " " ++ String.concat ";" (run_hops next nth rest show showl s ops))])%list)
                 (hists n) (0, [])).

(* nth(k) on a fresh iterator for k around the number of entries, and count() *)
Definition lines_efi_nth (p : profile) (m : mem) (i : efi_iter) : list string :=
  (map (fun k => line "efi_nth" (sN k ++ " " ++
                  match efi_nth p m i (N.to_nat k) with
                  | Val (Some off, it') => "VAL " ++ sView off 40 ++ " len=" ++ sRes sN (efi_len p it')
                  | Val (None, it') => "VAL none len=" ++ sRes sN (efi_len p it')
                  | r => sRes (fun _ => "") r
                  end)) (nth_ks (ei_entries i))
   ++ [line "efi_count" (let '(l, e) := efi_collect (S (S (N.to_nat (ei_entries i)))) p m i in sRes (fun _ => sN (len l)) e)]
   (* the Debug impl of the iterator formats the descriptors still to come: whether that panics (the text is not compared) *)
   ++ [line "efi_dbg" (let '(l, e) := efi_collect (S (S (N.to_nat (ei_entries i)))) p m i in sRes (fun _ => ""%string) e)])%list.

Definition lines_efi (p : profile) (m : mem) (t : tref) : list string :=
  let it := efi_memory_areas m t in
  line "efi_mmap" ("areas=" ++ sRes (fun i => "entries=" ++ sN (ei_entries i) ++ " len=" ++ sRes sN (efi_len p i)) it)
  :: match it with
     | Val i => (efi_run (S (S (N.to_nat (ei_entries i)))) p m i ++ lines_efi_nth p m i
                 ++ lines_hists "efi_hist" (efi_next p m) (efi_nth p m)
                      (fun it => efi_collect (S (S (N.to_nat (ei_entries it)))) p m it)
                      (fun off it' => (sView off 40 ++ " len=" ++ sRes sN (efi_len p it'))%string) (fun off => sView off 40)
                      i (ei_entries i))%list
     | _ => []
     end.

Definition sElfSection (m : mem) (s : elf_section) : string :=
  sN (es_inner s) ++ " typ=" ++ sRes sElfType (elf_section_type_of m s)
  ++ " raw=" ++ sRes sN (elf_typ m s) ++ " flags=" ++ sRes sN (elf_flags m s)
  ++ " start=" ++ sRes sN (elf_addr m s) ++ " end=" ++ sRes sN (elf_end_address m s)
  ++ " size=" ++ sRes sN (elf_size m s) ++ " align=" ++ sRes sN (elf_addralign m s)
  ++ " alloc=" ++ sRes (fun f => sBool (negb (N.land f 2 =? 0))) (elf_flags m s).

Fixpoint elf_run (fuel : nat) (p : profile) (m : mem) (it : elf_iter) : list string :=
  match fuel with
  | O => [line "elf_end" "UB"]
  | S f =>
      match elf_next (elf_fuel it) p m it with
      | Val (Some s, it') => line "elf_section" (sElfSection m s ++ " rem=" ++ sN (el_rem it')) :: elf_run f p m it'
      | Val (None, it') => [line "elf_end" ("VAL rem=" ++ sN (el_rem it'))]
      | r => [line "elf_end" (sRes (fun _ => "") r)]
      end
  end.

(* nth(k) on a fresh iterator for k around the stored entry count (only when that many steps are cheap: the stored
   count is not bounded by the tag when the entry size is 0), and count() *)
Definition lines_elf_nth (p : profile) (m : mem) (i : elf_iter) : list string :=
  if el_rem i <=? 4096 then
    (map (fun k => line "elf_nth" (sN k ++ " " ++
                    match elf_nth p m i (N.to_nat k) with
                    | Val (Some s, it') => "VAL " ++ sN (es_inner s) ++ " rem=" ++ sN (el_rem it')
                    | Val (None, it') => "VAL none rem=" ++ sN (el_rem it')
                    | r => sRes (fun _ => "") r
                    end)) (nth_ks (el_rem i))
     ++ [line "elf_count" (let '(l, e) := elf_collect (S (elf_fuel i)) p m i in sRes (fun _ => sN (len l)) e)]
     (* the Debug impl of the iterator formats the first 7 sections to come: whether that panics (the text is not compared) *)
     ++ [line "elf_dbg" (let '(l, e) := elf_collect (S (elf_fuel i)) p m i in
                         if N.leb 7 (len l) then "VAL "%string else sRes (fun _ => ""%string) e)])%list
  else [].

Definition lines_elf (p : profile) (m : mem) (t : tref) : list string :=
  let it := elf_sections p m t in
  line "elf" (fields KElfSections m t ["number_of_sections"; "entry_size"; "shndx"]
              ++ " sections=" ++ sRes (fun i => "rem=" ++ sN (el_rem i)) it)
  :: match it with
     | Val i => (elf_run (S (elf_fuel i)) p m i ++ lines_elf_nth p m i
                 ++ (if el_rem i <=? 4096 then
                       lines_hists "elf_hist" (fun it => elf_next (elf_fuel it) p m it) (elf_nth p m)
                         (fun it => elf_collect (S (elf_fuel it)) p m it)
                         (fun s it' => (sN (es_inner s) ++ " rem=" ++ sN (el_rem it'))%string) (fun s => sN (es_inner s))
                         i (el_rem i)
                     else []))%list
     | _ => []
     end.

Definition sFbType (m : mem) (r : res fbtype) : string :=
  sRes (fun t => match t with
                 | FbtIndexed off n => "Indexed n=" ++ sN n ++ " " ++ sView off (n * 3) ++ " " ++ sBytes (slice (m_bytes m) off (n * 3))
                 | FbtRGB a b c d e f => "RGB " ++ sJoin "," (map sN [a; b; c; d; e; f])
                 | FbtText => "Text"
                 end) r.

(* ---- one line group per tag kind ------------------------------------------------ *)
Definition lines_kind (p : profile) (k : kind) (m : mem) (t : tref) : list string :=
  match k with
  | KEnd => []
  | KCmdline => [line "cmdline" (sStr m (tag_str KCmdline m t))]
  | KBootLoaderName => [line "bootloader" ("typ=" ++ sTagType (tagtype_of_u32 (le (slice (m_bytes m) (t_off t) 4)))
                                           ++ " " ++ kv "size" (le (slice (m_bytes m) (t_off t + 4) 4))
                                           ++ " name=" ++ sStr m (tag_str KBootLoaderName m t))]
  | KModule => [line "modinfo" (fields k m t ["mod_start"; "mod_end"] ++ " " ++ kv "size" (module_size m t)
                                ++ " cmdline=" ++ sStr m (tag_str KModule m t))]
  | KBasicMeminfo => [line "basic_meminfo" (fields k m t ["memory_lower"; "memory_upper"])]
  | KBootdev => [line "bootdev" (fields k m t ["biosdev"; "slice"; "part"])]
  | KMmap => lines_mmap p m t
  | KVbe => [line "vbe" (fields k m t ["mode"; "interface_segment"; "interface_offset"; "interface_length"]);
             line "vbe_ci" ("signature=" ++ sBytes (fld_bytes k m t "ci.signature") ++ " " ++ fields k m t vbe_ci_names);
             line "vbe_mi" (fields k m t vbe_mi_names ++ " memory_model=" ++ sRes sN (vbe_memory_model m t))]
  | KFramebuffer => [line "framebuffer" (fields k m t ["address"; "pitch"; "width"; "height"; "bpp"]
                                         ++ " type=" ++ sFbType m (fb_buffer_type m t))]
  | KElfSections => lines_elf p m t
  | KApm => [line "apm" (fields k m t ["version"; "cseg"; "offset"; "cset_16"; "dseg"; "flags"; "cseg_len"; "cseg_16_len"; "dseg_len"])]
  | KEfi32 => [line "efi_sdt32" (fields k m t ["pointer"])]
  | KEfi64 => [line "efi_sdt64" (fields k m t ["pointer"])]
  | KSmbios => [line "smbios" (fields k m t ["major"; "minor"] ++ " tables=" ++ sView (tail_off k t) (tail_count t)
                               ++ " " ++ sBytes (tail_bytes k m t))]
  | KAcpiV1 => [line "rsdp_v1" ("signature=" ++ sArrStr k m t "signature" ++ " valid=" ++ sRes sBool (rsdp1_checksum_valid m t)
                                ++ " oem_id=" ++ sArrStr k m t "oem_id" ++ " " ++ fields k m t ["revision"; "rsdt_address"])]
  | KAcpiV2 => [line "rsdp_v2" ("signature=" ++ sArrStr k m t "signature" ++ " valid=" ++ sRes sBool (rsdp2_checksum_valid m t)
                                ++ " oem_id=" ++ sArrStr k m t "oem_id" ++ " " ++ fields k m t ["revision"; "xsdt_address"; "ext_checksum"])]
  | KNetwork => [line "network" ("dhcpack=" ++ sView (tail_off k t) (tail_count t))]
  | KEfiMmap => lines_efi p m t
  | KEfiBs => []
  | KEfi32Ih => [line "efi_ih32" (fields k m t ["pointer"])]
  | KEfi64Ih => [line "efi_ih64" (fields k m t ["pointer"])]
  | KLoadBaseAddr => [line "load_base_addr" (fields k m t ["load_base_addr"])]
  end.

Definition sDbg (r : res unit) : string := sRes (fun _ => "") r.

Definition getter_name (k : kind) : string :=
  match k with
  | KEnd => "end" | KCmdline => "command_line" | KBootLoaderName => "boot_loader_name" | KModule => "module"
  | KBasicMeminfo => "basic_memory_info" | KBootdev => "bootdev" | KMmap => "memory_map" | KVbe => "vbe_info"
  | KFramebuffer => "framebuffer" | KElfSections => "elf_sections" | KApm => "apm" | KEfi32 => "efi_sdt32"
  | KEfi64 => "efi_sdt64" | KSmbios => "smbios" | KAcpiV1 => "rsdp_v1" | KAcpiV2 => "rsdp_v2" | KNetwork => "network"
  | KEfiMmap => "efi_memory_map" | KEfiBs => "efi_bs_not_exited" | KEfi32Ih => "efi_ih32" | KEfi64Ih => "efi_ih64"
  | KLoadBaseAddr => "load_base_addr"
  end.

Definition getter_kinds : list kind :=
  [KApm; KBasicMeminfo; KBootLoaderName; KBootdev; KCmdline; KEfiBs; KEfi32Ih; KEfi64Ih; KEfiMmap; KEfi32; KEfi64;
   KElfSections; KFramebuffer; KLoadBaseAddr; KMmap; KNetwork; KAcpiV1; KAcpiV2; KSmbios; KVbe].

Definition line_dbg (p : profile) (k : kind) (m : mem) (t : tref) : string :=
  line "debug" (getter_name k ++ " " ++ sDbg (dbg_kind p k m t)).
Definition lines_some (p : profile) (k : kind) (m : mem) (t : tref) : list string :=
  (* as_bytes(): the whole structure incl. padding; payload(): behind the 8-byte header; header(), as_ptr(): its start *)
  (line "get" (getter_name k ++ " some " ++ sTref k t ++ " bytes=" ++ sTref k t
               ++ " payload=" ++ sView (t_off t + 8) (tref_size_of_val k t - 8)
               ++ " header=@" ++ sN (t_off t) ++ " ptr=@" ++ sN (t_off t))
   :: lines_kind p k m t ++ [line_dbg p k m t])%list.

Definition lines_get (p : profile) (k : kind) (m : mem) (r : dref) : list string :=
  let nm := getter_name k in
  match k with
  | KFramebuffer =>
      match framebuffer_tag p m r with
      | Val None => [line "get" (nm ++ " none")]
      | Val (Some (Val t)) => lines_some p k m t
      | Val (Some x) => [line "get" (nm ++ " some " ++ sRes (fun _ => "") x)]
      | x => [line "get" (nm ++ " " ++ sRes (fun _ => "") x)]
      end
  | _ =>
      match (match k with KEfiMmap => efi_memory_map_tag p m r | _ => get_tag p k m r end) with
      | Val None => [line "get" (nm ++ " none")]
      | Val (Some t) => lines_some p k m t
      | x => [line "get" (nm ++ " " ++ sRes (fun _ => "") x)]
      end
  end.

Definition lines_modules_full (p : profile) (m : mem) (r : dref) : list string :=
  let '(items, e) := modules_run (iter_fuel (tags_len r)) p m (tags_b r) (tags_len r) 0 in
  (flat_map (fun t => line "module" (sTref KModule t) :: lines_kind p KModule m t) items ++ [line "modules" (sEnd e)]
   (* next() once, then clone().count() and the entries Debug (which clones) lists: both continue behind the first module *)
   ++ [line "modules_clone"
         (match e with
          | Val _ => "VAL first=" ++ sBool (negb (len items =? 0)) ++ " rest=" ++ sN (len items - 1)
          | _ => match items with
                 | [] => sRes (fun _ => "") e
                 | _ => sRes (fun _ => "") e
                 end
          end)])%list.

Definition lines_tail (p : profile) (m : mem) (r : dref) : list string :=
  [ line "get" ("elf_sections_deprecated " ++ sRes (sOpt (fun it : elf_iter => "rem=" ++ sN (el_rem it))) (elf_sections_deprecated p m r));
    line "debug" ("boot " ++ (if vbe_undefined p m r then "UB-SKIPPED" else sDbg (dbg_boot p m r))) ].

(* mbi <bytes>: the full dump *)
Definition run_mbi (p : profile) (bs : list byte) : list string :=
  let m := {| m_base := 0; m_bytes := bs |} in
  let '(l, lines) := run_mbi_core p m in
  match l with
  | Val r => (lines ++ lines_walk p m r ++ lines_modules_full p m r ++ flat_map (fun k => lines_get p k m r) getter_kinds
              ++ lines_tail p m r)%list
  | _ => lines
  end.

(* elfname <region> <ext base> <ext bytes>: load, elf_sections_tag(), sections(), name() of every yielded section *)
Fixpoint elfname_run (fuel : nat) (p : profile) (m ext : mem) (it : elf_iter) : list string :=
  match fuel with
  | O => [line "elfname_end" "UB"]
  | S f =>
      match elf_next (elf_fuel it) p m it with
      | Val (Some s, it') =>
          line "elfname" (sN (es_inner s) ++ " " ++ sRes sBytes (elf_name p m ext s)) :: elfname_run f p m ext it'
      | Val (None, _) => [line "elfname_end" "VAL "]
      | r => [line "elfname_end" (sRes (fun _ => "") r)]
      end
  end.

Definition run_elfname (p : profile) (bs : list byte) (eb : N) (ebs : list byte) : list string :=
  let m := {| m_base := 0; m_bytes := bs |} in
  let ext := {| m_base := eb; m_bytes := ebs |} in
  let '(l, lines) := run_mbi_core p m in
  match l with
  | Val r =>
      (lines ++
       match get_tag p KElfSections m r with
       | Val (Some t) =>
           match elf_sections p m t with
           | Val i => line "elfname_sections" "VAL " :: elfname_run (S (elf_fuel i)) p m ext i
           | x => [line "elfname_sections" (sRes (fun _ => "") x)]
           end
       | Val None => [line "elfname_sections" "none"]
       | x => [line "elfname_sections" ("get " ++ sRes (fun _ => "") x)]
       end)%list
  | _ => lines
  end.

(* pstr <bytes>: the public parse_slice_as_string on an arbitrary slice *)
Definition run_pstr (bs : list byte) : list string :=
  [ line "pstr" (sRes (fun n => sView 0 n ++ " " ++ sBytes (slice bs 0 n)) (parse_str bs)) ].

(* gettag <sel> <region>: BootInformation::get_tag::<T>() with a harness-defined T
   sel 0: sized, two u32 words, ID Custom(4096); 1: DST with a u32 tail, ID Custom(4097); 2: header-only sized type
   claiming the command-line ID *)
Definition gettag_sel (sel : N) : N * sdesc :=
  match sel with 0 => (4096, user_sized 2) | 1 => (4097, user_dst 0 4 4) | _ => (1, user_sized 0) end.
Definition run_gettag (p : profile) (sel : N) (bs : list byte) : list string :=
  let m := {| m_base := 0; m_bytes := bs |} in
  let '(typ, d) := gettag_sel sel in
  let '(l, lines) := run_mbi_core p m in
  match l with
  | Val r =>
      (lines ++ [line "get_user" (match get_tag_user p typ (user_tdesc d) m r with
                                  | Val None => "none"
                                  | Val (Some t) => "some " ++ sView (t_off t) (sd_size_of_val d (t_meta t)) ++ " meta=" ++ sOpt sN (t_meta t)
                                  | x => sRes (fun _ => "") x
                                  end)])%list
  | _ => lines
  end.
