(* User-defined tag types (C15): descriptors of #[repr(C)] structs that begin with the 8-byte tag
   header and truthfully declare their fixed part and element count; the family exercised by the
   correspondence check. *)
Require Import Bytes Outcome Layout Common.
From Coq Require Import String.
Open Scope string_scope.
Open Scope N_scope.

(* user-defined tag types that truthfully declare their layout: a #[repr(C)] struct beginning with
   the 8-byte tag header, optionally ending in a slice; BASE_SIZE = offset of the tail (or size_of
   for sized types); dst_len = (size - BASE_SIZE) / element size, asserting the precondition *)
Definition user_tdesc (d : sdesc) : tdesc :=
  {| t_base := match sd_tail d with Some _ => sd_tail_off d | None => sd_size_of d end;
     t_dstlen := fun p hdr =>
                   match sd_tail d with
                   | None => Val None
                   | Some (es, _) =>
                       let size := le (slice hdr 4 4) in
                       _ <- assert (sd_tail_off d <=? size) ;;
                       n <- usub p size (sd_tail_off d) ;;
                       _ <- assert (n mod es =? 0) ;;
                       Val (Some (n / es))
                   end;
     t_sizeof := sd_size_of_val d |}.


(* the family: sized types with k extra u32 words; DSTs with F extra fixed bytes and a tail of
   elements of size es and alignment ea *)
Definition user_sized (k : N) : sdesc :=
  {| sd_fields := fStruct "header" 8 8 :: map (fun _ => fU32 "w") (seq 0 (N.to_nat k)); sd_attr_align := 1; sd_tail := None |}.
(* a sized type with k extra words and an `align(al)` attribute (al > 8: more strictly aligned than the structure it is cast from) *)
Definition user_sized_al (k al : N) : sdesc :=
  {| sd_fields := fStruct "header" 8 8 :: map (fun _ => fU32 "w") (seq 0 (N.to_nat k)); sd_attr_align := al; sd_tail := None |}.
Definition user_dst (F es ea : N) : sdesc :=
  {| sd_fields := [fStruct "header" 8 8; fBytes "fixed" F]; sd_attr_align := 1; sd_tail := Some (es, ea) |}.

(* cast <kind: 0 sized | 1 dst> <a> <b> <c> <tag bytes>: ref_from_slice then cast::<T>() *)
Definition run_cast_user (p : profile) (d : sdesc) (bs : list byte) : res tref :=
  let m := {| m_base := 0; m_bytes := bs |} in
  g <- unwrap (ref_from_slice p HTagH m 0 (len bs)) ;;
  cast p HTagH (user_tdesc d) m g.
