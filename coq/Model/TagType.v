(* Model of multiboot2::tag_type (TagType <-> u32 <-> TagTypeId and the six
   cross-type PartialEq impls), MemoryAreaType <-> MemoryAreaTypeId,
   ElfSection::section_type classification, FramebufferTypeId::try_from and
   the two MAGIC constants. *)
Require Import Bytes Outcome.

Inductive tagtype :=
| End | Cmdline | BootLoaderName | Module | BasicMeminfo | Bootdev | Mmap | Vbe | Framebuffer
| ElfSections | Apm | Efi32 | Efi64 | Smbios | AcpiV1 | AcpiV2 | Network | EfiMmap | EfiBs
| Efi32Ih | Efi64Ih | LoadBaseAddr | Custom (c : N).

(* impl From<u32> for TagType *)
Definition tagtype_of_u32 (v : N) : tagtype :=
  match v with
  | 0 => End | 1 => Cmdline | 2 => BootLoaderName | 3 => Module | 4 => BasicMeminfo | 5 => Bootdev
  | 6 => Mmap | 7 => Vbe | 8 => Framebuffer | 9 => ElfSections | 10 => Apm | 11 => Efi32 | 12 => Efi64
  | 13 => Smbios | 14 => AcpiV1 | 15 => AcpiV2 | 16 => Network | 17 => EfiMmap | 18 => EfiBs
  | 19 => Efi32Ih | 20 => Efi64Ih | 21 => LoadBaseAddr
  | c => Custom c
  end.

(* impl From<TagType> for u32 *)
Definition u32_of_tagtype (t : tagtype) : N :=
  match t with
  | End => 0 | Cmdline => 1 | BootLoaderName => 2 | Module => 3 | BasicMeminfo => 4 | Bootdev => 5
  | Mmap => 6 | Vbe => 7 | Framebuffer => 8 | ElfSections => 9 | Apm => 10 | Efi32 => 11 | Efi64 => 12
  | Smbios => 13 | AcpiV1 => 14 | AcpiV2 => 15 | Network => 16 | EfiMmap => 17 | EfiBs => 18
  | Efi32Ih => 19 | Efi64Ih => 20 | LoadBaseAddr => 21
  | Custom c => c
  end.

(* TagTypeId is #[repr(transparent)] over u32 *)
Definition tagid := N.
Definition id_of_u32 (v : N) : tagid := v.            (* transmute *)
Definition u32_of_id (i : tagid) : N := i.            (* value.0 *)
Definition tagtype_of_id (i : tagid) : tagtype := tagtype_of_u32 (u32_of_id i).
Definition id_of_tagtype (t : tagtype) : tagid := id_of_u32 (u32_of_tagtype t).

(* TagType::val(), TagTypeId::new(), the derived PartialEq of TagType (structural) *)
Definition tagtype_val (t : tagtype) : N := u32_of_tagtype t.
Definition id_new (v : N) : tagid := v.
Definition tagtype_eqb (a b : tagtype) : bool :=
  match a, b with
  | Custom x, Custom y => x =? y
  | Custom _, _ | _, Custom _ => false
  | _, _ => u32_of_tagtype a =? u32_of_tagtype b
  end.

(* the six PartialEq impls *)
Definition eq_type_id (t : tagtype) (i : tagid) : bool := u32_of_tagtype t =? u32_of_id i.
Definition eq_id_type (i : tagid) (t : tagtype) : bool := eq_type_id t i.
Definition eq_id_u32 (i : tagid) (v : N) : bool := u32_of_id i =? v.
Definition eq_u32_id (v : N) (i : tagid) : bool := eq_id_u32 i v.
Definition eq_type_u32 (t : tagtype) (v : N) : bool := u32_of_tagtype t =? v.
Definition eq_u32_type (v : N) (t : tagtype) : bool := eq_type_u32 t v.

(* ---- memory area types -------------------------------------------------- *)
Inductive areatype := Available | Reserved | AcpiAvailable | ReservedHibernate | Defective | ACustom (c : N).
Definition areaid := N.
Definition areatype_of_id (i : areaid) : areatype :=
  match i with 1 => Available | 2 => Reserved | 3 => AcpiAvailable | 4 => ReservedHibernate | 5 => Defective
          | c => ACustom c end.
Definition id_of_areatype (t : areatype) : areaid :=
  match t with Available => 1 | Reserved => 2 | AcpiAvailable => 3 | ReservedHibernate => 4 | Defective => 5
          | ACustom c => c end.
Definition eq_areaid_type (i : areaid) (t : areatype) : bool := i =? id_of_areatype t.
Definition eq_areatype_id (t : areatype) (i : areaid) : bool := i =? id_of_areatype t.

(* ---- ELF section type classification ----------------------------------- *)
Inductive elftype :=
| EUnused | EProgramSection | ELinkerSymbolTable | EStringTable | ERelaRelocation | ESymbolHashTable
| EDynamicLinkingTable | ENote | EUninitialized | ERelRelocation | EReserved | EDynamicLoaderSymbolTable
| EEnvironmentSpecific | EProcessorSpecific.

Definition elf_section_type (raw : N) : elftype :=
  match raw with
  | 0 => EUnused | 1 => EProgramSection | 2 => ELinkerSymbolTable | 3 => EStringTable
  | 4 => ERelaRelocation | 5 => ESymbolHashTable | 6 => EDynamicLinkingTable | 7 => ENote
  | 8 => EUninitialized | 9 => ERelRelocation | 10 => EReserved | 11 => EDynamicLoaderSymbolTable
  | _ => if (1610612736 <=? raw) && (raw <=? 1879048191) then EEnvironmentSpecific
         else if (1879048192 <=? raw) && (raw <=? 2147483647) then EProcessorSpecific
         else EUnused
  end.

(* ---- framebuffer type byte --------------------------------------------- *)
Inductive fbtypeid := FbIndexed | FbRGB | FbText.
Definition fb_try_from (b : N) : res fbtypeid :=
  match b with 0 => Val FbIndexed | 1 => Val FbRGB | 2 => Val FbText | v => Err (EUnknownFb v) end.

(* ---- constants ---------------------------------------------------------- *)
Definition MBI_MAGIC : N := 920085129.     (* multiboot2::MAGIC  = 0x36d76289 *)
Definition HDR_MAGIC : N := 3897708758.    (* multiboot2_header::MAGIC = 0xe85250d6 *)
Definition HDR_TAG_TYPES : N := 11.        (* multiboot2_header::HeaderTagType::count() *)
