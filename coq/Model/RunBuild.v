(* Case runners for the constructor / builder / heap-construction domains:
   ctor, hctor, build, hbuild, newboxed, clone. *)
Require Import Bytes Outcome Render Layout Common TagType Mbi MbiTags Strings MbiAccess Header HeaderTags Build
               RunCommon RunMbi RunMbiFull RunHeader.
From Coq Require Import String.
Open Scope string_scope.
Open Scope N_scope.

Definition PAD : list byte := repeatN x00 4096.   (* stand-in for unknown memory; never printed *)

Definition nth_kind (n : N) : kind := nth (N.to_nat n) all_kinds KEnd.
Definition nth_hkind (n : N) : hkind2 := nth (N.to_nat n) all_hkinds HkEnd.

Definition an (a : arg) : N := match a with AN n => n | _ => 0 end.
Definition ab (a : arg) : list byte := match a with AB b => b | _ => [] end.
Definition al (a : arg) : list arg := match a with AL l => l | _ => [] end.

Definition fbarg_of (a : list arg) : fbarg :=
  match a with
  | [AN 0; AL cols] => FaIndexed (map (fun c => match al c with [r; g; b] => (an r, an g, an b) | _ => (0, 0, 0) end) cols)
  | [AN 1; a; b; c; d; e; f] => FaRGB (an a) (an b) (an c) (an d) (an e) (an f)
  | _ => FaText
  end.

(* constructor `id` of the boot-information crate (id = tag type number; 22 = a custom
   tag built with new_boxed::<DynSizedStructure<TagHeader>>) applied to its arguments *)
(* EFIMemoryMapTag::new_from_descs(&[EFIMemoryDesc]): the descriptors' 40-byte images (4 bytes of padding behind ty,
   zero in the harness' array), descriptor size 40, version 1 *)
Definition efi_descs_bytes (descs : list arg) : list byte :=
  flat_map (fun d => match al d with
                     | [ty; ph; vi; pg; att] => (enc32 (an ty) ++ enc32 0 ++ enc64 (an ph) ++ enc64 (an vi) ++ enc64 (an pg) ++ enc64 (an att))%list
                     | _ => []
                     end) descs.

Definition run_ctor_img (p : profile) (id : N) (args : list arg) : res (list byte) :=
  let k := nth_kind id in
  let sized vals := Val (ctor_sized k vals PAD) in
  match id, args with
  | 0, [] => sized []
  | 1, [AB s] => new_cmdline p s PAD
  | 2, [AB s] => new_bootloader p s PAD
  | 3, [AN a; AN b; AB s] => new_module p a b s PAD
  | 4, [AN a; AN b] => sized [VN a; VN b]
  | 5, [AN a; AN b; AN c] => sized [VN a; VN b; VN c]
  | 6, [AL areas] => new_mmap p (map (fun x => match al x with [b; l; t] => (an b, an l, an t) | _ => (0, 0, 0) end) areas) PAD
  | 7, [AN a; AN b; AN c; AN d; AB ci; AB mi] =>
      Val (image {| sd_fields := [fHeader; fU16 "mode"; fU16 "interface_segment"; fU16 "interface_offset";
                                 fU16 "interface_length"; fBytes "control_info" 512; fBytes "mode_info" 256];
                   sd_attr_align := 8; sd_tail := None |}
                 [tag_header (kind_typ KVbe) (ctor_size KVbe); VN a; VN b; VN c; VN d; VB ci; VB mi] PAD)
  | 8, [AN a; AN b; AN c; AN d; AN e; AL f] => new_framebuffer p a b c d e (fbarg_of f) PAD
  | 9, [AN a; AN b; AN c; AB s] => new_elf p a b c s PAD
  | 10, [AN a; AN b; AN c; AN d; AN e; AN f; AN g; AN h; AN i] => sized [VN a; VN b; VN c; VN d; VN e; VN f; VN g; VN h; VN i]
  | 11, [AN a] => sized [VN a]
  | 12, [AN a] => sized [VN a]
  | 13, [AN a; AN b; AB t] => new_smbios p a b t PAD
  | 14, [AN c; AB oem; AN rev; AN rsdt] => sized [VB RSDP_SIGNATURE; VN c; VB oem; VN rev; VN rsdt]
  | 15, [AN c; AB oem; AN rev; AN rsdt; AN l; AN x; AN e] =>
      sized [VB RSDP_SIGNATURE; VN c; VB oem; VN rev; VN rsdt; VN l; VN x; VN e; VB [x00; x00; x00]]
  | 16, [AB d] => new_network p d PAD
  | 17, [AN a; AN b; AB mp] => new_efi_mmap p a b mp PAD
  | 18, [] => sized []
  | 19, [AN a] => sized [VN a]
  | 20, [AN a] => sized [VN a]
  | 21, [AN a] => sized [VN a]
  | 22, [AN typ; AB payload] =>
      new_boxed p HTagH (tdesc_generic HTagH) (enc32 typ ++ enc32 0)%list [payload] PAD
  | 23, [AL descs] => new_efi_mmap p 40 1 (efi_descs_bytes descs) PAD
  | _, _ => Fault FFuel
  end.

Definition sImg (img : list byte) : string :=
  "typ=" ++ sN (le (slice img 0 4)) ++ " size=" ++ sN (le (slice img 4 4)) ++ " sov=" ++ sN (len img)
  ++ " bytes=" ++ sBytes (slice img 0 (le (slice img 4 4))).

(* the typed view of a constructed tag: its own image as the memory, at offset 0 *)
Definition self_tref (k : kind) (img : list byte) : tref :=
  {| t_off := 0;
     t_meta := match sd_tail (kind_struct k) with
               | Some (es, _) => Some ((le (slice img 4 4) - kind_base k) / es)
               | None => None
               end |}.

(* a boxed (dynamically sized) tag: one block of size_of_val bytes, allocated and freed with alignment 8 *)
Definition box_line (img : list byte) : string :=
  line "box" ("alloc=" ++ sN (len img) ++ ",8 dealloc=" ++ sN (len img) ++ ",8").

Definition run_ctor (p : profile) (id : N) (args : list arg) : list string :=
  let r := run_ctor_img p id args in
  line "ctor" (sRes sImg r)
  :: match r with
     | Val img =>
         if (id <=? 21) || (id =? 23) then
           let k := if id =? 23 then KEfiMmap else nth_kind id in
           let m := {| m_base := 0; m_bytes := img |} in
           (line "as_bytes" (sRes (fun b => sN (len b)) (as_bytes 0 img)) :: lines_kind p k m (self_tref k img)
            ++ (match sd_tail (kind_struct k) with Some _ => [box_line img] | None => [] end))%list
         else [box_line img]
     | _ => []
     end.

(* header-crate constructors; id = header tag type number *)
Definition run_hctor_img (p : profile) (id : N) (args : list arg) : res (list byte) :=
  let k := nth_hkind id in
  match id, args with
  | 0, [] => Val (hctor_sized k 0 [] PAD)
  | 1, [AN f; AL reqs] => new_info_request p f (map an reqs) PAD
  | 2, [AN f; AN a; AN b; AN c; AN d] => Val (hctor_sized k f [VN a; VN b; VN c; VN d] PAD)
  | 3, [AN f; AN a] => Val (hctor_sized k f [VN a] PAD)
  | 4, [AN f; AN a] => Val (hctor_sized k f [VN a] PAD)
  | 5, [AN f; AN a; AN b; AN c] => Val (hctor_sized k f [VN a; VN b; VN c] PAD)
  | 6, [AN f] => Val (hctor_sized k f [] PAD)
  | 7, [AN f] => Val (hctor_sized k f [] PAD)
  | 8, [AN f; AN a] => Val (hctor_sized k f [VN a] PAD)
  | 9, [AN f; AN a] => Val (hctor_sized k f [VN a] PAD)
  | 10, [AN f; AN a; AN b; AN c; AN d] => Val (hctor_sized k f [VN a; VN b; VN c; VN d] PAD)
  | _, _ => Fault FFuel
  end.

Definition sHImg (img : list byte) : string :=
  "typ=" ++ sN (le (slice img 0 2)) ++ " flags=" ++ sN (le (slice img 2 2)) ++ " size=" ++ sN (le (slice img 4 4))
  ++ " sov=" ++ sN (len img) ++ " bytes=" ++ sBytes (slice img 0 (le (slice img 4 4))).

(* `place` = the offset the harness asks for (a field behind a u32 in a #[repr(C)] wrapper: 4);
   the type's own alignment decides where it really lands *)
Definition run_hctor (p : profile) (id : N) (place : N) (args : list arg) : list string :=
  let r := run_hctor_img p id args in
  line "hctor" (sRes sHImg r)
  :: match r with
     | Val img =>
         let k := nth_hkind id in
         let m := {| m_base := 0; m_bytes := img |} in
         let t := {| t_off := 0; t_meta := match k with HkInfoReq => Some ((le (slice img 4 4) - 8) / 4) | _ => None end |} in
         (line "as_bytes" (sRes (fun b => sN (len b)) (as_bytes (align_up place (sd_align (hkind_struct k))) img)) :: hlines_kind k m t
          ++ match k with HkInfoReq => [box_line img] | _ => [] end)%list
     | _ => []
     end.

(* build [ [id args...] ... ]: each call constructs the tag with constructor id and
   hands it to the builder method for that kind *)
Fixpoint apply_calls (p : profile) (b : builder) (calls : list arg) : res builder :=
  match calls with
  | [] => Val b
  | AL (AN id :: args) :: rest =>
      img <- run_ctor_img p id args ;;
      b' <- builder_call b id img ;;
      apply_calls p b' rest
  | _ => Fault FFuel
  end.

Definition run_build (p : profile) (calls : list arg) : list string :=
  let r := (b <- apply_calls p builder_new calls ;; builder_build p b PAD) in
  (* alloc: the layout build() asks the allocator for - the whole image, ALIGNMENT *)
  line "build" (sRes (fun img => "total=" ++ sN (le (slice img 0 4)) ++ " sov=" ++ sN (len img)
                                 ++ " alloc=" ++ sN (len img) ++ "," ++ sN 8 ++ " head=" ++ sBytes (slice img 0 8)) r)
  :: match r with Val img => run_mbi p img | _ => [] end.

Fixpoint happly_calls (p : profile) (b : hbuilder) (calls : list arg) : res hbuilder :=
  match calls with
  | [] => Val b
  | AL (AN id :: args) :: rest =>
      img <- run_hctor_img p id args ;;
      happly_calls p (hbuilder_call b id img) rest
  | _ => Fault FFuel
  end.

Definition run_hbuild (p : profile) (arch : N) (calls : list arg) : list string :=
  let r := (b <- happly_calls p (hbuilder_new arch) calls ;; hbuilder_build p b PAD) in
  line "hbuild" (sRes (fun img => "length=" ++ sN (le (slice img 8 4)) ++ " sov=" ++ sN (len img)
                                  ++ " last8=" ++ sBytes (slice img (len img - 8) 8)
                                  ++ " alloc=" ++ sN (len img) ++ "," ++ sN 8 ++ " head=" ++ sBytes (slice img 0 16)) r)
  :: match r with Val img => run_hdr p img | _ => [] end.

(* newboxed <hkind 0|1|2> <header bytes> [ slices ]: new_boxed::<DynSizedStructure<H>> and the
   allocator events: one allocation, one deallocation with the same layout *)
Definition run_newboxed (p : profile) (h : hkind) (hdr : list byte) (slices : list arg) : list string :=
  let r := new_boxed p h (tdesc_generic h) hdr (map ab slices) PAD in
  [ line "new_boxed"
      (sRes (fun img =>
               let total := stored_size h (slice img 0 (hsize h)) in
               "sov=" ++ sN (len img) ++ " plen=" ++ sN (total - hsize h) ++ " hdr=" ++ sBytes (slice img 0 (hsize h))
               ++ " content=" ++ sBytes (slice img (hsize h) (total - hsize h))
               ++ " alloc=" ++ sN (len img) ++ ",8 dealloc=" ++ sN (len img) ++ ",8") r) ].

(* clone <ctor id> args: clone_dyn of the constructed (dynamically sized) tag *)
Definition run_clone (p : profile) (id : N) (args : list arg) : list string :=
  let k := nth_kind id in
  let T := if id =? 22 then tdesc_generic HTagH else kind_tdesc k in
  let r := (img <- run_ctor_img p id args ;; c <- clone_dyn p HTagH T img PAD ;; Val (img, c)) in
  [ line "clone" (sRes (fun x => "orig " ++ sImg (fst x) ++ " clone " ++ sImg (snd x)) r) ].

(* cloneparsed <region>: clone_dyn of the first tag of every dynamically sized kind of a LOADED boot information
   (its padding is whatever the boot loader left there) *)
Definition clone_kinds : list kind := [KCmdline; KBootLoaderName; KModule; KMmap; KFramebuffer; KElfSections; KSmbios; KNetwork; KEfiMmap].
Definition run_cloneparsed (p : profile) (bs : list byte) : list string :=
  let m := {| m_base := 0; m_bytes := bs |} in
  match mbi_load p false m with
  | Val r =>
      map (fun k =>
             line "clone" (sN (kind_typ k) ++ " " ++
               match get_tag p k m r with
               | Val (Some t) =>
                   let img := slice bs (t_off t) (tref_size_of_val k t) in
                   sRes (fun c => "orig " ++ sImg img ++ " clone " ++ sImg c) (clone_dyn p HTagH (kind_tdesc k) img PAD)
               | Val None => "none"
               | x => sRes (fun _ => "") x
               end)) clone_kinds
  | _ => [line "clone" "noload"]
  end.
