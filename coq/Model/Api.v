(* Dispatcher of the model side of the correspondence check:
   one case = a domain name and a list of generic arguments; the result is the
   canonical transcript (one string per line). *)
Require Import Bytes Outcome Render Layout Common TagType UserTypes RunCommon RunMbi RunMbiFull RunHeader RunBuild Sparse Big TagEq.
From Coq Require Import String.
Open Scope string_scope.

Definition bad : list string := ["BADARGS"].

Definition run_case (pn : N) (dom : string) (args : list arg) : list string :=
  let p := prof_of pn in
  if dom =? "c14" then
    match args with [AN h; AN a; AB bs] => run_c14 p (hkind_of h) a bs | _ => bad end
  else if dom =? "align" then
    match args with [AN n] => run_align p n | _ => bad end
  else if dom =? "conv" then
    match args with [AN x] => run_conv x | _ => bad end
  else if dom =? "conveq" then
    match args with [AN x; AN y] => run_conveq x y | _ => bad end
  else if dom =? "conveqc" then
    match args with [AN x; AN y] => run_conveqc x y | _ => bad end
  else if dom =? "elfty" then
    match args with [AN x] => run_elfty x | _ => bad end
  else if dom =? "fb" then
    match args with [AN x] => run_fb x | _ => bad end
  else if dom =? "magic" then run_magic
  else if dom =? "mbiwalk" then
    match args with [AB bs] => run_mbi_walk p bs | _ => bad end
  else if dom =? "mbi" then
    match args with [AB bs] => run_mbi p bs | _ => bad end
  else if dom =? "elfname" then
    match args with [AB bs; AN eb; AB ebs] => run_elfname p bs eb ebs | _ => bad end
  else if dom =? "pstr" then
    match args with [AB bs] => run_pstr bs | _ => bad end
  else if dom =? "gettag" then
    match args with [AN sel; AB bs] => run_gettag p sel bs | _ => bad end
  else if dom =? "mbinull" then run_mbinull p
  else if dom =? "mbimis" then
    match args with [AN a; AB bs] => run_mbimis p a bs | _ => bad end
  else if dom =? "hdrmis" then
    match args with [AN a; AB bs] => run_hdrmis p a bs | _ => bad end
  else if dom =? "iters" then
    match args with [AB bs; AL ops] => run_iters p bs ops | _ => bad end
  else if dom =? "hiters" then
    match args with [AB bs; AL ops] => run_hiters p bs ops | _ => bad end
  else if dom =? "hdrhuge" then
    match args with [AB h] => run_hdrhuge h | _ => bad end
  else if dom =? "mbihuge" then
    match args with [AB h; AB l] => run_mbihuge h l | _ => bad end
  else if dom =? "findhuge" then
    match args with [AN L; AB pre] => run_findhuge L pre | _ => bad end
  else if dom =? "cloneparsed" then
    match args with [AB bs] => run_cloneparsed p bs | _ => bad end
  else if dom =? "tageq" then
    match args with [AB b1; AB b2] => run_tageq p b1 b2 | _ => bad end
  else if dom =? "bigelf" then
    match args with [AN n; AN sh; AB e] => run_bigelf n sh e | _ => bad end
  else if dom =? "hbigwalk" then
    match args with [AN n; AB tag] => run_hbigwalk n tag | _ => bad end
  else if dom =? "bigwalk" then
    match args with [AN n; AB tag] => run_bigwalk n tag | _ => bad end
  else if dom =? "hdrwalk" then
    match args with [AB bs] => run_hdr_walk p bs | _ => bad end
  else if dom =? "hdr" then
    match args with [AB bs] => run_hdr p bs | _ => bad end
  else if dom =? "hdrnull" then run_hdrnull p
  else if dom =? "find" then
    match args with [AN a; AB bs] => run_find p a bs | _ => bad end
  else if dom =? "verify" then
    match args with [AB bs] => run_verify bs | _ => bad end
  else if dom =? "cksum" then
    match args with [AN m; AN a; AN l] => run_cksum m a l | _ => bad end
  else if dom =? "cast" then
    match args with
    | [AN 0; AN k; AB bs] => run_cast p (user_sized k) bs
    | [AN 1; AN F; AN es; AN ea; AB bs] => run_cast p (user_dst F es ea) bs
    | [AN 2; AN k; AN al; AB bs] => run_cast p (user_sized_al k al) bs
    | _ => bad
    end
  else if dom =? "ctor" then
    match args with AN id :: rest => run_ctor p id rest | _ => bad end
  else if dom =? "hctor" then
    match args with AN id :: AN place :: rest => run_hctor p id place rest | _ => bad end
  else if dom =? "build" then
    match args with [AL calls] => run_build p calls | _ => bad end
  else if dom =? "hbuild" then
    match args with [AN arch; AL calls] => run_hbuild p arch calls | _ => bad end
  else if dom =? "newboxed" then
    match args with [AN h; AB hdr; AL slices] => run_newboxed p (hkind_of h) hdr slices | _ => bad end
  else if dom =? "clone" then
    match args with AN id :: rest => run_clone p id rest | _ => bad end
  else ["BADDOMAIN"].
