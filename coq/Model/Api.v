(* Dispatcher of the model side of the correspondence check:
   one case = a domain name and a list of generic arguments; the result is the
   canonical transcript (one string per line). *)
Require Import Bytes Outcome Render Common TagType RunCommon RunMbi RunHeader.
From Coq Require Import String.
Open Scope string_scope.

Definition bad : list string := ["BADARGS"].

Definition run_case (pn : N) (dom : string) (args : list arg) : list string :=
  let p := prof_of pn in
  if dom =? "c14" then
    match args with [AN h; AN a; AB bs] => run_c14 p (hkind_of h) a bs | _ => bad end
  else if dom =? "align" then
    match args with [AN n] => run_align p n | _ => bad end
  else if dom =? "conv" then
    match args with [AN x] => run_conv x | _ => bad end
  else if dom =? "conveq" then
    match args with [AN x; AN y] => run_conveq x y | _ => bad end
  else if dom =? "elfty" then
    match args with [AN x] => run_elfty x | _ => bad end
  else if dom =? "fb" then
    match args with [AN x] => run_fb x | _ => bad end
  else if dom =? "magic" then run_magic
  else if dom =? "mbiwalk" then
    match args with [AB bs] => run_mbi_walk p bs | _ => bad end
  else if dom =? "mbinull" then run_mbinull p
  else if dom =? "iters" then
    match args with [AB bs; AL ops] => run_iters p bs ops | _ => bad end
  else if dom =? "hdrwalk" then
    match args with [AB bs] => run_hdr_walk p bs | _ => bad end
  else if dom =? "hdrnull" then run_hdrnull p
  else if dom =? "find" then
    match args with [AN a; AB bs] => run_find p a bs | _ => bad end
  else if dom =? "cksum" then
    match args with [AN m; AN a; AN l] => run_cksum m a l | _ => bad end
  else ["BADDOMAIN"].
