(* Model of the typed accessors of the boot-information tags: strings, module,
   memory map, EFI memory map iterator, ELF section iterator, framebuffer
   buffer_type, RSDP checksums, typed getters with their special rules. *)
Require Import Bytes Outcome Layout Common TagType Mbi MbiTags Strings.
From Coq Require Import String.
Open Scope string_scope.
Open Scope N_scope.

Definition tail_bytes (k : kind) (m : mem) (t : tref) : list byte :=
  slice (m_bytes m) (tail_off k t) (tail_count t * tail_esize k).

(* ---- string tags ---------------------------------------------------------- *)
(* cmdline() / name(): parse_slice_as_string(&self.<tail>) ; the &str as (offset, length) *)
Definition tag_str (k : kind) (m : mem) (t : tref) : res (N * N) :=
  n <- parse_str (tail_bytes k m t) ;; Val (tail_off k t, n).

(* ---- module ------------------------------------------------------------------ *)
Definition module_size (m : mem) (t : tref) : N :=
  let s := fld KModule m t "mod_start" in let e := fld KModule m t "mod_end" in
  if s <=? e then e - s else 0.                       (* saturating_sub *)

(* ---- memory map -------------------------------------------------------------- *)
(* memory_areas(): assert_eq!(entry_size, size_of::<MemoryArea>()) ; &self.areas *)
Definition mmap_areas (m : mem) (t : tref) : res (N * N) :=
  _ <- assert (fld KMmap m t "entry_size" =? 24) ;;
  Val (tail_off KMmap t, tail_count t).
Definition sat_add64 (a b : N) : N := N.min (a + b) (pow2_64 - 1).

(* ---- EFI memory map ------------------------------------------------------------ *)
Record efi_iter := { ei_tag : tref; ei_i : N; ei_entries : N }.

Definition efi_memory_areas (m : mem) (t : tref) : res efi_iter :=
  _ <- assert (fld KEfiMmap m t "desc_version" =? 1) ;;
  _ <- assert ((m_base m + tail_off KEfiMmap t) mod 8 =? 0) ;;
  let d := fld KEfiMmap m t "desc_size" in
  let l := tail_count t in
  _ <- assert (40 <=? d) ;;
  _ <- assert (d mod 8 =? 0) ;;
  _ <- assert (l mod d =? 0) ;;
  Val {| ei_tag := t; ei_i := 0; ei_entries := l / d |}.

(* next(): the descriptor as a 40-byte view (raw-pointer read) *)
Definition efi_next (p : profile) (m : mem) (it : efi_iter) : res (option N * efi_iter) :=
  if ei_entries it <=? ei_i it then Val (None, it) else
  let d := fld KEfiMmap m (ei_tag it) "desc_size" in
  o <- umul p (ei_i it) d ;;
  let off := tail_off KEfiMmap (ei_tag it) + o in
  _ <- mrd m off 40 ;;
  i' <- uadd p (ei_i it) 1 ;;
  Val (Some off, {| ei_tag := ei_tag it; ei_i := i'; ei_entries := ei_entries it |}).
Definition efi_len (p : profile) (it : efi_iter) : res N := usub p (ei_entries it) (ei_i it).

(* ---- ELF sections ----------------------------------------------------------------- *)
Record elf_iter := { el_cur : N; el_rem : N; el_es : N; el_str : N }.
Record elf_section := { es_inner : N; es_str : N; es_es : N }.

Definition elf_sections (p : profile) (m : mem) (t : tref) : res elf_iter :=
  let n := fld KElfSections m t "number_of_sections" in
  let es := fld KElfSections m t "entry_size" in
  let sh := fld KElfSections m t "shndx" in
  _ <- assert (n * es <=? tail_count t) ;;
  _ <- assert ((n =? 0) || (sh <? n)) ;;
  let so := if n =? 0 then 0 else sh * es in
  Val {| el_cur := tail_off KElfSections t; el_rem := n; el_es := es; el_str := tail_off KElfSections t + so |}.

(* ElfSection::get(): which layout; a raw read of the whole entry *)
Definition elf_get (m : mem) (s : elf_section) : res (list byte) :=
  if es_es s =? 40 then mrd m (es_inner s) 40
  else if es_es s =? 64 then mrd m (es_inner s) 64
  else Panic.
Definition elf_field (m : mem) (s : elf_section) (o32 w32 o64 w64 : N) : res N :=
  e <- elf_get m s ;;
  Val (if es_es s =? 40 then le (slice e o32 w32) else le (slice e o64 w64)).
Definition elf_name_index m s := elf_field m s 0 4 0 4.
Definition elf_typ m s := elf_field m s 4 4 4 4.
Definition elf_flags_raw m s := elf_field m s 8 4 8 8.
Definition elf_addr m s := elf_field m s 12 4 16 8.
Definition elf_size m s := elf_field m s 20 4 32 8.
Definition elf_addralign m s := elf_field m s 32 4 48 8.
Definition elf_flags m s := f <- elf_flags_raw m s ;; Val (N.land f 7).     (* from_bits_truncate *)
Definition elf_end_address m s := a <- elf_addr m s ;; z <- elf_size m s ;; Val (sat_add64 a z).
Definition elf_section_type_of m s := ty <- elf_typ m s ;; Val (elf_section_type ty).
(* string_table(): the address stored in the string-table entry *)
Definition elf_string_table (m : mem) (s : elf_section) : res N :=
  elf_addr m {| es_inner := es_str s; es_str := es_str s; es_es := es_es s |}.
(* name(): the external address that would be dereferenced *)
Definition elf_name_addr (p : profile) (m : mem) (s : elf_section) : res N :=
  st <- elf_string_table m s ;; ni <- elf_name_index m s ;; Val ((st + ni) mod pow2_64).

(* ---- ELF section names: the one documented read outside the region ----------------------------------
   ext: the external memory the string table lives in, absolute addresses [m_base, m_base + len).
   name(): strlen from string_table() + name_index, then from_utf8 of the bytes before the NUL. *)
Definition ext_cstr (ext : mem) (a : N) : res (list byte) :=
  if (m_base ext <=? a) && (a <? m_base ext + len (m_bytes ext)) then
    let tl := slice (m_bytes ext) (a - m_base ext) (len (m_bytes ext) - (a - m_base ext)) in
    match index_nul tl with
    | Some i => Val (slice tl 0 i)
    | None => Fault FOob        (* strlen runs off the external mapping *)
    end
  else Fault FOob.
Definition elf_name (p : profile) (m ext : mem) (s : elf_section) : res (list byte) :=
  a <- elf_name_addr p m s ;; bs <- ext_cstr ext a ;; if utf8_valid bs then Val bs else Err EUtf8.

Definition is_unused (t : elftype) : bool := match t with EUnused => true | _ => false end.

Fixpoint elf_next (fuel : nat) (p : profile) (m : mem) (it : elf_iter) : res (option elf_section * elf_iter) :=
  match fuel with
  | O => Fault FFuel
  | S f =>
      if el_rem it =? 0 then Val (None, it) else
      let s := {| es_inner := el_cur it; es_str := el_str it; es_es := el_es it |} in
      let it' := {| el_cur := el_cur it + el_es it; el_rem := el_rem it - 1; el_es := el_es it; el_str := el_str it |} in
      ty <- elf_section_type_of m s ;;
      if is_unused ty then elf_next f p m it' else Val (Some s, it')
  end.
(* next() can only skip entries when the entry size is 40 or 64 (any other size panics at the first
   entry), so that many steps suffice *)
Definition elf_steps (it : elf_iter) : N := if (el_es it =? 40) || (el_es it =? 64) then el_rem it else 1.
Definition elf_fuel (it : elf_iter) : nat := S (N.to_nat (elf_steps it)).

(* ---- framebuffer ----------------------------------------------------------------------- *)
Inductive fbtype :=
| FbtIndexed (pal_off : N) (ncolors : N)
| FbtRGB (rp rs gp gs bp bs : N)
| FbtText.

(* Reader::read_next_u8: buffer.get(off).expect(..) *)
Definition rd_u8 (buf : list byte) (off : N) : res N :=
  if off <? len buf then Val (le (slice buf off 1)) else Panic.

Definition fb_buffer_type (m : mem) (t : tref) : res fbtype :=
  let buf := tail_bytes KFramebuffer m t in
  id <- fb_try_from (fld KFramebuffer m t "framebuffer_type") ;;
  match id with
  | FbIndexed =>
      lo <- rd_u8 buf 0 ;; hi <- rd_u8 buf 1 ;;
      let n := hi * 256 + lo in
      _ <- assert (n * 3 <=? len buf - 2) ;;
      Val (FbtIndexed (tail_off KFramebuffer t + 2) n)
  | FbRGB =>
      a <- rd_u8 buf 0 ;; b <- rd_u8 buf 1 ;; c <- rd_u8 buf 2 ;;
      d <- rd_u8 buf 3 ;; e <- rd_u8 buf 4 ;; f <- rd_u8 buf 5 ;;
      Val (FbtRGB a b c d e f)
  | FbText => Val FbtText
  end.

(* ---- RSDP ---------------------------------------------------------------------------------- *)
Definition sum8 (bs : list byte) : N := fold_left (fun acc b => (acc + bN b) mod 256) bs 0.
Definition rsdp1_checksum_valid (m : mem) (t : tref) : res bool :=
  bytes <- mrd m (t_off t) 28 ;; Val (sum8 (slice bytes 8 20) =? 0).
Definition rsdp2_checksum_valid (m : mem) (t : tref) : res bool :=
  let l := fld KAcpiV2 m t "length" in
  if 36 <? l then Val false else
  bytes <- mrd m (t_off t) (l + 8) ;; Val (sum8 (slice bytes 8 l) =? 0).

(* ---- VBE: the one enum-typed field -------------------------------------------------------- *)
Definition vbe_memory_model (m : mem) (t : tref) : res N :=
  let v := fld KVbe m t "mi.memory_model" in if v <=? 7 then Val v else Fault FEnum.

(* ---- getters with special rules ------------------------------------------------------------ *)
Definition efi_memory_map_tag (p : profile) (m : mem) (r : dref) : res (option tref) :=
  bs <- get_tag p KEfiBs m r ;;
  match bs with Some _ => Val None | None => get_tag p KEfiMmap m r end.

(* framebuffer_tag(): Option<Result<&FramebufferTag, UnknownFramebufferType>> *)
Definition framebuffer_tag (p : profile) (m : mem) (r : dref) : res (option (res tref)) :=
  x <- get_tag p KFramebuffer m r ;;
  match x with
  | None => Val None
  | Some t =>
      match fb_buffer_type m t with
      | Val _ => Val (Some (Val t))
      | Err e => Val (Some (Err e))
      | Panic => Panic
      | Fault f => Fault f
      end
  end.

(* run an EFI memory-area iterator to its end: the descriptor offsets produced *)
Fixpoint efi_collect (fuel : nat) (p : profile) (m : mem) (it : efi_iter) : list N * res unit :=
  match fuel with
  | O => ([], Fault FFuel)
  | S f =>
      match efi_next p m it with
      | Val (None, _) => ([], Val tt)
      | Val (Some off, it') => let (l, e) := efi_collect f p m it' in (off :: l, e)
      | Err e => ([], Err e)
      | Panic => ([], Panic)
      | Fault x => ([], Fault x)
      end
  end.

(* run an ELF section iterator to its end *)
Fixpoint elf_collect (fuel : nat) (p : profile) (m : mem) (it : elf_iter) : list elf_section * res unit :=
  match fuel with
  | O => ([], Fault FFuel)
  | S f =>
      match elf_next (elf_fuel it) p m it with
      | Val (None, _) => ([], Val tt)
      | Val (Some s, it') => let (l, e) := elf_collect f p m it' in (s :: l, e)
      | Err e => ([], Err e)
      | Panic => ([], Panic)
      | Fault x => ([], Fault x)
      end
  end.

(* ---- provided Iterator methods (nth, count): the trait defaults are iterated next() calls; nth(k) stops at the
   first None, a panic propagates ------------------------------------------------------------------------- *)
Fixpoint efi_nth (p : profile) (m : mem) (it : efi_iter) (k : nat) : res (option N * efi_iter) :=
  match efi_next p m it with
  | Val (Some x, it') => match k with O => Val (Some x, it') | S k' => efi_nth p m it' k' end
  | r => r
  end.
Fixpoint elf_nth (p : profile) (m : mem) (it : elf_iter) (k : nat) : res (option elf_section * elf_iter) :=
  match elf_next (elf_fuel it) p m it with
  | Val (Some x, it') => match k with O => Val (Some x, it') | S k' => elf_nth p m it' k' end
  | r => r
  end.
