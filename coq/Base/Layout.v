(* The repr(C) layout algorithm of the Rust Reference ("Type layout"), applied
   to transcriptions of the crates' struct declarations.  Nothing in the model
   hard-codes a field offset: offsets, sizes and alignments are computed here. *)
Require Import Bytes.
From Coq Require Import String.

(* a field: name, size and alignment of its type.  Fields of a nested
   #[repr(C, packed)] struct are flattened with alignment 1. *)
Record field := { f_name : string; f_size : N; f_align : N }.

Definition fU8 (n : string) := {| f_name := n; f_size := 1; f_align := 1 |}.
Definition fU16 (n : string) := {| f_name := n; f_size := 2; f_align := 2 |}.
Definition fU32 (n : string) := {| f_name := n; f_size := 4; f_align := 4 |}.
Definition fU64 (n : string) := {| f_name := n; f_size := 8; f_align := 8 |}.
Definition fBytes (n : string) (k : N) := {| f_name := n; f_size := k; f_align := 1 |}.
(* packed variants *)
Definition pU16 (n : string) := {| f_name := n; f_size := 2; f_align := 1 |}.
Definition pU32 (n : string) := {| f_name := n; f_size := 4; f_align := 1 |}.
(* a nested struct field with its own size and alignment (e.g. TagHeader: 8, 8) *)
Definition fStruct (n : string) (sz al : N) := {| f_name := n; f_size := sz; f_align := al |}.

Definition align_up (x a : N) : N := ((x + a - 1) / a) * a.

(* offsets of the fields laid out from offset `off`; the end offset *)
Fixpoint layout (fs : list field) (off : N) : list (string * N * N) * N :=
  match fs with
  | [] => ([], off)
  | f :: r =>
      let o := align_up off (f_align f) in
      let '(l, e) := layout r (o + f_size f) in
      ((f_name f, o, f_size f) :: l, e)
  end.

Fixpoint max_align (fs : list field) : N :=
  match fs with [] => 1 | f :: r => N.max (f_align f) (max_align r) end.

(* a struct: fields, the `align(N)` attribute (1 when absent), and an
   optional unsized tail `[T]` given by element size and alignment *)
Record sdesc := {
  sd_fields : list field;
  sd_attr_align : N;
  sd_tail : option (N * N)
}.

Definition sd_offsets (d : sdesc) : list (string * N * N) := fst (layout (sd_fields d) 0).
Definition sd_fixed_end (d : sdesc) : N := snd (layout (sd_fields d) 0).
Definition sd_align (d : sdesc) : N :=
  N.max (sd_attr_align d)
        (N.max (max_align (sd_fields d)) (match sd_tail d with Some (_, a) => a | None => 1 end)).
Definition sd_tail_off (d : sdesc) : N :=
  match sd_tail d with Some (_, a) => align_up (sd_fixed_end d) a | None => sd_fixed_end d end.

(* size_of::<T>() for a sized struct; size_of_val for a DST with n tail elements *)
Definition sd_size_of (d : sdesc) : N := align_up (sd_fixed_end d) (sd_align d).
Definition sd_size_of_val (d : sdesc) (n : option N) : N :=
  match sd_tail d, n with
  | Some (es, _), Some n => align_up (sd_tail_off d + n * es) (sd_align d)
  | _, _ => sd_size_of d
  end.

(* offset and width of a named field *)
Fixpoint lookup (name : string) (l : list (string * N * N)) : option (N * N) :=
  match l with
  | [] => None
  | (n, o, w) :: r => if String.eqb n name then Some (o, w) else lookup name r
  end.
Definition field_ow (d : sdesc) (name : string) : N * N :=
  match lookup name (sd_offsets d) with Some x => x | None => (0, 0) end.
