(* Canonical transcript rendering (shared by the extracted oracle and the
   in-Coq cross-check) and the generic case-argument type. *)
Require Import Bytes Outcome.
From Coq Require Import String Ascii DecimalString.
Open Scope string_scope.

Inductive arg := AN (n : N) | AB (bs : list byte) | AL (l : list arg).

Definition sN (n : N) : string := NilEmpty.string_of_uint (N.to_uint n).

Definition hexdigit (n : N) : ascii :=
  match n with
  | 0%N => "0" | 1%N => "1" | 2%N => "2" | 3%N => "3" | 4%N => "4" | 5%N => "5" | 6%N => "6" | 7%N => "7"
  | 8%N => "8" | 9%N => "9" | 10%N => "a" | 11%N => "b" | 12%N => "c" | 13%N => "d" | 14%N => "e" | _ => "f"
  end%char.

Fixpoint sHex (bs : list byte) : string :=
  match bs with
  | [] => ""
  | b :: r => String (hexdigit (bN b / 16)) (String (hexdigit (bN b mod 16)) (sHex r))
  end.
Definition sBytes (bs : list byte) : string := "x" ++ sHex bs.

Definition sBool (b : bool) : string := if b then "true" else "false".

Definition sErr (e : err) : string :=
  match e with
  | ENull => "Null" | EWrongAlignment => "WrongAlignment" | EShorterThanHeader => "ShorterThanHeader"
  | EMissingPadding => "MissingPadding" | EInvalidReportedTotalSize => "InvalidReportedTotalSize"
  | ENoEndTag => "NoEndTag" | EMagicNotFound => "MagicNotFound" | EChecksumMismatch => "ChecksumMismatch"
  | EMissingNul => "MissingNul" | EUtf8 => "Utf8"
  | EUnknownFb b => "UnknownFb(" ++ sN b ++ ")"
  end.

(* "VAL <payload>" | "ERR <kind>" | "PANIC" | "UB" *)
Definition sRes {A} (f : A -> string) (r : res A) : string :=
  match r with
  | Val a => "VAL " ++ f a
  | Err e => "ERR " ++ sErr e
  | Panic => "PANIC"
  | Fault _ => "UB"
  end.

Definition sView (off n : N) : string := "@" ++ sN off ++ "+" ++ sN n.

Fixpoint sJoin (sep : string) (l : list string) : string :=
  match l with
  | [] => ""
  | [x] => x
  | x :: r => x ++ sep ++ sJoin sep r
  end.

Definition sList {A} (f : A -> string) (l : list A) : string := "[" ++ sJoin "," (map f l) ++ "]".
Definition sOpt {A} (f : A -> string) (o : option A) : string :=
  match o with None => "none" | Some a => "some " ++ f a end.

Definition line (key : string) (v : string) : string := key ++ " " ++ v.
