(* Bytes, little-endian codecs, slices.  Definitions only; lemmas are in
   Proofs/BytesFacts.v so that the model still runs when a proof breaks. *)
From Coq Require Export NArith List.
From Coq Require Export Strings.Byte.
Export ListNotations.
From Coq Require Export Bool.
Open Scope bool_scope.
Open Scope N_scope.

Arguments N.add : simpl never.
Arguments N.sub : simpl never.
Arguments N.mul : simpl never.
Arguments N.div : simpl never.
Arguments N.modulo : simpl never.
Arguments N.eqb : simpl never.
Arguments N.ltb : simpl never.
Arguments N.leb : simpl never.
Arguments N.pow : simpl never.
Arguments N.land : simpl never.
Arguments N.lor : simpl never.
Arguments N.shiftl : simpl never.
Arguments N.shiftr : simpl never.

Definition byte := Byte.byte.
Definition bN (b : byte) : N := Byte.to_N b.
Definition byte_of (n : N) : byte :=
  match Byte.of_N (n mod 256) with Some b => b | None => x00 end.

Definition len {A} (l : list A) : N := N.of_nat (length l).

(* sub-list [off, off+n) ; shorter when the list ends earlier *)
Definition slice {A} (l : list A) (off n : N) : list A :=
  firstn (N.to_nat n) (skipn (N.to_nat off) l).

(* little-endian decode of any number of bytes *)
Fixpoint le (bs : list byte) : N :=
  match bs with [] => 0 | b :: r => bN b + 256 * le r end.

(* little-endian encode into exactly k bytes (value taken modulo 2^(8k)) *)
Fixpoint enc (k : nat) (n : N) : list byte :=
  match k with O => [] | S k' => byte_of n :: enc k' (n / 256) end.

Definition enc8 := enc 1.
Definition enc16 := enc 2.
Definition enc32 := enc 4.
Definition enc64 := enc 8.

Definition byte_eqb (a b : byte) : bool := Byte.eqb a b.
Fixpoint bytes_eqb (a b : list byte) : bool :=
  match a, b with
  | [], [] => true
  | x :: a', y :: b' => byte_eqb x y && bytes_eqb a' b'
  | _, _ => false
  end.

Definition pow2_32 : N := 4294967296.
Definition pow2_64 : N := 18446744073709551616.

(* rounding up to the next multiple of 8, on unbounded naturals *)
Definition round8 (n : N) : N := 8 * ((n + 7) / 8).

Fixpoint sumN (l : list N) : N := match l with [] => 0 | x :: r => x + sumN r end.

Definition repeatN {A} (x : A) (n : N) : list A := repeat x (N.to_nat n).
