(* Outcome classes and profile-dependent machine arithmetic. *)
Require Import Bytes.

(* Error kinds of the three crates (MemoryError, LoadError of both crates,
   StringError, UnknownFramebufferType) in one enumeration. *)
Inductive err :=
| ENull | EWrongAlignment | EShorterThanHeader | EMissingPadding | EInvalidReportedTotalSize
| ENoEndTag | EMagicNotFound | EChecksumMismatch
| EMissingNul | EUtf8
| EUnknownFb (b : N).

(* Forbidden outcomes.  FOob: a raw-pointer read outside the memory the caller
   made valid.  FEnum: a value that is not a declared discriminant is
   materialised at a fieldless-enum type (undefined behaviour in Rust).
   FFuel: a fuelled loop of the model ran out of fuel (never happens; each
   fuelled function comes with a lemma saying so). *)
Inductive fault := FOob | FEnum | FFuel.

Inductive res (A : Type) :=
| Val (a : A)
| Err (e : err)
| Panic
| Fault (f : fault).
Arguments Val {A} a.
Arguments Err {A} e.
Arguments Panic {A}.
Arguments Fault {A} f.

Definition bind {A B} (r : res A) (f : A -> res B) : res B :=
  match r with
  | Val a => f a
  | Err e => Err e
  | Panic => Panic
  | Fault x => Fault x
  end.
Notation "x <- r ;; k" := (bind r (fun x => k)) (at level 61, r at next level, right associativity).

Definition rmap {A B} (f : A -> B) (r : res A) : res B := bind r (fun a => Val (f a)).

(* `.unwrap()` / `.expect()` on a Result *)
Definition unwrap {A} (r : res A) : res A :=
  match r with Err _ => Panic | x => x end.

Definition assert (b : bool) : res unit := if b then Val tt else Panic.

Definition is_fault {A} (r : res A) : bool := match r with Fault _ => true | _ => false end.
Definition is_panic {A} (r : res A) : bool := match r with Panic => true | _ => false end.
Definition is_val {A} (r : res A) : bool := match r with Val _ => true | _ => false end.

(* Build profile: overflow checks on (dev) or off (release). *)
Inductive profile := Dev | Release.

(* usize / u64 arithmetic of a 64-bit target, u32 arithmetic.  Operands are
   assumed to be in range (they always come from decoded fields or from earlier
   results of these operations). *)
Definition add_w (w : N) (p : profile) (a b : N) : res N :=
  if a + b <? w then Val (a + b)
  else match p with Dev => Panic | Release => Val ((a + b) mod w) end.
Definition sub_w (w : N) (p : profile) (a b : N) : res N :=
  if b <=? a then Val (a - b)
  else match p with Dev => Panic | Release => Val ((a + w - b) mod w) end.
Definition mul_w (w : N) (p : profile) (a b : N) : res N :=
  if a * b <? w then Val (a * b)
  else match p with Dev => Panic | Release => Val ((a * b) mod w) end.

Definition uadd := add_w pow2_64.
Definition usub := sub_w pow2_64.
Definition umul := mul_w pow2_64.
Definition add32 := add_w pow2_32.
Definition sub32 := sub_w pow2_32.
Definition mul32 := mul_w pow2_32.
Definition add64 := add_w pow2_64.

(* raw-pointer read of n bytes at offset off of the memory `buf` the caller
   made valid: outside it, the read is a fault *)
Definition rd (buf : list byte) (off n : N) : res (list byte) :=
  if off + n <=? len buf then Val (slice buf off n) else Fault FOob.

(* bounds-checked slicing `&s[from..to]` of a slice of length l *)
Definition idx_range (l from to : N) : res unit :=
  assert ((from <=? to) && (to <=? l)).
