(* Tie: the struct descriptions, BASE_SIZE constants and Tag::ID of the 22 boot-information tag kinds in the
   hand-written model (Model/MbiTags.v, Model/Common.v) agree with what rs2coq generated from the Rust
   declarations of the working tree. *)
Require Import Bytes Outcome Layout Common TagType Mbi MbiTags.
From MB2Tie Require Import Src TieLib.
From Coq Require Import List NArith Bool String.
Import ListNotations.
Open Scope N_scope.

(* the five Header types: size_of and the position of the stored size field *)
Lemma tie_tagheader : sd_sig src_struct_TagHeader = ([(0, 4); (4, 4)], 8, hsize HTagH, 8, None).
Proof. reflexivity. Qed.
Lemma tie_bootheader : sd_sig src_struct_BootInformationHeader = ([(0, 4); (4, 4)], 8, hsize HBootH, 8, None).
Proof. reflexivity. Qed.
Lemma tie_alignment : src_multiboot2_common_ALIGNMENT = 8.
Proof. reflexivity. Qed.

Definition src_of_kind (k : kind) : sdesc * N * tagtype :=
  match k with
  | KEnd => (src_struct_EndTag, src_const_EndTag_BASE_SIZE_trait, src_const_EndTag_ID_trait)
  | KCmdline => (src_struct_CommandLineTag, src_const_CommandLineTag_BASE_SIZE_trait, src_const_CommandLineTag_ID_trait)
  | KBootLoaderName => (src_struct_BootLoaderNameTag, src_const_BootLoaderNameTag_BASE_SIZE_trait, src_const_BootLoaderNameTag_ID_trait)
  | KModule => (src_struct_ModuleTag, src_const_ModuleTag_BASE_SIZE_trait, src_const_ModuleTag_ID_trait)
  | KBasicMeminfo => (src_struct_BasicMemoryInfoTag, src_const_BasicMemoryInfoTag_BASE_SIZE_trait, src_const_BasicMemoryInfoTag_ID_trait)
  | KBootdev => (src_struct_BootdevTag, src_const_BootdevTag_BASE_SIZE_trait, src_const_BootdevTag_ID_trait)
  | KMmap => (src_struct_MemoryMapTag, src_const_MemoryMapTag_BASE_SIZE_trait, src_const_MemoryMapTag_ID_trait)
  | KVbe => (src_struct_VBEInfoTag, src_const_VBEInfoTag_BASE_SIZE_trait, src_const_VBEInfoTag_ID_trait)
  | KFramebuffer => (src_struct_FramebufferTag, src_const_FramebufferTag_BASE_SIZE_trait, src_const_FramebufferTag_ID_trait)
  | KElfSections => (src_struct_ElfSectionsTag, src_const_ElfSectionsTag_BASE_SIZE_trait, src_const_ElfSectionsTag_ID_trait)
  | KApm => (src_struct_ApmTag, src_const_ApmTag_BASE_SIZE_trait, src_const_ApmTag_ID_trait)
  | KEfi32 => (src_struct_EFISdt32Tag, src_const_EFISdt32Tag_BASE_SIZE_trait, src_const_EFISdt32Tag_ID_trait)
  | KEfi64 => (src_struct_EFISdt64Tag, src_const_EFISdt64Tag_BASE_SIZE_trait, src_const_EFISdt64Tag_ID_trait)
  | KSmbios => (src_struct_SmbiosTag, src_const_SmbiosTag_BASE_SIZE_trait, src_const_SmbiosTag_ID_trait)
  | KAcpiV1 => (src_struct_RsdpV1Tag, src_const_RsdpV1Tag_BASE_SIZE_trait, src_const_RsdpV1Tag_ID_trait)
  | KAcpiV2 => (src_struct_RsdpV2Tag, src_const_RsdpV2Tag_BASE_SIZE_trait, src_const_RsdpV2Tag_ID_trait)
  | KNetwork => (src_struct_NetworkTag, src_const_NetworkTag_BASE_SIZE_trait, src_const_NetworkTag_ID_trait)
  | KEfiMmap => (src_struct_EFIMemoryMapTag, src_const_EFIMemoryMapTag_BASE_SIZE_trait, src_const_EFIMemoryMapTag_ID_trait)
  | KEfiBs => (src_struct_EFIBootServicesNotExitedTag, src_const_EFIBootServicesNotExitedTag_BASE_SIZE_trait,
               src_const_EFIBootServicesNotExitedTag_ID_trait)
  | KEfi32Ih => (src_struct_EFIImageHandle32Tag, src_const_EFIImageHandle32Tag_BASE_SIZE_trait, src_const_EFIImageHandle32Tag_ID_trait)
  | KEfi64Ih => (src_struct_EFIImageHandle64Tag, src_const_EFIImageHandle64Tag_BASE_SIZE_trait, src_const_EFIImageHandle64Tag_ID_trait)
  | KLoadBaseAddr => (src_struct_ImageLoadPhysAddrTag, src_const_ImageLoadPhysAddrTag_BASE_SIZE_trait,
                      src_const_ImageLoadPhysAddrTag_ID_trait)
  end.

(* every kind except the VBE tag: identical layout signature *)
Lemma tie_kind_struct : forall k, k <> KVbe -> sd_sig (kind_struct k) = sd_sig (fst (fst (src_of_kind k))).
Proof. intros [] H; try reflexivity; congruence. Qed.

(* the VBE tag: the model flattens the two packed blocks (and their tuples / nested VBEField) into scalars *)
Lemma tie_vbe_struct :
  refines (kind_struct KVbe) src_struct_VBEInfoTag = true
  /\ refines {| sd_fields := vbe_control_fields; sd_attr_align := 1; sd_tail := None |} src_struct_VBEControlInfo = true
  /\ refines {| sd_fields := vbe_mode_fields; sd_attr_align := 1; sd_tail := None |} src_struct_VBEModeInfo = true
  /\ sd_sig src_struct_VBEField = ([(0, 1); (1, 1)], 1, 2, 2, None).
Proof. repeat split; vm_compute; reflexivity. Qed.

Lemma tie_kind_base : forall k, kind_base k = snd (fst (src_of_kind k)).
Proof. intros []; reflexivity. Qed.

Lemma tie_kind_id : forall k, kind_id k = snd (src_of_kind k).
Proof. intros []; reflexivity. Qed.

(* element types of the unsized tails and the structures decoded inside tags *)
Lemma tie_memory_area : sd_sig src_struct_MemoryArea = ([(0, 8); (8, 8); (16, 4); (20, 4)], 8, 24, 24, None).
Proof. reflexivity. Qed.
Lemma tie_fb_color : sd_sig src_struct_FramebufferColor = ([(0, 1); (1, 1); (2, 1)], 1, 3, 3, None).
Proof. reflexivity. Qed.
Lemma tie_fb_field : sd_sig src_struct_FramebufferField = ([(0, 1); (1, 1)], 1, 2, 2, None).
Proof. reflexivity. Qed.
Lemma tie_elf32 : sd_sig src_struct_ElfSectionInner32 =
  ([(0, 4); (4, 4); (8, 4); (12, 4); (16, 4); (20, 4); (24, 4); (28, 4); (32, 4); (36, 4)], 1, 40, 40, None).
Proof. reflexivity. Qed.
Lemma tie_elf64 : sd_sig src_struct_ElfSectionInner64 =
  ([(0, 4); (4, 4); (8, 8); (16, 8); (24, 8); (32, 8); (40, 4); (44, 4); (48, 8); (56, 8)], 1, 64, 64, None).
Proof. reflexivity. Qed.

(* the inherent BASE_SIZE constants the sized constructors write into the size field (unpadded sizes) *)
Lemma tie_inherent_base :
  (src_const_BootdevTag_BASE_SIZE_inherent, src_const_ApmTag_BASE_SIZE_inherent, src_const_EFISdt32Tag_BASE_SIZE_inherent,
   src_const_EFIImageHandle32Tag_BASE_SIZE_inherent, src_const_ImageLoadPhysAddrTag_BASE_SIZE_inherent,
   src_const_RsdpV1Tag_BASE_SIZE_inherent, src_const_RsdpV2Tag_BASE_SIZE_inherent)
  = (20, 28, 12, 12, 12, 28, 44).
Proof. reflexivity. Qed.

(* VBEMemoryModel: the discriminants the public field `memory_model` may hold (known finding F18) *)
Lemma tie_vbe_memory_model : discriminants_are_0_to src_enum_VBEMemoryModel 7 = true.
Proof. reflexivity. Qed.
