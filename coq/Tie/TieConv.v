(* Tie: the conversion functions of the hand-written model (Model/TagType.v) equal, for ALL arguments, the
   functions rs2coq generated from the match tables in the Rust source of the working tree. *)
Require Import Bytes Outcome TagType.
From MB2Tie Require Import Src.
From Coq Require Import NArith Lia Bool.
Open Scope N_scope.

(* decide every `v =? k` / range test occurring in the goal; in the branch v = k compute *)
Ltac split_tests v :=
  repeat match goal with
         | |- context [N.eqb v ?k] => destruct (N.eqb_spec v k); [subst v; vm_compute; reflexivity|]
         end;
  repeat match goal with
         | |- context [N.leb ?a ?b] => destruct (N.leb_spec a b)
         end;
  cbn [andb orb].

(* what is left: v differs from every literal of the table; the model's `match v with 0 => .. | 1 => ..`
   is a tree over the bits of v, walk it *)
Ltac walk_bits v :=
  destruct v as [|p]; [try reflexivity; try congruence; try lia|];
  do 6 (try (destruct p as [p|p|])); try reflexivity; try congruence; try lia.

Lemma tie_tagtype_of_u32 : forall v, src_tagtype_of_u32 v = tagtype_of_u32 v.
Proof. intro v; unfold src_tagtype_of_u32; split_tests v; walk_bits v. Qed.

Lemma tie_u32_of_tagtype : forall t, src_u32_of_tagtype t = u32_of_tagtype t.
Proof. intros []; reflexivity. Qed.

Lemma tie_areatype_of_id : forall v, src_areatype_of_id v = areatype_of_id v.
Proof. intro v; unfold src_areatype_of_id; split_tests v; walk_bits v. Qed.

Lemma tie_id_of_areatype : forall t, src_id_of_areatype t = id_of_areatype t.
Proof. intros []; reflexivity. Qed.

Lemma tie_fb_try_from : forall v, src_fb_try_from v = fb_try_from v.
Proof. intro v; unfold src_fb_try_from; split_tests v; walk_bits v. Qed.

Lemma tie_elf_section_type : forall v, src_elf_section_type v = elf_section_type v.
Proof.
  intro v; unfold src_elf_section_type.
  repeat match goal with
         | |- context [N.eqb v ?k] => destruct (N.eqb_spec v k); [subst v; vm_compute; reflexivity|]
         end.
  unfold elf_section_type.
  destruct v as [|p]; [congruence|].
  do 5 (try (destruct p as [p|p|])); try reflexivity; try congruence.
Qed.

Lemma tie_magic_mbi : src_multiboot2_MAGIC = MBI_MAGIC.  Proof. reflexivity. Qed.
Lemma tie_magic_hdr : src_multiboot2_header_MAGIC = HDR_MAGIC.  Proof. reflexivity. Qed.
