(* Comparison of a hand-written struct description of the model with the one rs2coq generated from the
   Rust declaration.  Field names are not compared (renaming a private field changes nothing a caller can
   observe); everything the layout algorithm computes is: the offset and width of every field in declaration
   order, the alignment, size_of, the offset of the unsized tail and its element size/alignment. *)
Require Import Bytes Layout.
From Coq Require Import List NArith Bool.
Import ListNotations.
Open Scope N_scope.

Definition sd_sig (d : sdesc) :=
  (filter (fun ow => negb (snd ow =? 0)) (map (fun x => match x with (_, o, w) => (o, w) end) (sd_offsets d)),
   sd_align d, sd_size_of d, sd_tail_off d, sd_tail d).

(* the field boundaries of [fine] include those of [coarse] (the model flattens nested packed structs and
   tuples into their scalar fields); alignment, size and tail agree *)
Definition bounds (d : sdesc) : list N :=
  map (fun x => match x with (_, o, _) => o end) (sd_offsets d) ++ [sd_fixed_end d].
Definition refines (fine coarse : sdesc) : bool :=
  forallb (fun b => existsb (N.eqb b) (bounds fine)) (bounds coarse)
  && (sd_align fine =? sd_align coarse) && (sd_size_of fine =? sd_size_of coarse)
  && (sd_tail_off fine =? sd_tail_off coarse)
  && match sd_tail fine, sd_tail coarse with
     | None, None => true
     | Some (a, b), Some (c, d) => (a =? c) && (b =? d)
     | _, _ => false
     end.

(* a table `name -> value` of a #[repr(uN)] enum has exactly the discriminants 0..n-1 (what the model's
   `enum_in v (n-1)` assumes) *)
Definition discriminants_are_0_to (tbl : list (String.string * N)) (hi : N) : bool :=
  (N.of_nat (length tbl) =? hi + 1)
  && forallb (fun v => existsb (fun e => snd e =? v) tbl) (map N.of_nat (seq 0 (length tbl))).
