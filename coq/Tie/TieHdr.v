(* Tie: header-crate declarations (11 header-tag structs, HeaderTagHeader, Multiboot2BasicHeader, the
   #[repr(uN)] enums whose discriminants the model's `enum_in` bounds assume) agree with what rs2coq generated
   from the Rust source of the working tree. *)
Require Import Bytes Outcome Layout Common TagType Mbi Header HeaderTags.
From MB2Tie Require Import Src TieLib.
From Coq Require Import List NArith Bool String.
Import ListNotations.
Open Scope N_scope.

Lemma tie_hdrtagheader : sd_sig src_struct_HeaderTagHeader = ([(0, 2); (2, 2); (4, 4)], 4, hsize HHdrTagH, 8, None).
Proof. reflexivity. Qed.
Lemma tie_basicheader :
  sd_sig src_struct_Multiboot2BasicHeader = ([(0, 4); (4, 4); (8, 4); (12, 4)], 8, hsize HBasicH, 16, None).
Proof. reflexivity. Qed.

Definition src_of_hkind (k : hkind2) : sdesc * N * string :=
  match k with
  | HkEnd => (src_struct_EndHeaderTag, src_const_EndHeaderTag_BASE_SIZE_trait, src_const_EndHeaderTag_ID_trait)
  | HkInfoReq => (src_struct_InformationRequestHeaderTag, src_const_InformationRequestHeaderTag_BASE_SIZE_trait,
                  src_const_InformationRequestHeaderTag_ID_trait)
  | HkAddress => (src_struct_AddressHeaderTag, src_const_AddressHeaderTag_BASE_SIZE_trait, src_const_AddressHeaderTag_ID_trait)
  | HkEntryAddress => (src_struct_EntryAddressHeaderTag, src_const_EntryAddressHeaderTag_BASE_SIZE_trait,
                       src_const_EntryAddressHeaderTag_ID_trait)
  | HkConsole => (src_struct_ConsoleHeaderTag, src_const_ConsoleHeaderTag_BASE_SIZE_trait, src_const_ConsoleHeaderTag_ID_trait)
  | HkFramebuffer => (src_struct_FramebufferHeaderTag, src_const_FramebufferHeaderTag_BASE_SIZE_trait,
                      src_const_FramebufferHeaderTag_ID_trait)
  | HkModuleAlign => (src_struct_ModuleAlignHeaderTag, src_const_ModuleAlignHeaderTag_BASE_SIZE_trait,
                      src_const_ModuleAlignHeaderTag_ID_trait)
  | HkEfiBs => (src_struct_EfiBootServiceHeaderTag, src_const_EfiBootServiceHeaderTag_BASE_SIZE_trait,
                src_const_EfiBootServiceHeaderTag_ID_trait)
  | HkEntryEfi32 => (src_struct_EntryEfi32HeaderTag, src_const_EntryEfi32HeaderTag_BASE_SIZE_trait,
                     src_const_EntryEfi32HeaderTag_ID_trait)
  | HkEntryEfi64 => (src_struct_EntryEfi64HeaderTag, src_const_EntryEfi64HeaderTag_BASE_SIZE_trait,
                     src_const_EntryEfi64HeaderTag_ID_trait)
  | HkRelocatable => (src_struct_RelocatableHeaderTag, src_const_RelocatableHeaderTag_BASE_SIZE_trait,
                      src_const_RelocatableHeaderTag_ID_trait)
  end.

Lemma tie_hkind_struct : forall k, sd_sig (hkind_struct k) = sd_sig (fst (fst (src_of_hkind k))).
Proof. intros []; reflexivity. Qed.

Lemma tie_hkind_base : forall k, hkind_base k = snd (fst (src_of_hkind k)).
Proof. intros []; reflexivity. Qed.

(* Tag::ID names the variant of HeaderTagType whose discriminant the model uses as the type number *)
Fixpoint assoc (n : string) (l : list (string * N)) : option N :=
  match l with [] => None | (a, v) :: r => if String.eqb a n then Some v else assoc n r end.
Lemma tie_hkind_typ : forall k, assoc (snd (src_of_hkind k)) src_enum_HeaderTagType = Some (hkind_typ k).
Proof. intros []; reflexivity. Qed.

(* the enum-typed fields: the defined discriminants are exactly the values the model's `enum_in` admits *)
Lemma tie_enums :
  discriminants_are_0_to src_enum_HeaderTagType 10 = true
  /\ N.of_nat (List.length src_enum_HeaderTagType) = HDR_TAG_TYPES
  /\ discriminants_are_0_to src_enum_HeaderTagFlag 1 = true
  /\ discriminants_are_0_to src_enum_ConsoleHeaderTagFlags 1 = true
  /\ discriminants_are_0_to src_enum_RelocatableHeaderTagPreference 2 = true
  /\ (forall a, arch_defined a = existsb (fun e => snd e =? a) src_enum_HeaderTagISA)
  /\ (src_enum_HeaderTagType_width, src_enum_HeaderTagFlag_width, src_enum_ConsoleHeaderTagFlags_width,
      src_enum_RelocatableHeaderTagPreference_width, src_enum_HeaderTagISA_width) = (2, 2, 4, 4, 4).
Proof.
  repeat split; try reflexivity.
  intro a; unfold arch_defined; cbn [existsb snd src_enum_HeaderTagISA]. rewrite orb_false_r.
  rewrite (N.eqb_sym 0 a), (N.eqb_sym 4 a). reflexivity.
Qed.
