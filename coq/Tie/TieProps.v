(* The property theorems restated about the definitions GENERATED from the Rust source of the working tree
   (Src.v), obtained from the theorems about the hand-written model (Props/) and the tie lemmas.  These are
   the statements that are re-checked against what the code says now, for all arguments. *)
Require Import Bytes Outcome Layout Render Common TagType Mbi MbiTags Header HeaderTags RunCommon TypesSpec Mb2Spec
  LayoutFacts C04 C11 C20.
From MB2Tie Require Import Src TieLib TieConv TieMbi TieHdr.
From Coq Require Import List NArith Bool String.
Import ListNotations.
Open Scope N_scope.

(* ---- C20 on the translated match tables ---------------------------------------------------- *)
Theorem SRC_C20_roundtrip : forall x, src_u32_of_tagtype (src_tagtype_of_u32 x) = x.
Proof. intro x. rewrite tie_tagtype_of_u32, tie_u32_of_tagtype. apply C20_roundtrip. Qed.

Theorem SRC_C20_named : forall x,
  (x <= 21 -> sTagType (src_tagtype_of_u32 x) = nth (N.to_nat x) spec_tag_names ""%string) /\
  (22 <= x -> src_tagtype_of_u32 x = Custom x).
Proof. intro x. rewrite tie_tagtype_of_u32. apply C20_named. Qed.

Theorem SRC_C20_area : forall x,
  src_id_of_areatype (src_areatype_of_id x) = x /\
  (1 <= x <= 5 -> In (x, sAreaType (src_areatype_of_id x)) spec_area_names) /\
  (x = 0 \/ 6 <= x -> src_areatype_of_id x = ACustom x).
Proof.
  intro x. rewrite tie_id_of_areatype, !tie_areatype_of_id.
  destruct (C20_area x) as (A & B & C & _). auto.
Qed.

Theorem SRC_C20_elf : forall raw, sElfType (src_elf_section_type raw) = spec_elf_class raw.
Proof. intro raw. rewrite tie_elf_section_type. apply C20_elf. Qed.

Theorem SRC_C20_fb : forall b,
  (b <= 2 -> exists t, src_fb_try_from b = Val t /\ sFbId t = nth (N.to_nat b) spec_fb_names ""%string) /\
  (3 <= b -> src_fb_try_from b = Err (EUnknownFb b)).
Proof. intro b. rewrite tie_fb_try_from. apply C20_fb. Qed.

Theorem SRC_C20_magic : src_multiboot2_MAGIC = SPEC_MBI_MAGIC /\ src_multiboot2_header_MAGIC = SPEC_HDR_MAGIC.
Proof. rewrite tie_magic_mbi, tie_magic_hdr. apply C20_magic. Qed.

(* ---- C04 / C07 / C05: the declared structs have the specified layout -------------------------------- *)
Definition ow (l : list (string * N * N)) : list (N * N) :=
  filter (fun ow => negb (snd ow =? 0)) (map (fun x => match x with (_, o, w) => (o, w) end) l).

Theorem SRC_C04_layout : forall k, k <> KVbe ->
  let d := fst (fst (src_of_kind k)) in
  ow (sd_offsets d) = ow (header_part k ++ spec_mbi_fields (kind_typ k)) /\
  sd_align d = 8 /\
  snd (fst (src_of_kind k)) = kind_base k /\
  u32_of_tagtype (snd (src_of_kind k)) = kind_typ k /\
  match sd_tail d with
  | Some (es, _) => spec_mbi_variable (kind_typ k) = Some es /\ sd_tail_off d = spec_mbi_size (kind_typ k)
                    /\ snd (fst (src_of_kind k)) = spec_mbi_size (kind_typ k)
  | None => spec_mbi_variable (kind_typ k) = None /\ sd_size_of d = round8 (spec_mbi_size (kind_typ k))
  end.
Proof.
  intros k Hk d.
  pose proof (tie_kind_struct k Hk) as T. unfold sd_sig in T. fold d in T.
  injection T as T1 T2 T3 T4 T5.
  destruct (C04_layout k) as (L1 & L2 & L3).
  split; [unfold ow; rewrite <- T1, L1; reflexivity|].
  split; [rewrite <- T2; exact L2|].
  split; [symmetry; apply tie_kind_base|].
  split; [rewrite <- tie_kind_id; reflexivity|].
  rewrite <- T5, <- T4, <- T3, <- tie_kind_base.
  destruct (sd_tail (kind_struct k)) as [[es ea]|]; tauto.
Qed.

Theorem SRC_C11_layout : forall k,
  let d := fst (fst (src_of_hkind k)) in
  ow (sd_offsets d) = (0, 8) :: ow (spec_htag_fields (hkind_typ k)) /\
  sd_align d = 8 /\
  snd (fst (src_of_hkind k)) = hkind_base k /\
  assoc (snd (src_of_hkind k)) src_enum_HeaderTagType = Some (hkind_typ k) /\
  match sd_tail d with
  | Some (es, _) => es = 4 /\ sd_tail_off d = 8
  | None => sd_size_of d = round8 (spec_htag_size (hkind_typ k))
  end.
Proof.
  intros k d.
  pose proof (tie_hkind_struct k) as T. unfold sd_sig in T. fold d in T.
  injection T as T1 T2 T3 T4 T5.
  destruct (C11_layout k) as (L1 & L2 & _ & L3).
  split; [unfold ow; rewrite <- T1, L1; reflexivity|].
  split; [rewrite <- T2; exact L2|].
  split; [symmetry; apply tie_hkind_base|].
  split; [apply tie_hkind_typ|].
  rewrite <- T5, <- T4, <- T3.
  destruct (sd_tail (hkind_struct k)) as [[es ea]|]; tauto.
Qed.

Print Assumptions SRC_C20_roundtrip.
Print Assumptions SRC_C20_named.
Print Assumptions SRC_C20_area.
Print Assumptions SRC_C20_elf.
Print Assumptions SRC_C20_fb.
Print Assumptions SRC_C20_magic.
Print Assumptions SRC_C04_layout.
Print Assumptions SRC_C11_layout.
