(* Extraction of the executable model for the correspondence check.
   ExtrOcamlBasic only: bool, option, unit, prod, list, sumbool, sumor map to
   OCaml's own; N, positive, byte, ascii, string stay Coq inductives.
   No Extract Constant directive. *)
Require Import Bytes Outcome Render Api.
From Coq Require Import ExtrOcamlBasic.
From Coq Require Import String.
Extraction "oracle.ml" run_case Byte.of_N Byte.to_N.
