(* Reads case lines "<domain> <arg>..." on stdin (args: decimal number | x<hex> | [ ... ]),
   prints "#<index>" followed by the model's transcript lines. *)
module O = Oracle

let rec pos_of_int (i : int) : O.positive =
  if i = 1 then O.XH else if i land 1 = 1 then O.XI (pos_of_int (i lsr 1)) else O.XO (pos_of_int (i lsr 1))
let n_of_int (i : int) : O.n = if i = 0 then O.N0 else O.Npos (pos_of_int i)

(* decimal string of arbitrary size -> N, via repeated (10*acc + d) in Coq's N *)
let n_of_decimal (s : string) : O.n =
  let ten = n_of_int 10 in
  let acc = ref O.N0 in
  String.iter (fun c -> acc := O.N.add (O.N.mul ten !acc) (n_of_int (Char.code c - 48))) s;
  !acc

let byte_of_int (i : int) : O.byte =
  match O.of_N (n_of_int i) with Some b -> b | None -> failwith "byte"

let hexval c = match c with
  | '0'..'9' -> Char.code c - 48 | 'a'..'f' -> Char.code c - 87 | 'A'..'F' -> Char.code c - 55
  | _ -> failwith "hex"

let bytes_of_hex (s : string) : O.byte list =
  let n = String.length s / 2 in
  List.init n (fun i -> byte_of_int (16 * hexval s.[2*i] + hexval s.[2*i+1]))

let ascii_of_char (c : char) : O.ascii =
  let i = Char.code c in
  let b k = (i lsr k) land 1 = 1 in
  O.Ascii (b 0, b 1, b 2, b 3, b 4, b 5, b 6, b 7)
let char_of_ascii (a : O.ascii) : char =
  match a with O.Ascii (b0,b1,b2,b3,b4,b5,b6,b7) ->
    let v b k = if b then 1 lsl k else 0 in
    Char.chr (v b0 0 + v b1 1 + v b2 2 + v b3 3 + v b4 4 + v b5 5 + v b6 6 + v b7 7)

let coq_string (s : string) : O.string =
  let r = ref O.EmptyString in
  for i = String.length s - 1 downto 0 do r := O.String (ascii_of_char s.[i], !r) done; !r
let ocaml_string (s : O.string) : string =
  let b = Buffer.create 64 in
  let rec go = function O.EmptyString -> () | O.String (a, r) -> Buffer.add_char b (char_of_ascii a); go r in
  go s; Buffer.contents b

let rec parse_args (toks : string list) : O.arg list * string list =
  match toks with
  | [] -> ([], [])
  | "]" :: rest -> ([], rest)
  | "[" :: rest ->
      let (inner, rest') = parse_args rest in
      let (more, rest'') = parse_args rest' in
      (O.AL inner :: more, rest'')
  | t :: rest ->
      let a = if t.[0] = 'x' then O.AB (bytes_of_hex (String.sub t 1 (String.length t - 1)))
              else O.AN (n_of_decimal t) in
      let (more, rest') = parse_args rest in
      (a :: more, rest')

let () =
  let prof = n_of_int (if Array.length Sys.argv > 1 then int_of_string Sys.argv.(1) else 0) in
  let idx = ref 0 in
  (try
    while true do
      let l = input_line stdin in
      let toks = List.filter (fun s -> s <> "") (String.split_on_char ' ' l) in
      (match toks with
       | [] -> ()
       | dom :: rest ->
           let (args, _) = parse_args rest in
           Printf.printf "#%d\n" !idx;
           List.iter (fun s -> print_string (ocaml_string s); print_char '\n') (O.run_case prof (coq_string dom) args);
           incr idx)
    done
  with End_of_file -> ());
  flush stdout
