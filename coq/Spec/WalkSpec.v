(* The tag walk of the Multiboot2 specification, as a relation (no fuel, no
   reference to the model): tags are laid out one after the other, each
   starting at an 8-aligned offset; a tag occupies its size rounded up to 8.
   Used for the boot information (first tag at 8) and for the header (first
   tag at 16); the size field is the u32 at offset 4 of the tag in both. *)
Require Import Bytes.

Record item := { i_off : N; i_size : N }.

Definition size_at (bs : list byte) (off : N) : N := le (slice bs (off + 4) 4).

(* walk bs total off items ok: walking from `off` to the end `total` finds
   `items`; ok = true when the walk arrives exactly at `total`, false when it
   gets stuck (a size below 8, or a tag that would leave the region). *)
Inductive walk (bs : list byte) (total : N) : N -> list item -> bool -> Prop :=
| W_end : walk bs total total [] true
| W_small off : off <> total -> size_at bs off < 8 -> walk bs total off [] false
| W_leave off : off <> total -> 8 <= size_at bs off -> total < off + round8 (size_at bs off) ->
                walk bs total off [] false
| W_step off l ok : off <> total -> 8 <= size_at bs off -> off + round8 (size_at bs off) <= total ->
                    walk bs total (off + round8 (size_at bs off)) l ok ->
                    walk bs total off ({| i_off := off; i_size := size_at bs off |} :: l) ok.
