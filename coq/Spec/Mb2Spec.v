(* Field tables transcribed from the Multiboot2 specification 2.0 (sections 3.1 header, 3.6 boot
   information) and its reference header multiboot2.h; the embedded structures from the documents they
   cite (VBE 3.0 VbeInfoBlock / ModeInfoBlock, ACPI RSDP, ELF32/ELF64 section headers, UEFI
   EFI_MEMORY_DESCRIPTOR).  Each entry: (field name, byte offset within the tag, width in bytes).
   This file does not mention the model.  Where multiboot2.h and the prose tables differ
   (framebuffer reserved u16, palette colour count u16, ELF tag with three u32 words) multiboot2.h
   is followed - GRUB emits that layout. *)
Require Import Bytes.
From Coq Require Import String.
Open Scope string_scope.
Open Scope N_scope.

Definition ftab := list (string * N * N).

(* type number of each boot-information tag (section 3.6.x of the specification) *)
Definition spec_mbi_types : list (string * N) :=
  [ ("end", 0); ("cmdline", 1); ("boot_loader_name", 2); ("module", 3); ("basic_meminfo", 4); ("bootdev", 5);
    ("mmap", 6); ("vbe", 7); ("framebuffer", 8); ("elf_sections", 9); ("apm", 10); ("efi32", 11); ("efi64", 12);
    ("smbios", 13); ("acpi_old", 14); ("acpi_new", 15); ("network", 16); ("efi_mmap", 17); ("efi_bs", 18);
    ("efi32_ih", 19); ("efi64_ih", 20); ("load_base_addr", 21) ].
Fixpoint assoc_type (l : list (string * N)) (name : string) : N :=
  match l with [] => 0 | (n, v) :: r => if String.eqb n name then v else assoc_type r name end.
Definition spec_mbi_type (name : string) : N := assoc_type spec_mbi_types name.

Definition vbe_info_block : ftab :=      (* VBE 3.0, VbeInfoBlock, relative to the tag: + 16 *)
  [ ("ci.signature", 16, 4); ("ci.version", 20, 2); ("ci.oem_string_ptr", 22, 4); ("ci.capabilities", 26, 4);
    ("ci.mode_list_ptr", 30, 4); ("ci.total_memory", 34, 2); ("ci.oem_software_revision", 36, 2);
    ("ci.oem_vendor_name_ptr", 38, 4); ("ci.oem_product_name_ptr", 42, 4); ("ci.oem_product_revision_ptr", 46, 4);
    ("ci.reserved", 50, 222); ("ci.oem_data", 272, 256) ].
Definition vbe_mode_info_block : ftab := (* VBE 3.0, ModeInfoBlock, relative to the tag: + 528 *)
  [ ("mi.mode_attributes", 528, 2); ("mi.window_a_attributes", 530, 1); ("mi.window_b_attributes", 531, 1);
    ("mi.window_granularity", 532, 2); ("mi.window_size", 534, 2); ("mi.window_a_segment", 536, 2);
    ("mi.window_b_segment", 538, 2); ("mi.window_function_ptr", 540, 4); ("mi.pitch", 544, 2);
    ("mi.resolution.0", 546, 2); ("mi.resolution.1", 548, 2); ("mi.character_size.0", 550, 1);
    ("mi.character_size.1", 551, 1); ("mi.number_of_planes", 552, 1); ("mi.bpp", 553, 1);
    ("mi.number_of_banks", 554, 1); ("mi.memory_model", 555, 1); ("mi.bank_size", 556, 1);
    ("mi.number_of_image_pages", 557, 1); ("mi.reserved0", 558, 1);
    ("mi.red_field.size", 559, 1); ("mi.red_field.position", 560, 1); ("mi.green_field.size", 561, 1);
    ("mi.green_field.position", 562, 1); ("mi.blue_field.size", 563, 1); ("mi.blue_field.position", 564, 1);
    ("mi.reserved_field.size", 565, 1); ("mi.reserved_field.position", 566, 1);
    ("mi.direct_color_attributes", 567, 1); ("mi.framebuffer_base_ptr", 568, 4);
    ("mi.offscreen_memory_offset", 572, 4); ("mi.offscreen_memory_size", 576, 2); ("mi.reserved1", 578, 206) ].

(* fields behind the 8-byte (type, size) header, by type number *)
Definition spec_mbi_fields (typ : N) : ftab :=
  match typ with
  | 3 => [("mod_start", 8, 4); ("mod_end", 12, 4)]
  | 4 => [("memory_lower", 8, 4); ("memory_upper", 12, 4)]
  | 5 => [("biosdev", 8, 4); ("slice", 12, 4); ("part", 16, 4)]
  | 6 => [("entry_size", 8, 4); ("entry_version", 12, 4)]
  | 7 => ([("mode", 8, 2); ("interface_segment", 10, 2); ("interface_offset", 12, 2); ("interface_length", 14, 2)]
          ++ vbe_info_block ++ vbe_mode_info_block)%list
  | 8 => [("address", 8, 8); ("pitch", 16, 4); ("width", 20, 4); ("height", 24, 4); ("bpp", 28, 1);
          ("framebuffer_type", 29, 1); ("_padding", 30, 2)]
  | 9 => [("number_of_sections", 8, 4); ("entry_size", 12, 4); ("shndx", 16, 4)]
  | 10 => [("version", 8, 2); ("cseg", 10, 2); ("offset", 12, 4); ("cset_16", 16, 2); ("dseg", 18, 2); ("flags", 20, 2);
           ("cseg_len", 22, 2); ("cseg_16_len", 24, 2); ("dseg_len", 26, 2)]
  | 11 => [("pointer", 8, 4)]
  | 12 => [("pointer", 8, 8)]
  | 13 => [("major", 8, 1); ("minor", 9, 1); ("_reserved", 10, 6)]
  | 14 => [("signature", 8, 8); ("checksum", 16, 1); ("oem_id", 17, 6); ("revision", 23, 1); ("rsdt_address", 24, 4)]
  | 15 => [("signature", 8, 8); ("checksum", 16, 1); ("oem_id", 17, 6); ("revision", 23, 1); ("rsdt_address", 24, 4);
           ("length", 28, 4); ("xsdt_address", 32, 8); ("ext_checksum", 40, 1); ("_reserved", 41, 3)]
  | 17 => [("desc_size", 8, 4); ("desc_version", 12, 4)]
  | 19 => [("pointer", 8, 4)]
  | 20 => [("pointer", 8, 8)]
  | 21 => [("load_base_addr", 8, 4)]
  | _ => []
  end.

(* the specified `size` of the fixed-size kinds; for the variable-length kinds the offset at which the
   variable part begins *)
Definition spec_mbi_size (typ : N) : N :=
  match typ with
  | 0 => 8 | 1 => 8 | 2 => 8 | 3 => 16 | 4 => 16 | 5 => 20 | 6 => 16 | 7 => 784 | 8 => 32 | 9 => 20 | 10 => 28
  | 11 => 12 | 12 => 16 | 13 => 16 | 14 => 28 | 15 => 44 | 16 => 8 | 17 => 16 | 18 => 8 | 19 => 12 | 20 => 16
  | _ => 12
  end.
Definition spec_mbi_variable (typ : N) : option N :=    (* element size of the variable part *)
  match typ with 1 | 2 | 3 | 8 | 9 | 13 | 16 | 17 => Some 1 | 6 => Some 24 | _ => None end.

(* memory map entry; EFI memory descriptor (UEFI 2.x, version 1); ELF section headers *)
Definition spec_mmap_entry : ftab := [("base_addr", 0, 8); ("length", 8, 8); ("type", 16, 4); ("reserved", 20, 4)].
Definition spec_efi_desc : ftab := [("type", 0, 4); ("physical_start", 8, 8); ("virtual_start", 16, 8);
                                    ("number_of_pages", 24, 8); ("attribute", 32, 8)].
Definition spec_elf32_shdr : ftab := [("sh_name", 0, 4); ("sh_type", 4, 4); ("sh_flags", 8, 4); ("sh_addr", 12, 4);
                                      ("sh_offset", 16, 4); ("sh_size", 20, 4); ("sh_link", 24, 4); ("sh_info", 28, 4);
                                      ("sh_addralign", 32, 4); ("sh_entsize", 36, 4)].
Definition spec_elf64_shdr : ftab := [("sh_name", 0, 4); ("sh_type", 4, 4); ("sh_flags", 8, 8); ("sh_addr", 16, 8);
                                      ("sh_offset", 24, 8); ("sh_size", 32, 8); ("sh_link", 40, 4); ("sh_info", 44, 4);
                                      ("sh_addralign", 48, 8); ("sh_entsize", 56, 8)].

(* ---- header (section 3.1) -------------------------------------------------------------------- *)
Definition spec_header : ftab := [("magic", 0, 4); ("architecture", 4, 4); ("header_length", 8, 4); ("checksum", 12, 4)].
Definition spec_htag_header : ftab := [("type", 0, 2); ("flags", 2, 2); ("size", 4, 4)].
Definition spec_htag_fields (typ : N) : ftab :=
  match typ with
  | 2 => [("header_addr", 8, 4); ("load_addr", 12, 4); ("load_end_addr", 16, 4); ("bss_end_addr", 20, 4)]
  | 3 | 8 | 9 => [("entry_addr", 8, 4)]
  | 4 => [("console_flags", 8, 4)]
  | 5 => [("width", 8, 4); ("height", 12, 4); ("depth", 16, 4)]
  | 10 => [("min_addr", 8, 4); ("max_addr", 12, 4); ("align", 16, 4); ("preference", 20, 4)]
  | _ => []
  end.
Definition spec_htag_size (typ : N) : N :=
  match typ with 0 => 8 | 1 => 8 | 2 => 24 | 3 => 12 | 4 => 12 | 5 => 20 | 6 => 8 | 7 => 8 | 8 => 12 | 9 => 12 | _ => 24 end.
