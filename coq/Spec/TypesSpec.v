(* Numbers prescribed by the Multiboot2 specification (2.0), section 3.6
   "Boot information format", and by the ELF specification for sh_type.
   Transcribed from the documents; does not mention the model. *)
Require Import Bytes.
From Coq Require Import String.
Open Scope string_scope.
Open Scope N_scope.

(* MULTIBOOT_TAG_TYPE_* of multiboot2.h, in numeric order: the name at index i
   is the tag type with number i. *)
Definition spec_tag_names : list string :=
  [ "End"; "Cmdline"; "BootLoaderName"; "Module"; "BasicMeminfo"; "Bootdev"; "Mmap"; "Vbe";
    "Framebuffer"; "ElfSections"; "Apm"; "Efi32"; "Efi64"; "Smbios"; "AcpiV1"; "AcpiV2"; "Network";
    "EfiMmap"; "EfiBs"; "Efi32Ih"; "Efi64Ih"; "LoadBaseAddr" ].

(* MULTIBOOT_MEMORY_*: 1 available, 2 reserved, 3 ACPI reclaimable, 4 NVS, 5 bad RAM *)
Definition spec_area_names : list (N * string) :=
  [ (1, "Available"); (2, "Reserved"); (3, "AcpiAvailable"); (4, "ReservedHibernate"); (5, "Defective") ].

(* sh_type classes as documented by the crate (ELF spec: SHT_NULL..SHT_DYNSYM,
   SHT_LOOS..SHT_HIOS, SHT_LOPROC..SHT_HIPROC) *)
Definition spec_elf_names : list string :=
  [ "Unused"; "ProgramSection"; "LinkerSymbolTable"; "StringTable"; "RelaRelocation"; "SymbolHashTable";
    "DynamicLinkingTable"; "Note"; "Uninitialized"; "RelRelocation"; "Reserved"; "DynamicLoaderSymbolTable" ].
Definition spec_elf_class (raw : N) : string :=
  if raw <=? 11 then nth (N.to_nat raw) spec_elf_names ""
  else if (1610612736 <=? raw) && (raw <=? 1879048191) then "EnvironmentSpecific"   (* 0x60000000..0x6FFFFFFF *)
  else if (1879048192 <=? raw) && (raw <=? 2147483647) then "ProcessorSpecific"     (* 0x70000000..0x7FFFFFFF *)
  else "Unused".

(* framebuffer_type: 0 indexed, 1 RGB, 2 EGA text *)
Definition spec_fb_names : list string := [ "Indexed"; "RGB"; "Text" ].

Definition SPEC_MBI_MAGIC : N := 920085129.    (* 0x36d76289 *)
Definition SPEC_HDR_MAGIC : N := 3897708758.   (* 0xE85250D6 *)
