(* C03 - Tag iteration reproduces the specification's tag walk, zero-copy.
   `walk bs total off items ok` is the specification's walk (Spec/WalkSpec.v). *)
Require Import Bytes Outcome Common Mbi MbiTags WalkSpec Big IterFacts C03Proofs BigProofs.
From Coq Require Import List.

(* For every loaded boot information the iterator run to its end yields exactly
   the specification's walk from offset 8 to the declared total size: the same
   items at the same offsets, and Panic exactly where the walk is stuck.
   The walk is unique and has at most (total-8)/8 items (finiteness). *)
Theorem C03_walk : forall p a bs r,
  a mod 8 = 0 -> 8 <= len bs -> le (slice bs 0 4) <= len bs ->
  let m := {| m_base := a; m_bytes := bs |} in
  mbi_load p false m = Val r ->
  exists l ok,
    tagiter_run (iter_fuel (tags_len r)) p HTagH m (tags_b r) (tags_len r) 0 = (map dref_of l, status ok) /\
    walk bs (le (slice bs 0 4)) 8 l ok /\
    (forall l' ok', walk bs (le (slice bs 0 4)) 8 l' ok' -> l' = l /\ ok' = ok) /\
    8 * len l <= le (slice bs 0 4) - 8.
Proof. exact c03_walk. Qed.
Print Assumptions C03_walk.

(* each item is the tag at that very offset of the region: 8-aligned, inside
   the region, with the stored size, exactly size-8 payload bytes, and an
   in-memory extent of the size rounded up to 8 *)
Theorem C03_items : forall bs total l ok,
  walk bs total 8 l ok ->
  Forall (fun it => 8 <= i_off it /\ i_off it mod 8 = 0 /\ 8 <= i_size it /\
                    i_off it + round8 (i_size it) <= total /\ i_size it = size_at bs (i_off it) /\
                    d_off (dref_of it) = i_off it /\ d_plen (dref_of it) = i_size it - 8 /\
                    dref_size_of_val HTagH (dref_of it) = round8 (i_size it)) l.
Proof. exact c03_items. Qed.
Print Assumptions C03_items.

(* An iterator is its position. From every position an iterator can be in
   (8-aligned, inside the buffer) next() equals the closed form, which keeps
   the position 8-aligned and inside and advances it by at least 8: clones and
   fresh iterators at the same position behave identically. *)
Theorem C03_next : forall p a bs r nxt,
  a mod 8 = 0 -> 8 <= len bs -> le (slice bs 0 4) <= len bs ->
  let m := {| m_base := a; m_bytes := bs |} in
  mbi_load p false m = Val r -> nxt mod 8 = 0 -> nxt <= tags_len r ->
  tagiter_next p HTagH m (tags_b r) (tags_len r) nxt = next_closed HTagH m (tags_b r) (tags_len r) nxt /\
  (forall x nxt', next_closed HTagH m (tags_b r) (tags_len r) nxt = Val (x, nxt') ->
                  nxt' mod 8 = 0 /\ nxt' <= tags_len r /\ (x <> None -> nxt + 8 <= nxt')).
Proof. exact c03_next. Qed.
Print Assumptions C03_next.

(* an exhausted iterator stays exhausted *)
Theorem C03_exhausted : forall p h m b blen, tagiter_next p h m b blen blen = Val (None, blen).
Proof. exact c03_exhausted. Qed.
Print Assumptions C03_exhausted.

(* the module iterator yields exactly the module tags (type 3) of the walk, in
   order (modules_spec: the filter of the walk; a module tag whose size is below
   its 16-byte fixed part is a controlled panic at that point) *)
Theorem C03_modules : forall p a bs r,
  a mod 8 = 0 -> 8 <= len bs -> le (slice bs 0 4) <= len bs ->
  let m := {| m_base := a; m_bytes := bs |} in
  mbi_load p false m = Val r ->
  forall l ok, walk bs (le (slice bs 0 4)) 8 l ok ->
  modules_run (iter_fuel (tags_len r)) p m (tags_b r) (tags_len r) 0 = modules_spec bs l ok.
Proof. exact c03_modules. Qed.
Print Assumptions C03_modules.

Theorem C03_modules_filter : forall bs l ok,
  forallb (fun it => negb (is_module bs it) || (16 <=? i_size it)) l = true ->
  modules_spec bs l ok = (map module_ref (filter (is_module bs) l), status ok).
Proof. exact modules_spec_filter. Qed.
Print Assumptions C03_modules_filter.

(* the provided Iterator methods are iterated next(): nth(k) is the k-th item of the run; behind a complete run it is
   None, behind a run that ends in a panic it is that panic (never anything else, never a fault) *)
Theorem C03_nth : forall fuel p h m b blen nxt items e k,
  tagiter_run fuel p h m b blen nxt = (items, e) -> e <> Fault FFuel ->
  rmap fst (tagiter_nth p h m b blen nxt k) =
    match nth_error items k with
    | Some r => Val (Some r)
    | None => rmap (fun _ => None) e
    end.
Proof. exact tagiter_nth_run. Qed.
Print Assumptions C03_nth.

(* an iterator whose next() panicked and was caught lives on with the offset next() left behind (tagiter_step); from EVERY
   8-aligned offset - inside the buffer, at its end, or beyond it - next() is a value or a controlled panic, never a read
   outside (fault), and again leaves an 8-aligned offset: any history of next() calls, panics included, is safe *)
Theorem C03_after_panic : forall p h m b blen nxt,
  iter_ok h m b blen -> nxt mod 8 = 0 ->
  is_fault (fst (tagiter_step p h m b blen nxt)) = false /\ snd (tagiter_step p h m b blen nxt) mod 8 = 0.
Proof. exact tagiter_step_safe. Qed.
Print Assumptions C03_after_panic.

(* the provided nth(k) on an iterator in ANY state (fresh, advanced, left behind by a caught panic): it is k+1 calls of
   next(), so it is a value or a controlled panic, never a fault, and leaves an 8-aligned offset; on an iterator whose steps
   all succeed it is the pure nth of C03_nth *)
Theorem C03_nth_after_panic : forall p h m b blen k nxt,
  iter_ok h m b blen -> nxt mod 8 = 0 ->
  is_fault (fst (tagiter_nth_step p h m b blen nxt k)) = false /\ snd (tagiter_nth_step p h m b blen nxt k) mod 8 = 0.
Proof. intros p h m b blen k nxt H. exact (tagiter_nth_step_safe p h m b blen H k nxt). Qed.
Print Assumptions C03_nth_after_panic.

Theorem C03_nth_step_is_nth : forall p h m b blen k nxt o n',
  tagiter_nth p h m b blen nxt k = Val (o, n') -> tagiter_nth_step p h m b blen nxt k = (Val o, n').
Proof. intros p h m b blen. exact (tagiter_nth_step_val p h m b blen). Qed.
Print Assumptions C03_nth_step_is_nth.

(* Regions of ANY number of tags (n copies of one padded tag between the header and the end tag): the specification's
   walk from offset 8 finds the n tags at offsets 8 + i*L with the stored size, then the end tag, and ends regularly;
   load accepts the region and the iterator yields exactly these items (their k-th, last, and nothing behind);
   the module iterator yields all n of them when their type is 3, none otherwise.  These closed forms are what the
   oracle evaluates for the domain `bigwalk` (Model/Big.v), where n exceeds what a list-based run can do (n > 2^16). *)
Theorem C03_big_walk : forall tag n,
  8 <= le (slice tag 4 4) -> round8 (le (slice tag 4 4)) = len tag -> 16 + N.of_nat n * len tag < pow2_32 ->
  walk (big_region n tag) (16 + N.of_nat n * len tag) 8 (big_items_from tag n 0 n) true /\
  len (big_items_from tag n 0 n) = N.of_nat n + 1 /\
  forall k, nth_error (big_items_from tag n 0 n) k =
            if Nat.ltb k n then Some {| i_off := big_off (len tag) k; i_size := le (slice tag 4 4) |}
            else if Nat.eqb k n then Some {| i_off := big_off (len tag) n; i_size := 8 |} else None.
Proof.
  intros tag n H1 H2 H3. split; [exact (big_walk tag n H1 H2 H3)|]. split; [exact (big_items_len tag n H1 H2 H3)|exact (big_items_nth tag n H1 H2 H3)].
Qed.
Print Assumptions C03_big_walk.

Theorem C03_big_run : forall p a tag n,
  8 <= le (slice tag 4 4) -> round8 (le (slice tag 4 4)) = len tag -> 16 + N.of_nat n * len tag < pow2_32 ->
  a mod 8 = 0 ->
  let T := 16 + N.of_nat n * len tag in
  let m := {| m_base := a; m_bytes := big_region n tag |} in
  mbi_load p false m = Val {| d_off := 0; d_plen := T - 8 |} /\
  tagiter_run (iter_fuel (T - 8)) p HTagH m 8 (T - 8) 0 = (map dref_of (big_items_from tag n 0 n), Val tt) /\
  modules_run (iter_fuel (T - 8)) p m 8 (T - 8) 0 =
    if le (slice tag 0 4) =? MODULE_TYP
    then if le (slice tag 4 4) <? 16 then (match n with O => ([], Val tt) | _ => ([], Panic) end)
         else (map (fun i => module_ref {| i_off := big_off (len tag) i; i_size := le (slice tag 4 4) |}) (seq 0 n), Val tt)
    else ([], Val tt).
Proof.
  intros p a tag n H1 H2 H3 Ha T m.
  destruct (big_run tag n H1 H2 H3 p a Ha) as [A B]. split; [exact A|]. split; [exact B|].
  unfold m, T. rewrite (big_modules tag n H1 H2 H3 p a Ha).
  apply (big_modules_spec_from tag n H1 H2 H3 n 0%nat). reflexivity.
Qed.
Print Assumptions C03_big_run.
