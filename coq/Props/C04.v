(* C04 - Typed getters select the first matching tag and decode every specified field. *)
Require Import Bytes Outcome Layout Common TagType Mbi MbiTags Strings MbiAccess Build WalkSpec Mb2Spec
               IterFacts CastFacts LayoutFacts C04Proofs.
From Coq Require Import String.
Open Scope list_scope.
Open Scope N_scope.

(* the struct layouts are the specification's tables (see also C07_layout) *)
Theorem C04_layout : forall k,
  sd_offsets (kind_struct k) = (header_part k ++ spec_mbi_fields (kind_typ k)) /\ sd_align (kind_struct k) = 8 /\
  match sd_tail (kind_struct k) with
  | Some (es, _) => spec_mbi_variable (kind_typ k) = Some es /\
                    sd_tail_off (kind_struct k) = spec_mbi_size (kind_typ k) /\ kind_base k = spec_mbi_size (kind_typ k)
  | None => spec_mbi_variable (kind_typ k) = None /\ ctor_size k = spec_mbi_size (kind_typ k) /\
            sd_size_of (kind_struct k) = round8 (spec_mbi_size (kind_typ k)) /\ kind_base k = sd_size_of (kind_struct k)
  end.
Proof. exact mbi_layout. Qed.
Print Assumptions C04_layout.

(* get_tag, for every kind, every loaded region, both profiles: the first tag of the spec walk with
   that type number, viewed as the kind (cast_closed: C05 / CastFacts), nothing when there is none *)
Theorem C04_first : forall p a bs r k l ok,
  a mod 8 = 0 -> 8 <= len bs -> le (slice bs 0 4) <= len bs ->
  let m := {| m_base := a; m_bytes := bs |} in
  mbi_load p false m = Val r -> walk bs (le (slice bs 0 4)) 8 l ok ->
  get_tag p k m r =
    match find (fun it => typ_at bs (i_off it) =? kind_typ k) l with
    | Some it => t <- cast_closed k (i_off it) (i_size it) ;; Val (Some t)
    | None => if ok then Val None else Panic
    end.
Proof. exact get_tag_spec. Qed.
Print Assumptions C04_first.

(* every field accessor (all are defined through the layout table) returns the little-endian value at
   the specified offset and width: all kinds, incl. the embedded VBE structures, RSDP, module, ... *)
Theorem C04_field : forall k m t name o w,
  In (name, o, w) (spec_mbi_fields (kind_typ k)) ->
  fld k m t name = le (slice (m_bytes m) (t_off t + o) w).
Proof. exact fld_spec. Qed.
Print Assumptions C04_field.

Theorem C04_efi_withheld : forall p m r,
  (forall t, get_tag p KEfiBs m r = Val (Some t) -> efi_memory_map_tag p m r = Val None) /\
  (get_tag p KEfiBs m r = Val None -> efi_memory_map_tag p m r = get_tag p KEfiMmap m r).
Proof. intros p m r. split; [intro t; apply efi_withheld|apply efi_not_withheld]. Qed.
Print Assumptions C04_efi_withheld.

Theorem C04_fb_unknown : forall p m r t b, get_tag p KFramebuffer m r = Val (Some t) ->
  fld KFramebuffer m t "framebuffer_type" = b -> 3 <= b ->
  framebuffer_tag p m r = Val (Some (Err (EUnknownFb b))).
Proof. exact fb_tag_unknown. Qed.
Print Assumptions C04_fb_unknown.

Theorem C04_rsdp_v1 : forall m t, t_off t + 28 <= len (m_bytes m) ->
  rsdp1_checksum_valid m t = Val (sum8 (slice (m_bytes m) (t_off t + 8) 20) =? 0).
Proof. exact rsdp1_closed. Qed.
Print Assumptions C04_rsdp_v1.

Theorem C04_rsdp_v2 : forall m t, t_off t + 44 <= len (m_bytes m) ->
  rsdp2_checksum_valid m t =
    let l := fld KAcpiV2 m t "length" in
    Val (if 36 <? l then false else sum8 (slice (m_bytes m) (t_off t + 8) l) =? 0).
Proof. exact rsdp2_closed. Qed.
Print Assumptions C04_rsdp_v2.
