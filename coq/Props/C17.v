(* C17 - String tags round-trip text and apply the NUL / UTF-8 rules within the tag size.
   no_nul s: no byte of s is 0.  utf8_valid: well-formed UTF-8 (Unicode Table 3-7); a Rust &str
   satisfies it by its type invariant.  str_image typ fixed s pad: header (typ, size), the kind's
   fixed bytes, s, one NUL, padding to 8. *)
Require Import Bytes Outcome Layout Common TagType Mbi MbiTags Strings MbiAccess Build StringFacts BuildFacts.

(* the three constructors, for every NUL-free string (any length the size field can hold) *)
Theorem C17_build : forall p s pad, no_nul s -> len s < pow2_32 - 32 ->
  new_cmdline p s pad = Val (str_image 1 [] s pad) /\
  new_bootloader p s pad = Val (str_image 2 [] s pad) /\
  (forall a b, new_module p a b s pad = if a <? b then Val (str_image 3 (enc32 a ++ enc32 b) s pad) else Panic).
Proof. exact c17_build. Qed.
Print Assumptions C17_build.

(* what such a tag holds and reads back: the type, size = fixed part + |s| + 1, exactly s followed by
   one NUL inside the declared size, and the text s (length |s|, starting at the fixed offset) *)
Theorem C17_read_back : forall typ fixed s pad,
  no_nul s -> utf8_valid s = true -> len fixed + len s < pow2_32 - 16 ->
  (le (slice (str_image typ fixed s pad) 0 4) = typ mod pow2_32) /\
  (le (slice (str_image typ fixed s pad) 4 4) = str_ts fixed s) /\
  (slice (str_image typ fixed s pad) (8 + len fixed) (str_ts fixed s - (8 + len fixed)) = (s ++ [x00])%list) /\
  (parse_str (slice (str_image typ fixed s pad) (8 + len fixed) (str_ts fixed s - (8 + len fixed))) = Val (len s)).
Proof. exact str_image_read. Qed.
Print Assumptions C17_read_back.

(* a string that already ends in NUL is stored as it is *)
Theorem C17_already_terminated : forall s, ends_with_nul s = true -> str_slices s = [s].
Proof. exact c17_already_terminated. Qed.
Print Assumptions C17_already_terminated.

(* parsing: the text is the bytes before the first NUL if they are valid UTF-8; otherwise the
   respective error; never a panic; index_nul is characterised as "the first NUL" *)
Theorem C17_parse : forall bs,
  parse_str bs = match index_nul bs with
                 | None => Err EMissingNul
                 | Some i => if utf8_valid (slice bs 0 i) then Val i else Err EUtf8
                 end /\
  is_panic (parse_str bs) = false /\ is_fault (parse_str bs) = false /\
  (forall i, index_nul bs = Some i <-> (i < len bs /\ nthb bs i = 0 /\ forall j, j < i -> nthb bs j <> 0)) /\
  (index_nul bs = None <-> forall j, j < len bs -> nthb bs j <> 0).
Proof. exact c17_parse. Qed.
Print Assumptions C17_parse.

(* the accessor parses exactly the bytes between the kind's fixed offset and the tag's declared size
   (C05: tail_count = size - fixed part): padding and the next tag are not part of its input *)
Theorem C17_no_lookahead : forall k m1 m2 t,
  tail_bytes k m1 t = tail_bytes k m2 t -> tag_str k m1 t = tag_str k m2 t.
Proof. exact c17_no_lookahead. Qed.
Print Assumptions C17_no_lookahead.

Theorem C17_inside : forall k m t off n, tag_str k m t = Val (off, n) ->
  off = tail_off k t /\ n < len (tail_bytes k m t).
Proof. exact c17_inside. Qed.
Print Assumptions C17_inside.
