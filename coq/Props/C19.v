(* C19 - ELF-section iteration decodes 32/64-bit entries in order, inside the tag.
   t: a reference to an ELF sections tag with L section bytes behind its 20-byte fixed
   part (elf_tag_ok: inside memory - what cast establishes).  elf_n/elf_es/elf_sh: the
   stored entry count, entry size and string-table index. *)
Require Import Bytes Outcome Layout Common TagType Mbi MbiTags Strings MbiAccess Big StringFacts C19Proofs BigProofs ElfBigProofs.
From Coq Require Import Lia List.

(* sections() accepts exactly the tags whose n entries and string-table entry fit; everything else panics *)
Theorem C19_accept_reject : forall p m t L, elf_tag_ok m t L ->
  elf_sections p m t =
    if (elf_n m t * elf_es m t <=? L) && ((elf_n m t =? 0) || (elf_sh m t <? elf_n m t))
    then Val {| el_cur := t_off t + 20; el_rem := elf_n m t; el_es := elf_es m t;
                el_str := t_off t + 20 + (if elf_n m t =? 0 then 0 else elf_sh m t * elf_es m t) |}
    else Panic.
Proof. exact elf_sections_closed. Qed.
Print Assumptions C19_accept_reject.

Theorem C19_inv_init : forall p m t L it,
  elf_tag_ok m t L -> elf_sections p m t = Val it -> elf_inv m (t_off t) L it.
Proof. exact elf_sections_inv. Qed.
Print Assumptions C19_inv_init.

(* next(), from every state an iterator can be in: never a fault (no read outside the tag), terminates,
   keeps the invariant; a yielded section has entry size 40 or 64 and its entry and the string-table
   entry lie inside the tag; an entry size other than 40/64 is a controlled panic *)
Theorem C19_next : forall p m tag_off L fuel it, elf_inv m tag_off L it -> (N.to_nat (elf_steps it) < fuel)%nat ->
  match elf_next fuel p m it with
  | Val (Some s, it') => section_ok m tag_off L s /\ elf_inv m tag_off L it' /\ el_rem it' < el_rem it /\
                         (es_es s = 40 \/ es_es s = 64) /\ es_es s = el_es it /\
                         exists k, k < el_rem it /\ es_inner s = el_cur it + k * el_es it /\ el_rem it' = el_rem it - k - 1
  | Val (None, it') => el_rem it' = 0 /\ elf_inv m tag_off L it'
  | Panic => True
  | _ => False
  end.
Proof. exact elf_next_inv. Qed.
Print Assumptions C19_next.

(* for entry size 40 or 64: iteration yields, in order, exactly the entries with an in-use raw type *)
Theorem C19_collect : forall p m tag_off L n fuel it,
  elf_inv m tag_off L it -> el_es it = 40 \/ el_es it = 64 -> N.to_nat (el_rem it) = n -> (n < fuel)%nat ->
  elf_collect fuel p m it = (filter (in_use m) (entries_from (el_cur it) (el_es it) (el_str it) n), Val tt).
Proof. exact elf_collect_spec. Qed.
Print Assumptions C19_collect.

(* type, flags, address, size, alignment are decoded from the ELF32 / ELF64 offsets selected by the
   entry size; the string table address is the addr field of the designated entry *)
Theorem C19_fields : forall (p : profile) m tag_off L s, section_ok m tag_off L s ->
  let b := m_bytes m in let i := es_inner s in
  (es_es s = 40 ->
     elf_name_index m s = Val (le (slice b i 4)) /\ elf_typ m s = Val (le (slice b (i + 4) 4)) /\
     elf_flags m s = Val (N.land (le (slice b (i + 8) 4)) 7) /\ elf_addr m s = Val (le (slice b (i + 12) 4)) /\
     elf_size m s = Val (le (slice b (i + 20) 4)) /\ elf_addralign m s = Val (le (slice b (i + 32) 4)) /\
     elf_string_table m s = Val (le (slice b (es_str s + 12) 4))) /\
  (es_es s = 64 ->
     elf_name_index m s = Val (le (slice b i 4)) /\ elf_typ m s = Val (le (slice b (i + 4) 4)) /\
     elf_flags m s = Val (N.land (le (slice b (i + 8) 8)) 7) /\ elf_addr m s = Val (le (slice b (i + 16) 8)) /\
     elf_size m s = Val (le (slice b (i + 32) 8)) /\ elf_addralign m s = Val (le (slice b (i + 48) 8)) /\
     elf_string_table m s = Val (le (slice b (es_str s + 16) 8))) /\
  (es_es s <> 40 -> es_es s <> 64 -> elf_typ m s = Panic).
Proof. exact elf_fields_closed. Qed.
Print Assumptions C19_fields.

Theorem C19_accessors_no_fault : forall p m tag_off L s, section_ok m tag_off L s ->
  is_fault (elf_typ m s) = false /\ is_fault (elf_flags m s) = false /\ is_fault (elf_addr m s) = false /\
  is_fault (elf_size m s) = false /\ is_fault (elf_addralign m s) = false /\ is_fault (elf_end_address m s) = false /\
  is_fault (elf_section_type_of m s) = false /\ is_fault (elf_name_addr p m s) = false.
Proof. exact elf_accessors_nofault. Qed.
Print Assumptions C19_accessors_no_fault.

(* names resolve through the string-table entry the tag designates: name() dereferences exactly
   (addr field of the designated entry + name_index of this entry) mod 2^64 in the external memory ext,
   and name_at is the C string found there, UTF-8 checked *)
Theorem C19_name : forall p m ext tag_off L s, section_ok m tag_off L s ->
  let b := m_bytes m in
  (es_es s = 40 -> elf_name p m ext s = name_at ext ((le (slice b (es_str s + 12) 4) + le (slice b (es_inner s) 4)) mod pow2_64)) /\
  (es_es s = 64 -> elf_name p m ext s = name_at ext ((le (slice b (es_str s + 16) 8) + le (slice b (es_inner s) 4)) mod pow2_64)).
Proof. exact elf_name_closed. Qed.
Print Assumptions C19_name.

(* the external read: the returned bytes are those at the address up to (excluding) the first NUL, which is inside ext *)
Theorem C19_name_bytes : forall ext a bs, ext_cstr ext a = Val bs ->
  m_base ext <= a /\ a + len bs < m_base ext + len (m_bytes ext) /\
  bs = slice (m_bytes ext) (a - m_base ext) (len bs) /\
  (forall j, j < len bs -> StringFacts.nthb bs j <> 0) /\ StringFacts.nthb (m_bytes ext) (a - m_base ext + len bs) = 0.
Proof. exact ext_cstr_spec. Qed.
Print Assumptions C19_name_bytes.

(* the provided Iterator methods are iterated next(): nth(k) yields the k-th in-use entry of the run to exhaustion *)
Theorem C19_nth : forall fuel p m it items k,
  elf_collect fuel p m it = (items, Val tt) -> rmap fst (elf_nth p m it k) = Val (nth_error items k).
Proof. exact elf_nth_collect. Qed.
Print Assumptions C19_nth.

(* ELF-sections tags with ANY number of entries (n copies of one in-use section header of 40 or 64 bytes, in a boot
   information of its own): the typed getter finds the tag with n*es section bytes; sections() accepts it exactly when
   it is empty or shndx designates one of its entries; the iterator then yields the n entries at 28 + j*es, in order,
   with the designated string-table entry.  Closed form of the domain `bigelf` (n = 2^16 and more; a 2.6 MB tag). *)
Theorem C19_big : forall p a entry n sh,
  len entry = 40 \/ len entry = 64 -> is_unused (elf_section_type (le (slice entry 4 4))) = false ->
  44 + N.of_nat n * len entry < pow2_32 -> sh < pow2_32 -> a mod 8 = 0 ->
  let es := len entry in
  let m := {| m_base := a; m_bytes := elf_big_region n es sh entry |} in
  let T := 16 + N.of_nat 1 * len (elf_big_tag n es sh entry) in
  let t := {| t_off := 8; t_meta := Some (N.of_nat n * es) |} in
  get_tag p KElfSections m {| d_off := 0; d_plen := T - 8 |} = Val (Some t) /\
  elf_sections p m t =
    (if (N.of_nat n =? 0) || (sh <? N.of_nat n)
     then Val {| el_cur := 28; el_rem := N.of_nat n; el_es := es; el_str := 28 + (if N.of_nat n =? 0 then 0 else sh * es) |}
     else Panic) /\
  forall fuel, (n < fuel)%nat ->
    elf_collect fuel p m (it_j entry n sh 0) = (map (sec_j entry n sh) (seq 0 n), Val tt).
Proof.
  intros p a entry n sh H1 H2 H3 H4 Ha es m T t.
  split; [apply elf_big_get; assumption|].
  split; [apply elf_big_sections; assumption|].
  intros fuel Hf. apply elf_big_collect; try assumption; lia.
Qed.
Print Assumptions C19_big.
