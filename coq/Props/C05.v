(* C05 - Variable-length tag contents have exactly the extent the tag size implies.
   g is a generic tag reference as the iterators produce them (C03 / C11): its header
   lies in memory, its stored size is `size >= 8`, its payload length is size - 8. *)
Require Import Bytes Outcome Layout Common TagType Mbi MbiTags Header HeaderTags WalkSpec TagEq CastFacts C05Proofs TagEqProofs.

(* fixed part and element size of every variable-length kind of the boot information:
   (type number, fixed part, element size) *)
Theorem C05_table :
  map (fun k => (kind_typ k, kind_base k, tail_esize k)) (filter is_dst all_kinds) =
  [(1, 8, 1); (2, 8, 1); (3, 16, 1); (6, 16, 24); (8, 32, 1); (9, 20, 1); (13, 16, 1); (16, 8, 1); (17, 16, 1)].
Proof. exact c05_table. Qed.
Print Assumptions C05_table.

Theorem C05_extent : forall p k m g t,
  is_dst k = true ->
  d_off g + 8 <= len (m_bytes m) ->
  let size := size_at (m_bytes m) (d_off g) in
  8 <= size -> d_plen g = size - 8 ->
  cast_kind p k m g = Val t ->
  kind_base k <= size /\ (size - kind_base k) mod tail_esize k = 0 /\
  t_off t = d_off g /\ tail_off k t = d_off g + kind_base k /\
  tail_count t = (size - kind_base k) / tail_esize k /\
  tail_off k t + tail_count t * tail_esize k = d_off g + size /\
  tail_off k t + tail_count t * tail_esize k <= d_off g + round8 size.
Proof. exact c05_extent. Qed.
Print Assumptions C05_extent.

Theorem C05_reject : forall p k m g,
  is_dst k = true ->
  d_off g + 8 <= len (m_bytes m) ->
  let size := size_at (m_bytes m) (d_off g) in
  8 <= size -> d_plen g = size - 8 ->
  (size < kind_base k \/ (size - kind_base k) mod tail_esize k <> 0) ->
  cast_kind p k m g = Panic.
Proof. exact c05_reject. Qed.
Print Assumptions C05_reject.

Theorem C05_requests : forall p m g t,
  d_off g + 8 <= len (m_bytes m) ->
  let size := size_at (m_bytes m) (d_off g) in
  8 <= size -> d_plen g = size - 8 ->
  hcast_kind p HkInfoReq m g = Val t ->
  (size - 8) mod 4 = 0 /\ hrequests t = (d_off g + 8, (size - 8) / 4) /\
  d_off g + 8 + 4 * ((size - 8) / 4) = d_off g + size.
Proof. exact c05_requests. Qed.
Print Assumptions C05_requests.

Theorem C05_requests_reject : forall p m g,
  d_off g + 8 <= len (m_bytes m) ->
  let size := size_at (m_bytes m) (d_off g) in
  8 <= size -> d_plen g = size - 8 -> (size - 8) mod 4 <> 0 ->
  hcast_kind p HkInfoReq m g = Panic.
Proof. exact c05_requests_reject. Qed.
Print Assumptions C05_requests_reject.

(* `==` between two typed tags (the PartialEq impls, Model/TagEq.v) depends only on the bytes below the unpadded
   extent - fixed part plus the elements the size implies: alignment padding and the following tag never take part;
   and two equal tags have the same element count and the same variable part *)
Theorem C05_eq_extent : forall k m1 t1 m2 t2,
  t_meta t1 = t_meta t2 ->
  (forall o w, o + w <= tag_extent k t1 ->
               slice (m_bytes m1) (t_off t1 + o) w = slice (m_bytes m2) (t_off t2 + o) w) ->
  (match sd_tail (kind_struct k), t_meta t1 with Some _, None => False | _, _ => True end) ->
  tag_eqb k m1 t1 m2 t2 = true.
Proof. exact tag_eqb_extent. Qed.
Print Assumptions C05_eq_extent.

Theorem C05_eq_tail : forall k m1 t1 m2 t2 es ea n1,
  sd_tail (kind_struct k) = Some (es, ea) -> t_meta t1 = Some n1 -> tag_eqb k m1 t1 m2 t2 = true ->
  t_meta t2 = Some n1 /\
  slice (m_bytes m1) (tail_off k t1) (n1 * es) = slice (m_bytes m2) (tail_off k t2) (n1 * es).
Proof. exact tag_eqb_tail. Qed.
Print Assumptions C05_eq_tail.
