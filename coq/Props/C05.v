(* C05 - Variable-length tag contents have exactly the extent the tag size implies.
   g is a generic tag reference as the iterators produce them (C03 / C11): its header
   lies in memory, its stored size is `size >= 8`, its payload length is size - 8. *)
Require Import Bytes Outcome Layout Common TagType Mbi MbiTags Header HeaderTags WalkSpec CastFacts C05Proofs.

(* fixed part and element size of every variable-length kind of the boot information:
   (type number, fixed part, element size) *)
Theorem C05_table :
  map (fun k => (kind_typ k, kind_base k, tail_esize k)) (filter is_dst all_kinds) =
  [(1, 8, 1); (2, 8, 1); (3, 16, 1); (6, 16, 24); (8, 32, 1); (9, 20, 1); (13, 16, 1); (16, 8, 1); (17, 16, 1)].
Proof. exact c05_table. Qed.
Print Assumptions C05_table.

Theorem C05_extent : forall p k m g t,
  is_dst k = true ->
  d_off g + 8 <= len (m_bytes m) ->
  let size := size_at (m_bytes m) (d_off g) in
  8 <= size -> d_plen g = size - 8 ->
  cast_kind p k m g = Val t ->
  kind_base k <= size /\ (size - kind_base k) mod tail_esize k = 0 /\
  t_off t = d_off g /\ tail_off k t = d_off g + kind_base k /\
  tail_count t = (size - kind_base k) / tail_esize k /\
  tail_off k t + tail_count t * tail_esize k = d_off g + size /\
  tail_off k t + tail_count t * tail_esize k <= d_off g + round8 size.
Proof. exact c05_extent. Qed.
Print Assumptions C05_extent.

Theorem C05_reject : forall p k m g,
  is_dst k = true ->
  d_off g + 8 <= len (m_bytes m) ->
  let size := size_at (m_bytes m) (d_off g) in
  8 <= size -> d_plen g = size - 8 ->
  (size < kind_base k \/ (size - kind_base k) mod tail_esize k <> 0) ->
  cast_kind p k m g = Panic.
Proof. exact c05_reject. Qed.
Print Assumptions C05_reject.

Theorem C05_requests : forall p m g t,
  d_off g + 8 <= len (m_bytes m) ->
  let size := size_at (m_bytes m) (d_off g) in
  8 <= size -> d_plen g = size - 8 ->
  hcast_kind p HkInfoReq m g = Val t ->
  (size - 8) mod 4 = 0 /\ hrequests t = (d_off g + 8, (size - 8) / 4) /\
  d_off g + 8 + 4 * ((size - 8) / 4) = d_off g + size.
Proof. exact c05_requests. Qed.
Print Assumptions C05_requests.

Theorem C05_requests_reject : forall p m g,
  d_off g + 8 <= len (m_bytes m) ->
  let size := size_at (m_bytes m) (d_off g) in
  8 <= size -> d_plen g = size - 8 -> (size - 8) mod 4 <> 0 ->
  hcast_kind p HkInfoReq m g = Panic.
Proof. exact c05_requests_reject. Qed.
Print Assumptions C05_requests_reject.
