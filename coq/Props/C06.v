(* C06 - Building then loading a boot information preserves exactly the supplied tags.
   A builder call is (slot, tag image): slot = the tag type number of the method's parameter type
   (3 add_module, 13 add_smbios, 22 add_custom_tag).  wf_img: a tag image as the constructors and
   new_boxed produce them (size >= 8, length = size rounded up to 8) - see C07 / C16. *)
Require Import Bytes Outcome Layout Common TagType Mbi MbiTags Build WalkSpec Mb2Spec CastFacts BuildFacts C16Proofs C06Proofs C07Proofs.
Open Scope list_scope.
Open Scope N_scope.

(* which tags the builder retains after any sequence of calls: repeatable kinds all of them in call
   order, single-valued kinds the last one supplied (add_custom_tag panics on a non-custom type) *)
Theorem C06_retained : forall calls b,
  (forall img, In (22, img) calls -> is_custom_img img = true) ->
  exists b', run_calls b calls = Val b' /\
    b_modules b' = b_modules b ++ imgs_of 3 calls /\
    b_smbios b' = b_smbios b ++ imgs_of 13 calls /\
    b_custom b' = b_custom b ++ imgs_of 22 calls /\
    (forall k, repeatable k = false ->
       get_slot (b_single b') k = match last_of k calls with Some x => Some x | None => get_slot (b_single b) k end).
Proof. exact run_calls_spec. Qed.
Print Assumptions C06_retained.

(* build(): the header with the exact byte length, the retained tags in slot order, the end tag *)
Theorem C06_build : forall p b pad,
  Forall wf_img (builder_slices b) -> 8 + len (List.concat (builder_slices b ++ [END_TAG])) < pow2_32 ->
  builder_build p b pad = Val (built_image (builder_slices b)).
Proof. exact builder_build_closed. Qed.
Print Assumptions C06_build.

(* the built structure: a multiple of 8 long, declares its exact length, loads successfully in both
   profiles at any 8-aligned address, its walk consists of exactly the retained tags (in order, none
   dropped or duplicated) followed by the end tag as the final 8 bytes, and each retained tag is found
   byte-identical at the offset of its item *)
Theorem C06_roundtrip : forall a slices,
  Forall wf_img slices -> 8 + len (List.concat (slices ++ [END_TAG])) < pow2_32 -> a mod 8 = 0 ->
  let img := built_image slices in
  let total := len img in
  total mod 8 = 0 /\ le (slice img 0 4) = total /\
  (forall p, mbi_load p false {| m_base := a; m_bytes := img |} = Val {| d_off := 0; d_plen := total - 8 |}) /\
  walk img total 8 (items_of (slices ++ [END_TAG]) 8) true /\
  slice img (total - 8) 8 = END_TAG /\
  (forall i t, nth_error slices i = Some t ->
     exists off, nth_error (items_of (slices ++ [END_TAG]) 8) i = Some {| i_off := off; i_size := img_size t |} /\
                 slice img off (len t) = t).
Proof. exact built_image_props. Qed.
Print Assumptions C06_roundtrip.

(* the hypothesis wf_img is what the constructors deliver (the only way safe code obtains tag values):
   every boxed and every sized constructor result is a well-formed image ... *)
Theorem C06_boxed_wf : forall p k slices pad img, is_dst k = true -> 8 + content_len slices < pow2_32 -> 8 <= len pad ->
  boxed p k slices pad = Val img -> wf_img img.
Proof. exact boxed_wf. Qed.
Print Assumptions C06_boxed_wf.

Theorem C06_sized_wf : forall k args pad,
  is_dst k = false ->
  Forall2 (fun ow v => fval_ok (snd ow) v) (spec_mbi_fields (kind_typ k)) args ->
  sd_size_of (kind_struct k) <= len pad ->
  wf_img (ctor_sized k args pad).
Proof. exact sized_wf. Qed.
Print Assumptions C06_sized_wf.

(* ... and the tags a builder retains are among the supplied ones, so a property of all supplied tags
   (e.g. wf_img) holds of all retained tags *)
Theorem C06_retained_subset : forall calls b' (P : list byte -> Prop),
  (forall img, In (22, img) calls -> is_custom_img img = true) ->
  run_calls builder_new calls = Val b' -> Forall P (map snd calls) -> Forall P (builder_slices b').
Proof. exact retained_subset. Qed.
Print Assumptions C06_retained_subset.
