(* C16 - Heap construction lays out header and content exactly; cloning is the identity.
   `pad` is the (arbitrary, universally quantified) prior content of the allocation. *)
Require Import Bytes Outcome Layout Common TagType Mbi MbiTags Build TagEq CastFacts BuildFacts C16Proofs TagEqProofs.

(* new_boxed::<DynSizedStructure<H>>(header, slices), for each of the six header kinds (the five of the crates and a user-defined 12-byte one), both profiles,
   every list of slices whose total fits the 32-bit size field *)
Theorem C16_layout : forall p h hdr slices pad,
  len hdr = hsize h ->
  let ts := hsize h + content_len slices in
  ts < pow2_32 ->
  new_boxed p h (tdesc_generic h) hdr slices pad =
    Val (set_size h hdr ts ++ List.concat slices ++ slice pad 0 (round8 ts - ts))%list.
Proof. exact new_boxed_generic. Qed.
Print Assumptions C16_layout.

(* header with its size field set to header size + content length, content without gaps, an
   allocation of the total rounded up to 8 (a multiple of 8); the value's size_of_val - the size
   the box is deallocated with - equals the allocated size *)
Theorem C16_shape : forall p h hdr slices pad b,
  len hdr = hsize h -> hsize h + content_len slices < pow2_32 -> len pad >= 8 ->
  new_boxed p h (tdesc_generic h) hdr slices pad = Val b ->
  let ts := hsize h + content_len slices in
  slice b 0 (hsize h) = set_size h hdr ts /\
  slice b (hsize h) (content_len slices) = List.concat slices /\
  len b = round8 ts /\ len b mod 8 = 0 /\
  t_sizeof (tdesc_generic h) (Some (ts - hsize h)) = len b.
Proof. exact new_boxed_generic_shape. Qed.
Print Assumptions C16_shape.

Theorem C16_size_field : forall h hdr ts, len hdr = hsize h -> stored_size h (set_size h hdr ts) = ts mod pow2_32.
Proof. exact stored_set_size. Qed.
Print Assumptions C16_size_field.

(* cloning a well-formed dynamically sized tag (wf_img: size >= 8, image as long as the size rounded
   up to 8) yields an equal tag: same declared size, same bytes up to that size, same extent *)
Theorem C16_clone : forall p img pad c, wf_img img -> len pad >= 8 ->
  clone_dyn p HTagH (tdesc_generic HTagH) img pad = Val c ->
  le (slice c 4 4) = le (slice img 4 4) /\
  slice c 0 (le (slice img 4 4)) = slice img 0 (le (slice img 4 4)) /\ len c = len img.
Proof. exact clone_generic_equal. Qed.
Print Assumptions C16_clone.

Theorem C16_clone_total : forall p img pad, wf_img img ->
  clone_dyn p HTagH (tdesc_generic HTagH) img pad =
    Val (slice img 0 (le (slice img 4 4)) ++ slice pad 0 (len img - le (slice img 4 4)))%list.
Proof. exact clone_generic. Qed.
Print Assumptions C16_clone_total.

(* every dynamically sized built-in kind clones like the generic structure, provided the tag's size
   is one the kind accepts (at least its fixed part, element-divisible) *)
Theorem C16_clone_kind : forall p k img pad, is_dst k = true -> wf_img img ->
  kind_base k <= le (slice img 4 4) -> (le (slice img 4 4) - kind_base k) mod tail_esize k = 0 ->
  clone_dyn p HTagH (kind_tdesc k) img pad = clone_dyn p HTagH (tdesc_generic HTagH) img pad.
Proof. exact clone_kind. Qed.
Print Assumptions C16_clone_kind.

(* "Cloning any dynamically sized tag yields an equal tag" in the sense of the type's own PartialEq (Model/TagEq.v):
   the clone of every dynamically sized built-in kind compares equal to the original *)
Theorem C16_clone_eq : forall p k img pad c,
  is_dst k = true -> wf_img img -> len pad >= 8 ->
  kind_base k <= le (slice img 4 4) -> (le (slice img 4 4) - kind_base k) mod tail_esize k = 0 ->
  clone_dyn p HTagH (kind_tdesc k) img pad = Val c ->
  let n := (le (slice img 4 4) - kind_base k) / tail_esize k in
  tag_eqb k {| m_base := 0; m_bytes := img |} {| t_off := 0; t_meta := Some n |}
            {| m_base := 0; m_bytes := c |} {| t_off := 0; t_meta := Some n |} = true.
Proof. exact clone_is_equal. Qed.
Print Assumptions C16_clone_eq.
