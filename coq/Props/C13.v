(* C13 - Searching a binary image for the header is exact and total. *)
Require Import Bytes Outcome Common TagType Header Sparse C13Proofs SparseProofs.

(* Specification vocabulary:
   search_len buf   = min 8192 (len buf)
   occurs_at buf i  = i + 4 <= search_len buf /\ the 4 bytes at i decode (LE) to 0xE85250D6
   first_occ buf i  = occurs_at buf i /\ no occurrence at a smaller index *)

Theorem C13_none : forall p a buf, a mod 8 = 0 ->
  ((forall i, ~ occurs_at buf i) <-> find_header p a buf = Val None).
Proof. exact c13_none. Qed.
Print Assumptions C13_none.

Theorem C13_some : forall p a buf i, a mod 8 = 0 -> first_occ buf i ->
  find_header p a buf =
    if negb (i mod 8 =? 0) then Err EWrongAlignment
    else if len buf <? i + 12 then Err EMissingPadding
    else if len buf <? i + le (slice buf (i + 8) 4) then Err EInvalidReportedTotalSize
    else Val (Some (i, le (slice buf (i + 8) 4), i)).
Proof. exact c13_some. Qed.
Print Assumptions C13_some.

(* a buffer that does not start at an 8-aligned address is refused whatever it contains *)
Theorem C13_misaligned : forall p a buf, a mod 8 <> 0 -> find_header p a buf = Err EWrongAlignment.
Proof. exact c13_misaligned. Qed.
Print Assumptions C13_misaligned.

(* never a panic, never an out-of-bounds read, for every address and buffer (length 0 included) *)
Theorem C13_total : forall p a buf,
  is_panic (find_header p a buf) = false /\ is_fault (find_header p a buf) = false.
Proof. exact c13_total. Qed.
Print Assumptions C13_total.

(* buffers no list of bytes can hold (4 GiB and more): on EVERY buffer that starts with `prefix` (covering the search
   window and the length word of a header found in it), find_header depends on the rest only through its length *)
Theorem C13_sparse : forall p a prefix rest,
  8204 <= len prefix \/ rest = nil ->
  find_header p a (prefix ++ rest) = find_header_sparse a prefix (len prefix + len rest).
Proof. exact find_header_sparse_ok. Qed.
Print Assumptions C13_sparse.
