(* C08 - Results do not depend on build profile or optional features (profile dimension).
   Every model function that takes the profile (Dev: overflow checks on; Release: wrapping) returns the
   same result in both, for every input inside the stated domain.  The domain hypotheses are the ones
   of C01/C02/C09/C10 (memory valid for the declared size; iterator positions reachable).  Functions
   of the model that do not take the profile are independent of it by construction (they are listed in
   Proofs/C08Proofs.v).  The feature dimension is decided by the 4-configuration correspondence run. *)
Require Import Bytes Outcome Layout Common TagType Mbi MbiTags MbiAccess Header HeaderTags WalkSpec
               IterFacts C11Proofs C18Proofs C08Proofs.
Open Scope list_scope.
Open Scope N_scope.

Theorem C08_common : forall h m off n hdr,
  ref_from_slice Dev h m off n = ref_from_slice Release h m off n /\
  payload_len Dev h hdr = payload_len Release h hdr /\ total_size Dev h hdr = total_size Release h hdr.
Proof. intros. split; [apply p_ref_from_slice|split; [apply p_payload_len|apply p_total_size]]. Qed.
Print Assumptions C08_common.

Theorem C08_align : forall s, s + 7 < pow2_64 -> inc_align Dev s = inc_align Release s.
Proof. exact p_inc_align. Qed.
Print Assumptions C08_align.

Theorem C08_iter : forall h m b blen nxt, iter_ok h m b blen -> nxt mod 8 = 0 -> nxt <= blen ->
  tagiter_next Dev h m b blen nxt = tagiter_next Release h m b blen nxt.
Proof. exact p_tagiter_next. Qed.
Print Assumptions C08_iter.

Theorem C08_cast : forall m g, d_off g + 8 <= len (m_bytes m) -> 8 <= size_at (m_bytes m) (d_off g) ->
  d_plen g = size_at (m_bytes m) (d_off g) - 8 ->
  (forall k, cast_kind Dev k m g = cast_kind Release k m g) /\ (forall k, hcast_kind Dev k m g = hcast_kind Release k m g).
Proof. intros m g A B C. split; intro k; [apply p_cast_kind|apply p_hcast_kind]; assumption. Qed.
Print Assumptions C08_cast.

Theorem C08_mbi_load : forall a bs, a mod 8 = 0 -> 8 <= len bs -> le (slice bs 0 4) <= len bs ->
  mbi_load Dev false {| m_base := a; m_bytes := bs |} = mbi_load Release false {| m_base := a; m_bytes := bs |}.
Proof. exact p_mbi_load. Qed.
Print Assumptions C08_mbi_load.

Theorem C08_get_tag : forall a bs r k,
  a mod 8 = 0 -> 8 <= len bs -> le (slice bs 0 4) <= len bs ->
  let m := {| m_base := a; m_bytes := bs |} in
  mbi_load Dev false m = Val r -> get_tag Dev k m r = get_tag Release k m r.
Proof. exact p_get_tag. Qed.
Print Assumptions C08_get_tag.

Theorem C08_efi : forall m L it, efi_inv m L it ->
  efi_next Dev m it = efi_next Release m it /\ efi_len Dev it = efi_len Release it.
Proof. exact p_efi_next. Qed.
Print Assumptions C08_efi.

Theorem C08_elf : forall fuel m it t,
  elf_next fuel Dev m it = elf_next fuel Release m it /\ elf_sections Dev m t = elf_sections Release m t.
Proof. intros. split; [apply p_elf_next|apply p_elf_sections]. Qed.
Print Assumptions C08_elf.

Theorem C08_hdr_load : forall a bs, a mod 8 = 0 -> 16 <= len bs -> le (slice bs 8 4) <= len bs ->
  arch_defined (le (slice bs 4 4)) = true ->
  hdr_load Dev false {| m_base := a; m_bytes := bs |} = hdr_load Release false {| m_base := a; m_bytes := bs |}.
Proof. exact p_hdr_load. Qed.
Print Assumptions C08_hdr_load.

Theorem C08_find_header : forall a buf, find_header Dev a buf = find_header Release a buf.
Proof. exact p_find_header. Qed.
Print Assumptions C08_find_header.

Theorem C08_hget_tag : forall a bs r k l ok,
  a mod 8 = 0 -> 16 <= len bs -> le (slice bs 8 4) <= len bs -> arch_defined (le (slice bs 4 4)) = true ->
  let m := {| m_base := a; m_bytes := bs |} in
  hdr_load Dev false m = Val r -> walk bs (le (slice bs 8 4)) 16 l ok -> types_defined bs l ->
  hget_tag Dev k m r = hget_tag Release k m r.
Proof. exact p_hget_tag. Qed.
Print Assumptions C08_hget_tag.
