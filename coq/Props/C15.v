(* C15 - Casting to a (user-defined) tag type never yields a view larger than the tag. *)
Require Import Bytes Outcome Layout Common UserTypes TagType Mbi MbiTags C15Proofs.

(* for every type descriptor T (BASE_SIZE, dst_len, layout - built-in or user-defined, truthful or
   not): a cast that returns, returns a reference at the tag's own address whose in-memory size
   equals the tag's size rounded up to 8 *)
Theorem C15_cast_sound : forall p h T m r t, cast p h T m r = Val t ->
  t_off t = d_off r /\ t_sizeof T (t_meta t) = dref_size_of_val h r /\ hsize h <= t_base T.
Proof. exact cast_sound. Qed.
Print Assumptions C15_cast_sound.

(* a cast reads nothing but the tag header: it cannot fault unless the type's own dst_len does *)
Theorem C15_cast_outcome : forall p h T m r,
  d_off r + hsize h <= len (m_bytes m) ->
  (forall hdr, is_fault (t_dstlen T p hdr) = false) ->
  is_fault (cast p h T m r) = false.
Proof. exact cast_outcome. Qed.
Print Assumptions C15_cast_outcome.

(* user-defined types that truthfully declare fixed part and element count (user_tdesc): their
   dst_len never faults, and the whole unsized tail of the typed view lies inside the tag's extent *)
Theorem C15_user_dstlen : forall d p hdr, is_fault (t_dstlen (user_tdesc d) p hdr) = false.
Proof. exact user_dstlen_nofault. Qed.
Print Assumptions C15_user_dstlen.

Theorem C15_user_extent : forall p d m r t es ea,
  sd_tail d = Some (es, ea) -> 1 <= sd_align d ->
  cast p HTagH (user_tdesc d) m r = Val t ->
  exists n, t_meta t = Some n /\ t_off t = d_off r /\
            sd_tail_off d + n * es <= dref_size_of_val HTagH r /\
            sd_size_of_val d (Some n) = dref_size_of_val HTagH r.
Proof. exact user_cast_extent. Qed.
Print Assumptions C15_user_extent.

(* BootInformation::get_tag::<T>() is one function for built-in and user-defined T: the typed getters of the
   built-in kinds are its instances at (kind_typ k, kind_tdesc k); what C04 proves about the selection of the first
   tag of a type and what this file proves about cast::<T> compose for every T *)
Theorem C15_get_tag_generic : forall p k m r,
  get_tag p k m r = get_tag_user p (kind_typ k) (kind_tdesc k) m r.
Proof. reflexivity. Qed.
Print Assumptions C15_get_tag_generic.
