(* C02 - Loading accepts exactly the well-formed boot informations. *)
Require Import Bytes Outcome Common Mbi Sparse C02Proofs SparseProofs.

(* For every profile, 8-aligned address and memory content in which the header
   and the declared region are valid memory, load equals this decision rule:
   no Panic occurs on the right-hand side, and the order of the tests is the
   precedence of the errors. *)
Theorem C02_load_spec : forall (p : profile) (a : N) (bs : list byte),
  a mod 8 = 0 -> 8 <= len bs -> le (slice bs 0 4) <= len bs ->
  mbi_load p false {| m_base := a; m_bytes := bs |} =
    let t := le (slice bs 0 4) in
    if t <? 8 then Err EShorterThanHeader
    else if negb (t mod 8 =? 0) then Err EMissingPadding
    else if (le (slice bs (t - 8) 4) =? 0) && (le (slice bs (t - 4) 4) =? 8)
         then Val {| d_off := 0; d_plen := t - 8 |}
         else Err ENoEndTag.
Proof. exact c02_load_spec. Qed.
Print Assumptions C02_load_spec.

(* the same rule for a pointer that is NOT 8-aligned: never a structure, never a panic, and nothing beyond the 8 header
   bytes is read (the hypothesis asks for no more valid memory than that) *)
Theorem C02_misaligned : forall (p : profile) (a : N) (bs : list byte),
  a mod 8 <> 0 -> 8 <= len bs ->
  mbi_load p false {| m_base := a; m_bytes := bs |} =
    if le (slice bs 0 4) <? 8 then Err EShorterThanHeader else Err EWrongAlignment.
Proof. exact c02_misaligned. Qed.
Print Assumptions C02_misaligned.

Theorem C02_null : forall p m, mbi_load p true m = Err ENull.
Proof. exact c02_null. Qed.
Print Assumptions C02_null.

Theorem C02_addresses : forall p a bs r,
  a mod 8 = 0 -> 8 <= len bs -> le (slice bs 0 4) <= len bs -> a + le (slice bs 0 4) < pow2_64 ->
  let m := {| m_base := a; m_bytes := bs |} in
  mbi_load p false m = Val r ->
  mbi_start_address m r = a /\ mbi_end_address p m r = Val (a + le (slice bs 0 4)) /\
  mbi_total_size m r = le (slice bs 0 4).
Proof. exact c02_addresses. Qed.
Print Assumptions C02_addresses.

(* boot informations of sizes no list of bytes can hold: on EVERY memory of the declared size that starts with these 8
   bytes and ends with those 8, whatever lies between, load is the closed form evaluated on the 16 bytes alone *)
Theorem C02_load_sparse : forall p a hdr8 mid last8,
  a mod 8 = 0 -> len hdr8 = 8 -> len last8 = 8 ->
  le (slice hdr8 0 4) = 16 + len mid \/ (le (slice hdr8 0 4) < 16 /\ le (slice hdr8 0 4) <= 16 + len mid) ->
  mbi_load p false {| m_base := a; m_bytes := hdr8 ++ mid ++ last8 |} = mbi_load_sparse hdr8 last8.
Proof. exact mbi_load_sparse_ok. Qed.
Print Assumptions C02_load_sparse.
