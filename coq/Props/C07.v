(* C07 - Every tag constructor emits the spec-exact binary image.
   Spec tables: Spec/Mb2Spec.v (type numbers, field offsets/widths, sizes).  `pad` is the arbitrary
   prior content of the memory the tag is built in (padding bytes come from it). *)
Require Import Bytes Outcome Layout Common TagType Mbi MbiTags Strings MbiAccess Header HeaderTags Build Mb2Spec
               CastFacts BuildFacts C16Proofs LayoutFacts C07Proofs.
From Coq Require Import String.
Open Scope list_scope.
Open Scope N_scope.

(* type numbers (= the kinds' ID constants) are the specified ones *)
Theorem C07_types :
  map kind_typ all_kinds = map spec_mbi_type
    ["end"; "cmdline"; "boot_loader_name"; "module"; "basic_meminfo"; "bootdev"; "mmap"; "vbe"; "framebuffer";
     "elf_sections"; "apm"; "efi32"; "efi64"; "smbios"; "acpi_old"; "acpi_new"; "network"; "efi_mmap"; "efi_bs";
     "efi32_ih"; "efi64_ih"; "load_base_addr"]%string /\
  map hkind_typ all_hkinds = [0; 1; 2; 3; 4; 5; 6; 7; 8; 9; 10].
Proof. split; [exact mbi_types|exact hdr_types]. Qed.
Print Assumptions C07_types.

(* the struct layouts (repr(C) algorithm applied to the transcribed declarations) are the specified
   tables; the size each constructor writes is the specified unpadded size; in-memory size = that size
   rounded up to 8; all tag types are 8-aligned *)
Theorem C07_layout : forall k,
  sd_offsets (kind_struct k) = (header_part k ++ spec_mbi_fields (kind_typ k)) /\
  sd_align (kind_struct k) = 8 /\
  match sd_tail (kind_struct k) with
  | Some (es, _) => spec_mbi_variable (kind_typ k) = Some es /\
                    sd_tail_off (kind_struct k) = spec_mbi_size (kind_typ k) /\
                    kind_base k = spec_mbi_size (kind_typ k)
  | None => spec_mbi_variable (kind_typ k) = None /\
            ctor_size k = spec_mbi_size (kind_typ k) /\
            sd_size_of (kind_struct k) = round8 (spec_mbi_size (kind_typ k)) /\
            kind_base k = sd_size_of (kind_struct k)
  end.
Proof. exact mbi_layout. Qed.
Print Assumptions C07_layout.

Theorem C07_hlayout : forall k,
  sd_offsets (hkind_struct k) = (("header"%string, 0, 8) :: spec_htag_fields (hkind_typ k)) /\
  sd_align (hkind_struct k) = 8 /\
  hctor_size k = spec_htag_size (hkind_typ k) /\
  match sd_tail (hkind_struct k) with
  | Some (es, _) => es = 4 /\ sd_tail_off (hkind_struct k) = 8 /\ hkind_base k = 8
  | None => sd_size_of (hkind_struct k) = round8 (spec_htag_size (hkind_typ k))
  end.
Proof. exact hdr_layout. Qed.
Print Assumptions C07_hlayout.

(* sized boot-information tags: for all argument values (numbers are encoded little-endian in the
   field's width, byte arrays must have the field's width): type, size, extent, and every specified
   field holds the encoding of its argument *)
Theorem C07_sized : forall k args pad,
  is_dst k = false ->
  Forall2 (fun ow v => fval_ok (snd ow) v) (spec_mbi_fields (kind_typ k)) args ->
  sd_size_of (kind_struct k) <= len pad ->
  let img := ctor_sized k args pad in
  le (slice img 0 4) = kind_typ k /\ le (slice img 4 4) = spec_mbi_size (kind_typ k) /\
  len img = round8 (spec_mbi_size (kind_typ k)) /\
  (forall i n o w v, nth_error (spec_mbi_fields (kind_typ k)) i = Some (n, o, w) -> nth_error args i = Some v ->
                     slice img o w = enc_fval w v).
Proof. exact c07_sized. Qed.
Print Assumptions C07_sized.

Theorem C07_hsized : forall k flags args pad,
  sd_tail (hkind_struct k) = None ->
  Forall2 (fun ow v => fval_ok (snd ow) v) (spec_htag_fields (hkind_typ k)) args ->
  sd_size_of (hkind_struct k) <= len pad ->
  let img := hctor_sized k flags args pad in
  slice img 0 8 = (enc16 (hkind_typ k) ++ enc16 flags ++ enc32 (spec_htag_size (hkind_typ k))) /\
  len img = round8 (spec_htag_size (hkind_typ k)) /\
  (forall i n o w v, nth_error (spec_htag_fields (hkind_typ k)) i = Some (n, o, w) -> nth_error args i = Some v ->
                     slice img o w = enc_fval w v).
Proof. exact c07_hsized. Qed.
Print Assumptions C07_hsized.

(* boxed (variable-length) tags: header with the type and the exact unpadded size, the fixed fields,
   the variable part verbatim, then padding *)
Theorem C07_boxed : forall p k fixed var pad,
  is_dst k = true -> len (List.concat fixed) = kind_base k - 8 -> len var mod tail_esize k = 0 ->
  kind_base k + len var < pow2_32 ->
  boxed p k (fixed ++ [var]) pad =
    Val (enc32 (kind_typ k) ++ enc32 (kind_base k + len var) ++ List.concat fixed ++ var
         ++ slice pad 0 (round8 (kind_base k + len var) - (kind_base k + len var))).
Proof. exact boxed_ok. Qed.
Print Assumptions C07_boxed.

Theorem C07_elf : forall p n es sh secs pad, 20 + len secs < pow2_32 ->
  new_elf p n es sh secs pad =
    Val (enc32 9 ++ enc32 (20 + len secs) ++ (enc32 n ++ enc32 es ++ enc32 sh) ++ secs
         ++ slice pad 0 (round8 (20 + len secs) - (20 + len secs))).
Proof. exact new_elf_closed. Qed.
Print Assumptions C07_elf.

Theorem C07_smbios : forall p major minor tables pad, 16 + len tables < pow2_32 ->
  new_smbios p major minor tables pad =
    Val (enc32 13 ++ enc32 (16 + len tables) ++ ((enc8 major ++ enc8 minor) ++ repeatN x00 6) ++ tables
         ++ slice pad 0 (round8 (16 + len tables) - (16 + len tables))).
Proof. exact new_smbios_closed. Qed.
Print Assumptions C07_smbios.

Theorem C07_network : forall p dhcp pad, 8 + len dhcp < pow2_32 ->
  new_network p dhcp pad =
    Val (enc32 16 ++ enc32 (8 + len dhcp) ++ dhcp ++ slice pad 0 (round8 (8 + len dhcp) - (8 + len dhcp))).
Proof. exact new_network_closed. Qed.
Print Assumptions C07_network.

(* documented rejection: desc_size = 0 *)
Theorem C07_efi_mmap : forall p d v mp pad, 16 + len mp < pow2_32 ->
  new_efi_mmap p d v mp pad =
    if d =? 0 then Panic
    else Val (enc32 17 ++ enc32 (16 + len mp) ++ (enc32 d ++ enc32 v) ++ mp
              ++ slice pad 0 (round8 (16 + len mp) - (16 + len mp))).
Proof. exact new_efi_mmap_closed. Qed.
Print Assumptions C07_efi_mmap.

Theorem C07_mmap : forall p areas pad, 16 + 24 * len areas < pow2_32 ->
  new_mmap p areas pad =
    Val (enc32 6 ++ enc32 (16 + 24 * len areas) ++ (enc32 24 ++ enc32 0) ++ List.concat (map area_bytes areas)
         ++ slice pad 0 (round8 (16 + 24 * len areas) - (16 + 24 * len areas))).
Proof. exact new_mmap_closed. Qed.
Print Assumptions C07_mmap.

(* fb_serialize: u16 colour count + (r,g,b) triples | six RGB bytes | nothing; more than 65535
   palette entries cannot be encoded and are rejected by a panic (see fb_serialize) *)
Theorem C07_framebuffer : forall p addr pitch width height bpp a ser pad,
  fb_serialize a = Val ser -> 32 + len ser < pow2_32 ->
  new_framebuffer p addr pitch width height bpp a pad =
    Val (enc32 8 ++ enc32 (32 + len ser)
         ++ (enc64 addr ++ enc32 pitch ++ enc32 width ++ enc32 height ++ enc8 bpp ++ enc8 (fb_id a) ++ [x00; x00]) ++ ser
         ++ slice pad 0 (round8 (32 + len ser) - (32 + len ser))).
Proof. exact new_framebuffer_closed. Qed.
Print Assumptions C07_framebuffer.

Theorem C07_info_request : forall p flags reqs pad, 8 + 4 * len reqs < pow2_32 ->
  new_info_request p flags reqs pad =
    Val (enc16 1 ++ enc16 flags ++ enc32 (8 + 4 * len reqs) ++ List.concat (map enc32 reqs)
         ++ slice pad 0 (round8 (8 + 4 * len reqs) - (8 + 4 * len reqs))).
Proof. exact new_info_request_closed. Qed.
Print Assumptions C07_info_request.

(* the byte view of a tag is obtainable wherever an 8-aligned type places it *)
Theorem C07_as_bytes : forall addr img,
  as_bytes addr img = if (8 <=? len img) && (addr mod 8 =? 0) && (len img mod 8 =? 0) then Val img else Panic.
Proof. exact as_bytes_closed. Qed.
Print Assumptions C07_as_bytes.
