(* C18 - EFI memory-map iteration honours descriptor stride, count and bounds.
   t: a reference to an EFI memory map tag whose map has L bytes (efi_tag_ok:
   the tag lies inside memory, 8-aligned; this is what cast establishes, see C05).
   efi_v / efi_d: the stored descriptor version / size. *)
Require Import Bytes Outcome Layout Common TagType Mbi MbiTags MbiAccess C18Proofs.

(* memory_areas() accepts exactly version 1, d >= 40, 8 | d, d | L; everything else is a controlled panic *)
Theorem C18_accept_reject : forall m t L, efi_tag_ok m t L ->
  efi_memory_areas m t =
    if (efi_v m t =? 1) && (40 <=? efi_d m t) && (efi_d m t mod 8 =? 0) && (L mod efi_d m t =? 0)
    then Val {| ei_tag := t; ei_i := 0; ei_entries := L / efi_d m t |} else Panic.
Proof. exact efi_areas_closed. Qed.
Print Assumptions C18_accept_reject.

(* an accepted iterator satisfies the invariant ... *)
Theorem C18_inv_init : forall m t L it, efi_tag_ok m t L -> efi_memory_areas m t = Val it -> efi_inv m L it.
Proof. exact efi_areas_inv. Qed.
Print Assumptions C18_inv_init.

(* ... every next() (in both profiles) is the closed form, preserves the invariant (so this holds after
   any number of calls, also on clones), and len() is the number of items still to come *)
Theorem C18_next : forall p m L it, efi_inv m L it ->
  efi_next p m it = efi_next_closed m it /\
  (forall x it', efi_next_closed m it = Val (x, it') -> efi_inv m L it') /\
  efi_len p it = Val (ei_entries it - ei_i it).
Proof. exact efi_next_spec. Qed.
Print Assumptions C18_next.

(* a produced descriptor is the 40 bytes at map offset i*d: inside the tag, 8-aligned *)
Theorem C18_inside : forall m L it off it', efi_inv m L it ->
  efi_next_closed m it = Val (Some off, it') ->
  t_off (ei_tag it) + 16 <= off /\ off + 40 <= t_off (ei_tag it) + 16 + L /\ (m_base m + off) mod 8 = 0 /\
  off = t_off (ei_tag it) + 16 + ei_i it * efi_d m (ei_tag it).
Proof. exact efi_desc_inside. Qed.
Print Assumptions C18_inside.

(* iteration yields exactly the remaining entries (L/d from a fresh iterator), the j-th at map offset j*d, then ends *)
Theorem C18_collect : forall p m L fuel it, efi_inv m L it ->
  (N.to_nat (ei_entries it - ei_i it) < fuel)%nat ->
  efi_collect fuel p m it =
    (map (fun j => t_off (ei_tag it) + 16 + (ei_i it + N.of_nat j) * efi_d m (ei_tag it))
         (seq 0 (N.to_nat (ei_entries it - ei_i it))), Val tt).
Proof. exact efi_collect_spec. Qed.
Print Assumptions C18_collect.

(* the provided Iterator methods are iterated next(): nth(k) yields the k-th entry of the run to exhaustion
   (with C18_collect: the descriptor at map offset (i + k) * d, or None when k is not below the remaining count) *)
Theorem C18_nth : forall fuel p m it items k,
  efi_collect fuel p m it = (items, Val tt) -> rmap fst (efi_nth p m it k) = Val (nth_error items k).
Proof. exact efi_nth_collect. Qed.
Print Assumptions C18_nth.
