(* C20 - Type-identifier conversions are lossless and consistent for all values.
   Every statement quantifies over all N (hence over all 2^32 u32 values). *)
Require Import Bytes Outcome Render TagType HeaderTags RunCommon TypesSpec C20Proofs.
From Coq Require Import String.

Theorem C20_roundtrip : forall x,
  u32_of_tagtype (tagtype_of_u32 x) = x /\ u32_of_id (id_of_u32 x) = x /\
  u32_of_id (id_of_tagtype (tagtype_of_u32 x)) = x.
Proof. intro x. split; [apply roundtrip_tt|split; [apply roundtrip_id|apply roundtrip_tt_id]]. Qed.
Print Assumptions C20_roundtrip.

(* specified numbers map to their named variants, all others to Custom *)
Theorem C20_named : forall x,
  (x <= 21 -> sTagType (tagtype_of_u32 x) = nth (N.to_nat x) spec_tag_names ""%string) /\
  (22 <= x -> tagtype_of_u32 x = Custom x).
Proof. intro x. split; [apply named_tt|apply custom_tt]. Qed.
Print Assumptions C20_named.

Theorem C20_commute : forall x,
  tagtype_of_id (id_of_u32 x) = tagtype_of_u32 x /\ id_of_tagtype (tagtype_of_u32 x) = id_of_u32 x.
Proof. intro x. split; [apply commute_from|apply commute_to]. Qed.
Print Assumptions C20_commute.

(* the six cross-type PartialEq impls agree with numeric equality *)
Theorem C20_eq : forall x y,
  eq_type_id (tagtype_of_u32 x) (id_of_u32 y) = (x =? y) /\
  eq_id_type (id_of_u32 x) (tagtype_of_u32 y) = (x =? y) /\
  eq_id_u32 (id_of_u32 x) y = (x =? y) /\
  eq_u32_id x (id_of_u32 y) = (x =? y) /\
  eq_type_u32 (tagtype_of_u32 x) y = (x =? y) /\
  eq_u32_type x (tagtype_of_u32 y) = (x =? y).
Proof. exact eq_all. Qed.
Print Assumptions C20_eq.

(* the wrapper accessors and the derived equality of the symbolic type agree with the numbers too *)
Theorem C20_val_new_derived : forall x y,
  tagtype_val (tagtype_of_u32 x) = x /\ u32_of_id (id_new x) = x /\
  tagtype_eqb (tagtype_of_u32 x) (tagtype_of_u32 y) = (x =? y).
Proof. intros x y. split; [apply val_roundtrip|split; [apply val_roundtrip|apply derived_eq]]. Qed.
Print Assumptions C20_val_new_derived.

Theorem C20_area : forall x,
  id_of_areatype (areatype_of_id x) = x /\
  (1 <= x <= 5 -> In (x, sAreaType (areatype_of_id x)) spec_area_names) /\
  (x = 0 \/ 6 <= x -> areatype_of_id x = ACustom x) /\
  (forall y, eq_areaid_type x (areatype_of_id y) = (x =? y) /\ eq_areatype_id (areatype_of_id x) y = (x =? y)).
Proof.
  intro x. split; [apply area_roundtrip|]. split; [apply area_named|]. split; [apply area_custom|].
  intro y. apply area_eq.
Qed.
Print Assumptions C20_area.

Theorem C20_elf : forall raw, sElfType (elf_section_type raw) = spec_elf_class raw.
Proof. exact elf_class. Qed.
Print Assumptions C20_elf.

Theorem C20_fb : forall b,
  (b <= 2 -> exists t, fb_try_from b = Val t /\ sFbId t = nth (N.to_nat b) spec_fb_names ""%string) /\
  (3 <= b -> fb_try_from b = Err (EUnknownFb b)).
Proof. intro b. split; [apply fb_known|apply fb_unknown]. Qed.
Print Assumptions C20_fb.

Theorem C20_magic : MBI_MAGIC = SPEC_MBI_MAGIC /\ HDR_MAGIC = SPEC_HDR_MAGIC.
Proof. exact magics. Qed.
Print Assumptions C20_magic.

(* the cross-type impls on ANY symbolic value, canonical or not (TagType::Custom(5) can be written down although
   from(5) never yields it): equality with an id or a number is equality of the numbers *)
Theorem C20_eq_any : forall t i v,
  eq_type_id t i = (u32_of_tagtype t =? u32_of_id i) /\ eq_id_type i t = (u32_of_id i =? u32_of_tagtype t) /\
  eq_type_u32 t v = (u32_of_tagtype t =? v) /\ eq_u32_type v t = (u32_of_tagtype t =? v).
Proof. exact eq_any. Qed.
Print Assumptions C20_eq_any.

(* HeaderTagType::count() is the number of header-tag kinds the model (and the specification) knows *)
Theorem C20_header_tag_types : HDR_TAG_TYPES = len HeaderTags.all_hkinds.
Proof. reflexivity. Qed.
Print Assumptions C20_header_tag_types.
