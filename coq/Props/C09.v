(* C09 - Header parsing never reads outside the declared header.
   Handles/operations/programs of the header crate: Model/HHandles.v.  walk_enums_ok m total 16: the
   enumerated fields (tag type <= 10, tag flags <= 1, console flags <= 1, relocation preference <= 2)
   of the tags on the header's walk hold defined values; arch_defined: the architecture is 0 or 4 -
   the hypothesis the property makes.  HInv: Proofs/C09Proofs.v. *)
Require Import Bytes Outcome Layout Common TagType Mbi Header HeaderTags HHandles C09Proofs.
Open Scope list_scope.
Open Scope N_scope.

Theorem C09_step_safe : forall p m total h o, hregion_ok m total -> HInv m total h ->
  houtcome_ok m total (hstep p m h o).
Proof. exact hstep_safe. Qed.
Print Assumptions C09_step_safe.

Theorem C09_run_safe : forall p m total, hregion_ok m total ->
  forall prog pool, Forall (HInv m total) pool -> houtcome_ok m total (hrun p m pool prog).
Proof. exact hrun_safe. Qed.
Print Assumptions C09_run_safe.

(* load never faults (a malformed length is an error), and no program on the loaded header faults
   (a malformed tag size is a controlled panic); reads stay inside the declared length: every view
   handed out satisfies off + n <= length (HInv) *)
Theorem C09_load_and_run : forall p a bs r prog,
  a mod 8 = 0 -> 16 <= len bs -> le (slice bs 8 4) <= len bs -> arch_defined (le (slice bs 4 4)) = true ->
  let m := {| m_base := a; m_bytes := bs |} in
  is_fault (hdr_load p false m) = false /\
  (hdr_load p false m = Val r -> walk_enums_ok m (le (slice bs 8 4)) 16 ->
   is_fault (hrun p m [HhHeader r] prog) = false).
Proof. exact hload_and_run_safe. Qed.
Print Assumptions C09_load_and_run.
