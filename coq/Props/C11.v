(* C11 - Header accessors and typed getters decode the specified fields.
   types_defined bs l: every tag on the walk has a defined HeaderTagType value (0..10), the
   hypothesis the property makes on enumerated fields. *)
Require Import Bytes Outcome Layout Common TagType Mbi Header HeaderTags Build WalkSpec Mb2Spec
               IterFacts HCastFacts LayoutFacts C11Proofs Big BigProofs HBigProofs.
From Coq Require Import String.
Open Scope list_scope.
Open Scope N_scope.

Theorem C11_basic : forall m r, d_off r = 0 ->
  hdr_magic m r = le (slice (m_bytes m) 0 4) /\ hdr_arch m r = le (slice (m_bytes m) 4 4) /\
  hdr_length m r = le (slice (m_bytes m) 8 4) /\ hdr_checksum m r = le (slice (m_bytes m) 12 4).
Proof. exact c11_basic. Qed.
Print Assumptions C11_basic.

Theorem C11_walk : forall p a bs r,
  a mod 8 = 0 -> 16 <= len bs -> le (slice bs 8 4) <= len bs -> arch_defined (le (slice bs 4 4)) = true ->
  let m := {| m_base := a; m_bytes := bs |} in
  hdr_load p false m = Val r ->
  exists l ok,
    tagiter_run (iter_fuel (d_plen r)) p HHdrTagH m (d_off r + 16) (d_plen r) 0 = (map dref_of l, status ok) /\
    walk bs (le (slice bs 8 4)) 16 l ok /\
    (forall l' ok', walk bs (le (slice bs 8 4)) 16 l' ok' -> l' = l /\ ok' = ok).
Proof. exact c11_walk. Qed.
Print Assumptions C11_walk.

Theorem C11_first : forall p a bs r k l ok,
  a mod 8 = 0 -> 16 <= len bs -> le (slice bs 8 4) <= len bs -> arch_defined (le (slice bs 4 4)) = true ->
  let m := {| m_base := a; m_bytes := bs |} in
  hdr_load p false m = Val r -> walk bs (le (slice bs 8 4)) 16 l ok -> types_defined bs l ->
  hget_tag p k m r =
    match find (fun it => htyp_at bs (i_off it) =? hkind_typ k) l with
    | Some it => t <- hcast_closed k (i_off it) (i_size it) ;; Val (Some t)
    | None => if ok then Val None else Panic
    end.
Proof. exact hget_tag_spec. Qed.
Print Assumptions C11_first.

Theorem C11_layout : forall k,
  sd_offsets (hkind_struct k) = (("header"%string, 0, 8) :: spec_htag_fields (hkind_typ k)) /\
  sd_align (hkind_struct k) = 8 /\ hctor_size k = spec_htag_size (hkind_typ k) /\
  match sd_tail (hkind_struct k) with
  | Some (es, _) => es = 4 /\ sd_tail_off (hkind_struct k) = 8 /\ hkind_base k = 8
  | None => sd_size_of (hkind_struct k) = round8 (spec_htag_size (hkind_typ k))
  end.
Proof. exact hdr_layout. Qed.
Print Assumptions C11_layout.

Theorem C11_field : forall k m t name o w,
  In (name, o, w) (spec_htag_fields (hkind_typ k)) ->
  hfld k m t name = le (slice (m_bytes m) (t_off t + o) w).
Proof. exact hfld_spec. Qed.
Print Assumptions C11_field.

(* Headers of ANY number of tags (n copies of one padded tag between the basic header and the end tag): load accepts
   them, the iterator yields the n tags at 16 + i*L and the end tag, and every typed getter - after walking all of them -
   yields the closed form `hbig_get`: the first tag when its type is the getter's, nothing otherwise.  This is what the
   oracle evaluates for the domain `hbigwalk` (n up to 70000), where a list-based run is infeasible. *)
Theorem C11_big : forall p a tag n k,
  8 <= le (slice tag 4 4) -> round8 (le (slice tag 4 4)) = len tag -> hbig_total n tag < pow2_32 ->
  le (slice tag 0 2) <= 10 -> a mod 8 = 0 -> k <> HkEnd ->
  let T := hbig_total n tag in
  let m := {| m_base := a; m_bytes := hbig_region n tag |} in
  hdr_load p false m = Val {| d_off := 0; d_plen := T - 16 |} /\
  tagiter_run (iter_fuel (T - 16)) p HHdrTagH m 16 (T - 16) 0 = (map dref_of (hitems tag n), Val tt) /\
  walk (hbig_region n tag) T 16 (hitems tag n) true /\
  hget_tag p k m {| d_off := 0; d_plen := T - 16 |} = hbig_get k (N.of_nat n) (le (slice tag 0 2)) (le (slice tag 4 4)).
Proof.
  intros p a tag n k H1 H2 H3 H4 Ha Hk T m.
  split; [exact (hbig_load tag n H1 H2 H3 H4 p a Ha)|].
  split; [exact (hbig_run tag n H1 H2 H3 H4 p a Ha)|].
  split; [exact (hbig_walk tag n H1 H2 H3 H4)|exact (hbig_getter tag n H1 H2 H3 H4 p a k Ha Hk)].
Qed.
Print Assumptions C11_big.
