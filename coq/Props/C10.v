(* C10 - Header loading accepts exactly magic- and checksum-valid headers. *)
Require Import Bytes Outcome Common TagType Header Sparse C10Proofs SparseProofs.

Theorem C10_load_spec : forall (p : profile) (a : N) (bs : list byte),
  a mod 8 = 0 -> 16 <= len bs -> le (slice bs 8 4) <= len bs -> arch_defined (le (slice bs 4 4)) = true ->
  hdr_load p false {| m_base := a; m_bytes := bs |} =
    let l := le (slice bs 8 4) in
    if l <? 16 then Err EShorterThanHeader
    else if negb (l mod 8 =? 0) then Err EMissingPadding
    else if negb (le (slice bs 0 4) =? HDR_MAGIC) then Err EMagicNotFound
    else if negb ((le (slice bs 0 4) + le (slice bs 4 4) + l + le (slice bs 12 4)) mod pow2_32 =? 0)
         then Err EChecksumMismatch
         else Val {| d_off := 0; d_plen := l - 16 |}.
Proof. exact c10_load_spec. Qed.
Print Assumptions C10_load_spec.

(* a pointer that is NOT 8-aligned: never a header, never a panic, nothing beyond the 16 header bytes is read, and
   magic, architecture and checksum are not even examined *)
Theorem C10_misaligned : forall (p : profile) (a : N) (bs : list byte),
  a mod 8 <> 0 -> 16 <= len bs ->
  hdr_load p false {| m_base := a; m_bytes := bs |} =
    if le (slice bs 8 4) <? 16 then Err EShorterThanHeader else Err EWrongAlignment.
Proof. exact c10_misaligned. Qed.
Print Assumptions C10_misaligned.

Theorem C10_null : forall p m, hdr_load p true m = Err ENull.
Proof. exact c10_null. Qed.
Print Assumptions C10_null.

(* the checksum the library computes satisfies the congruence, for every
   magic, architecture and length (no range restriction is even needed) *)
Theorem C10_checksum_law : forall m a l,
  calc_checksum m a l < pow2_32 /\ (calc_checksum m a l + m + a + l) mod pow2_32 = 0.
Proof. exact checksum_law. Qed.
Print Assumptions C10_checksum_law.

(* headers declaring lengths no list of bytes can hold (2^31 and beyond): on EVERY memory that starts with these 16
   bytes and holds the declared length, load is the closed form evaluated on the 16 bytes alone *)
Theorem C10_load_sparse : forall p a hdr16 rest,
  a mod 8 = 0 -> len hdr16 = 16 -> le (slice hdr16 8 4) <= 16 + len rest -> arch_defined (le (slice hdr16 4 4)) = true ->
  hdr_load p false {| m_base := a; m_bytes := hdr16 ++ rest |} = hdr_load_sparse hdr16.
Proof. exact hdr_load_sparse_ok. Qed.
Print Assumptions C10_load_sparse.
