(* C01 - Boot-information parsing never reads outside the loaded structure.
   Handles/operations/programs: Model/Handles.v.  A Fault is a raw-pointer read outside the memory
   the caller made valid (FOob), an invalid enum discriminant (FEnum) or exhausted fuel, i.e.
   non-termination (FFuel).  Inv: Proofs/C01Proofs.v (every reference lies inside the region; every
   typed reference is the successful cast of a tag of the walk; iterator positions are valid).
   no_f18: the one open known finding (VBEModeInfo.memory_model byte > 7, known_findings.json) is
   excluded; f18_refuted shows it is real. *)
Require Import Bytes Outcome Layout Common TagType Mbi MbiTags Strings MbiAccess Handles C01Proofs.
From Coq Require Import String.
Open Scope list_scope.
Open Scope N_scope.

(* one operation, from any state satisfying the invariant, in either profile: a value (whose handles
   satisfy the invariant again), an error or a controlled panic - never a fault *)
Theorem C01_step_safe : forall p m total h o, region_ok m total -> no_f18 m total -> Inv m total h ->
  outcome_ok m total (step p m h o).
Proof. exact step_safe. Qed.
Print Assumptions C01_step_safe.

(* any program (any sequence of operations applied to any handles obtained so far) *)
Theorem C01_run_safe : forall p m total, region_ok m total -> no_f18 m total ->
  forall prog pool, Forall (Inv m total) pool -> outcome_ok m total (run p m pool prog).
Proof. exact run_safe. Qed.
Print Assumptions C01_run_safe.

(* from the caller's obligation (8-aligned pointer, header and declared region are valid memory):
   load does not fault, and no program on the loaded object faults - every byte content, every size/
   count/stride/index value, both profiles *)
Theorem C01_load_and_run : forall p a bs r prog,
  a mod 8 = 0 -> 8 <= len bs -> le (slice bs 0 4) <= len bs ->
  let m := {| m_base := a; m_bytes := bs |} in
  is_fault (mbi_load p false m) = false /\
  (mbi_load p false m = Val r -> no_f18 m (le (slice bs 0 4)) ->
   is_fault (run p m [HBoot r] prog) = false).
Proof. exact load_and_run_safe. Qed.
Print Assumptions C01_load_and_run.

(* every reference or slice a tag hands to the caller lies entirely inside that tag's own extent *)
Theorem C01_views_inside_tag : forall p m total k t o hs off n, region_ok m total -> tref_ok m total k t ->
  step p m (HTag k t) o = Val hs -> In (HView off n) hs ->
  t_off t <= off /\ off + n <= t_off t + tref_size_of_val k t.
Proof. exact views_inside_tag. Qed.
Print Assumptions C01_views_inside_tag.

(* ... and a typed reference itself lies inside the region, is 8-aligned, and covers exactly the tag's
   size rounded up to 8 *)
Theorem C01_tag_extent : forall m total k t, tref_ok m total k t ->
  8 <= t_off t /\ t_off t mod 8 = 0 /\
  exists size, size = WalkSpec.size_at (m_bytes m) (t_off t) /\ 8 <= size /\ t_off t + round8 size <= total /\
    tref_size_of_val k t = round8 size /\
    (CastFacts.is_dst k = true -> t_meta t = Some ((size - kind_base k) / tail_esize k) /\ kind_base k <= size /\
                        tail_off k t = t_off t + kind_base k /\ tail_count t * tail_esize k = size - kind_base k) /\
    (CastFacts.is_dst k = false -> t_meta t = None /\ round8 size = sd_size_of (kind_struct k)).
Proof. exact tref_extent. Qed.
Print Assumptions C01_tag_extent.

Theorem C01_known_finding_f18 :
  exists m t, fld KVbe m t "mi.memory_model" = 8 /\ vbe_memory_model m t = Fault FEnum.
Proof. exact f18_refuted. Qed.
Print Assumptions C01_known_finding_f18.
