(* C14 - Raw bytes become a structure only when aligned, padded and size-consistent.
   This file contains only the property theorems; proofs are in Proofs/. *)
Require Import Bytes Outcome Common C14Proofs.

(* The model function ref_from_slice, for every header kind, profile, address
   and byte content, equals this decision rule (the order of the tests is the
   precedence of the errors). *)
Theorem C14_spec : forall (p : profile) (h : hkind) (a : N) (bs : list byte),
  ref_from_slice p h {| m_base := a; m_bytes := bs |} 0 (len bs) =
    if len bs <? hsize h then Err EShorterThanHeader
    else if negb (a mod 8 =? 0) then Err EWrongAlignment
    else if negb (len bs mod 8 =? 0) then Err EMissingPadding
    else let d := stored_size h (slice bs 0 (hsize h)) in
         if d <? hsize h then Panic
         else if len bs <? d then Err EInvalidReportedTotalSize
         else Val {| d_off := 0; d_plen := d - hsize h |}.
Proof. exact c14_spec. Qed.
Print Assumptions C14_spec.

(* On success: starts at the slice's address, payload length is the declared
   size minus the header size, in-memory size is the declared size rounded up
   to 8 and never more than the slice. *)
Theorem C14_success : forall p h a bs r,
  ref_from_slice p h {| m_base := a; m_bytes := bs |} 0 (len bs) = Val r ->
  let d := stored_size h (slice bs 0 (hsize h)) in
  hsize h <= len bs /\ a mod 8 = 0 /\ len bs mod 8 = 0 /\ hsize h <= d <= len bs /\
  d_off r = 0 /\ d_plen r = d - hsize h /\
  dref_size_of_val h r = round8 d /\ dref_size_of_val h r <= len bs.
Proof. exact c14_success. Qed.
Print Assumptions C14_success.

Theorem C14_small_declaration : forall p h a bs,
  stored_size h (slice bs 0 (hsize h)) < hsize h ->
  forall r, ref_from_slice p h {| m_base := a; m_bytes := bs |} 0 (len bs) <> Val r.
Proof. exact c14_small_decl. Qed.
Print Assumptions C14_small_declaration.

(* increase_to_alignment, for every argument below 2^32, in both profiles:
   the least multiple of 8 that is >= the argument *)
Theorem C14_round : forall p s, s < pow2_32 ->
  inc_align p s = Val (round8 s) /\ round8 s mod 8 = 0 /\ s <= round8 s < s + 8 /\
  (forall m, m mod 8 = 0 -> s <= m -> round8 s <= m).
Proof. exact c14_round. Qed.
Print Assumptions C14_round.
