(* C12 - Building then loading a header preserves its tags and is spec-well-formed. *)
Require Import Bytes Outcome Layout Common TagType Mbi Header HeaderTags Build WalkSpec C16Proofs C06Proofs C12Proofs.
Open Scope list_scope.
Open Scope N_scope.

Theorem C12_slots : forall l k v k2,
  get_slot (set_slot l k v) k = Some v /\ (k2 <> k -> get_slot (set_slot l k v) k2 = get_slot l k2).
Proof. intros l k v k2. split; [apply get_set_same|apply get_set_other]. Qed.
Print Assumptions C12_slots.

Theorem C12_build : forall p b pad,
  Forall wf_img (hbuilder_slices b) -> 16 + len (List.concat (hbuilder_slices b ++ [HEND_TAG])) < pow2_32 ->
  hbuilder_build p b pad = Val (hbuilt_image (hb_arch b) (hbuilder_slices b)).
Proof. exact hbuilder_build_closed. Qed.
Print Assumptions C12_build.

(* the built header: multiple of 8, correct magic, the chosen architecture, length = byte length, valid
   checksum, loads in both profiles, contains exactly the supplied tags byte-identically followed by the
   end tag (type 0, flags 0, size 8) as the last 8 bytes *)
Theorem C12_roundtrip : forall a arch slices,
  Forall wf_img slices -> 16 + len (List.concat (slices ++ [HEND_TAG])) < pow2_32 -> a mod 8 = 0 ->
  arch_defined arch = true ->
  let img := hbuilt_image arch slices in
  let total := len img in
  total mod 8 = 0 /\
  le (slice img 0 4) = HDR_MAGIC /\ le (slice img 4 4) = arch /\ le (slice img 8 4) = total /\
  (le (slice img 0 4) + le (slice img 4 4) + le (slice img 8 4) + le (slice img 12 4)) mod pow2_32 = 0 /\
  (forall p, hdr_load p false {| m_base := a; m_bytes := img |} = Val {| d_off := 0; d_plen := total - 16 |}) /\
  walk img total 16 (items_of (slices ++ [HEND_TAG]) 16) true /\
  slice img (total - 8) 8 = HEND_TAG /\
  (forall i t, nth_error slices i = Some t ->
     exists off, nth_error (items_of (slices ++ [HEND_TAG]) 16) i = Some {| i_off := off; i_size := img_size t |} /\
                 slice img off (len t) = t).
Proof. exact hbuilt_image_props. Qed.
Print Assumptions C12_roundtrip.
