//! Constructor / builder / heap-construction domains: ctor, hctor, build, hbuild,
//! newboxed, clone. Everything printed about a constructed object is relative to
//! its own start (a non-owning `Guarded` whose base is the object's address).
use crate::dom_hdr;
use crate::dom_mbi::{self, Generic};
use crate::{alloc_track, guard, hexs, Arg, Ctx, Guarded};
use core::mem::{align_of, size_of, size_of_val};
use multiboot2::{
    ApmTag, BasicMemoryInfoTag, BootInformationHeader, BootLoaderNameTag, BootdevTag, CommandLineTag,
    EFIBootServicesNotExitedTag, EFIImageHandle32Tag, EFIImageHandle64Tag, EFIMemoryAreaType, EFIMemoryAttribute,
    EFIMemoryDesc, EFIMemoryMapTag, EFISdt32Tag, EFISdt64Tag,
    ElfSectionsTag, EndTag, FramebufferColor, FramebufferField, FramebufferTag, FramebufferType,
    ImageLoadPhysAddrTag, MemoryArea, MemoryMapTag, ModuleTag, NetworkTag, RsdpV1Tag, RsdpV2Tag, SmbiosTag,
    TagHeader, TagTypeId, VBEControlInfo, VBEInfoTag, VBEModeInfo,
};
use multiboot2_common::test_utils::DummyTestHeader;
use multiboot2_common::{clone_dyn, new_boxed, DynSizedStructure, Header, MaybeDynSized};
use multiboot2_header::{
    AddressHeaderTag, ConsoleHeaderTag, ConsoleHeaderTagFlags, EfiBootServiceHeaderTag, EndHeaderTag,
    EntryAddressHeaderTag, EntryEfi32HeaderTag, EntryEfi64HeaderTag, FramebufferHeaderTag, HeaderTagFlag,
    HeaderTagHeader, HeaderTagISA, HeaderTagType, InformationRequestHeaderTag, MbiTagTypeId, ModuleAlignHeaderTag,
    Multiboot2BasicHeader, RelocatableHeaderTag, RelocatableHeaderTagPreference,
};

fn raw<T: ?Sized>(t: &T) -> *const u8 {
    t as *const T as *const u8
}
fn raw16(p: *const u8, off: usize) -> u16 {
    unsafe { u16::from_le_bytes([*p.add(off), *p.add(off + 1)]) }
}
fn raw32(p: *const u8, off: usize) -> u32 {
    unsafe { u32::from_le_bytes([*p.add(off), *p.add(off + 1), *p.add(off + 2), *p.add(off + 3)]) }
}

/// the first `size` bytes (at most the `size_of_val` allocated ones) of an object
fn first_bytes<T: ?Sized>(t: &T, size: usize) -> String {
    let n = size.min(size_of_val(t));
    hexs(unsafe { core::slice::from_raw_parts(raw(t), n) })
}

/// `typ= size= sov= bytes=` of a boot-information tag (the model's `sImg`)
fn s_img<T: ?Sized>(t: &T) -> String {
    let p = raw(t);
    let size = raw32(p, 4);
    format!("typ={} size={} sov={} bytes={}", raw32(p, 0), size, size_of_val(t), first_bytes(t, size as usize))
}

/// `typ= flags= size= sov= bytes=` of a header tag (the model's `sHImg`)
fn s_himg<T: ?Sized>(t: &T) -> String {
    let p = raw(t);
    let size = raw32(p, 4);
    format!(
        "typ={} flags={} size={} sov={} bytes={}",
        raw16(p, 0),
        raw16(p, 2),
        size,
        size_of_val(t),
        first_bytes(t, size as usize)
    )
}

/// the non-owning view whose offsets are relative to the start of `t`
fn own<T: ?Sized>(t: &T) -> Guarded {
    Guarded::foreign(raw(t), size_of_val(t))
}

fn as_bytes_line<T: MaybeDynSized + ?Sized>(ctx: &mut Ctx, t: &T) {
    ctx.ln(
        "as_bytes",
        match guard(|| t.as_bytes().len()) {
            Ok(n) => format!("VAL {}", n),
            Err(()) => "PANIC".to_string(),
        },
    );
}

// ---- constructors of the boot-information crate -----------------------------------

/// A constructed tag; the variant = the constructor id (22: custom tag).
enum Built {
    End(EndTag),
    Cmdline(Box<CommandLineTag>),
    Bootloader(Box<BootLoaderNameTag>),
    Module(Box<ModuleTag>),
    BasicMeminfo(BasicMemoryInfoTag),
    Bootdev(BootdevTag),
    Mmap(Box<MemoryMapTag>),
    Vbe(VBEInfoTag),
    Framebuffer(Box<FramebufferTag>),
    Elf(Box<ElfSectionsTag>),
    Apm(ApmTag),
    Efi32(EFISdt32Tag),
    Efi64(EFISdt64Tag),
    Smbios(Box<SmbiosTag>),
    RsdpV1(RsdpV1Tag),
    RsdpV2(RsdpV2Tag),
    Network(Box<NetworkTag>),
    EfiMmap(Box<EFIMemoryMapTag>),
    EfiBs(EFIBootServicesNotExitedTag),
    Efi32Ih(EFIImageHandle32Tag),
    Efi64Ih(EFIImageHandle64Tag),
    LoadBaseAddr(ImageLoadPhysAddrTag),
    Custom(Box<Generic>),
}

/// The properties of the arguments the generator guarantees, checked outside
/// every `guard`: a violation is a harness/generator bug, not a `PANIC` outcome.
fn precheck(id: u128, a: &[Arg]) {
    match id {
        1 | 2 => assert!(core::str::from_utf8(a[0].b()).is_ok(), "harness: string not UTF-8"),
        3 => assert!(core::str::from_utf8(a[2].b()).is_ok(), "harness: string not UTF-8"),
        7 => {
            assert_eq!(size_of::<VBEControlInfo>(), 512);
            assert_eq!(size_of::<VBEModeInfo>(), 256);
            assert!(a[4].b().len() == 512 && a[5].b().len() == 256, "harness: vbe struct bytes");
            assert!(a[5].b()[27] <= 7, "harness: memory_model out of range");
        }
        14 | 15 => assert!(a[1].b().len() == 6, "harness: oem_id"),
        0 | 4 | 5 | 6 | 8..=13 | 16..=23 => {}
        _ => panic!("harness: bad constructor id"),
    }
}

fn utf8(a: &Arg) -> &str {
    core::str::from_utf8(a.b()).unwrap()
}

fn construct(id: u128, a: &[Arg]) -> Built {
    let u8_ = |i: usize| a[i].n() as u8;
    let u16_ = |i: usize| a[i].n() as u16;
    let u32_ = |i: usize| a[i].n() as u32;
    let u64_ = |i: usize| a[i].n() as u64;
    match id {
        0 => Built::End(EndTag::default()),
        1 => Built::Cmdline(CommandLineTag::new(utf8(&a[0]))),
        2 => Built::Bootloader(BootLoaderNameTag::new(utf8(&a[0]))),
        3 => Built::Module(ModuleTag::new(u32_(0), u32_(1), utf8(&a[2]))),
        4 => Built::BasicMeminfo(BasicMemoryInfoTag::new(u32_(0), u32_(1))),
        5 => Built::Bootdev(BootdevTag::new(u32_(0), u32_(1), u32_(2))),
        6 => {
            let areas: Vec<MemoryArea> = a[0]
                .l()
                .iter()
                .map(|x| {
                    let x = x.l();
                    MemoryArea::new(x[0].n() as u64, x[1].n() as u64, x[2].n() as u32)
                })
                .collect();
            Built::Mmap(MemoryMapTag::new(&areas))
        }
        7 => {
            // all-zero blocks are produced by the types' Default impls (which must be exactly that)
            let ci: VBEControlInfo = if a[4].b().iter().all(|x| *x == 0) {
                VBEControlInfo::default()
            } else {
                unsafe { core::ptr::read_unaligned(a[4].b().as_ptr().cast()) }
            };
            let mi: VBEModeInfo = if a[5].b().iter().all(|x| *x == 0) {
                VBEModeInfo::default()
            } else {
                unsafe { core::ptr::read_unaligned(a[5].b().as_ptr().cast()) }
            };
            Built::Vbe(VBEInfoTag::new(u16_(0), u16_(1), u16_(2), u16_(3), ci, mi))
        }
        8 => {
            let f = a[5].l();
            let palette: Vec<FramebufferColor>;
            let ty = match f[0].n() {
                0 => {
                    palette = f[1]
                        .l()
                        .iter()
                        .map(|c| {
                            let c = c.l();
                            FramebufferColor { red: c[0].n() as u8, green: c[1].n() as u8, blue: c[2].n() as u8 }
                        })
                        .collect();
                    FramebufferType::Indexed { palette: &palette }
                }
                1 => {
                    let fld = |i: usize| FramebufferField { position: f[i].n() as u8, size: f[i + 1].n() as u8 };
                    FramebufferType::RGB { red: fld(1), green: fld(3), blue: fld(5) }
                }
                _ => FramebufferType::Text,
            };
            Built::Framebuffer(FramebufferTag::new(u64_(0), u32_(1), u32_(2), u32_(3), u8_(4), ty))
        }
        9 => Built::Elf(ElfSectionsTag::new(u32_(0), u32_(1), u32_(2), a[3].b())),
        10 => Built::Apm(ApmTag::new(u16_(0), u16_(1), u32_(2), u16_(3), u16_(4), u16_(5), u16_(6), u16_(7), u16_(8))),
        11 => Built::Efi32(EFISdt32Tag::new(u32_(0))),
        12 => Built::Efi64(EFISdt64Tag::new(u64_(0))),
        13 => Built::Smbios(SmbiosTag::new(u8_(0), u8_(1), a[2].b())),
        14 => Built::RsdpV1(RsdpV1Tag::new(u8_(0), <[u8; 6]>::try_from(a[1].b()).unwrap(), u8_(2), u32_(3))),
        15 => Built::RsdpV2(RsdpV2Tag::new(
            u8_(0),
            <[u8; 6]>::try_from(a[1].b()).unwrap(),
            u8_(2),
            u32_(3),
            u32_(4),
            u64_(5),
            u8_(6),
        )),
        16 => Built::Network(NetworkTag::new(a[0].b())),
        17 => Built::EfiMmap(EFIMemoryMapTag::new_from_map(u32_(0), u32_(1), a[2].b())),
        18 => Built::EfiBs(EFIBootServicesNotExitedTag::new()),
        19 => Built::Efi32Ih(EFIImageHandle32Tag::new(u32_(0))),
        20 => Built::Efi64Ih(EFIImageHandle64Tag::new(u64_(0))),
        21 => Built::LoadBaseAddr(ImageLoadPhysAddrTag::new(u32_(0))),
        22 => Built::Custom(new_boxed::<Generic>(TagHeader::new(TagTypeId::new(u32_(0)), 0), &[a[1].b()])),
        23 => {
            // EFIMemoryMapTag::new_from_descs: the descriptors live in zeroed storage and are written field by
            // field, so the 4 padding bytes behind `ty` (which the constructor copies as raw bytes) are zero
            let ds = a[0].l();
            let mut v: Vec<core::mem::MaybeUninit<EFIMemoryDesc>> =
                (0..ds.len()).map(|_| core::mem::MaybeUninit::zeroed()).collect();
            for (i, d) in ds.iter().enumerate() {
                let d = d.l();
                let p = v[i].as_mut_ptr();
                unsafe {
                    core::ptr::addr_of_mut!((*p).ty).write(EFIMemoryAreaType(d[0].n() as u32));
                    core::ptr::addr_of_mut!((*p).phys_start).write(d[1].n() as u64);
                    core::ptr::addr_of_mut!((*p).virt_start).write(d[2].n() as u64);
                    core::ptr::addr_of_mut!((*p).page_count).write(d[3].n() as u64);
                    core::ptr::addr_of_mut!((*p).att).write(EFIMemoryAttribute::from_bits_retain(d[4].n() as u64));
                }
            }
            let descs: &[EFIMemoryDesc] = unsafe { core::slice::from_raw_parts(v.as_ptr().cast(), v.len()) };
            Built::EfiMmap(EFIMemoryMapTag::new_from_descs(descs))
        }
        _ => unreachable!(),
    }
}

/// `ctor` line, `as_bytes` line; the view for the accessor lines
fn head<T: MaybeDynSized + ?Sized>(ctx: &mut Ctx, t: &T) -> Guarded {
    ctx.ln("ctor", format!("VAL {}", s_img(t)));
    as_bytes_line(ctx, t);
    own(t)
}

fn dump_built(ctx: &mut Ctx, b: &Built) {
    match b {
        Built::End(t) => {
            head(ctx, t);
        }
        Built::Cmdline(t) => {
            let g = head(ctx, &**t);
            dom_mbi::k_cmdline(ctx, &g, t);
        }
        Built::Bootloader(t) => {
            let g = head(ctx, &**t);
            dom_mbi::k_bootloader(ctx, &g, t);
        }
        Built::Module(t) => {
            let g = head(ctx, &**t);
            dom_mbi::k_module(ctx, &g, t);
        }
        Built::BasicMeminfo(t) => {
            head(ctx, t);
            dom_mbi::k_basic_meminfo(ctx, t);
        }
        Built::Bootdev(t) => {
            head(ctx, t);
            dom_mbi::k_bootdev(ctx, t);
        }
        Built::Mmap(t) => {
            let g = head(ctx, &**t);
            dom_mbi::k_mmap(ctx, &g, t);
        }
        Built::Vbe(t) => {
            head(ctx, t);
            dom_mbi::k_vbe(ctx, t);
        }
        Built::Framebuffer(t) => {
            let g = head(ctx, &**t);
            dom_mbi::k_framebuffer(ctx, &g, t);
        }
        Built::Elf(t) => {
            let g = head(ctx, &**t);
            dom_mbi::k_elf(ctx, &g, t);
        }
        Built::Apm(t) => {
            head(ctx, t);
            dom_mbi::k_apm(ctx, t);
        }
        Built::Efi32(t) => {
            head(ctx, t);
            dom_mbi::k_efi_sdt32(ctx, t);
        }
        Built::Efi64(t) => {
            head(ctx, t);
            dom_mbi::k_efi_sdt64(ctx, t);
        }
        Built::Smbios(t) => {
            let g = head(ctx, &**t);
            dom_mbi::k_smbios(ctx, &g, t);
        }
        Built::RsdpV1(t) => {
            head(ctx, t);
            dom_mbi::k_rsdp_v1(ctx, t);
        }
        Built::RsdpV2(t) => {
            head(ctx, t);
            dom_mbi::k_rsdp_v2(ctx, t);
        }
        Built::Network(t) => {
            let g = head(ctx, &**t);
            dom_mbi::k_network(ctx, &g, t);
        }
        Built::EfiMmap(t) => {
            let g = head(ctx, &**t);
            dom_mbi::k_efi_mmap(ctx, &g, t);
        }
        Built::EfiBs(t) => {
            head(ctx, t);
        }
        Built::Efi32Ih(t) => {
            head(ctx, t);
            dom_mbi::k_efi_ih32(ctx, t);
        }
        Built::Efi64Ih(t) => {
            head(ctx, t);
            dom_mbi::k_efi_ih64(ctx, t);
        }
        Built::LoadBaseAddr(t) => {
            head(ctx, t);
            dom_mbi::k_load_base_addr(ctx, t);
        }
        Built::Custom(t) => ctx.ln("ctor", format!("VAL {}", s_img(&**t))),
    }
}

/// `size_of_val` of the heap block of a boxed (dynamically sized) tag
fn boxed_sov(b: &Built) -> Option<usize> {
    Some(match b {
        Built::Cmdline(t) => size_of_val(&**t),
        Built::Bootloader(t) => size_of_val(&**t),
        Built::Module(t) => size_of_val(&**t),
        Built::Mmap(t) => size_of_val(&**t),
        Built::Framebuffer(t) => size_of_val(&**t),
        Built::Elf(t) => size_of_val(&**t),
        Built::Smbios(t) => size_of_val(&**t),
        Built::Network(t) => size_of_val(&**t),
        Built::EfiMmap(t) => size_of_val(&**t),
        Built::Custom(t) => size_of_val(&**t),
        _ => return None,
    })
}

fn layout_of(ev: &[(usize, usize)], sov: usize) -> String {
    ev.iter().rev().find(|(s, _)| *s == sov).map(|(s, a)| format!("{},{}", s, a)).unwrap_or("none".into())
}

fn run_ctor(ctx: &mut Ctx, a: &[Arg]) {
    let id = a[0].n();
    precheck(id, &a[1..]);
    // the layouts the constructor asks the allocator for, and the layout the box is freed with
    alloc_track::start();
    let r = guard(|| construct(id, &a[1..]));
    let (allocs, _) = alloc_track::stop();
    match r {
        Err(()) => ctx.ln("ctor", "PANIC"),
        Ok(b) => {
            dump_built(ctx, &b);
            if let Some(sov) = boxed_sov(&b) {
                alloc_track::start();
                drop(b);
                let (_, deallocs) = alloc_track::stop();
                ctx.ln("box", format!("alloc={} dealloc={}", layout_of(&allocs, sov), layout_of(&deallocs, sov)));
            }
        }
    }
}

// ---- clone_dyn ------------------------------------------------------------------------

fn s_clone<T: MaybeDynSized<Metadata = usize> + ?Sized>(t: &T) -> String {
    let c = clone_dyn(t);
    format!("orig {} clone {}", s_img(t), s_img(&*c))
}

/// clone_dyn of the first tag of every dynamically sized kind of a loaded boot information (foreign padding)
fn run_cloneparsed(ctx: &mut Ctx, a: &[Arg]) {
    let g = crate::Guarded::new(a[0].b(), 0, ctx.place_end);
    let l = guard(|| unsafe { multiboot2::BootInformation::load(g.ptr.cast::<multiboot2::BootInformationHeader>()) });
    let bi = match l {
        Ok(Ok(bi)) => bi,
        _ => {
            ctx.ln("clone", "noload");
            return;
        }
    };
    macro_rules! ck {
        ($label:expr, $T:ty) => {
            match guard(|| bi.get_tag::<$T>()) {
                Ok(Some(t)) => ctx.ln(
                    "clone",
                    match guard(|| s_clone(t)) {
                        Ok(s) => format!("{} VAL {}", $label, s),
                        Err(()) => format!("{} PANIC", $label),
                    },
                ),
                Ok(None) => ctx.ln("clone", format!("{} none", $label)),
                Err(()) => ctx.ln("clone", format!("{} PANIC", $label)),
            }
        };
    }
    ck!(1, multiboot2::CommandLineTag);
    ck!(2, multiboot2::BootLoaderNameTag);
    ck!(3, multiboot2::ModuleTag);
    ck!(6, multiboot2::MemoryMapTag);
    ck!(8, multiboot2::FramebufferTag);
    ck!(9, multiboot2::ElfSectionsTag);
    ck!(13, multiboot2::SmbiosTag);
    ck!(16, multiboot2::NetworkTag);
    ck!(17, multiboot2::EFIMemoryMapTag);
}

fn run_clone(ctx: &mut Ctx, a: &[Arg]) {
    let id = a[0].n();
    precheck(id, &a[1..]);
    assert!(matches!(id, 1 | 2 | 3 | 6 | 8 | 9 | 13 | 16 | 17 | 22), "harness: clone of a sized kind");
    let r = guard(|| match construct(id, &a[1..]) {
        Built::Cmdline(t) => s_clone(&*t),
        Built::Bootloader(t) => s_clone(&*t),
        Built::Module(t) => s_clone(&*t),
        Built::Mmap(t) => s_clone(&*t),
        Built::Framebuffer(t) => s_clone(&*t),
        Built::Elf(t) => s_clone(&*t),
        Built::Smbios(t) => s_clone(&*t),
        Built::Network(t) => s_clone(&*t),
        Built::EfiMmap(t) => s_clone(&*t),
        Built::Custom(t) => s_clone(&*t),
        _ => unreachable!(),
    });
    ctx.ln(
        "clone",
        match r {
            Ok(s) => format!("VAL {}", s),
            Err(()) => "PANIC".to_string(),
        },
    );
}

// ---- boot-information Builder ----------------------------------------------------------

fn apply(b: multiboot2::Builder, t: Built) -> multiboot2::Builder {
    match t {
        Built::End(_) => b, // no builder method takes an end tag
        Built::Cmdline(t) => b.cmdline(t),
        Built::Bootloader(t) => b.bootloader(t),
        Built::Module(t) => b.add_module(t),
        Built::BasicMeminfo(t) => b.meminfo(t),
        Built::Bootdev(t) => b.bootdev(t),
        Built::Mmap(t) => b.mmap(t),
        Built::Vbe(t) => b.vbe(t),
        Built::Framebuffer(t) => b.framebuffer(t),
        Built::Elf(t) => b.elf_sections(t),
        Built::Apm(t) => b.apm(t),
        Built::Efi32(t) => b.efi32(t),
        Built::Efi64(t) => b.efi64(t),
        Built::Smbios(t) => b.add_smbios(t),
        Built::RsdpV1(t) => b.rsdpv1(t),
        Built::RsdpV2(t) => b.rsdpv2(t),
        Built::Network(t) => b.network(t),
        Built::EfiMmap(t) => b.efi_mmap(t),
        Built::EfiBs(t) => b.efi_bs(t),
        Built::Efi32Ih(t) => b.efi32_ih(t),
        Built::Efi64Ih(t) => b.efi64_ih(t),
        Built::LoadBaseAddr(t) => b.image_load_addr(t),
        Built::Custom(t) => b.add_custom_tag(t),
    }
}

fn run_build(ctx: &mut Ctx, a: &[Arg]) {
    let calls = a[0].l();
    for c in calls {
        precheck(c.l()[0].n(), &c.l()[1..]);
    }
    let r = guard(|| {
        // Default is a second constructor of the builder: used for the call lists of even length
        let mut b = if calls.len() % 2 == 0 { multiboot2::Builder::default() } else { multiboot2::Builder::new() };
        for c in calls {
            let c = c.l();
            b = apply(b, construct(c[0].n(), &c[1..]));
        }
        b
    });
    // the layout build() asks the allocator for: the last allocation of the structure's size
    let r = r.and_then(|b| {
        alloc_track::start();
        let r = guard(move || b.build());
        let (allocs, _) = alloc_track::stop();
        r.map(|s| (s, allocs))
    });
    match r {
        Err(()) => ctx.ln("build", "PANIC"),
        Ok((s, allocs)) => {
            let st: &DynSizedStructure<BootInformationHeader> = &s;
            let lay = allocs.iter().rev().find(|(sz, _)| *sz == size_of_val(st));
            ctx.ln(
                "build",
                format!(
                    "VAL total={} sov={} alloc={} head={}",
                    st.header().total_size(),
                    size_of_val(st),
                    lay.map(|(sz, al)| format!("{},{}", sz, al)).unwrap_or("none".into()),
                    hexs(unsafe { core::slice::from_raw_parts(raw(st), 8) })
                ),
            );
            let g = own(st);
            if let Some(bi) = dom_mbi::load(ctx, &g) {
                dom_mbi::walk(ctx, &g, &bi);
                dom_mbi::modules_full(ctx, &g, &bi);
                dom_mbi::getters(ctx, &g, &bi);
            }
        }
    }
}

// ---- constructors of the header crate ------------------------------------------------------

enum HBuilt {
    End(EndHeaderTag),
    InfoReq(Box<InformationRequestHeaderTag>),
    Address(AddressHeaderTag),
    EntryAddress(EntryAddressHeaderTag),
    Console(ConsoleHeaderTag),
    Framebuffer(FramebufferHeaderTag),
    ModuleAlign(ModuleAlignHeaderTag),
    EfiBs(EfiBootServiceHeaderTag),
    EntryEfi32(EntryEfi32HeaderTag),
    EntryEfi64(EntryEfi64HeaderTag),
    Relocatable(RelocatableHeaderTag),
}

fn hflag(a: &Arg) -> HeaderTagFlag {
    match a.n() {
        0 => HeaderTagFlag::Required,
        1 => HeaderTagFlag::Optional,
        _ => panic!("harness: bad header tag flag"),
    }
}

fn hprecheck(id: u128, a: &[Arg]) {
    assert!(id <= 10, "harness: bad header constructor id");
    if id != 0 {
        hflag(&a[0]);
    }
    match id {
        4 => assert!(a[1].n() <= 1, "harness: bad console flags"),
        10 => assert!(a[4].n() <= 2, "harness: bad preference"),
        _ => {}
    }
}

fn hconstruct(id: u128, a: &[Arg], place: usize) -> HBuilt {
    let u32_ = |i: usize| a[i].n() as u32;
    match id {
        // the Default impl is a second constructor of the end tag: used for the cases placed at offset 8
        0 => HBuilt::End(if place == 8 { EndHeaderTag::default() } else { EndHeaderTag::new() }),
        1 => {
            let reqs: Vec<MbiTagTypeId> = a[1].l().iter().map(|r| MbiTagTypeId::new(r.n() as u32)).collect();
            HBuilt::InfoReq(InformationRequestHeaderTag::new(hflag(&a[0]), &reqs))
        }
        2 => HBuilt::Address(AddressHeaderTag::new(hflag(&a[0]), u32_(1), u32_(2), u32_(3), u32_(4))),
        3 => HBuilt::EntryAddress(EntryAddressHeaderTag::new(hflag(&a[0]), u32_(1))),
        4 => HBuilt::Console(ConsoleHeaderTag::new(
            hflag(&a[0]),
            if a[1].n() == 0 { ConsoleHeaderTagFlags::ConsoleRequired } else { ConsoleHeaderTagFlags::EgaTextSupported },
        )),
        5 => HBuilt::Framebuffer(FramebufferHeaderTag::new(hflag(&a[0]), u32_(1), u32_(2), u32_(3))),
        6 => HBuilt::ModuleAlign(ModuleAlignHeaderTag::new(hflag(&a[0]))),
        7 => HBuilt::EfiBs(EfiBootServiceHeaderTag::new(hflag(&a[0]))),
        8 => HBuilt::EntryEfi32(EntryEfi32HeaderTag::new(hflag(&a[0]), u32_(1))),
        9 => HBuilt::EntryEfi64(EntryEfi64HeaderTag::new(hflag(&a[0]), u32_(1))),
        10 => HBuilt::Relocatable(RelocatableHeaderTag::new(
            hflag(&a[0]),
            u32_(1),
            u32_(2),
            u32_(3),
            match a[4].n() {
                0 => RelocatableHeaderTagPreference::None,
                1 => RelocatableHeaderTagPreference::Low,
                _ => RelocatableHeaderTagPreference::High,
            },
        )),
        _ => unreachable!(),
    }
}

/// The tag as a field behind a `u32` of a `#[repr(C)]` struct.
#[repr(C)]
struct Wrap<T> {
    pad: u32,
    tag: T,
}

/// Moves the (sized) tag to the place the case asks for and runs `f` on it there.
/// `place` 4: the field of a `Wrap` value. Any other `place`: a field behind `place`
/// bytes of an 8-aligned `#[repr(C)]` struct, i.e. at the next multiple of the
/// type's alignment.
fn placed<T>(t: T, place: usize, f: impl FnOnce(&T)) {
    if place == 4 {
        let w = Wrap { pad: 0, tag: t };
        f(&w.tag);
    } else {
        let off = (place + align_of::<T>() - 1) / align_of::<T>() * align_of::<T>();
        let mut buf = vec![0u64; (off + size_of::<T>()) / 8 + 2];
        unsafe {
            let p = buf.as_mut_ptr().cast::<u8>().add(off).cast::<T>();
            p.write(t);
            f(&*p);
        }
    }
}

/// `hctor` line of the constructed value, then `as_bytes` at the requested place
fn hhead<T: MaybeDynSized>(ctx: &mut Ctx, t: T, place: usize, f: impl FnOnce(&mut Ctx, &T)) {
    ctx.ln("hctor", format!("VAL {}", s_himg(&t)));
    placed(t, place, |t| {
        as_bytes_line(ctx, t);
        f(ctx, t);
    });
}

fn run_hctor(ctx: &mut Ctx, a: &[Arg]) {
    let id = a[0].n();
    let place = a[1].u();
    hprecheck(id, &a[2..]);
    alloc_track::start();
    let r = guard(|| hconstruct(id, &a[2..], place));
    let (allocs, _) = alloc_track::stop();
    let b = match r {
        Err(()) => {
            ctx.ln("hctor", "PANIC");
            return;
        }
        Ok(b) => b,
    };
    match b {
        HBuilt::End(t) => hhead(ctx, t, place, |ctx, t| dom_hdr::hk_end(ctx, t)),
        HBuilt::InfoReq(bx) => {
            // boxed: as_bytes on the box
            {
                let t = &*bx;
                ctx.ln("hctor", format!("VAL {}", s_himg(t)));
                as_bytes_line(ctx, t);
                dom_hdr::hk_information_request(ctx, &own(t), t);
            }
            let sov = size_of_val(&*bx);
            alloc_track::start();
            drop(bx);
            let (_, deallocs) = alloc_track::stop();
            ctx.ln("box", format!("alloc={} dealloc={}", layout_of(&allocs, sov), layout_of(&deallocs, sov)));
        }
        HBuilt::Address(t) => hhead(ctx, t, place, |ctx, t| dom_hdr::hk_address(ctx, t)),
        HBuilt::EntryAddress(t) => hhead(ctx, t, place, |ctx, t| dom_hdr::hk_entry_address(ctx, t)),
        HBuilt::Console(t) => hhead(ctx, t, place, |ctx, t| dom_hdr::hk_console_flags(ctx, t)),
        HBuilt::Framebuffer(t) => hhead(ctx, t, place, |ctx, t| dom_hdr::hk_framebuffer(ctx, t)),
        HBuilt::ModuleAlign(t) => hhead(ctx, t, place, |ctx, t| dom_hdr::hk_module_align(ctx, t)),
        HBuilt::EfiBs(t) => hhead(ctx, t, place, |ctx, t| dom_hdr::hk_efi_boot_services(ctx, t)),
        HBuilt::EntryEfi32(t) => hhead(ctx, t, place, |ctx, t| dom_hdr::hk_entry_address_efi32(ctx, t)),
        HBuilt::EntryEfi64(t) => hhead(ctx, t, place, |ctx, t| dom_hdr::hk_entry_address_efi64(ctx, t)),
        HBuilt::Relocatable(t) => hhead(ctx, t, place, |ctx, t| dom_hdr::hk_relocatable(ctx, t)),
    }
}

// ---- header Builder -------------------------------------------------------------------------

fn happly(b: multiboot2_header::Builder, t: HBuilt) -> multiboot2_header::Builder {
    match t {
        HBuilt::End(_) => b, // no builder method takes an end tag
        HBuilt::InfoReq(t) => b.information_request_tag(t),
        HBuilt::Address(t) => b.address_tag(t),
        HBuilt::EntryAddress(t) => b.entry_tag(t),
        HBuilt::Console(t) => b.console_tag(t),
        HBuilt::Framebuffer(t) => b.framebuffer_tag(t),
        HBuilt::ModuleAlign(t) => b.module_align_tag(t),
        HBuilt::EfiBs(t) => b.efi_bs_tag(t),
        HBuilt::EntryEfi32(t) => b.efi_32_tag(t),
        HBuilt::EntryEfi64(t) => b.efi_64_tag(t),
        HBuilt::Relocatable(t) => b.relocatable_tag(t),
    }
}

fn run_hbuild(ctx: &mut Ctx, a: &[Arg]) {
    let arch = match a[0].n() {
        0 => HeaderTagISA::I386,
        4 => HeaderTagISA::MIPS32,
        _ => panic!("harness: bad architecture"),
    };
    let calls = a[1].l();
    for c in calls {
        hprecheck(c.l()[0].n(), &c.l()[1..]);
    }
    let r = guard(|| {
        let mut b = multiboot2_header::Builder::new(arch);
        for c in calls {
            let c = c.l();
            b = happly(b, hconstruct(c[0].n(), &c[1..], 0));
        }
        b
    });
    let r = r.and_then(|b| {
        alloc_track::start();
        let r = guard(move || b.build());
        let (allocs, _) = alloc_track::stop();
        r.map(|s| (s, allocs))
    });
    match r {
        Err(()) => ctx.ln("hbuild", "PANIC"),
        Ok((s, allocs)) => {
            let st: &DynSizedStructure<Multiboot2BasicHeader> = &s;
            let sov = size_of_val(st);
            let last8 = unsafe { core::slice::from_raw_parts(raw(st).add(sov - 8), 8) };
            let lay = allocs.iter().rev().find(|(sz, _)| *sz == sov);
            ctx.ln(
                "hbuild",
                format!(
                    "VAL length={} sov={} last8={} alloc={} head={}",
                    st.header().length(),
                    sov,
                    hexs(last8),
                    lay.map(|(sz, al)| format!("{},{}", sz, al)).unwrap_or("none".into()),
                    hexs(unsafe { core::slice::from_raw_parts(raw(st), 16) })
                ),
            );
            let g = own(st);
            if let Some(h) = dom_hdr::load(ctx, &g) {
                dom_hdr::walk(ctx, &g, &h);
                dom_hdr::dump_getters(ctx, &g, &h);
            }
        }
    }
}

// ---- new_boxed and its allocator events ---------------------------------------------------------

fn events(ev: &[(usize, usize)]) -> String {
    if ev.is_empty() {
        return "none".to_string();
    }
    ev.iter().map(|(s, a)| format!("{},{}", s, a)).collect::<Vec<_>>().join(";")
}

/// `size_off`: where the header kind stores the total size (4 for the tag headers, 0 / 8 for the two structure headers)
fn newboxed<H: Header>(ctx: &mut Ctx, header: H, slices: &[&[u8]], size_off: usize) {
    let hs = size_of::<H>();
    alloc_track::start();
    let r = guard(|| new_boxed::<DynSizedStructure<H>>(header, slices));
    let (allocs, _) = alloc_track::stop();
    match r {
        Err(()) => ctx.ln("new_boxed", "PANIC"),
        Ok(b) => {
            let t: &DynSizedStructure<H> = &b;
            let sov = size_of_val(t);
            let all = unsafe { core::slice::from_raw_parts(raw(t), sov) };
            let total = (raw32(raw(t), size_off) as usize).clamp(hs, sov);
            let head = format!("VAL sov={} plen={} hdr={} content={}", sov, t.payload().len(), hexs(&all[..hs]), hexs(&all[hs..total]));
            alloc_track::start();
            drop(b);
            let (_, deallocs) = alloc_track::stop();
            ctx.ln("new_boxed", format!("{} alloc={} dealloc={}", head, events(&allocs), events(&deallocs)));
        }
    }
}

fn run_newboxed(ctx: &mut Ctx, a: &[Arg]) {
    let hb = a[1].b();
    let slices: Vec<&[u8]> = a[2].l().iter().map(|x| x.b()).collect();
    // the two structure headers: any value a loaded structure can hold (the reserved word, the checksum are arbitrary)
    match a[0].n() {
        3 => {
            assert!(hb.len() == 8, "harness: header bytes");
            let h: BootInformationHeader = unsafe { core::ptr::read_unaligned(hb.as_ptr().cast()) };
            return newboxed(ctx, h, &slices, 0);
        }
        4 => {
            assert!(hb.len() == 16 && matches!(u32::from_le_bytes([hb[4], hb[5], hb[6], hb[7]]), 0 | 4), "harness: header bytes");
            let h: Multiboot2BasicHeader = unsafe { core::ptr::read_unaligned(hb.as_ptr().cast()) };
            return newboxed(ctx, h, &slices, 8);
        }
        5 => {
            // a user-defined 12-byte header
            assert!(hb.len() == 12, "harness: header bytes");
            let w = |i: usize| u32::from_le_bytes([hb[i], hb[i + 1], hb[i + 2], hb[i + 3]]);
            let h = crate::dom_common::U12Header { typ: w(0), size: w(4), extra: w(8) };
            return newboxed(ctx, h, &slices, 4);
        }
        _ => {}
    }
    assert!(hb.len() == 8, "harness: header bytes");
    let w0 = u32::from_le_bytes([hb[0], hb[1], hb[2], hb[3]]);
    let w1 = u32::from_le_bytes([hb[4], hb[5], hb[6], hb[7]]);
    match a[0].n() {
        0 => newboxed(ctx, DummyTestHeader::new(w0, w1), &slices, 4),
        1 => newboxed(ctx, TagHeader::new(TagTypeId::new(w0), w1), &slices, 4),
        2 => {
            let typ = (w0 & 0xFFFF) as u16;
            let flags = (w0 >> 16) as u16;
            assert!(typ <= 10 && flags <= 1, "harness: enum-typed header field out of range");
            let typ: HeaderTagType = unsafe { core::mem::transmute(typ) };
            let flags = if flags == 0 { HeaderTagFlag::Required } else { HeaderTagFlag::Optional };
            newboxed::<HeaderTagHeader>(ctx, HeaderTagHeader::new(typ, flags, w1), &slices, 4)
        }
        _ => panic!("harness: bad header kind"),
    }
}

pub fn run(ctx: &mut Ctx, dom: &str, a: &[Arg]) {
    match dom {
        "ctor" => run_ctor(ctx, a),
        "hctor" => run_hctor(ctx, a),
        "build" => run_build(ctx, a),
        "hbuild" => run_hbuild(ctx, a),
        "newboxed" => run_newboxed(ctx, a),
        "clone" => run_clone(ctx, a),
        "cloneparsed" => run_cloneparsed(ctx, a),
        _ => unreachable!(),
    }
}
