//! Boot-information domains: mbi (the full dump), mbiwalk, mbinull, iters.
use crate::{guard, hexs, res_str, Arg, Ctx, Guarded};
use multiboot2::{
    ApmTag, BasicMemoryInfoTag, BootInformation, BootInformationHeader, BootLoaderNameTag, BootdevTag,
    CommandLineTag, EFIImageHandle32Tag, EFIImageHandle64Tag, EFIMemoryMapTag, EFISdt32Tag, EFISdt64Tag,
    ElfSectionsTag, FramebufferTag, FramebufferType, ImageLoadPhysAddrTag, LoadError, MemoryMapTag, ModuleTag,
    NetworkTag, RsdpV1Tag, RsdpV2Tag, SmbiosTag, StringError, TagHeader, VBEInfoTag, VBEModeInfo,
};
use multiboot2_common::{DynSizedStructure, MaybeDynSized};

pub type Generic = DynSizedStructure<TagHeader>;

pub fn load_err(e: LoadError) -> String {
    match e {
        LoadError::Memory(m) => crate::dom_common::mem_err(m),
        LoadError::NoEndTag => "ERR NoEndTag".to_string(),
    }
}

pub fn view<T: ?Sized>(g: &Guarded, t: &T) -> String {
    format!("@{}+{}", g.off(t as *const T), core::mem::size_of_val(t))
}

pub fn tag_line(g: &Guarded, t: &Generic) -> String {
    let h = t.header();
    format!(
        "{} typ={} size={} plen={} payload={}",
        view(g, t),
        u32::from(h.typ),
        h.size,
        t.payload().len(),
        hexs(t.payload())
    )
}

/// Loads; prints the `load` line. Returns the boot information on success.
pub fn load<'a>(ctx: &mut Ctx, g: &'a Guarded) -> Option<BootInformation<'a>> {
    let r = guard(|| unsafe { BootInformation::load(g.ptr.cast::<BootInformationHeader>()) });
    match r {
        Err(()) => {
            ctx.ln("load", "PANIC");
            None
        }
        Ok(Err(e)) => {
            ctx.ln("load", load_err(e));
            None
        }
        Ok(Ok(bi)) => {
            let base = g.ptr as usize;
            let end = match guard(|| bi.end_address()) {
                Ok(e) => format!("VAL {}", e.wrapping_sub(base)),
                Err(()) => "PANIC".to_string(),
            };
            ctx.ln(
                "load",
                format!("VAL start={} end={} total={}", bi.start_address() - base, end, bi.total_size()),
            );
            Some(bi)
        }
    }
}

pub fn walk(ctx: &mut Ctx, g: &Guarded, bi: &BootInformation) {
    let mut it = bi.tags();
    let mut n = 0usize;
    loop {
        match guard(|| it.next()) {
            Ok(Some(t)) => {
                n += 1;
                ctx.ln("tag", tag_line(g, t))
            }
            Ok(None) => {
                ctx.ln("tags", "VAL END");
                break;
            }
            Err(()) => {
                ctx.ln("tags", "PANIC");
                break;
            }
        }
    }
    // provided Iterator methods on fresh iterators
    for k in [0, 1, n.saturating_sub(1), n, n + 1, n + 2, n + 3, n + 7] {
        let v = match guard(|| bi.tags().nth(k)) {
            Ok(Some(t)) => format!("VAL {}", view(g, t)),
            Ok(None) => "VAL none".to_string(),
            Err(()) => "PANIC".to_string(),
        };
        ctx.ln("tags_nth", format!("{} {}", k, v));
    }
    ctx.ln("tags_count", gv(|| bi.tags().count()));
    ctx.ln(
        "tags_last",
        match guard(|| bi.tags().last()) {
            Ok(Some(t)) => format!("VAL {}", view(g, t)),
            Ok(None) => "VAL none".to_string(),
            Err(()) => "PANIC".to_string(),
        },
    );
    ctx.ln(
        "tags_last_exhausted",
        match guard(|| {
            let mut it = bi.tags();
            while it.next().is_some() {}
            (it.clone().last().is_none(), it.last().is_none())
        }) {
            Ok((true, true)) => "VAL none".to_string(),
            Ok(_) => "VAL some".to_string(),
            Err(()) => "PANIC".to_string(),
        },
    );
    let r = guard(|| {
        let mut it = bi.tags();
        let first = it.next().is_some();
        (first, it.clone().count())
    });
    ctx.ln(
        "tags_clone",
        match r {
            Ok((first, rest)) => format!("VAL first={} rest={}", first, rest),
            Err(()) => "PANIC".to_string(),
        },
    );
}

pub fn modules(ctx: &mut Ctx, g: &Guarded, bi: &BootInformation) {
    let mut it = bi.module_tags();
    loop {
        match guard(|| it.next()) {
            Ok(Some(t)) => ctx.ln("module", view(g, t)),
            Ok(None) => {
                ctx.ln("modules", "VAL END");
                break;
            }
            Err(()) => {
                ctx.ln("modules", "PANIC");
                break;
            }
        }
    }
}

// ---- the full dump (domain `mbi`) ---------------------------------------------

/// "VAL <x>" or "PANIC"
fn gv<T: core::fmt::Display>(f: impl FnOnce() -> T) -> String {
    res_str(guard(|| format!("VAL {}", f())))
}

/// Result<&str, StringError>
pub fn s_str(g: &Guarded, r: Result<Result<&str, StringError>, ()>) -> String {
    match r {
        Err(()) => "PANIC".to_string(),
        Ok(Ok(s)) => format!("VAL {} {}", view(g, s), hexs(s.as_bytes())),
        Ok(Err(StringError::MissingNul(_))) => "ERR MissingNul".to_string(),
        Ok(Err(StringError::Utf8(_))) => "ERR Utf8".to_string(),
    }
}

/// Result<&str, Utf8Error> of a fixed array field
fn s_arr_str(r: Result<Result<&str, core::str::Utf8Error>, ()>) -> String {
    match r {
        Err(()) => "PANIC".to_string(),
        Ok(Ok(s)) => format!("VAL {}", hexs(s.as_bytes())),
        Ok(Err(_)) => "ERR Utf8".to_string(),
    }
}

pub fn k_module(ctx: &mut Ctx, g: &Guarded, t: &ModuleTag) {
    ctx.ln(
        "modinfo",
        format!(
            "mod_start={} mod_end={} size={} cmdline={}",
            t.start_address(),
            t.end_address(),
            t.module_size(),
            s_str(g, guard(|| t.cmdline()))
        ),
    );
}

pub fn k_apm(ctx: &mut Ctx, t: &ApmTag) {
    ctx.ln(
        "apm",
        format!(
            "version={} cseg={} offset={} cset_16={} dseg={} flags={} cseg_len={} cseg_16_len={} dseg_len={}",
            t.version(),
            t.cseg(),
            t.offset(),
            t.cset_16(),
            t.dseg(),
            t.flags(),
            t.cseg_len(),
            t.cseg_16_len(),
            t.dseg_len()
        ),
    );
}

pub fn k_basic_meminfo(ctx: &mut Ctx, t: &BasicMemoryInfoTag) {
    ctx.ln("basic_meminfo", format!("memory_lower={} memory_upper={}", t.memory_lower(), t.memory_upper()));
}

pub fn k_bootloader(ctx: &mut Ctx, g: &Guarded, t: &BootLoaderNameTag) {
    ctx.ln("bootloader", format!("typ={} size={} name={}", crate::dom_common::tt_name(t.typ()), t.size(), s_str(g, guard(|| t.name()))));
}

pub fn k_bootdev(ctx: &mut Ctx, t: &BootdevTag) {
    ctx.ln("bootdev", format!("biosdev={} slice={} part={}", t.biosdev(), t.slice(), t.part()));
}

pub fn k_cmdline(ctx: &mut Ctx, g: &Guarded, t: &CommandLineTag) {
    ctx.ln("cmdline", s_str(g, guard(|| t.cmdline())));
}

pub fn k_efi_ih32(ctx: &mut Ctx, t: &EFIImageHandle32Tag) {
    ctx.ln("efi_ih32", format!("pointer={}", t.image_handle()));
}

pub fn k_efi_ih64(ctx: &mut Ctx, t: &EFIImageHandle64Tag) {
    ctx.ln("efi_ih64", format!("pointer={}", t.image_handle()));
}

pub fn k_efi_sdt32(ctx: &mut Ctx, t: &EFISdt32Tag) {
    ctx.ln("efi_sdt32", format!("pointer={}", t.sdt_address()));
}

pub fn k_efi_sdt64(ctx: &mut Ctx, t: &EFISdt64Tag) {
    ctx.ln("efi_sdt64", format!("pointer={}", t.sdt_address()));
}

pub fn k_efi_mmap(ctx: &mut Ctx, g: &Guarded, t: &EFIMemoryMapTag) {
    let mut it = match guard(|| t.memory_areas()) {
        Err(()) => {
            ctx.ln("efi_mmap", "areas=PANIC");
            return;
        }
        Ok(it) => it,
    };
    ctx.ln("efi_mmap", format!("areas=VAL entries={} len={}", it.len(), gv(|| it.len())));
    loop {
        match guard(|| it.next()) {
            Ok(Some(d)) => ctx.ln(
                "efi_desc",
                format!(
                    "{} ty={} phys={} virt={} pages={} att={} len={}",
                    view(g, d),
                    d.ty.0,
                    d.phys_start,
                    d.virt_start,
                    d.page_count,
                    d.att.bits(),
                    gv(|| it.len())
                ),
            ),
            Ok(None) => {
                ctx.ln("efi_end", format!("VAL len={}", gv(|| it.len())));
                break;
            }
            Err(()) => {
                ctx.ln("efi_end", "PANIC");
                break;
            }
        }
    }
    // provided Iterator methods on fresh iterators: nth(k) around the number of entries, count()
    let n = guard(|| t.memory_areas().len()).unwrap_or(0);
    for k in [0, 1, n.saturating_sub(1), n, n + 1, n + 2, n + 3, n + 7] {
        let mut it = t.memory_areas();
        let v = match guard(|| it.nth(k)) {
            Ok(Some(d)) => format!("VAL {} len={}", view(g, d), gv(|| it.len())),
            Ok(None) => format!("VAL none len={}", gv(|| it.len())),
            Err(()) => "PANIC".to_string(),
        };
        ctx.ln("efi_nth", format!("{} {}", k, v));
    }
    ctx.ln("efi_count", gv(|| t.memory_areas().count()));
    // Debug of a fresh iterator and of one advanced by one step: only whether formatting panics (texts are not compared)
    let r = guard(|| {
        let _ = format!("{:?}", t.memory_areas());
        let mut it = t.memory_areas();
        it.next();
        let _ = format!("{:?}", it);
    });
    ctx.ln("efi_dbg", if r.is_ok() { "VAL " } else { "PANIC" });
    for (i, ops) in hists(n).iter().enumerate() {
        let mut it = t.memory_areas();
        let txt = run_hist(ops, |op| {
            match op {
                Hop::Count => return Ok(format!("count {}", guard(|| it.clone().count())?)),
                Hop::Last => {
                    return Ok(match guard(|| it.clone().last())? {
                        Some(d) => format!("last {}", view(g, d)),
                        None => "last none".to_string(),
                    })
                }
                _ => {}
            }
            let r = guard(|| match op {
                Hop::Nth(k) => it.nth(k),
                _ => it.next(),
            })?;
            Ok(match r {
                Some(d) => format!("some {} len={}", view(g, d), gv(|| it.len())),
                None => "none".to_string(),
            })
        });
        ctx.ln("efi_hist", format!("{} {}", i, txt));
    }
}

/// short histories mixing next() and the provided nth(k) on ONE iterator object (model: RunMbiFull.hists)
#[derive(Clone, Copy)]
pub enum Hop {
    Next,
    Nth(usize),
    /// `count()` of a clone (fold-driven provided method); the iterator itself goes on
    Count,
    /// `last()` of a clone
    Last,
}

pub fn hists(n: usize) -> Vec<Vec<Hop>> {
    use Hop::*;
    let m1 = n.saturating_sub(1);
    vec![
        vec![Next, Nth(0)],
        vec![Next, Nth(1)],
        vec![Next, Next, Nth(0)],
        vec![Nth(1), Nth(0)],
        vec![Nth(0), Next],
        vec![Next, Nth(n)],
        vec![Next, Nth(m1)],
        vec![Nth(m1), Next, Next],
        vec![Nth(n), Next],
        vec![Nth(0), Nth(0), Nth(0)],
        vec![Next, Count, Next],
        vec![Next, Next, Last],
        vec![Nth(1), Count],
        vec![Count, Last, Next],
    ]
}

/// runs one history; `step` performs the operation and renders the result ("some ..", "none"), Err = panic (stop)
pub fn run_hist(ops: &[Hop], mut step: impl FnMut(Hop) -> Result<String, ()>) -> String {
    let mut out = Vec::new();
    for op in ops {
        match step(*op) {
            Ok(s) => out.push(s),
            Err(()) => {
                out.push("PANIC".to_string());
                break;
            }
        }
    }
    out.join(";")
}


pub fn k_elf(ctx: &mut Ctx, g: &Guarded, t: &ElfSectionsTag) {
    let head =
        format!("number_of_sections={} entry_size={} shndx={}", t.number_of_sections(), t.entry_size(), t.shndx());
    let mut it = match guard(|| t.sections()) {
        Err(()) => {
            ctx.ln("elf", format!("{} sections=PANIC", head));
            return;
        }
        Ok(it) => it,
    };
    ctx.ln("elf", format!("{} sections=VAL rem={}", head, it.len()));
    // `inner` is not public: the k-th entry of the table is at tag + 20 + k * entry_size,
    // k = entries consumed before this one
    let total = it.len();
    let table = g.off(t as *const ElfSectionsTag) + 20;
    let es = t.entry_size() as isize;
    loop {
        match guard(|| it.next()) {
            Ok(Some(s)) => {
                let rem = it.len();
                let k = (total - rem - 1) as isize;
                ctx.ln(
                    "elf_section",
                    format!(
                        "{} typ={} raw={} flags={} start={} end={} size={} align={} alloc={} rem={}",
                        table + k * es,
                        res_str(guard(|| format!("VAL {}", crate::dom_common::elf_type_name(s.section_type())))),
                        gv(|| s.section_type_raw()),
                        gv(|| s.flags().bits()),
                        gv(|| s.start_address()),
                        gv(|| s.end_address()),
                        gv(|| s.size()),
                        gv(|| s.addralign()),
                        gv(|| s.is_allocated()),
                        rem
                    ),
                );
            }
            Ok(None) => {
                ctx.ln("elf_end", format!("VAL rem={}", it.len()));
                break;
            }
            Err(()) => {
                ctx.ln("elf_end", "PANIC");
                break;
            }
        }
    }
    // provided Iterator methods on fresh iterators: nth(k) around the stored entry count, count()
    if total <= 4096 {
        for k in [0, 1, total.saturating_sub(1), total, total + 1, total + 2, total + 3, total + 7] {
            let mut it = t.sections();
            let v = match guard(|| it.nth(k)) {
                Ok(Some(_)) => {
                    let idx = (total - it.len() - 1) as isize;
                    format!("VAL {} rem={}", table + idx * es, it.len())
                }
                Ok(None) => format!("VAL none rem={}", it.len()),
                Err(()) => "PANIC".to_string(),
            };
            ctx.ln("elf_nth", format!("{} {}", k, v));
        }
        ctx.ln("elf_count", gv(|| t.sections().count()));
        // Debug of the iterator: only whether formatting panics (texts are not compared)
        let r = guard(|| format!("{:?}", t.sections()));
        ctx.ln("elf_dbg", if r.is_ok() { "VAL " } else { "PANIC" });
        for (i, ops) in hists(total).iter().enumerate() {
            let mut it = t.sections();
            let txt = run_hist(ops, |op| {
                match op {
                    Hop::Count => return Ok(format!("count {}", guard(|| it.clone().count())?)),
                    Hop::Last => {
                        // the last section a clone yields: identified by running the clone by hand as well
                        let last = guard(|| it.clone().last())?;
                        let mut c = it.clone();
                        let mut idx_last: Option<isize> = None;
                        loop {
                            match guard(|| c.next())? {
                                Some(_) => idx_last = Some((total - c.len() - 1) as isize),
                                None => break,
                            }
                        }
                        return Ok(match (last, idx_last) {
                            (Some(l), Some(idx)) => {
                                // `last()` must be the section at that index: compare a field both expose
                                let same = guard(|| {
                                    let mut c2 = it.clone();
                                    let mut cur = None;
                                    while let Some(x) = c2.next() {
                                        cur = Some(x);
                                    }
                                    cur.map(|x| x == l).unwrap_or(false)
                                })?;
                                if same { format!("last {}", table + idx * es) } else { "last MISMATCH".to_string() }
                            }
                            (None, None) => "last none".to_string(),
                            _ => "last MISMATCH".to_string(),
                        });
                    }
                    _ => {}
                }
                let r = guard(|| match op {
                    Hop::Nth(k) => it.nth(k),
                    _ => it.next(),
                })?;
                Ok(match r {
                    Some(_) => {
                        let idx = (total - it.len() - 1) as isize;
                        format!("some {} rem={}", table + idx * es, it.len())
                    }
                    None => "none".to_string(),
                })
            });
            ctx.ln("elf_hist", format!("{} {}", i, txt));
        }
    }
}

fn unknown_fb(e: impl core::fmt::Display) -> String {
    format!("ERR UnknownFb({})", crate::dom_common::last_number(&format!("{}", e)))
}

pub fn k_framebuffer(ctx: &mut Ctx, g: &Guarded, t: &FramebufferTag) {
    let ty = match guard(|| t.buffer_type()) {
        Err(()) => "PANIC".to_string(),
        Ok(Ok(FramebufferType::Indexed { palette })) => {
            let bytes = unsafe { core::slice::from_raw_parts(palette.as_ptr().cast::<u8>(), palette.len() * 3) };
            format!("VAL Indexed n={} {} {}", palette.len(), view(g, palette), hexs(bytes))
        }
        Ok(Ok(FramebufferType::RGB { red, green, blue })) => format!(
            "VAL RGB {},{},{},{},{},{}",
            red.position, red.size, green.position, green.size, blue.position, blue.size
        ),
        Ok(Ok(FramebufferType::Text)) => "VAL Text".to_string(),
        Ok(Err(e)) => unknown_fb(e),
    };
    ctx.ln(
        "framebuffer",
        format!(
            "address={} pitch={} width={} height={} bpp={} type={}",
            t.address(),
            t.pitch(),
            t.width(),
            t.height(),
            t.bpp(),
            ty
        ),
    );
}

pub fn k_load_base_addr(ctx: &mut Ctx, t: &ImageLoadPhysAddrTag) {
    ctx.ln("load_base_addr", format!("load_base_addr={}", t.load_base_addr()));
}

pub fn k_mmap(ctx: &mut Ctx, g: &Guarded, t: &MemoryMapTag) {
    let a = guard(|| t.memory_areas());
    ctx.ln(
        "mmap",
        format!(
            "entry_size={} entry_version={} areas={}",
            t.entry_size(),
            t.entry_version(),
            match a {
                Ok(s) => format!("VAL {}", view(g, s)),
                Err(()) => "PANIC".to_string(),
            }
        ),
    );
    if let Ok(s) = a {
        for x in s {
            ctx.ln(
                "area",
                format!(
                    "{} base={} length={} typ={} end={}",
                    view(g, x),
                    x.start_address(),
                    x.size(),
                    u32::from(x.typ()),
                    x.end_address()
                ),
            );
        }
    }
}

pub fn k_network(ctx: &mut Ctx, g: &Guarded, t: &NetworkTag) {
    // no accessors: the extent of the unsized tail from the pointer metadata
    let n: usize = ptr_meta::metadata(t as *const NetworkTag);
    ctx.ln("network", format!("dhcpack=@{}+{}", g.off(t as *const NetworkTag) + 8, n));
}

pub fn k_rsdp_v1(ctx: &mut Ctx, t: &RsdpV1Tag) {
    ctx.ln(
        "rsdp_v1",
        format!(
            "signature={} valid={} oem_id={} revision={} rsdt_address={}",
            s_arr_str(guard(|| t.signature())),
            gv(|| t.checksum_is_valid()),
            s_arr_str(guard(|| t.oem_id())),
            t.revision(),
            t.rsdt_address()
        ),
    );
}

pub fn k_rsdp_v2(ctx: &mut Ctx, t: &RsdpV2Tag) {
    ctx.ln(
        "rsdp_v2",
        format!(
            "signature={} valid={} oem_id={} revision={} xsdt_address={} ext_checksum={}",
            s_arr_str(guard(|| t.signature())),
            gv(|| t.checksum_is_valid()),
            s_arr_str(guard(|| t.oem_id())),
            t.revision(),
            t.xsdt_address(),
            t.ext_checksum()
        ),
    );
}

pub fn k_smbios(ctx: &mut Ctx, g: &Guarded, t: &SmbiosTag) {
    let tb = t.tables();
    ctx.ln("smbios", format!("major={} minor={} tables={} {}", t.major(), t.minor(), view(g, tb), hexs(tb)));
}

/// unaligned read of a (possibly nested) field of a packed struct behind a raw pointer
macro_rules! rd {
    ($p:expr, $($f:tt)+) => {
        unsafe { core::ptr::addr_of!((*$p).$($f)+).read_unaligned() }
    };
}

pub fn k_vbe(ctx: &mut Ctx, t: &VBEInfoTag) {
    ctx.ln(
        "vbe",
        format!(
            "mode={} interface_segment={} interface_offset={} interface_length={}",
            t.mode(),
            t.interface_segment(),
            t.interface_offset(),
            t.interface_length()
        ),
    );
    let ci = t.control_info();
    ctx.ln(
        "vbe_ci",
        format!(
            "signature={} ci.version={} ci.oem_string_ptr={} ci.capabilities={} ci.mode_list_ptr={} \
             ci.total_memory={} ci.oem_software_revision={} ci.oem_vendor_name_ptr={} \
             ci.oem_product_name_ptr={} ci.oem_product_revision_ptr={}",
            hexs(&{ ci.signature }),
            { ci.version },
            { ci.oem_string_ptr },
            { ci.capabilities }.bits(),
            { ci.mode_list_ptr },
            { ci.total_memory },
            { ci.oem_software_revision },
            { ci.oem_vendor_name_ptr },
            { ci.oem_product_name_ptr },
            { ci.oem_product_revision_ptr }
        ),
    );
    // `memory_model` is a Rust enum: with a raw byte > 7 neither the field nor a
    // typed copy of the struct is read; the other fields are then read in place.
    let tagp = t as *const VBEInfoTag as *const u8;
    let mm_raw = unsafe { tagp.add(8 + 8 + 512 + 27).read() };
    let copy;
    let p: *const VBEModeInfo = if mm_raw <= 7 {
        copy = t.mode_info();
        &copy
    } else {
        unsafe { tagp.add(8 + 8 + 512).cast::<VBEModeInfo>() }
    };
    let mm = if mm_raw <= 7 { format!("VAL {}", rd!(p, memory_model) as u8) } else { "UB".to_string() };
    ctx.ln(
        "vbe_mi",
        format!(
            "mi.mode_attributes={} mi.window_a_attributes={} mi.window_b_attributes={} mi.window_granularity={} \
             mi.window_size={} mi.window_a_segment={} mi.window_b_segment={} mi.window_function_ptr={} mi.pitch={} \
             mi.resolution.0={} mi.resolution.1={} mi.character_size.0={} mi.character_size.1={} \
             mi.number_of_planes={} mi.bpp={} mi.number_of_banks={} mi.bank_size={} mi.number_of_image_pages={} \
             mi.red_field.size={} mi.red_field.position={} mi.green_field.size={} mi.green_field.position={} \
             mi.blue_field.size={} mi.blue_field.position={} mi.reserved_field.size={} \
             mi.reserved_field.position={} mi.direct_color_attributes={} mi.framebuffer_base_ptr={} \
             mi.offscreen_memory_offset={} mi.offscreen_memory_size={} memory_model={}",
            rd!(p, mode_attributes).bits(),
            rd!(p, window_a_attributes).bits(),
            rd!(p, window_b_attributes).bits(),
            rd!(p, window_granularity),
            rd!(p, window_size),
            rd!(p, window_a_segment),
            rd!(p, window_b_segment),
            rd!(p, window_function_ptr),
            rd!(p, pitch),
            rd!(p, resolution.0),
            rd!(p, resolution.1),
            rd!(p, character_size.0),
            rd!(p, character_size.1),
            rd!(p, number_of_planes),
            rd!(p, bpp),
            rd!(p, number_of_banks),
            rd!(p, bank_size),
            rd!(p, number_of_image_pages),
            rd!(p, red_field.size),
            rd!(p, red_field.position),
            rd!(p, green_field.size),
            rd!(p, green_field.position),
            rd!(p, blue_field.size),
            rd!(p, blue_field.position),
            rd!(p, reserved_field.size),
            rd!(p, reserved_field.position),
            rd!(p, direct_color_attributes).bits(),
            rd!(p, framebuffer_base_ptr),
            rd!(p, offscreen_memory_offset),
            rd!(p, offscreen_memory_size),
            mm
        ),
    );
}

/// module iterator run to the end, each module with its accessors
pub fn modules_full(ctx: &mut Ctx, g: &Guarded, bi: &BootInformation) {
    let mut it = bi.module_tags();
    loop {
        match guard(|| it.next()) {
            Ok(Some(t)) => {
                ctx.ln("module", view(g, t));
                k_module(ctx, g, t);
            }
            Ok(None) => {
                ctx.ln("modules", "VAL END");
                break;
            }
            Err(()) => {
                ctx.ln("modules", "PANIC");
                break;
            }
        }
    }
    // a clone (and the Debug output, which clones) of an advanced module iterator continues where the original stands
    let r = guard(|| {
        let mut it = bi.module_tags();
        let first = it.next().is_some();
        let _ = format!("{:?}", it);
        (first, it.clone().count())
    });
    ctx.ln(
        "modules_clone",
        match r {
            Ok((first, rest)) => format!("VAL first={} rest={}", first, rest),
            Err(()) => "PANIC".to_string(),
        },
    );
}

/// Prints the `get` line of a typed getter; the tag if there is one.
/// the trait-provided views of a typed tag: `as_bytes()`, `payload()`, `header()`, `as_ptr()`
pub fn dyn_views<T: MaybeDynSized + ?Sized>(g: &Guarded, t: &T) -> String {
    let r = guard(|| {
        let b = MaybeDynSized::as_bytes(t);
        let p = MaybeDynSized::payload(t);
        format!(
            "bytes=@{}+{} payload=@{}+{} header=@{} ptr=@{}",
            g.off(b.as_ptr()),
            b.len(),
            g.off(p.as_ptr()),
            p.len(),
            g.off(MaybeDynSized::header(t) as *const T::Header),
            g.off(MaybeDynSized::as_ptr(t))
        )
    });
    r.unwrap_or("views=PANIC".to_string())
}

fn got<'a, T: MaybeDynSized + ?Sized>(ctx: &mut Ctx, g: &Guarded, name: &str, r: Result<Option<&'a T>, ()>) -> Option<&'a T> {
    match r {
        Err(()) => {
            ctx.ln("get", format!("{} PANIC", name));
            None
        }
        Ok(None) => {
            ctx.ln("get", format!("{} none", name));
            None
        }
        Ok(Some(t)) => {
            ctx.ln("get", format!("{} some {} {}", name, view(g, t), dyn_views(g, t)));
            Some(t)
        }
    }
}

/// `debug <name> VAL |PANIC`: formats the value with `{:?}`; only whether it panics is recorded
fn dbg_line<T: core::fmt::Debug + ?Sized>(ctx: &mut Ctx, name: &str, t: &T) {
    let r = guard(|| {
        let _ = format!("{:?}", t);
    });
    ctx.ln("debug", format!("{} {}", name, if r.is_ok() { "VAL " } else { "PANIC" }));
}

/// the raw memory-model byte of a VBE tag (tag offset 555), without going through the enum type
fn vbe_mm_byte(t: &VBEInfoTag) -> u8 {
    unsafe { *(t as *const VBEInfoTag as *const u8).add(555) }
}

/// every typed getter (alphabetical order of the getters), each followed by the accessors of its tag
pub fn getters(ctx: &mut Ctx, g: &Guarded, bi: &BootInformation) {
    if let Some(t) = got(ctx, g, "apm", guard(|| bi.apm_tag())) {
        k_apm(ctx, t);
        dbg_line(ctx, "apm", t);
    }
    if let Some(t) = got(ctx, g, "basic_memory_info", guard(|| bi.basic_memory_info_tag())) {
        k_basic_meminfo(ctx, t);
        dbg_line(ctx, "basic_memory_info", t);
    }
    if let Some(t) = got(ctx, g, "boot_loader_name", guard(|| bi.boot_loader_name_tag())) {
        k_bootloader(ctx, g, t);
        dbg_line(ctx, "boot_loader_name", t);
    }
    if let Some(t) = got(ctx, g, "bootdev", guard(|| bi.bootdev_tag())) {
        k_bootdev(ctx, t);
        dbg_line(ctx, "bootdev", t);
    }
    if let Some(t) = got(ctx, g, "command_line", guard(|| bi.command_line_tag())) {
        k_cmdline(ctx, g, t);
        dbg_line(ctx, "command_line", t);
    }
    if let Some(t) = got(ctx, g, "efi_bs_not_exited", guard(|| bi.efi_bs_not_exited_tag())) {
        dbg_line(ctx, "efi_bs_not_exited", t);
    }
    if let Some(t) = got(ctx, g, "efi_ih32", guard(|| bi.efi_ih32_tag())) {
        k_efi_ih32(ctx, t);
        dbg_line(ctx, "efi_ih32", t);
    }
    if let Some(t) = got(ctx, g, "efi_ih64", guard(|| bi.efi_ih64_tag())) {
        k_efi_ih64(ctx, t);
        dbg_line(ctx, "efi_ih64", t);
    }
    if let Some(t) = got(ctx, g, "efi_memory_map", guard(|| bi.efi_memory_map_tag())) {
        k_efi_mmap(ctx, g, t);
        dbg_line(ctx, "efi_memory_map", t);
    }
    if let Some(t) = got(ctx, g, "efi_sdt32", guard(|| bi.efi_sdt32_tag())) {
        k_efi_sdt32(ctx, t);
        dbg_line(ctx, "efi_sdt32", t);
    }
    if let Some(t) = got(ctx, g, "efi_sdt64", guard(|| bi.efi_sdt64_tag())) {
        k_efi_sdt64(ctx, t);
        dbg_line(ctx, "efi_sdt64", t);
    }
    if let Some(t) = got(ctx, g, "elf_sections", guard(|| bi.elf_sections_tag())) {
        k_elf(ctx, g, t);
        dbg_line(ctx, "elf_sections", t);
    }
    match guard(|| bi.framebuffer_tag()) {
        Err(()) => ctx.ln("get", "framebuffer PANIC"),
        Ok(None) => ctx.ln("get", "framebuffer none"),
        Ok(Some(Ok(t))) => {
            ctx.ln("get", format!("framebuffer some {} {}", view(g, t), dyn_views(g, t)));
            k_framebuffer(ctx, g, t);
            dbg_line(ctx, "framebuffer", t);
        }
        Ok(Some(Err(e))) => ctx.ln("get", format!("framebuffer some {}", unknown_fb(e))),
    }
    if let Some(t) = got(ctx, g, "load_base_addr", guard(|| bi.load_base_addr_tag())) {
        k_load_base_addr(ctx, t);
        dbg_line(ctx, "load_base_addr", t);
    }
    if let Some(t) = got(ctx, g, "memory_map", guard(|| bi.memory_map_tag())) {
        k_mmap(ctx, g, t);
        dbg_line(ctx, "memory_map", t);
    }
    if let Some(t) = got(ctx, g, "network", guard(|| bi.network_tag())) {
        k_network(ctx, g, t);
        dbg_line(ctx, "network", t);
    }
    if let Some(t) = got(ctx, g, "rsdp_v1", guard(|| bi.rsdp_v1_tag())) {
        k_rsdp_v1(ctx, t);
        dbg_line(ctx, "rsdp_v1", t);
    }
    if let Some(t) = got(ctx, g, "rsdp_v2", guard(|| bi.rsdp_v2_tag())) {
        k_rsdp_v2(ctx, t);
        dbg_line(ctx, "rsdp_v2", t);
    }
    if let Some(t) = got(ctx, g, "smbios", guard(|| bi.smbios_tag())) {
        k_smbios(ctx, g, t);
        dbg_line(ctx, "smbios", t);
    }
    let mut vbe_undefined = false;
    if let Some(t) = got(ctx, g, "vbe_info", guard(|| bi.vbe_info_tag())) {
        k_vbe(ctx, t);
        if vbe_mm_byte(t) > 7 {
            // known finding F18: formatting would materialise an invalid enum value
            vbe_undefined = true;
            ctx.ln("debug", "vbe_info UB");
        } else {
            dbg_line(ctx, "vbe_info", t);
        }
    }
    #[allow(deprecated)]
    let dep = guard(|| bi.elf_sections().map(|it| it.len()));
    ctx.ln(
        "get",
        match dep {
            Err(()) => "elf_sections_deprecated PANIC".to_string(),
            Ok(None) => "elf_sections_deprecated VAL none".to_string(),
            Ok(Some(n)) => format!("elf_sections_deprecated VAL some rem={}", n),
        },
    );
    if vbe_undefined {
        ctx.ln("debug", "boot UB-SKIPPED");
    } else {
        dbg_line(ctx, "boot", bi);
    }
}

pub fn run(ctx: &mut Ctx, dom: &str, a: &[Arg]) {
    match dom {
        "mbi" => {
            let g = Guarded::new(a[0].b(), 0, ctx.place_end);
            if let Some(bi) = load(ctx, &g) {
                walk(ctx, &g, &bi);
                modules_full(ctx, &g, &bi);
                getters(ctx, &g, &bi);
            }
        }
        "elfname" => {
            // elfname <region> <ext base> <ext bytes>: the string table lives in external memory at a fixed address
            let _ext = match Guarded::fixed(a[1].n() as usize, a[2].b()) {
                Some(e) => e,
                None => {
                    ctx.out.push("SKIP".into());
                    return;
                }
            };
            let g = Guarded::new(a[0].b(), 0, ctx.place_end);
            if let Some(bi) = load(ctx, &g) {
                match guard(|| bi.elf_sections_tag()) {
                    Err(()) => ctx.ln("elfname_sections", "get PANIC"),
                    Ok(None) => ctx.ln("elfname_sections", "none"),
                    Ok(Some(t)) => match guard(|| t.sections()) {
                        Err(()) => ctx.ln("elfname_sections", "PANIC"),
                        Ok(mut it) => {
                            ctx.ln("elfname_sections", "VAL ");
                            let total = it.len();
                            let table = g.off(t as *const ElfSectionsTag) + 20;
                            let es = t.entry_size() as isize;
                            loop {
                                match guard(|| it.next()) {
                                    Ok(Some(s)) => {
                                        let k = (total - it.len() - 1) as isize;
                                        let nm = match guard(|| s.name().map(|x| x.as_bytes().to_vec())) {
                                            Ok(Ok(b)) => format!("VAL {}", hexs(&b)),
                                            Ok(Err(_)) => "ERR Utf8".to_string(),
                                            Err(()) => "PANIC".to_string(),
                                        };
                                        ctx.ln("elfname", format!("{} {}", table + k * es, nm));
                                    }
                                    Ok(None) => {
                                        ctx.ln("elfname_end", "VAL ");
                                        break;
                                    }
                                    Err(()) => {
                                        ctx.ln("elfname_end", "PANIC");
                                        break;
                                    }
                                }
                            }
                        }
                    },
                }
            }
        }
        "mbimis" => {
            let g = Guarded::new(a[1].b(), a[0].u(), ctx.place_end);
            let r = guard(|| unsafe { BootInformation::load(g.ptr.cast::<BootInformationHeader>()) });
            ctx.ln(
                "load",
                match r {
                    Err(()) => "PANIC".to_string(),
                    Ok(Err(e)) => load_err(e),
                    Ok(Ok(_)) => "VAL ".to_string(),
                },
            );
        }
        "mbinull" => {
            let r = guard(|| unsafe { BootInformation::load(core::ptr::null()) });
            ctx.ln(
                "load",
                match r {
                    Err(()) => "PANIC".to_string(),
                    Ok(Err(e)) => load_err(e),
                    Ok(Ok(_)) => "VAL ".to_string(),
                },
            );
        }
        "mbiwalk" => {
            let g = Guarded::new(a[0].b(), 0, ctx.place_end);
            if let Some(bi) = load(ctx, &g) {
                walk(ctx, &g, &bi);
                modules(ctx, &g, &bi);
            }
        }
        "bigelf" => {
            // a boot information whose only tag is an ELF-sections tag of n copies of one section header (n beyond 2^16)
            let (n, sh, entry) = (a[0].n() as usize, a[1].n() as u32, a[2].b());
            let es = entry.len();
            let size = 20 + n * es;
            let total = 8 + size + 4 + 8;
            let mut region = Vec::with_capacity(total);
            region.extend_from_slice(&(total as u32).to_le_bytes());
            region.extend_from_slice(&0u32.to_le_bytes());
            region.extend_from_slice(&9u32.to_le_bytes());
            region.extend_from_slice(&(size as u32).to_le_bytes());
            region.extend_from_slice(&(n as u32).to_le_bytes());
            region.extend_from_slice(&(es as u32).to_le_bytes());
            region.extend_from_slice(&sh.to_le_bytes());
            for _ in 0..n {
                region.extend_from_slice(entry);
            }
            region.extend_from_slice(&[0, 0, 0, 0]);
            region.extend_from_slice(&0u32.to_le_bytes());
            region.extend_from_slice(&8u32.to_le_bytes());
            let g = Guarded::new(&region, 0, ctx.place_end);
            drop(region);
            let r = guard(|| unsafe { BootInformation::load(g.ptr.cast::<BootInformationHeader>()) });
            let bi = match r {
                Ok(Ok(bi)) => bi,
                _ => {
                    ctx.ln("elf", "noload");
                    return;
                }
            };
            let t = match guard(|| bi.get_tag::<ElfSectionsTag>()) {
                Ok(Some(t)) => t,
                _ => {
                    ctx.ln("elf", "notag");
                    return;
                }
            };
            let head = format!(
                "number_of_sections={} entry_size={} shndx={}",
                t.number_of_sections(),
                t.entry_size(),
                t.shndx()
            );
            let it = match guard(|| t.sections()) {
                Err(()) => {
                    ctx.ln("elf", format!("{} sections=PANIC", head));
                    return;
                }
                Ok(it) => it,
            };
            ctx.ln("elf", format!("{} sections=VAL rem={}", head, it.len()));
            let total_n = it.len();
            let table = 28isize;
            ctx.ln("elf_count", gv(|| t.sections().count()));
            // last(): the index of the last section yielded (a clone run by hand), checked against last() itself
            let r = guard(|| {
                let mut c = t.sections();
                let mut idx: Option<isize> = None;
                let mut lastv = None;
                while let Some(x) = c.next() {
                    idx = Some((total_n - c.len() - 1) as isize);
                    lastv = Some(x);
                }
                let l = t.sections().last();
                (idx, l == lastv)
            });
            ctx.ln(
                "elf_last",
                match r {
                    Ok((Some(i), true)) => format!("VAL {}", table + i * es as isize),
                    Ok((None, true)) => "VAL none".to_string(),
                    Ok((_, false)) => "VAL MISMATCH".to_string(),
                    Err(()) => "PANIC".to_string(),
                },
            );
            for k in [n.saturating_sub(1), n] {
                let mut c = t.sections();
                let v = match guard(|| c.nth(k)) {
                    Ok(Some(_)) => format!("VAL {}", table + ((total_n - c.len() - 1) as isize) * es as isize),
                    Ok(None) => "VAL none".to_string(),
                    Err(()) => "PANIC".to_string(),
                };
                ctx.ln("elf_nth", format!("{} {}", k, v));
            }
        }
        "tageq" => {
            // `==` / `!=` between the first tags of each kind of two loaded boot informations
            let g1 = Guarded::new(a[0].b(), 0, ctx.place_end);
            let g2 = Guarded::new(a[1].b(), 0, ctx.place_end);
            let l1 = guard(|| unsafe { BootInformation::load(g1.ptr.cast::<BootInformationHeader>()) });
            let l2 = guard(|| unsafe { BootInformation::load(g2.ptr.cast::<BootInformationHeader>()) });
            match (l1, l2) {
                (Ok(Ok(b1)), Ok(Ok(b2))) => {
                    macro_rules! eqk {
                        ($label:expr, $T:ty) => {
                            match (guard(|| b1.get_tag::<$T>()), guard(|| b2.get_tag::<$T>())) {
                                (Ok(Some(x)), Ok(Some(y))) => {
                                    let r = guard(|| (x == y, x != y));
                                    ctx.ln(
                                        "eq",
                                        match r {
                                            Ok((e, n)) => format!("{} VAL eq={} ne={}", $label, e, n),
                                            Err(()) => format!("{} PANIC", $label),
                                        },
                                    );
                                }
                                _ => ctx.ln("eq", format!("{} skip", $label)),
                            }
                        };
                    }
                    eqk!(1, CommandLineTag);
                    eqk!(2, BootLoaderNameTag);
                    eqk!(3, ModuleTag);
                    eqk!(4, BasicMemoryInfoTag);
                    eqk!(6, MemoryMapTag);
                    // VBEModeInfo.memory_model is enum-typed: compared only when both bytes are declared discriminants (F18)
                    match (guard(|| b1.get_tag::<VBEInfoTag>()), guard(|| b2.get_tag::<VBEInfoTag>())) {
                        (Ok(Some(x)), Ok(Some(y))) if vbe_mm_byte(x) <= 7 && vbe_mm_byte(y) <= 7 => {
                            let r = guard(|| (x == y, x != y));
                            ctx.ln(
                                "eq",
                                match r {
                                    Ok((e, n)) => format!("7 VAL eq={} ne={}", e, n),
                                    Err(()) => "7 PANIC".to_string(),
                                },
                            );
                        }
                        _ => ctx.ln("eq", "7 skip"),
                    }
                    eqk!(8, FramebufferTag);
                    eqk!(9, ElfSectionsTag);
                    eqk!(11, EFISdt32Tag);
                    eqk!(12, EFISdt64Tag);
                    eqk!(13, SmbiosTag);
                    eqk!(14, RsdpV1Tag);
                    eqk!(15, RsdpV2Tag);
                    eqk!(17, EFIMemoryMapTag);
                    eqk!(18, multiboot2::EFIBootServicesNotExitedTag);
                    eqk!(19, EFIImageHandle32Tag);
                    eqk!(20, EFIImageHandle64Tag);
                    eqk!(21, ImageLoadPhysAddrTag);
                }
                _ => ctx.ln("eq", "noload"),
            }
        }
        "bigwalk" => {
            // n copies of one padded tag between the header and the end tag (n beyond 2^16): counts and positions only
            let (n, tag) = (a[0].n() as usize, a[1].b());
            let l = tag.len();
            let total = 16 + n * l;
            let mut region = Vec::with_capacity(total);
            region.extend_from_slice(&(total as u32).to_le_bytes());
            region.extend_from_slice(&0u32.to_le_bytes());
            for _ in 0..n {
                region.extend_from_slice(tag);
            }
            region.extend_from_slice(&0u32.to_le_bytes());
            region.extend_from_slice(&8u32.to_le_bytes());
            let g = Guarded::new(&region, 0, ctx.place_end);
            drop(region);
            let r = guard(|| unsafe { BootInformation::load(g.ptr.cast::<BootInformationHeader>()) });
            match r {
                Err(()) => ctx.ln("load", "PANIC"),
                Ok(Err(e)) => ctx.ln("load", load_err(e)),
                Ok(Ok(bi)) => {
                    ctx.ln("load", format!("VAL total={}", bi.total_size()));
                    ctx.ln("tags_count", gv(|| bi.tags().count()));
                    ctx.ln(
                        "tags_last",
                        match guard(|| bi.tags().last()) {
                            Ok(Some(t)) => format!("VAL {}", view(&g, t)),
                            Ok(None) => "VAL none".to_string(),
                            Err(()) => "PANIC".to_string(),
                        },
                    );
                    for k in [n.wrapping_sub(1), n, n + 1] {
                        let kk = if n == 0 && k == usize::MAX { 0 } else { k };
                        let v = match guard(|| bi.tags().nth(kk)) {
                            Ok(Some(t)) => format!("VAL {}", view(&g, t)),
                            Ok(None) => "VAL none".to_string(),
                            Err(()) => "PANIC".to_string(),
                        };
                        ctx.ln("tags_nth", format!("{} {}", if n == 0 && k == usize::MAX { 0 } else { k }, v));
                    }
                    ctx.ln("modules_count", gv(|| bi.module_tags().count()));
                    dbg_line(ctx, "boot", &bi);
                }
            }
        }
        "mbihuge" => {
            // a boot information whose header declares a total size up to 4 GiB: that many (untouched, zero) bytes, the
            // given 8 bytes at its end
            let (h8, l8) = (a[0].b(), a[1].b());
            let total = u32::from_le_bytes([h8[0], h8[1], h8[2], h8[3]]) as usize;
            match Guarded::sparse(total.max(16), h8, if total >= 16 { l8 } else { &[] }) {
                None => ctx.ln("load", "SKIP"),
                Some(g) => {
                    let r = guard(|| unsafe { BootInformation::load(g.ptr.cast::<BootInformationHeader>()) });
                    ctx.ln(
                        "load",
                        match r {
                            Err(()) => "PANIC".to_string(),
                            Ok(Err(e)) => load_err(e),
                            Ok(Ok(bi)) => format!("VAL total={}", bi.total_size()),
                        },
                    );
                }
            }
        }
        "iters" => {
            let g = Guarded::new(a[0].b(), 0, ctx.place_end);
            if let Some(bi) = load(ctx, &g) {
                // pool entries: Some(iterator) | None (a call on it panicked)
                let mut pool: Vec<Option<multiboot2::TagIter>> = Vec::new();
                for op in a[1].l() {
                    let op = op.l();
                    match op[0].n() {
                        0 => {
                            ctx.ln("new", format!("{}", pool.len()));
                            pool.push(Some(bi.tags()));
                        }
                        2 => {
                            let i = op[1].u();
                            if i < pool.len() {
                                ctx.ln("clone", format!("{}", pool.len()));
                                let c = pool[i].clone();
                                pool.push(c);
                            } else {
                                ctx.ln("clone", "skip");
                            }
                        }
                        1 => {
                            let i = op[1].u();
                            if i < pool.len() && pool[i].is_some() {
                                let it = pool[i].as_mut().unwrap();
                                match guard(|| it.next()) {
                                    Ok(Some(t)) => ctx.ln("next", format!("VAL some {}", tag_line(&g, t))),
                                    Ok(None) => ctx.ln("next", "VAL none"),
                                    // the panic is caught: the iterator stays in the pool as next() left it
                                    Err(()) => ctx.ln("next", "PANIC"),
                                }
                            } else {
                                ctx.ln("next", "skip");
                            }
                        }
                        3 => {
                            let (i, k) = (op[1].u(), op[2].u());
                            if i < pool.len() && pool[i].is_some() {
                                let it = pool[i].as_mut().unwrap();
                                match guard(|| it.nth(k)) {
                                    Ok(Some(t)) => ctx.ln("nth", format!("VAL some {}", tag_line(&g, t))),
                                    Ok(None) => ctx.ln("nth", "VAL none"),
                                    Err(()) => ctx.ln("nth", "PANIC"),
                                }
                            } else {
                                ctx.ln("nth", "skip");
                            }
                        }
                        _ => ctx.ln("op", "bad"),
                    }
                }
            }
        }
        _ => unreachable!(),
    }
}
