//! Boot-information domains: mbiwalk, mbinull, iters (and, later, the full dump).
use crate::{guard, hexs, Arg, Ctx, Guarded};
use multiboot2::{BootInformation, BootInformationHeader, LoadError, TagHeader};
use multiboot2_common::{DynSizedStructure, MaybeDynSized};

pub type Generic = DynSizedStructure<TagHeader>;

pub fn load_err(e: LoadError) -> String {
    match e {
        LoadError::Memory(m) => format!("ERR {:?}", m),
        LoadError::NoEndTag => "ERR NoEndTag".to_string(),
    }
}

pub fn view<T: ?Sized>(g: &Guarded, t: &T) -> String {
    format!("@{}+{}", g.off(t as *const T), core::mem::size_of_val(t))
}

pub fn tag_line(g: &Guarded, t: &Generic) -> String {
    let h = t.header();
    format!(
        "{} typ={} size={} plen={} payload={}",
        view(g, t),
        u32::from(h.typ),
        h.size,
        t.payload().len(),
        hexs(t.payload())
    )
}

/// Loads; prints the `load` line. Returns the boot information on success.
pub fn load<'a>(ctx: &mut Ctx, g: &'a Guarded) -> Option<BootInformation<'a>> {
    let r = guard(|| unsafe { BootInformation::load(g.ptr.cast::<BootInformationHeader>()) });
    match r {
        Err(()) => {
            ctx.ln("load", "PANIC");
            None
        }
        Ok(Err(e)) => {
            ctx.ln("load", load_err(e));
            None
        }
        Ok(Ok(bi)) => {
            let base = g.ptr as usize;
            let end = match guard(|| bi.end_address()) {
                Ok(e) => format!("VAL {}", e.wrapping_sub(base)),
                Err(()) => "PANIC".to_string(),
            };
            ctx.ln(
                "load",
                format!("VAL start={} end={} total={}", bi.start_address() - base, end, bi.total_size()),
            );
            Some(bi)
        }
    }
}

pub fn walk(ctx: &mut Ctx, g: &Guarded, bi: &BootInformation) {
    let mut it = bi.tags();
    loop {
        match guard(|| it.next()) {
            Ok(Some(t)) => ctx.ln("tag", tag_line(g, t)),
            Ok(None) => {
                ctx.ln("tags", "VAL END");
                break;
            }
            Err(()) => {
                ctx.ln("tags", "PANIC");
                break;
            }
        }
    }
}

pub fn modules(ctx: &mut Ctx, g: &Guarded, bi: &BootInformation) {
    let mut it = bi.module_tags();
    loop {
        match guard(|| it.next()) {
            Ok(Some(t)) => ctx.ln("module", view(g, t)),
            Ok(None) => {
                ctx.ln("modules", "VAL END");
                break;
            }
            Err(()) => {
                ctx.ln("modules", "PANIC");
                break;
            }
        }
    }
}

pub fn run(ctx: &mut Ctx, dom: &str, a: &[Arg]) {
    match dom {
        "mbinull" => {
            let r = guard(|| unsafe { BootInformation::load(core::ptr::null()) });
            ctx.ln(
                "load",
                match r {
                    Err(()) => "PANIC".to_string(),
                    Ok(Err(e)) => load_err(e),
                    Ok(Ok(_)) => "VAL ".to_string(),
                },
            );
        }
        "mbiwalk" => {
            let g = Guarded::new(a[0].b(), 0, ctx.place_end);
            if let Some(bi) = load(ctx, &g) {
                walk(ctx, &g, &bi);
                modules(ctx, &g, &bi);
            }
        }
        "iters" => {
            let g = Guarded::new(a[0].b(), 0, ctx.place_end);
            if let Some(bi) = load(ctx, &g) {
                // pool entries: Some(iterator) | None (a call on it panicked)
                let mut pool: Vec<Option<multiboot2::TagIter>> = Vec::new();
                for op in a[1].l() {
                    let op = op.l();
                    match op[0].n() {
                        0 => {
                            ctx.ln("new", format!("{}", pool.len()));
                            pool.push(Some(bi.tags()));
                        }
                        2 => {
                            let i = op[1].u();
                            if i < pool.len() {
                                ctx.ln("clone", format!("{}", pool.len()));
                                let c = pool[i].clone();
                                pool.push(c);
                            } else {
                                ctx.ln("clone", "skip");
                            }
                        }
                        1 => {
                            let i = op[1].u();
                            if i < pool.len() && pool[i].is_some() {
                                let it = pool[i].as_mut().unwrap();
                                match guard(|| it.next()) {
                                    Ok(Some(t)) => ctx.ln("next", format!("VAL some {}", tag_line(&g, t))),
                                    Ok(None) => ctx.ln("next", "VAL none"),
                                    Err(()) => {
                                        ctx.ln("next", "PANIC");
                                        pool[i] = None;
                                    }
                                }
                            } else {
                                ctx.ln("next", "skip");
                            }
                        }
                        _ => ctx.ln("op", "bad"),
                    }
                }
            }
        }
        _ => unreachable!(),
    }
}
