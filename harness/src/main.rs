//! Implementation side of the correspondence check: reads case lines, runs
//! the real crates on them, prints the canonical transcript.
//!
//! usage: mb2-harness <casefile> [--skip N] [--place start|end]
//! Output: for each case `#<index>` (flushed before the case runs, so that a
//! process-killing fault is attributed to it), then its transcript lines.
mod alloc_track;
mod args;
#[cfg(feature = "builder")]
mod dom_build;
#[cfg(not(feature = "builder"))]
mod dom_sized;
mod dom_cast;
mod dom_common;
mod dom_hdr;
mod dom_mbi;
mod mem;

use std::io::Write;
use std::panic::{catch_unwind, AssertUnwindSafe};

pub use args::{hexs, Arg};
pub use mem::Guarded;

#[global_allocator]
static ALLOCATOR: alloc_track::Tracker = alloc_track::Tracker;

pub struct Ctx {
    pub out: Vec<String>,
    pub place_end: bool,
}

impl Ctx {
    pub fn ln(&mut self, key: &str, v: impl AsRef<str>) {
        self.out.push(format!("{} {}", key, v.as_ref()));
    }
}

/// Runs `f`, mapping a Rust panic to `Err(())`.
pub fn guard<T>(f: impl FnOnce() -> T) -> Result<T, ()> {
    catch_unwind(AssertUnwindSafe(f)).map_err(|_| ())
}

/// "VAL <s>" or "PANIC"
pub fn res_str(r: Result<String, ()>) -> String {
    match r {
        Ok(s) => s,
        Err(()) => "PANIC".to_string(),
    }
}

fn run_case(ctx: &mut Ctx, dom: &str, a: &[Arg]) {
    match dom {
        "c14" | "align" | "conv" | "conveq" | "conveqc" | "elfty" | "fb" | "magic" | "pstr" => dom_common::run(ctx, dom, a),
        "mbi" | "mbiwalk" | "mbinull" | "mbimis" | "iters" | "elfname" | "mbihuge" | "bigwalk" | "bigelf" | "tageq" => dom_mbi::run(ctx, dom, a),
        "hdr" | "hdrwalk" | "hdrnull" | "hdrmis" | "hiters" | "hdrhuge" | "hbigwalk" | "findhuge" | "find" | "cksum" | "verify" => dom_hdr::run(ctx, dom, a),
        "cast" => dom_cast::run(ctx, a),
        "gettag" => dom_cast::run_gettag(ctx, a),
        // the constructors and builders exist with the crates' `builder` feature only
        #[cfg(feature = "builder")]
        "ctor" | "hctor" | "build" | "hbuild" | "newboxed" | "clone" | "cloneparsed" => dom_build::run(ctx, dom, a),
        #[cfg(not(feature = "builder"))]
        "ctor" | "hctor" | "build" | "hbuild" | "newboxed" | "clone" | "cloneparsed" => dom_sized::run(ctx, dom, a),
        _ => ctx.out.push("BADDOMAIN".into()),
    }
}

/// All cases run on a thread with a SMALL stack (a kernel's stack is a few pages, not the 8 MiB of a process's main
/// thread): a recursion whose depth grows with the input (tags, sections, descriptors) overflows it and is seen as
/// a crash of the case instead of going unnoticed.
const CASE_STACK: usize = 256 * 1024;

fn main() {
    let h = std::thread::Builder::new().stack_size(CASE_STACK).spawn(real_main).expect("harness: cannot spawn");
    if h.join().is_err() {
        std::process::exit(3);
    }
}

fn real_main() {
    std::panic::set_hook(Box::new(|_| {}));
    let argv: Vec<String> = std::env::args().collect();
    let file = &argv[1];
    let mut skip = 0usize;
    let mut place_end = true;
    let mut i = 2;
    while i < argv.len() {
        match argv[i].as_str() {
            "--skip" => {
                skip = argv[i + 1].parse().unwrap();
                i += 1;
            }
            "--place" => {
                place_end = argv[i + 1] == "end";
                i += 1;
            }
            _ => {}
        }
        i += 1;
    }
    let text = std::fs::read_to_string(file).expect("harness: cannot read case file");
    let stdout = std::io::stdout();
    let mut idx = 0usize;
    for line in text.lines() {
        // cases before `skip` (already executed before a restart) are counted, not parsed: a restart must be cheap even
        // with a case file of a gigabyte (the thorough tier of C08 has a few hundred expected crashes)
        if idx < skip {
            if !line.trim().is_empty() {
                idx += 1;
            }
            continue;
        }
        let Some((dom, a)) = args::parse_line(line) else { continue };
        if idx >= skip {
            {
                let mut o = stdout.lock();
                writeln!(o, "#{}", idx).unwrap();
                o.flush().unwrap();
            }
            // non-termination: 20 s of CPU time; a wall-clock backstop far beyond it (the machine may be loaded)
            mem::cpu_limit(20);
            unsafe { mem::alarm(900) };
            let mut ctx = Ctx { out: Vec::new(), place_end };
            let r = catch_unwind(AssertUnwindSafe(|| run_case(&mut ctx, &dom, &a)));
            mem::cpu_limit(0);
            unsafe { mem::alarm(0) };
            let mut o = stdout.lock();
            for l in &ctx.out {
                writeln!(o, "{}", l).unwrap();
            }
            if r.is_err() {
                // a panic that escaped the per-operation guards: harness bug or
                // a panic at an unexpected place; reported as its own line
                writeln!(o, "ESCAPED-PANIC").unwrap();
            }
            o.flush().unwrap();
        }
        idx += 1;
    }
}
