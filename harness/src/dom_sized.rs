//! The constructors of the sized tags of both crates in a build WITHOUT the `builder` feature (they are not
//! feature-gated in the crates): the `ctor` / `hctor` domains restricted to the ids of sized kinds. Line formats are
//! those of `dom_build.rs`; every other constructor id prints `SKIP`.
use crate::{dom_hdr, dom_mbi, guard, hexs, Arg, Ctx, Guarded};
use core::mem::{align_of, size_of, size_of_val};
use multiboot2::{
    ApmTag, BasicMemoryInfoTag, BootdevTag, EFIBootServicesNotExitedTag, EFIImageHandle32Tag, EFIImageHandle64Tag,
    EFISdt32Tag, EFISdt64Tag, EndTag, ImageLoadPhysAddrTag, RsdpV1Tag, RsdpV2Tag, VBEControlInfo, VBEInfoTag,
    VBEModeInfo,
};
use multiboot2_common::MaybeDynSized;
use multiboot2_header::{
    AddressHeaderTag, ConsoleHeaderTag, ConsoleHeaderTagFlags, EfiBootServiceHeaderTag, EndHeaderTag,
    EntryAddressHeaderTag, EntryEfi32HeaderTag, EntryEfi64HeaderTag, FramebufferHeaderTag, HeaderTagFlag,
    ModuleAlignHeaderTag, RelocatableHeaderTag, RelocatableHeaderTagPreference,
};

fn raw<T: ?Sized>(t: &T) -> *const u8 {
    t as *const T as *const u8
}
fn raw16(p: *const u8, off: usize) -> u16 {
    unsafe { u16::from_le_bytes([*p.add(off), *p.add(off + 1)]) }
}
fn raw32(p: *const u8, off: usize) -> u32 {
    unsafe { u32::from_le_bytes([*p.add(off), *p.add(off + 1), *p.add(off + 2), *p.add(off + 3)]) }
}
fn first_bytes<T: ?Sized>(t: &T, size: usize) -> String {
    let n = size.min(size_of_val(t));
    hexs(unsafe { core::slice::from_raw_parts(raw(t), n) })
}
fn s_img<T: ?Sized>(t: &T) -> String {
    let p = raw(t);
    let size = raw32(p, 4);
    format!("typ={} size={} sov={} bytes={}", raw32(p, 0), size, size_of_val(t), first_bytes(t, size as usize))
}
fn s_himg<T: ?Sized>(t: &T) -> String {
    let p = raw(t);
    let size = raw32(p, 4);
    format!(
        "typ={} flags={} size={} sov={} bytes={}",
        raw16(p, 0),
        raw16(p, 2),
        size,
        size_of_val(t),
        first_bytes(t, size as usize)
    )
}
fn own<T: ?Sized>(t: &T) -> Guarded {
    Guarded::foreign(raw(t), size_of_val(t))
}
fn as_bytes_line<T: MaybeDynSized + ?Sized>(ctx: &mut Ctx, t: &T) {
    ctx.ln(
        "as_bytes",
        match guard(|| t.as_bytes().len()) {
            Ok(n) => format!("VAL {}", n),
            Err(()) => "PANIC".to_string(),
        },
    );
}
fn head<T: MaybeDynSized + ?Sized>(ctx: &mut Ctx, t: &T) -> Guarded {
    ctx.ln("ctor", format!("VAL {}", s_img(t)));
    as_bytes_line(ctx, t);
    own(t)
}

fn run_ctor(ctx: &mut Ctx, a: &[Arg]) {
    let id = a[0].n();
    let a = &a[1..];
    let u8_ = |i: usize| a[i].n() as u8;
    let u16_ = |i: usize| a[i].n() as u16;
    let u32_ = |i: usize| a[i].n() as u32;
    let u64_ = |i: usize| a[i].n() as u64;
    macro_rules! sized {
        ($e:expr, $k:expr) => {
            match guard(|| $e) {
                Err(()) => ctx.ln("ctor", "PANIC"),
                Ok(t) => {
                    head(ctx, &t);
                    #[allow(clippy::redundant_closure_call)]
                    ($k)(ctx, &t);
                }
            }
        };
    }
    match id {
        0 => sized!(EndTag::default(), |_: &mut Ctx, _: &EndTag| {}),
        4 => sized!(BasicMemoryInfoTag::new(u32_(0), u32_(1)), |c: &mut Ctx, t: &BasicMemoryInfoTag| {
            dom_mbi::k_basic_meminfo(c, t)
        }),
        5 => sized!(BootdevTag::new(u32_(0), u32_(1), u32_(2)), |c: &mut Ctx, t: &BootdevTag| dom_mbi::k_bootdev(c, t)),
        7 => {
            assert!(a[4].b().len() == 512 && a[5].b().len() == 256 && a[5].b()[27] <= 7, "harness: vbe struct bytes");
            let ci: VBEControlInfo = if a[4].b().iter().all(|x| *x == 0) {
                VBEControlInfo::default()
            } else {
                unsafe { core::ptr::read_unaligned(a[4].b().as_ptr().cast()) }
            };
            let mi: VBEModeInfo = if a[5].b().iter().all(|x| *x == 0) {
                VBEModeInfo::default()
            } else {
                unsafe { core::ptr::read_unaligned(a[5].b().as_ptr().cast()) }
            };
            sized!(VBEInfoTag::new(u16_(0), u16_(1), u16_(2), u16_(3), ci, mi), |c: &mut Ctx, t: &VBEInfoTag| {
                dom_mbi::k_vbe(c, t)
            })
        }
        10 => sized!(
            ApmTag::new(u16_(0), u16_(1), u32_(2), u16_(3), u16_(4), u16_(5), u16_(6), u16_(7), u16_(8)),
            |c: &mut Ctx, t: &ApmTag| dom_mbi::k_apm(c, t)
        ),
        11 => sized!(EFISdt32Tag::new(u32_(0)), |c: &mut Ctx, t: &EFISdt32Tag| dom_mbi::k_efi_sdt32(c, t)),
        12 => sized!(EFISdt64Tag::new(u64_(0)), |c: &mut Ctx, t: &EFISdt64Tag| dom_mbi::k_efi_sdt64(c, t)),
        14 => {
            assert!(a[1].b().len() == 6, "harness: oem_id");
            sized!(
                RsdpV1Tag::new(u8_(0), <[u8; 6]>::try_from(a[1].b()).unwrap(), u8_(2), u32_(3)),
                |c: &mut Ctx, t: &RsdpV1Tag| dom_mbi::k_rsdp_v1(c, t)
            )
        }
        15 => {
            assert!(a[1].b().len() == 6, "harness: oem_id");
            sized!(
                RsdpV2Tag::new(u8_(0), <[u8; 6]>::try_from(a[1].b()).unwrap(), u8_(2), u32_(3), u32_(4), u64_(5), u8_(6)),
                |c: &mut Ctx, t: &RsdpV2Tag| dom_mbi::k_rsdp_v2(c, t)
            )
        }
        18 => sized!(EFIBootServicesNotExitedTag::new(), |_: &mut Ctx, _: &EFIBootServicesNotExitedTag| {}),
        19 => sized!(EFIImageHandle32Tag::new(u32_(0)), |c: &mut Ctx, t: &EFIImageHandle32Tag| dom_mbi::k_efi_ih32(c, t)),
        20 => sized!(EFIImageHandle64Tag::new(u64_(0)), |c: &mut Ctx, t: &EFIImageHandle64Tag| dom_mbi::k_efi_ih64(c, t)),
        21 => sized!(ImageLoadPhysAddrTag::new(u32_(0)), |c: &mut Ctx, t: &ImageLoadPhysAddrTag| {
            dom_mbi::k_load_base_addr(c, t)
        }),
        _ => ctx.out.push("SKIP".into()),
    }
}

#[repr(C)]
struct Wrap<T> {
    pad: u32,
    tag: T,
}

fn placed<T>(t: T, place: usize, f: impl FnOnce(&T)) {
    if place == 4 {
        let w = Wrap { pad: 0, tag: t };
        f(&w.tag);
    } else {
        let off = (place + align_of::<T>() - 1) / align_of::<T>() * align_of::<T>();
        let mut buf = vec![0u64; (off + size_of::<T>()) / 8 + 2];
        unsafe {
            let p = buf.as_mut_ptr().cast::<u8>().add(off).cast::<T>();
            p.write(t);
            f(&*p);
        }
    }
}

fn hflag(a: &Arg) -> HeaderTagFlag {
    match a.n() {
        0 => HeaderTagFlag::Required,
        1 => HeaderTagFlag::Optional,
        _ => panic!("harness: bad header tag flag"),
    }
}

fn run_hctor(ctx: &mut Ctx, a: &[Arg]) {
    let id = a[0].n();
    let place = a[1].u();
    let a = &a[2..];
    let u32_ = |i: usize| a[i].n() as u32;
    macro_rules! hsized {
        ($e:expr, $k:expr) => {
            match guard(|| $e) {
                Err(()) => ctx.ln("hctor", "PANIC"),
                Ok(t) => {
                    ctx.ln("hctor", format!("VAL {}", s_himg(&t)));
                    placed(t, place, |t| {
                        as_bytes_line(ctx, t);
                        #[allow(clippy::redundant_closure_call)]
                        ($k)(ctx, t);
                    });
                }
            }
        };
    }
    match id {
        0 => hsized!(if place == 8 { EndHeaderTag::default() } else { EndHeaderTag::new() }, |c: &mut Ctx, t: &EndHeaderTag| {
            dom_hdr::hk_end(c, t)
        }),
        2 => hsized!(AddressHeaderTag::new(hflag(&a[0]), u32_(1), u32_(2), u32_(3), u32_(4)), |c: &mut Ctx, t: &AddressHeaderTag| {
            dom_hdr::hk_address(c, t)
        }),
        3 => hsized!(EntryAddressHeaderTag::new(hflag(&a[0]), u32_(1)), |c: &mut Ctx, t: &EntryAddressHeaderTag| {
            dom_hdr::hk_entry_address(c, t)
        }),
        4 => {
            assert!(a[1].n() <= 1, "harness: bad console flags");
            hsized!(
                ConsoleHeaderTag::new(
                    hflag(&a[0]),
                    if a[1].n() == 0 { ConsoleHeaderTagFlags::ConsoleRequired } else { ConsoleHeaderTagFlags::EgaTextSupported }
                ),
                |c: &mut Ctx, t: &ConsoleHeaderTag| dom_hdr::hk_console_flags(c, t)
            )
        }
        5 => hsized!(FramebufferHeaderTag::new(hflag(&a[0]), u32_(1), u32_(2), u32_(3)), |c: &mut Ctx, t: &FramebufferHeaderTag| {
            dom_hdr::hk_framebuffer(c, t)
        }),
        6 => hsized!(ModuleAlignHeaderTag::new(hflag(&a[0])), |c: &mut Ctx, t: &ModuleAlignHeaderTag| {
            dom_hdr::hk_module_align(c, t)
        }),
        7 => hsized!(EfiBootServiceHeaderTag::new(hflag(&a[0])), |c: &mut Ctx, t: &EfiBootServiceHeaderTag| {
            dom_hdr::hk_efi_boot_services(c, t)
        }),
        8 => hsized!(EntryEfi32HeaderTag::new(hflag(&a[0]), u32_(1)), |c: &mut Ctx, t: &EntryEfi32HeaderTag| {
            dom_hdr::hk_entry_address_efi32(c, t)
        }),
        9 => hsized!(EntryEfi64HeaderTag::new(hflag(&a[0]), u32_(1)), |c: &mut Ctx, t: &EntryEfi64HeaderTag| {
            dom_hdr::hk_entry_address_efi64(c, t)
        }),
        10 => {
            assert!(a[4].n() <= 2, "harness: bad preference");
            hsized!(
                RelocatableHeaderTag::new(
                    hflag(&a[0]),
                    u32_(1),
                    u32_(2),
                    u32_(3),
                    match a[4].n() {
                        0 => RelocatableHeaderTagPreference::None,
                        1 => RelocatableHeaderTagPreference::Low,
                        _ => RelocatableHeaderTagPreference::High,
                    }
                ),
                |c: &mut Ctx, t: &RelocatableHeaderTag| dom_hdr::hk_relocatable(c, t)
            )
        }
        _ => ctx.out.push("SKIP".into()),
    }
}

pub fn run(ctx: &mut Ctx, dom: &str, a: &[Arg]) {
    match dom {
        "ctor" => run_ctor(ctx, a),
        "hctor" => run_hctor(ctx, a),
        _ => ctx.out.push("SKIP".into()),
    }
}
