//! Global allocator wrapper around `System` recording the (size, align) of the
//! allocations and deallocations that happen while `TRACKING` is on (domain
//! `newboxed`). The hooks do not allocate: events go into fixed static arrays.
use std::alloc::{GlobalAlloc, Layout, System};
use std::sync::atomic::{AtomicBool, AtomicUsize, Ordering};

pub const CAP: usize = 64;

static TRACKING: AtomicBool = AtomicBool::new(false);
static N_ALLOC: AtomicUsize = AtomicUsize::new(0);
static N_DEALLOC: AtomicUsize = AtomicUsize::new(0);
static ALLOCS: [[AtomicUsize; 2]; CAP] = [const { [AtomicUsize::new(0), AtomicUsize::new(0)] }; CAP];
static DEALLOCS: [[AtomicUsize; 2]; CAP] = [const { [AtomicUsize::new(0), AtomicUsize::new(0)] }; CAP];

pub struct Tracker;

fn record(n: &AtomicUsize, tab: &[[AtomicUsize; 2]; CAP], size: usize, align: usize) {
    if TRACKING.load(Ordering::Relaxed) {
        let i = n.fetch_add(1, Ordering::Relaxed);
        if i < CAP {
            tab[i][0].store(size, Ordering::Relaxed);
            tab[i][1].store(align, Ordering::Relaxed);
        }
    }
}

unsafe impl GlobalAlloc for Tracker {
    unsafe fn alloc(&self, l: Layout) -> *mut u8 {
        record(&N_ALLOC, &ALLOCS, l.size(), l.align());
        System.alloc(l)
    }
    unsafe fn dealloc(&self, p: *mut u8, l: Layout) {
        record(&N_DEALLOC, &DEALLOCS, l.size(), l.align());
        System.dealloc(p, l)
    }
    unsafe fn alloc_zeroed(&self, l: Layout) -> *mut u8 {
        record(&N_ALLOC, &ALLOCS, l.size(), l.align());
        System.alloc_zeroed(l)
    }
    unsafe fn realloc(&self, p: *mut u8, l: Layout, new_size: usize) -> *mut u8 {
        // a reallocation: the old block goes, a new one comes
        record(&N_DEALLOC, &DEALLOCS, l.size(), l.align());
        record(&N_ALLOC, &ALLOCS, new_size, l.align());
        System.realloc(p, l, new_size)
    }
}

/// Forgets the recorded events and switches the recording on.
pub fn start() {
    N_ALLOC.store(0, Ordering::Relaxed);
    N_DEALLOC.store(0, Ordering::Relaxed);
    TRACKING.store(true, Ordering::SeqCst);
}

/// Switches the recording off; the events recorded since `start`:
/// (allocations, deallocations), each `(size, align)`.
pub fn stop() -> (Vec<(usize, usize)>, Vec<(usize, usize)>) {
    TRACKING.store(false, Ordering::SeqCst);
    let get = |n: &AtomicUsize, tab: &[[AtomicUsize; 2]; CAP]| {
        (0..n.load(Ordering::Relaxed).min(CAP))
            .map(|i| (tab[i][0].load(Ordering::Relaxed), tab[i][1].load(Ordering::Relaxed)))
            .collect::<Vec<_>>()
    };
    (get(&N_ALLOC, &ALLOCS), get(&N_DEALLOC, &DEALLOCS))
}
