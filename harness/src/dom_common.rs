//! Domains c14, align, conv, conveq, elfty, fb, magic.
use crate::{guard, hexs, res_str, Arg, Ctx, Guarded};
use multiboot2::{
    ElfSectionsTag, FramebufferTag, MemoryAreaType, MemoryAreaTypeId, TagHeader, TagType, TagTypeId,
};
use multiboot2_common::test_utils::DummyTestHeader;
use multiboot2_common::{DynSizedStructure, Header, MemoryError};
use multiboot2_header::{HeaderTagHeader, Multiboot2BasicHeader};

/// error kinds, variant names of TagType / MemoryAreaType / ElfSectionType are rendered by explicit matches, never
/// through Debug or Display (their texts are no part of any property)
pub fn mem_err(e: MemoryError) -> String {
    format!(
        "ERR {}",
        match e {
            MemoryError::Null => "Null",
            MemoryError::WrongAlignment => "WrongAlignment",
            MemoryError::ShorterThanHeader => "ShorterThanHeader",
            MemoryError::MissingPadding => "MissingPadding",
            MemoryError::InvalidReportedTotalSize => "InvalidReportedTotalSize",
        }
    )
}

pub fn tt_name(t: TagType) -> String {
    match t {
        TagType::End => "End".into(),
        TagType::Cmdline => "Cmdline".into(),
        TagType::BootLoaderName => "BootLoaderName".into(),
        TagType::Module => "Module".into(),
        TagType::BasicMeminfo => "BasicMeminfo".into(),
        TagType::Bootdev => "Bootdev".into(),
        TagType::Mmap => "Mmap".into(),
        TagType::Vbe => "Vbe".into(),
        TagType::Framebuffer => "Framebuffer".into(),
        TagType::ElfSections => "ElfSections".into(),
        TagType::Apm => "Apm".into(),
        TagType::Efi32 => "Efi32".into(),
        TagType::Efi64 => "Efi64".into(),
        TagType::Smbios => "Smbios".into(),
        TagType::AcpiV1 => "AcpiV1".into(),
        TagType::AcpiV2 => "AcpiV2".into(),
        TagType::Network => "Network".into(),
        TagType::EfiMmap => "EfiMmap".into(),
        TagType::EfiBs => "EfiBs".into(),
        TagType::Efi32Ih => "Efi32Ih".into(),
        TagType::Efi64Ih => "Efi64Ih".into(),
        TagType::LoadBaseAddr => "LoadBaseAddr".into(),
        TagType::Custom(c) => format!("Custom({})", c),
    }
}

pub fn area_name(t: MemoryAreaType) -> String {
    match t {
        MemoryAreaType::Available => "Available".into(),
        MemoryAreaType::Reserved => "Reserved".into(),
        MemoryAreaType::AcpiAvailable => "AcpiAvailable".into(),
        MemoryAreaType::ReservedHibernate => "ReservedHibernate".into(),
        MemoryAreaType::Defective => "Defective".into(),
        MemoryAreaType::Custom(c) => format!("Custom({})", c),
    }
}

pub fn elf_type_name(t: multiboot2::ElfSectionType) -> &'static str {
    use multiboot2::ElfSectionType::*;
    match t {
        Unused => "Unused",
        ProgramSection => "ProgramSection",
        LinkerSymbolTable => "LinkerSymbolTable",
        StringTable => "StringTable",
        RelaRelocation => "RelaRelocation",
        SymbolHashTable => "SymbolHashTable",
        DynamicLinkingTable => "DynamicLinkingTable",
        Note => "Note",
        Uninitialized => "Uninitialized",
        RelRelocation => "RelRelocation",
        Reserved => "Reserved",
        DynamicLoaderSymbolTable => "DynamicLoaderSymbolTable",
        EnvironmentSpecific => "EnvironmentSpecific",
        ProcessorSpecific => "ProcessorSpecific",
    }
}

/// the last integer (decimal or 0x-hex) in a text: the byte an UnknownFramebufferType error carries is reachable
/// through Display/Debug only
pub fn last_number(s: &str) -> String {
    let b = s.as_bytes();
    let mut end = b.len();
    while end > 0 && !b[end - 1].is_ascii_hexdigit() {
        end -= 1;
    }
    let mut start = end;
    while start > 0 && b[start - 1].is_ascii_hexdigit() {
        start -= 1;
    }
    let tok = &s[start..end];
    let hex = start >= 2 && (&s[start - 2..start] == "0x" || &s[start - 2..start] == "0X");
    let tok2 = if !hex && tok.starts_with("0x") { &tok[2..] } else { tok };
    match if hex || tok.chars().any(|c| c.is_ascii_alphabetic()) { u64::from_str_radix(tok2, 16) } else { tok2.parse::<u64>() } {
        Ok(v) => format!("{}", v),
        Err(_) => "?".to_string(),
    }
}

/// A user-defined `Header` whose size (12) is no multiple of 8 and whose alignment is 4 (model: HUser12): the generic
/// public API of multiboot2-common admits it.
#[derive(Clone, Copy, Debug, PartialEq, Eq)]
#[repr(C)]
pub struct U12Header {
    pub typ: u32,
    pub size: u32,
    pub extra: u32,
}

impl Header for U12Header {
    fn payload_len(&self) -> usize {
        assert!(self.size as usize >= core::mem::size_of::<Self>());
        self.size as usize - core::mem::size_of::<Self>()
    }

    fn set_size(&mut self, total_size: usize) {
        self.size = total_size as u32;
    }
}

fn c14<H: Header>(ctx: &mut Ctx, a: usize, bytes: &[u8]) {
    let g = Guarded::new(bytes, a, ctx.place_end);
    let r = guard(|| match DynSizedStructure::<H>::ref_from_slice(g.slice()) {
        Ok(d) => {
            let hs = core::mem::size_of::<H>();
            let off = g.off(d as *const _);
            let plen = d.payload().len();
            let sov = core::mem::size_of_val(d);
            let hdr = unsafe { core::slice::from_raw_parts(d as *const _ as *const u8, hs) };
            let payload = if plen <= (1 << 20) { hexs(d.payload()) } else { "TOO-LARGE".into() };
            format!("VAL off={} plen={} sov={} hdr={} payload={}", off, plen, sov, hexs(hdr), payload)
        }
        Err(e) => mem_err(e),
    });
    ctx.ln("ref_from_slice", res_str(r));
    // the same in two public steps: BytesRef::try_from, then ref_from_bytes
    let r2 = guard(|| match multiboot2_common::BytesRef::<H>::try_from(g.slice()) {
        Ok(b) => match DynSizedStructure::<H>::ref_from_bytes(b) {
            Ok(d) => {
                let hs = core::mem::size_of::<H>();
                let off = g.off(d as *const _);
                let plen = d.payload().len();
                let sov = core::mem::size_of_val(d);
                let hdr = unsafe { core::slice::from_raw_parts(d as *const _ as *const u8, hs) };
                let payload = if plen <= (1 << 20) { hexs(d.payload()) } else { "TOO-LARGE".into() };
                format!("VAL off={} plen={} sov={} hdr={} payload={}", off, plen, sov, hexs(hdr), payload)
            }
            Err(e) => mem_err(e),
        },
        Err(e) => mem_err(e),
    });
    ctx.ln("ref_from_bytes", res_str(r2));
}

pub fn run(ctx: &mut Ctx, dom: &str, a: &[Arg]) {
    match dom {
        "c14" => {
            let (h, al, bytes) = (a[0].u(), a[1].u(), a[2].b());
            match h {
                0 => c14::<DummyTestHeader>(ctx, al, bytes),
                1 => c14::<TagHeader>(ctx, al, bytes),
                2 => c14::<HeaderTagHeader>(ctx, al, bytes),
                3 => c14::<multiboot2::BootInformationHeader>(ctx, al, bytes),
                5 => c14::<U12Header>(ctx, al, bytes),
                _ => c14::<Multiboot2BasicHeader>(ctx, al, bytes),
            }
        }
        "align" => {
            let n = a[0].n() as usize;
            let r = guard(|| format!("VAL {}", multiboot2_common::increase_to_alignment(n)));
            ctx.ln("increase_to_alignment", res_str(r));
        }
        "conv" => {
            let x = a[0].n() as u32;
            let tt = TagType::from(x);
            ctx.ln("tt", tt_name(tt));
            ctx.ln("tt_back", format!("{}", u32::from(tt)));
            ctx.ln("tt_val", format!("{}", tt.val()));
            ctx.ln("id_new", format!("{}", u32::from(TagTypeId::new(x))));
            ctx.ln("id_dbg", if guard(|| format!("{:?}", TagTypeId::new(x))).is_ok() { "VAL" } else { "PANIC" });
            ctx.ln("id_back", format!("{}", u32::from(TagTypeId::from(x))));
            ctx.ln("tt_via_id", tt_name(TagType::from(TagTypeId::from(x))));
            ctx.ln("id_via_tt", format!("{}", u32::from(TagTypeId::from(TagType::from(x)))));
            let at = MemoryAreaType::from(MemoryAreaTypeId::from(x));
            ctx.ln("area", area_name(at));
            ctx.ln("area_back", format!("{}", u32::from(MemoryAreaTypeId::from(at))));
        }
        "conveq" => {
            let (x, y) = (a[0].n() as u32, a[1].n() as u32);
            let (tx, ty) = (TagType::from(x), TagType::from(y));
            let (ix, iy) = (TagTypeId::from(x), TagTypeId::from(y));
            let (ax, ay) = (MemoryAreaTypeId::from(x), MemoryAreaTypeId::from(y));
            let (atx, aty) = (MemoryAreaType::from(ax), MemoryAreaType::from(ay));
            ctx.ln(
                "eq",
                format!(
                    "ty_ty={} id_id={} ty_id={} id_ty={} id_u32={} u32_id={} ty_u32={} u32_ty={} aid_aty={} aty_aid={}",
                    tx == ty,
                    ix == iy,
                    tx == iy,
                    ix == ty,
                    ix == y,
                    x == iy,
                    tx == y,
                    x == ty,
                    ax == aty,
                    atx == ay
                ),
            );
            ctx.ln(
                "ne",
                format!(
                    "ty_ty={} id_id={} ty_id={} id_ty={} id_u32={} u32_id={} ty_u32={} u32_ty={} aid_aty={} aty_aid={}",
                    tx != ty,
                    ix != iy,
                    tx != iy,
                    ix != ty,
                    ix != y,
                    x != iy,
                    tx != y,
                    x != ty,
                    ax != aty,
                    atx != ay
                ),
            );
        }
        "conveqc" => {
            // the symbolic value is built directly as Custom(x), canonical or not
            let (x, y) = (a[0].n() as u32, a[1].n() as u32);
            let tx = TagType::Custom(x);
            let iy = TagTypeId::from(y);
            ctx.ln(
                "eqc",
                format!(
                    "ty_id={} id_ty={} ty_u32={} u32_ty={} val={} id={}",
                    tx == iy,
                    iy == tx,
                    tx == y,
                    y == tx,
                    tx.val(),
                    u32::from(TagTypeId::from(tx))
                ),
            );
        }
        "elfty" => {
            let raw = a[0].n() as u32;
            let mut b = Vec::new();
            b.extend_from_slice(&9u32.to_le_bytes());
            b.extend_from_slice(&60u32.to_le_bytes());
            b.extend_from_slice(&1u32.to_le_bytes());
            b.extend_from_slice(&40u32.to_le_bytes());
            b.extend_from_slice(&0u32.to_le_bytes());
            let mut e = [0u8; 40];
            e[4..8].copy_from_slice(&raw.to_le_bytes());
            b.extend_from_slice(&e);
            b.extend_from_slice(&[0u8; 4]);
            let g = Guarded::new(&b, 0, ctx.place_end);
            let r = guard(|| {
                let d = DynSizedStructure::<TagHeader>::ref_from_slice(g.slice()).unwrap();
                let t = d.cast::<ElfSectionsTag>();
                match t.sections().next() {
                    Some(s) => (elf_type_name(s.section_type()).to_string(), s.section_type_raw()),
                    None => ("Unused".to_string(), raw),
                }
            });
            match r {
                Ok((ty, rawv)) => {
                    ctx.ln("section_type", ty);
                    ctx.ln("section_type_raw", format!("{}", rawv));
                }
                Err(()) => {
                    ctx.ln("section_type", "PANIC");
                    ctx.ln("section_type_raw", "PANIC");
                }
            }
        }
        "fb" => {
            let byte = a[0].n() as u8;
            let mut b = Vec::new();
            b.extend_from_slice(&8u32.to_le_bytes());
            b.extend_from_slice(&40u32.to_le_bytes());
            b.extend_from_slice(&[0u8; 21]);
            b.push(byte);
            b.extend_from_slice(&[0u8; 10]);
            let g = Guarded::new(&b, 0, ctx.place_end);
            let r = guard(|| {
                let d = DynSizedStructure::<TagHeader>::ref_from_slice(g.slice()).unwrap();
                let t = d.cast::<FramebufferTag>();
                match t.buffer_type() {
                    Ok(multiboot2::FramebufferType::Indexed { .. }) => "VAL Indexed".to_string(),
                    Ok(multiboot2::FramebufferType::RGB { .. }) => "VAL RGB".to_string(),
                    Ok(multiboot2::FramebufferType::Text) => "VAL Text".to_string(),
                    Err(e) => {
                        format!("ERR UnknownFb({})", last_number(&format!("{}", e)))
                    }
                }
            });
            ctx.ln("fb_type", res_str(r));
        }
        "pstr" => {
            // the public parse_slice_as_string on an arbitrary byte slice, flush against a guard page
            let g = Guarded::new(a[0].b(), 0, ctx.place_end);
            let r = guard(|| multiboot2::parse_slice_as_string(g.slice()));
            ctx.ln("pstr", crate::dom_mbi::s_str(&g, r));
        }
        "magic" => {
            ctx.ln(
                "magic",
                format!(
                    "mbi={} hdr={} header_tag_types={}",
                    multiboot2::MAGIC,
                    multiboot2_header::MAGIC,
                    multiboot2_header::HeaderTagType::count()
                ),
            );
        }
        _ => unreachable!(),
    }
}
