//! Header-crate domains: hdrwalk, hdrnull, find, cksum.
use crate::dom_mbi::view;
use crate::{guard, hexs, Arg, Ctx, Guarded};
use multiboot2_common::{DynSizedStructure, MaybeDynSized};
use multiboot2_header::{HeaderTagHeader, HeaderTagISA, LoadError, Multiboot2BasicHeader, Multiboot2Header};

pub type HGeneric = DynSizedStructure<HeaderTagHeader>;

pub fn load_err(e: LoadError) -> String {
    match e {
        LoadError::Memory(m) => format!("ERR {:?}", m),
        LoadError::ChecksumMismatch => "ERR ChecksumMismatch".to_string(),
        LoadError::MagicNotFound => "ERR MagicNotFound".to_string(),
    }
}

fn raw16(p: *const u8, off: usize) -> u16 {
    unsafe { u16::from_le_bytes([*p.add(off), *p.add(off + 1)]) }
}
fn raw32(p: *const u8, off: usize) -> u32 {
    unsafe { u32::from_le_bytes([*p.add(off), *p.add(off + 1), *p.add(off + 2), *p.add(off + 3)]) }
}

pub fn htag_line(g: &Guarded, t: &HGeneric) -> String {
    // typ/flags are read as raw bytes (they are enum-typed in the crate)
    let p = t as *const HGeneric as *const u8;
    format!(
        "{} typ={} flags={} size={} plen={} payload={}",
        view(g, t),
        raw16(p, 0),
        raw16(p, 2),
        raw32(p, 4),
        t.payload().len(),
        hexs(t.payload())
    )
}

pub fn load<'a>(ctx: &mut Ctx, g: &'a Guarded) -> Option<Multiboot2Header<'a>> {
    let r = guard(|| unsafe { Multiboot2Header::load(g.ptr.cast::<Multiboot2BasicHeader>()) });
    match r {
        Err(()) => {
            ctx.ln("load", "PANIC");
            None
        }
        Ok(Err(e)) => {
            ctx.ln("load", load_err(e));
            None
        }
        Ok(Ok(h)) => {
            let verify = match guard(|| h.verify_checksum()) {
                Ok(b) => format!("VAL {}", b),
                Err(()) => "PANIC".to_string(),
            };
            ctx.ln(
                "load",
                format!(
                    "VAL magic={} arch={} length={} checksum={} verify={}",
                    h.header_magic(),
                    raw32(g.ptr, 4),
                    h.length(),
                    h.checksum(),
                    verify
                ),
            );
            Some(h)
        }
    }
}

pub fn walk(ctx: &mut Ctx, g: &Guarded, h: &Multiboot2Header) {
    let mut it = h.iter();
    loop {
        match guard(|| it.next()) {
            Ok(Some(t)) => ctx.ln("tag", htag_line(g, t)),
            Ok(None) => {
                ctx.ln("tags", "VAL END");
                break;
            }
            Err(()) => {
                ctx.ln("tags", "PANIC");
                break;
            }
        }
    }
}

pub fn run(ctx: &mut Ctx, dom: &str, a: &[Arg]) {
    match dom {
        "hdrnull" => {
            let r = guard(|| unsafe { Multiboot2Header::load(core::ptr::null()) });
            ctx.ln(
                "load",
                match r {
                    Err(()) => "PANIC".to_string(),
                    Ok(Err(e)) => load_err(e),
                    Ok(Ok(_)) => "VAL ".to_string(),
                },
            );
        }
        "hdrwalk" => {
            let g = Guarded::new(a[0].b(), 0, ctx.place_end);
            if let Some(h) = load(ctx, &g) {
                walk(ctx, &g, &h);
            }
        }
        "find" => {
            let g = Guarded::new(a[1].b(), a[0].u(), ctx.place_end);
            let r = guard(|| Multiboot2Header::find_header(g.slice()));
            ctx.ln(
                "find_header",
                match r {
                    Err(()) => "PANIC".to_string(),
                    Ok(Err(e)) => load_err(e),
                    Ok(Ok(None)) => "VAL none".to_string(),
                    Ok(Ok(Some((s, idx)))) => format!("VAL some @{}+{} idx={}", g.off(s.as_ptr()), s.len(), idx),
                },
            );
        }
        "cksum" => {
            let arch = if a[1].n() == 0 { HeaderTagISA::I386 } else { HeaderTagISA::MIPS32 };
            let r = guard(|| Multiboot2Header::calc_checksum(a[0].n() as u32, arch, a[2].n() as u32));
            ctx.ln(
                "calc_checksum",
                match r {
                    Ok(c) => format!("{}", c),
                    Err(()) => "PANIC".to_string(),
                },
            );
        }
        _ => unreachable!(),
    }
}
