//! Header-crate domains: hdrwalk, hdrnull, find, cksum.
use crate::dom_mbi::view;
use crate::{guard, hexs, Arg, Ctx, Guarded};
use multiboot2_common::{DynSizedStructure, MaybeDynSized};
use multiboot2_header::{
    AddressHeaderTag, ConsoleHeaderTag, EfiBootServiceHeaderTag, EndHeaderTag, EntryAddressHeaderTag,
    EntryEfi32HeaderTag, EntryEfi64HeaderTag, FramebufferHeaderTag, HeaderTagHeader, HeaderTagISA,
    InformationRequestHeaderTag, LoadError, ModuleAlignHeaderTag, Multiboot2BasicHeader, Multiboot2Header,
    RelocatableHeaderTag,
};

pub type HGeneric = DynSizedStructure<HeaderTagHeader>;

pub fn load_err(e: LoadError) -> String {
    match e {
        LoadError::Memory(m) => crate::dom_common::mem_err(m),
        LoadError::ChecksumMismatch => "ERR ChecksumMismatch".to_string(),
        LoadError::MagicNotFound => "ERR MagicNotFound".to_string(),
    }
}

fn raw16(p: *const u8, off: usize) -> u16 {
    unsafe { u16::from_le_bytes([*p.add(off), *p.add(off + 1)]) }
}
fn raw32(p: *const u8, off: usize) -> u32 {
    unsafe { u32::from_le_bytes([*p.add(off), *p.add(off + 1), *p.add(off + 2), *p.add(off + 3)]) }
}

pub fn htag_line(g: &Guarded, t: &HGeneric) -> String {
    // typ/flags are read as raw bytes (they are enum-typed in the crate)
    let p = t as *const HGeneric as *const u8;
    format!(
        "{} typ={} flags={} size={} plen={} payload={}",
        view(g, t),
        raw16(p, 0),
        raw16(p, 2),
        raw32(p, 4),
        t.payload().len(),
        hexs(t.payload())
    )
}

pub fn load<'a>(ctx: &mut Ctx, g: &'a Guarded) -> Option<Multiboot2Header<'a>> {
    let r = guard(|| unsafe { Multiboot2Header::load(g.ptr.cast::<Multiboot2BasicHeader>()) });
    match r {
        Err(()) => {
            ctx.ln("load", "PANIC");
            None
        }
        Ok(Err(e)) => {
            ctx.ln("load", load_err(e));
            None
        }
        Ok(Ok(h)) => {
            let verify = match guard(|| h.verify_checksum()) {
                Ok(b) => format!("VAL {}", b),
                Err(()) => "PANIC".to_string(),
            };
            ctx.ln(
                "load",
                format!(
                    "VAL magic={} arch={} length={} checksum={} verify={} dbg={}",
                    h.header_magic(),
                    // read through the accessor when the stored word is a declared architecture
                    match raw32(g.ptr, 4) {
                        0 | 4 => h.arch() as u32,
                        x => x,
                    },
                    h.length(),
                    h.checksum(),
                    verify,
                    dbg_of(matches!(raw32(g.ptr, 4), 0 | 4), &h)
                ),
            );
            Some(h)
        }
    }
}

pub fn walk(ctx: &mut Ctx, g: &Guarded, h: &Multiboot2Header) {
    let mut it = h.iter();
    let mut n = 0usize;
    loop {
        match guard(|| it.next()) {
            Ok(Some(t)) => {
                n += 1;
                ctx.ln("tag", htag_line(g, t))
            }
            Ok(None) => {
                ctx.ln("tags", "VAL END");
                break;
            }
            Err(()) => {
                ctx.ln("tags", "PANIC");
                break;
            }
        }
    }
    // provided Iterator methods on fresh iterators
    for k in [0, 1, n.saturating_sub(1), n, n + 1, n + 2, n + 3, n + 7] {
        let v = match guard(|| h.iter().nth(k)) {
            Ok(Some(t)) => format!("VAL {}", view(g, t)),
            Ok(None) => "VAL none".to_string(),
            Err(()) => "PANIC".to_string(),
        };
        ctx.ln("tags_nth", format!("{} {}", k, v));
    }
    ctx.ln(
        "tags_count",
        match guard(|| h.iter().count()) {
            Ok(c) => format!("VAL {}", c),
            Err(()) => "PANIC".to_string(),
        },
    );
    ctx.ln(
        "tags_last",
        match guard(|| h.iter().last()) {
            Ok(Some(t)) => format!("VAL {}", view(g, t)),
            Ok(None) => "VAL none".to_string(),
            Err(()) => "PANIC".to_string(),
        },
    );
    ctx.ln(
        "tags_last_exhausted",
        match guard(|| {
            let mut it = h.iter();
            while it.next().is_some() {}
            (it.clone().last().is_none(), it.last().is_none())
        }) {
            Ok((true, true)) => "VAL none".to_string(),
            Ok(_) => "VAL some".to_string(),
            Err(()) => "PANIC".to_string(),
        },
    );
    let r = guard(|| {
        let mut it = h.iter();
        let first = it.next().is_some();
        (first, it.clone().count())
    });
    ctx.ln(
        "tags_clone",
        match r {
            Ok((first, rest)) => format!("VAL first={} rest={}", first, rest),
            Err(()) => "PANIC".to_string(),
        },
    );
}

/// `typ= flags= size=` of a typed header tag, read as raw bytes; enum-typed
/// fields are printed `VAL n` when the stored value is a declared discriminant
/// and `UB` otherwise (the field is then NOT read through its Rust type).
/// When the stored value is a declared discriminant the field IS read through the tag's accessor.
macro_rules! common {
    ($t:expr) => {{
        let p = raw($t);
        let (rt, rf) = (raw16(p, 0) as u32, raw16(p, 2) as u32);
        let typ = if rt <= 10 { format!("VAL {}", $t.typ() as u32) } else { "UB".to_string() };
        let flags = if rf <= 1 { format!("VAL {}", $t.flags() as u32) } else { "UB".to_string() };
        format!("typ={} flags={} size={}", typ, flags, $t.size())
    }};
}

/// ` dbg=VAL|PANIC|UB`: `{:?}` of a header-crate object, formatted only when every enum-typed field holds a declared value
fn dbg_of<T: core::fmt::Debug + ?Sized>(ok: bool, t: &T) -> &'static str {
    if !ok {
        "UB"
    } else if guard(|| format!("{:?}", t)).is_ok() {
        "VAL"
    } else {
        "PANIC"
    }
}
fn enums_ok(p: *const u8) -> bool {
    raw16(p, 0) <= 10 && raw16(p, 2) <= 1
}

/// an enum-typed field: read through `acc` when the stored value `v` is a declared discriminant, `UB` otherwise
fn en_acc(v: u32, hi: u32, acc: impl FnOnce() -> u32) -> String {
    if v <= hi {
        format!("VAL {}", acc())
    } else {
        "UB".to_string()
    }
}

fn get_line<T: multiboot2_common::MaybeDynSized + ?Sized>(
    ctx: &mut Ctx,
    g: &Guarded,
    name: &str,
    r: Result<Option<&T>, ()>,
) -> Option<*const u8> {
    match r {
        Err(()) => {
            ctx.ln("get", format!("{} PANIC", name));
            None
        }
        Ok(None) => {
            ctx.ln("get", format!("{} none", name));
            None
        }
        Ok(Some(t)) => {
            ctx.ln("get", format!("{} some {} {}", name, view(g, t), crate::dom_mbi::dyn_views(g, t)));
            Some(t as *const T as *const u8)
        }
    }
}

fn raw<T: ?Sized>(t: &T) -> *const u8 {
    t as *const T as *const u8
}

// ---- one line per header tag kind (the accessors of a typed tag) -----------------

pub fn hk_end(ctx: &mut Ctx, t: &EndHeaderTag) {
    let body = common!(t);
    let d = dbg_of(enums_ok(raw(t)), t);
    ctx.ln("end_tag", format!("{} dbg={}", body, d));
}

pub fn hk_information_request(ctx: &mut Ctx, g: &Guarded, t: &InformationRequestHeaderTag) {
    let reqs = t.requests();
    let list: Vec<String> = reqs.iter().map(|r| format!("{}", u32::from(*r))).collect();
    let body = format!(
            "{} requests=@{}+{} [{}]",
            common!(t),
            g.off(reqs.as_ptr()),
            core::mem::size_of_val(reqs),
            list.join(",")
        );
    let d = dbg_of(enums_ok(raw(t)), t);
    ctx.ln("information_request_tag", format!("{} dbg={}", body, d));
}

pub fn hk_address(ctx: &mut Ctx, t: &AddressHeaderTag) {
    let body = format!(
            "{} header_addr={} load_addr={} load_end_addr={} bss_end_addr={}",
            common!(t),
            t.header_addr(),
            t.load_addr(),
            t.load_end_addr(),
            t.bss_end_addr()
        );
    let d = dbg_of(enums_ok(raw(t)), t);
    ctx.ln("address_tag", format!("{} dbg={}", body, d));
}

pub fn hk_entry_address(ctx: &mut Ctx, t: &EntryAddressHeaderTag) {
    let body = format!("{} entry_addr={}", common!(t), t.entry_addr());
    let d = dbg_of(enums_ok(raw(t)), t);
    ctx.ln("entry_address_tag", format!("{} dbg={}", body, d));
}

pub fn hk_entry_address_efi32(ctx: &mut Ctx, t: &EntryEfi32HeaderTag) {
    let body = format!("{} entry_addr={}", common!(t), t.entry_addr());
    let d = dbg_of(enums_ok(raw(t)), t);
    ctx.ln("entry_address_efi32_tag", format!("{} dbg={}", body, d));
}

pub fn hk_entry_address_efi64(ctx: &mut Ctx, t: &EntryEfi64HeaderTag) {
    let body = format!("{} entry_addr={}", common!(t), t.entry_addr());
    let d = dbg_of(enums_ok(raw(t)), t);
    ctx.ln("entry_address_efi64_tag", format!("{} dbg={}", body, d));
}

pub fn hk_console_flags(ctx: &mut Ctx, t: &ConsoleHeaderTag) {
    let p = raw(t);
    let body = format!("{} console_flags={}", common!(t), en_acc(raw32(p, 8), 1, || t.console_flags() as u32));
    let d = dbg_of(enums_ok(raw(t)) && raw32(raw(t), 8) <= 1, t);
    ctx.ln("console_flags_tag", format!("{} dbg={}", body, d));
}

pub fn hk_framebuffer(ctx: &mut Ctx, t: &FramebufferHeaderTag) {
    let body = format!("{} width={} height={} depth={}", common!(t), t.width(), t.height(), t.depth());
    let d = dbg_of(enums_ok(raw(t)), t);
    ctx.ln("framebuffer_tag", format!("{} dbg={}", body, d));
}

pub fn hk_module_align(ctx: &mut Ctx, t: &ModuleAlignHeaderTag) {
    let body = common!(t);
    let d = dbg_of(enums_ok(raw(t)), t);
    ctx.ln("module_align_tag", format!("{} dbg={}", body, d));
}

pub fn hk_efi_boot_services(ctx: &mut Ctx, t: &EfiBootServiceHeaderTag) {
    let body = common!(t);
    let d = dbg_of(enums_ok(raw(t)), t);
    ctx.ln("efi_boot_services_tag", format!("{} dbg={}", body, d));
}

pub fn hk_relocatable(ctx: &mut Ctx, t: &RelocatableHeaderTag) {
    let p = raw(t);
    let body = format!(
            "{} min_addr={} max_addr={} align={} preference={}",
            common!(t),
            t.min_addr(),
            t.max_addr(),
            t.align(),
            en_acc(raw32(p, 20), 2, || t.preference() as u32)
        );
    let d = dbg_of(enums_ok(raw(t)) && raw32(raw(t), 20) <= 2, t);
    ctx.ln("relocatable_tag", format!("{} dbg={}", body, d));
}

pub fn dump_getters(ctx: &mut Ctx, g: &Guarded, h: &Multiboot2Header) {
    if get_line(ctx, g, "information_request", guard(|| h.information_request_tag())).is_some() {
        hk_information_request(ctx, g, h.information_request_tag().unwrap());
    }
    if get_line(ctx, g, "address", guard(|| h.address_tag())).is_some() {
        hk_address(ctx, h.address_tag().unwrap());
    }
    if get_line(ctx, g, "entry_address", guard(|| h.entry_address_tag())).is_some() {
        hk_entry_address(ctx, h.entry_address_tag().unwrap());
    }
    if get_line(ctx, g, "entry_address_efi32", guard(|| h.entry_address_efi32_tag())).is_some() {
        hk_entry_address_efi32(ctx, h.entry_address_efi32_tag().unwrap());
    }
    if get_line(ctx, g, "entry_address_efi64", guard(|| h.entry_address_efi64_tag())).is_some() {
        hk_entry_address_efi64(ctx, h.entry_address_efi64_tag().unwrap());
    }
    if get_line(ctx, g, "console_flags", guard(|| h.console_flags_tag())).is_some() {
        hk_console_flags(ctx, h.console_flags_tag().unwrap());
    }
    if get_line(ctx, g, "framebuffer", guard(|| h.framebuffer_tag())).is_some() {
        hk_framebuffer(ctx, h.framebuffer_tag().unwrap());
    }
    if get_line(ctx, g, "module_align", guard(|| h.module_align_tag())).is_some() {
        hk_module_align(ctx, h.module_align_tag().unwrap());
    }
    if get_line(ctx, g, "efi_boot_services", guard(|| h.efi_boot_services_tag())).is_some() {
        hk_efi_boot_services(ctx, h.efi_boot_services_tag().unwrap());
    }
    if get_line(ctx, g, "relocatable", guard(|| h.relocatable_tag())).is_some() {
        hk_relocatable(ctx, h.relocatable_tag().unwrap());
    }
}

pub fn run(ctx: &mut Ctx, dom: &str, a: &[Arg]) {
    match dom {
        "hdrmis" => {
            let g = Guarded::new(a[1].b(), a[0].u(), ctx.place_end);
            let r = guard(|| unsafe { Multiboot2Header::load(g.ptr.cast::<Multiboot2BasicHeader>()) });
            ctx.ln(
                "load",
                match r {
                    Err(()) => "PANIC".to_string(),
                    Ok(Err(e)) => load_err(e),
                    Ok(Ok(_)) => "VAL ".to_string(),
                },
            );
        }
        "hdrnull" => {
            let r = guard(|| unsafe { Multiboot2Header::load(core::ptr::null()) });
            ctx.ln(
                "load",
                match r {
                    Err(()) => "PANIC".to_string(),
                    Ok(Err(e)) => load_err(e),
                    Ok(Ok(_)) => "VAL ".to_string(),
                },
            );
        }
        "hdrwalk" => {
            let g = Guarded::new(a[0].b(), 0, ctx.place_end);
            if let Some(h) = load(ctx, &g) {
                walk(ctx, &g, &h);
            }
        }
        "hiters" => {
            // iterator histories over the tags of a loaded header: new / next / clone / nth on a pool of iterators;
            // a panicking call is caught and the iterator stays in the pool as the call left it
            let g = Guarded::new(a[0].b(), 0, ctx.place_end);
            if let Some(h) = load(ctx, &g) {
                let mut pool: Vec<multiboot2_header::TagIter> = Vec::new();
                for op in a[1].l() {
                    let op = op.l();
                    match op[0].n() {
                        0 => {
                            ctx.ln("new", format!("{}", pool.len()));
                            pool.push(h.iter());
                        }
                        2 => {
                            let i = op[1].u();
                            if i < pool.len() {
                                ctx.ln("clone", format!("{}", pool.len()));
                                let c = pool[i].clone();
                                pool.push(c);
                            } else {
                                ctx.ln("clone", "skip");
                            }
                        }
                        1 | 3 => {
                            let key = if op[0].n() == 1 { "next" } else { "nth" };
                            let i = op[1].u();
                            if i < pool.len() {
                                let it = &mut pool[i];
                                let r = if op[0].n() == 1 {
                                    guard(|| it.next())
                                } else {
                                    let k = op[2].u();
                                    guard(|| it.nth(k))
                                };
                                match r {
                                    Ok(Some(t)) => ctx.ln(key, format!("VAL some {}", htag_line(&g, t))),
                                    Ok(None) => ctx.ln(key, "VAL none"),
                                    Err(()) => ctx.ln(key, "PANIC"),
                                }
                            } else {
                                ctx.ln(key, "skip");
                            }
                        }
                        _ => ctx.ln("op", "bad"),
                    }
                }
            }
        }
        "hdr" => {
            let g = Guarded::new(a[0].b(), 0, ctx.place_end);
            if let Some(h) = load(ctx, &g) {
                walk(ctx, &g, &h);
                dump_getters(ctx, &g, &h);
            }
        }
        "hbigwalk" => {
            // n copies of one padded header tag between a valid basic header (I386) and the end tag
            let (n, tag) = (a[0].n() as usize, a[1].b());
            let l = tag.len();
            let total = 16 + n * l + 8;
            let mut region = Vec::with_capacity(total);
            let magic = multiboot2_header::MAGIC;
            region.extend_from_slice(&magic.to_le_bytes());
            region.extend_from_slice(&0u32.to_le_bytes());
            region.extend_from_slice(&(total as u32).to_le_bytes());
            region.extend_from_slice(&0u32.wrapping_sub(magic).wrapping_sub(total as u32).to_le_bytes());
            for _ in 0..n {
                region.extend_from_slice(tag);
            }
            region.extend_from_slice(&[0, 0, 0, 0, 8, 0, 0, 0]);
            let g = Guarded::new(&region, 0, ctx.place_end);
            drop(region);
            let r = guard(|| unsafe { Multiboot2Header::load(g.ptr.cast::<Multiboot2BasicHeader>()) });
            match r {
                Err(()) => ctx.ln("load", "PANIC"),
                Ok(Err(e)) => ctx.ln("load", load_err(e)),
                Ok(Ok(h)) => {
                    ctx.ln("load", format!("VAL length={}", h.length()));
                    let gvc = |r: Result<String, ()>| r.unwrap_or_else(|_| "PANIC".to_string());
                    ctx.ln("tags_count", gvc(guard(|| format!("VAL {}", h.iter().count()))));
                    ctx.ln(
                        "tags_last",
                        match guard(|| h.iter().last()) {
                            Ok(Some(t)) => format!("VAL {}", view(&g, t)),
                            Ok(None) => "VAL none".to_string(),
                            Err(()) => "PANIC".to_string(),
                        },
                    );
                    for k in [n.saturating_sub(1), n, n + 1] {
                        let v = match guard(|| h.iter().nth(k)) {
                            Ok(Some(t)) => format!("VAL {}", view(&g, t)),
                            Ok(None) => "VAL none".to_string(),
                            Err(()) => "PANIC".to_string(),
                        };
                        ctx.ln("tags_nth", format!("{} {}", k, v));
                    }
                    macro_rules! gk {
                        ($name:expr, $f:ident) => {
                            ctx.ln(
                                "get",
                                match guard(|| h.$f()) {
                                    Ok(Some(t)) => format!("{} some {}", $name, view(&g, t)),
                                    Ok(None) => format!("{} none", $name),
                                    Err(()) => format!("{} PANIC", $name),
                                },
                            )
                        };
                    }
                    gk!("information_request", information_request_tag);
                    gk!("address", address_tag);
                    gk!("entry_address", entry_address_tag);
                    gk!("entry_address_efi32", entry_address_efi32_tag);
                    gk!("entry_address_efi64", entry_address_efi64_tag);
                    gk!("console_flags", console_flags_tag);
                    gk!("framebuffer", framebuffer_tag);
                    gk!("module_align", module_align_tag);
                    gk!("efi_boot_services", efi_boot_services_tag);
                    gk!("relocatable", relocatable_tag);
                }
            }
        }
        "hdrhuge" => {
            // a header whose 16 bytes declare a length up to 4 GiB, backed by that many (untouched, zero) bytes
            let h16 = a[0].b();
            let length = u32::from_le_bytes([h16[8], h16[9], h16[10], h16[11]]) as usize;
            match Guarded::sparse(length.max(16), h16, &[]) {
                None => ctx.ln("load", "SKIP"),
                Some(g) => {
                    let r = guard(|| unsafe { Multiboot2Header::load(g.ptr.cast::<Multiboot2BasicHeader>()) });
                    ctx.ln(
                        "load",
                        match r {
                            Err(()) => "PANIC".to_string(),
                            Ok(Err(e)) => load_err(e),
                            Ok(Ok(h)) => format!("VAL length={}", h.length()),
                        },
                    );
                }
            }
        }
        "findhuge" => {
            // a buffer of L bytes (4 GiB and more) that starts with the given prefix, zero pages behind it
            let (l, prefix) = (a[0].n() as usize, a[1].b());
            match Guarded::sparse(l, prefix, &[]) {
                None => ctx.ln("find_header", "SKIP"),
                Some(g) => {
                    let r = guard(|| Multiboot2Header::find_header(g.slice()));
                    ctx.ln(
                        "find_header",
                        match r {
                            Err(()) => "PANIC".to_string(),
                            Ok(Err(e)) => load_err(e),
                            Ok(Ok(None)) => "VAL none".to_string(),
                            Ok(Ok(Some((s, idx)))) => format!("VAL some @{}+{} idx={}", g.off(s.as_ptr()), s.len(), idx),
                        },
                    );
                }
            }
        }
        "find" => {
            let g = Guarded::new(a[1].b(), a[0].u(), ctx.place_end);
            let r = guard(|| Multiboot2Header::find_header(g.slice()));
            ctx.ln(
                "find_header",
                match r {
                    Err(()) => "PANIC".to_string(),
                    Ok(Err(e)) => load_err(e),
                    Ok(Ok(None)) => "VAL none".to_string(),
                    Ok(Ok(Some((s, idx)))) => format!("VAL some @{}+{} idx={}", g.off(s.as_ptr()), s.len(), idx),
                },
            );
        }
        "verify" => {
            // a bare 16-byte basic header (the generator keeps the architecture word defined)
            let g = Guarded::new(a[0].b(), 0, ctx.place_end);
            let h = unsafe { &*(g.ptr as *const Multiboot2BasicHeader) };
            let r = guard(|| h.verify_checksum());
            ctx.ln(
                "verify_checksum",
                match r {
                    Ok(b) => format!("VAL {}", b),
                    Err(()) => "PANIC".to_string(),
                },
            );
        }
        "cksum" => {
            let arch = if a[1].n() == 0 { HeaderTagISA::I386 } else { HeaderTagISA::MIPS32 };
            let r = guard(|| Multiboot2Header::calc_checksum(a[0].n() as u32, arch, a[2].n() as u32));
            ctx.ln(
                "calc_checksum",
                match r {
                    Ok(c) => format!("{}", c),
                    Err(()) => "PANIC".to_string(),
                },
            );
        }
        _ => unreachable!(),
    }
}
