//! Guard-page placement of case regions.
use std::os::raw::{c_int, c_void};

extern "C" {
    fn mmap(addr: *mut c_void, len: usize, prot: c_int, flags: c_int, fd: c_int, off: i64) -> *mut c_void;
    fn mprotect(addr: *mut c_void, len: usize, prot: c_int) -> c_int;
    fn munmap(addr: *mut c_void, len: usize) -> c_int;
    pub fn alarm(secs: u32) -> u32;
    fn setitimer(which: c_int, new: *const ItimerVal, old: *mut ItimerVal) -> c_int;
}

#[repr(C)]
struct TimeVal {
    tv_sec: i64,
    tv_usec: i64,
}
#[repr(C)]
struct ItimerVal {
    it_interval: TimeVal,
    it_value: TimeVal,
}
const ITIMER_PROF: c_int = 2;

/// Limits the CPU time (user + system) of the case being executed: SIGPROF ends the process after `secs` seconds of
/// CPU time (0 disarms). A wall-clock alarm would fire on a loaded machine for a case that is merely slow.
pub fn cpu_limit(secs: i64) {
    let v = ItimerVal { it_interval: TimeVal { tv_sec: 0, tv_usec: 0 }, it_value: TimeVal { tv_sec: secs, tv_usec: 0 } };
    unsafe {
        setitimer(ITIMER_PROF, &v, core::ptr::null_mut());
    }
}
const PROT_NONE: c_int = 0;
const PROT_RW: c_int = 3;
const MAP_PRIVATE_ANON: c_int = 0x02 | 0x20;
const PAGE: usize = 4096;

/// Filler of every byte of the mapping that is not part of the case region.
pub const FILL: u8 = 0xEE;

/// `[PROT_NONE page][RW pages][PROT_NONE page]`, the region placed flush to
/// the end (or the start) of the RW pages.
pub struct Guarded {
    map: *mut u8,
    map_len: usize,
    pub ptr: *mut u8,
    pub len: usize,
}

impl Guarded {
    /// `misalign`: desired `ptr % 8`.
    pub fn new(data: &[u8], misalign: usize, place_end: bool) -> Self {
        let data_pages = (data.len() + 16) / PAGE + 1;
        let map_len = (data_pages + 2) * PAGE;
        let map = unsafe { mmap(core::ptr::null_mut(), map_len, PROT_RW, MAP_PRIVATE_ANON, -1, 0) } as *mut u8;
        assert!(!map.is_null() && map as isize != -1, "harness: mmap failed");
        let usable = unsafe { map.add(PAGE) };
        let usable_len = data_pages * PAGE;
        unsafe {
            core::ptr::write_bytes(usable, FILL, usable_len);
            assert_eq!(mprotect(map as *mut c_void, PAGE, PROT_NONE), 0);
            assert_eq!(mprotect(usable.add(usable_len) as *mut c_void, PAGE, PROT_NONE), 0);
        }
        let ptr = if place_end {
            let end = usable as usize + usable_len;
            let p = ((end - data.len() - misalign) & !7usize) + misalign;
            // with misalign the region may not be exactly flush; never past the end
            let p = if p + data.len() > end { p - 8 } else { p };
            p as *mut u8
        } else {
            unsafe { usable.add(misalign) }
        };
        unsafe { core::ptr::copy_nonoverlapping(data.as_ptr(), ptr, data.len()) };
        Guarded { map, map_len, ptr, len: data.len() }
    }

    /// Non-owning view of memory somebody else owns (a constructed tag, a built
    /// structure): only the base of the offsets `off` reports; nothing is unmapped on drop.
    pub fn foreign(ptr: *const u8, len: usize) -> Self {
        Guarded { map: core::ptr::null_mut(), map_len: 0, ptr: ptr as *mut u8, len }
    }

    pub fn slice(&self) -> &[u8] {
        unsafe { core::slice::from_raw_parts(self.ptr, self.len) }
    }

    pub fn off<T: ?Sized>(&self, p: *const T) -> isize {
        (p as *const u8 as isize) - (self.ptr as isize)
    }
}

const MAP_NORESERVE: c_int = 0x4000;

impl Guarded {
    /// A SPARSE region of `total` bytes (up to several GiB): untouched zero pages, `prefix` copied to its start and
    /// `suffix` to its end, a PROT_NONE page behind it (end-flush up to 8-byte alignment). `None` when the
    /// address space cannot be reserved.
    pub fn sparse(total: usize, prefix: &[u8], suffix: &[u8]) -> Option<Self> {
        let data_pages = total.checked_add(16)? / PAGE + 1;
        let map_len = data_pages.checked_add(2)?.checked_mul(PAGE)?;
        let map = unsafe {
            mmap(core::ptr::null_mut(), map_len, PROT_RW, MAP_PRIVATE_ANON | MAP_NORESERVE, -1, 0)
        } as *mut u8;
        if map.is_null() || map as isize == -1 {
            return None;
        }
        let usable = unsafe { map.add(PAGE) };
        let usable_len = data_pages * PAGE;
        unsafe {
            assert_eq!(mprotect(map as *mut c_void, PAGE, PROT_NONE), 0);
            assert_eq!(mprotect(usable.add(usable_len) as *mut c_void, PAGE, PROT_NONE), 0);
        }
        let end = usable as usize + usable_len;
        let ptr = ((end - total) & !7usize) as *mut u8;
        unsafe {
            core::ptr::copy_nonoverlapping(prefix.as_ptr(), ptr, prefix.len().min(total));
            if total >= suffix.len() + prefix.len() {
                core::ptr::copy_nonoverlapping(suffix.as_ptr(), ptr.add(total - suffix.len()), suffix.len());
            }
        }
        Some(Guarded { map, map_len, ptr, len: total })
    }
}

const MAP_FIXED_NOREPLACE: c_int = 0x100000;

impl Guarded {
    /// External memory at a fixed absolute address: `[PROT_NONE page][RW pages][PROT_NONE page]`, `data` placed so
    /// that it starts at `base` and ends flush with the trailing guard page (`base + data.len()` must be a multiple
    /// of the page size). `None` when the address range is not free.
    pub fn fixed(base: usize, data: &[u8]) -> Option<Self> {
        let end = base.checked_add(data.len())?;
        if end % PAGE != 0 {
            return None;
        }
        let data_pages = (data.len() + PAGE - 1) / PAGE + if data.is_empty() { 1 } else { 0 };
        let start = end.checked_sub((data_pages + 1) * PAGE)?;
        let map_len = (data_pages + 2) * PAGE;
        let map = unsafe {
            mmap(start as *mut c_void, map_len, PROT_RW, MAP_PRIVATE_ANON | MAP_FIXED_NOREPLACE, -1, 0)
        } as *mut u8;
        if map.is_null() || map as isize == -1 {
            return None;
        }
        if map as usize != start {
            unsafe { munmap(map as *mut c_void, map_len) };
            return None;
        }
        unsafe {
            core::ptr::write_bytes(map.add(PAGE), FILL, data_pages * PAGE);
            assert_eq!(mprotect(map as *mut c_void, PAGE, PROT_NONE), 0);
            assert_eq!(mprotect(map.add(PAGE + data_pages * PAGE) as *mut c_void, PAGE, PROT_NONE), 0);
            core::ptr::copy_nonoverlapping(data.as_ptr(), base as *mut u8, data.len());
        }
        Some(Guarded { map, map_len, ptr: base as *mut u8, len: data.len() })
    }
}

impl Drop for Guarded {
    fn drop(&mut self) {
        if !self.map.is_null() {
            unsafe { munmap(self.map as *mut c_void, self.map_len) };
        }
    }
}
