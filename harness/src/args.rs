//! Case-line parsing: `<domain> <arg>...`, arg := decimal | x<hex> | [ args ].
#[derive(Debug, Clone)]
pub enum Arg {
    N(u128),
    B(Vec<u8>),
    L(Vec<Arg>),
}

impl Arg {
    pub fn n(&self) -> u128 {
        match self {
            Arg::N(n) => *n,
            _ => panic!("harness: expected number"),
        }
    }
    pub fn u(&self) -> usize {
        self.n() as usize
    }
    pub fn b(&self) -> &[u8] {
        match self {
            Arg::B(b) => b,
            _ => panic!("harness: expected bytes"),
        }
    }
    pub fn l(&self) -> &[Arg] {
        match self {
            Arg::L(l) => l,
            _ => panic!("harness: expected list"),
        }
    }
}

fn hex(s: &str) -> Vec<u8> {
    let b = s.as_bytes();
    (0..b.len() / 2)
        .map(|i| {
            let h = |c: u8| match c {
                b'0'..=b'9' => c - b'0',
                b'a'..=b'f' => c - b'a' + 10,
                b'A'..=b'F' => c - b'A' + 10,
                _ => panic!("harness: bad hex"),
            };
            h(b[2 * i]) * 16 + h(b[2 * i + 1])
        })
        .collect()
}

fn parse_list(toks: &mut std::iter::Peekable<std::str::SplitWhitespace>) -> Vec<Arg> {
    let mut out = Vec::new();
    while let Some(t) = toks.next() {
        match t {
            "]" => return out,
            "[" => out.push(Arg::L(parse_list(toks))),
            _ if t.starts_with('x') => out.push(Arg::B(hex(&t[1..]))),
            _ => out.push(Arg::N(t.parse::<u128>().expect("harness: bad number"))),
        }
    }
    out
}

pub fn parse_line(line: &str) -> Option<(String, Vec<Arg>)> {
    let mut toks = line.split_whitespace().peekable();
    let dom = toks.next()?.to_string();
    Some((dom, parse_list(&mut toks)))
}

pub fn hexs(b: &[u8]) -> String {
    let mut s = String::with_capacity(b.len() * 2 + 1);
    s.push('x');
    for x in b {
        s.push_str(&format!("{:02x}", x));
    }
    s
}
