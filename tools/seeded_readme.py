#!/usr/bin/env python3
"""Regenerates seeded/README.md from seeded/*/meta.json."""
import json, os, glob
V = os.path.dirname(os.path.dirname(os.path.abspath(__file__)))
rows = []
for d in sorted(glob.glob(os.path.join(V, "seeded", "*"))):
    m = os.path.join(d, "meta.json")
    if not os.path.exists(m):
        continue
    j = json.load(open(m))
    r = j["ran"]
    notes = os.path.join(d, "notes.md")
    first = ""
    if os.path.exists(notes):
        for line in open(notes):
            line = line.strip()
            if line and not line.startswith("#"):
                first = line[:160]
                break
    fin = j.get("final")
    if fin:
        det = fin["check"] if fin["reported"] else "**not reported**" + (" - " + fin["note"] if fin.get("note") else "")
        if j.get("first_missed"):
            det += " (first missed; the machinery was strengthened, DESIGN.md section 12)"
    else:
        det = ", ".join(r.get("detected_by", [])) or "**none**"
    rows.append((os.path.basename(d), j["breaks_property"], det,
                 ", ".join("%s:%s" % (c, "VIOLATION" if v["rc"] == 1 else "pass") for c, v in r.get("checks", {}).items()), first))
with open(os.path.join(V, "seeded", "README.md"), "w") as f:
    f.write("# Seeded changes\n\nEach directory holds `patch.diff` (apply with `git -C /repo apply`), `demo.rs` (fails with the patch, passes without), "
            "`notes.md` (the author's description: what it needs to manifest) and `meta.json` (what `tools/eval_seeded.py` ran: the demonstration "
            "with/without the patch in dev and release, the unedited suite with the patch, the quick checks and their verdicts).\n"
            "The changes were written by fresh sub-agents that saw only the property text and a scratch worktree. The column "
            "'reported by' is the FINAL state: the quick check of the property against the change, re-run for every change by "
            "`tools/regress_seeded.py` (private sandboxes) after the last edit of the machinery; 'checks run' is the first evaluation.\n\n"
            "| id | breaks | reported by (quick tier) | checks run | summary |\n|---|---|---|---|---|\n")
    for r in rows:
        f.write("| %s | %s | %s | %s | %s |\n" % r)
print(len(rows), "seeded changes")
