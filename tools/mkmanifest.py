#!/usr/bin/env python3
"""Regenerates /verif/MANIFEST.json from the registry in props.py (claimed = registered there)."""
import json, os, sys
sys.path.insert(0, os.path.dirname(os.path.abspath(__file__)))
import props

VERIF = os.path.dirname(os.path.dirname(os.path.abspath(__file__)))
allp = [json.loads(l) for l in open(os.path.join(VERIF, "properties.jsonl"))]
NOTES = getattr(props, "LEVEL_NOTES", {})
checks = []
for p in allp:
    pid = p["id"]
    if pid not in props.PROPS:
        continue
    P = props.PROPS[pid]
    checks.append(dict(
        property_id=pid,
        quick_cmd="./check %s --tier quick" % pid,
        thorough_cmd="./check %s --tier thorough" % pid,
        evidence_file="/verif/evidence/%s.json" % pid,
        replay_cmd_template="./check %s --replay {path}" % pid,
        engine="coq-model+differential",
        level_claimed=dict(
            category="proof",
            text=P.get("level_text", "Coq theorems (Props/%s.v) over a Gallina model, for all inputs and both build profiles; the model is tied to "
                       "/repo on every run in two ways: its declarative part (struct declarations, enum tables, constants, conversion "
                       "match tables) is regenerated from the Rust source by tools/rs2coq.py and proved equal to the hand-written model "
                       "for all arguments (coq/Tie); its operational part is hand-written and compared with the crates by a differential "
                       "correspondence run (extracted oracle vs Rust harness rebuilt from the working tree)." % pid),
            design_ref="DESIGN.md section 6, " + pid),
        level_note=P.get("level_note", "trusted: Coq 8.16.1 kernel; no axioms (Print Assumptions audited each run); the operational model is hand-written "
                         "and validated against the crates by sampling (generators described in the evidence); the translator tools/rs2coq.py "
                         "for the declarative part; extraction/OCaml used for the oracle only, cross-checked by vm_compute in Coq on a sample "
                         "of each run; rustc/LLVM and the OS are outside the model."),
        technique="machine-checked proof in Coq (Rocq) + model/implementation correspondence check"))
na = [dict(property_id=p["id"], reason=props.NOT_APPLICABLE.get(p["id"], "check under construction (model and theorems not yet written); see DESIGN.md"))
      for p in allp if p["id"] not in props.PROPS]
m = dict(
    version=1, setup_cmd="./setup.sh",
    hooks=dict(guard="multiboot2_verif",
               enable="RUSTFLAGS=--cfg multiboot2_verif (set by the harness build; no hook exists in /repo: everything observed is reachable through the public API)",
               baseline_off_cmd="cd /repo && cargo test --workspace --no-fail-fast --offline",
               source_commits=[], add_only=True),
    engines=[dict(name="coq-model+differential", path="/verif/check", serves_properties=[c["property_id"] for c in checks],
                  kind_free_text="Coq 8.16 proofs over a Gallina model of the crates; extracted OCaml oracle vs Rust harness on generated cases")],
    checks=checks, not_applicable=na, notes="see DESIGN.md; known_findings.json lists repaired defects (fix: commits in /repo)")
json.dump(m, open(os.path.join(VERIF, "MANIFEST.json"), "w"), indent=1)
print("claimed:", [c["property_id"] for c in checks])
