#!/bin/bash
# runs every quick check on the current tree (under the repo lock); prints the checks that do not exit 0
cd "$(dirname "$0")/.."
bad=0
for i in 01 02 03 04 05 06 07 08 09 10 11 12 13 14 15 16 17 18 19 20; do
  out=$(flock /tmp/repo.lock ./check C$i 2>&1); rc=$?
  if [ $rc -ne 0 ]; then echo "C$i rc=$rc"; echo "$out" | tail -6; bad=1; fi
done
[ $bad -eq 0 ] && echo "all 20 quick checks pass"
exit $bad
