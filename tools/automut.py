#!/usr/bin/env python3
"""Automatic mutation sweep: tools/automut.py [--max N] [--seed S] [--files f1,f2,...]

Not part of any registered check: a development aid that measures what the checks would miss. For every source file
of /repo named in the anchors of properties.jsonl it generates small syntactic mutants (relational operators, assert ->
debug_assert, +/- swaps, integer literals +1, saturating -> wrapping), and for each one, under /tmp/repo.lock:
applies it to /repo, runs the quick checks of ALL properties anchored in that file (from a snapshot copy of /verif given
by VERIF_CHECK_DIR, default /verif), reverts (git checkout).  A mutant that does not compile is 'invalid'; one for
which some check prints VIOLATION is 'killed'; the rest are 'survived' and listed for inspection (equivalent mutants
or gaps).  Results: /tmp/automut/results.jsonl
"""
import fcntl
import json
import os
import random
import re
import subprocess
import sys

VERIF = os.path.dirname(os.path.dirname(os.path.abspath(__file__)))
CHECK_DIR = os.environ.get("VERIF_CHECK_DIR", VERIF)
REPO = "/repo"
OUT = "/tmp/automut"


def anchors():
    m = {}
    for l in open(os.path.join(VERIF, "properties.jsonl")):
        j = json.loads(l)
        for f in j["anchors"]["files"]:
            if f.endswith(".rs") and os.path.exists(os.path.join(REPO, f)):
                m.setdefault(f, []).append(j["id"])
    return m


def code_lines(path):
    """(index, line) of the non-test, non-comment lines of a source file"""
    src = open(path).read().split("\n")
    out = []
    for i, l in enumerate(src):
        if l.strip().startswith("#[cfg(test)]"):
            break
        s = l.strip()
        if not s or s.startswith("//") or s.startswith("#[") or s.startswith("///") or s.startswith("use "):
            continue
        out.append((i, l))
    return src, out


OPS = [
    (r"\bassert!\(", "debug_assert!("),
    (r"\bassert_eq!\(", "debug_assert_eq!("),
    (r"\bassert_ne!\(", "debug_assert_ne!("),
    (r" <= ", " < "), (r" < ", " <= "), (r" >= ", " > "), (r" > ", " >= "),
    (r" == ", " != "), (r" != ", " == "),
    (r" \+ ", " - "), (r" - ", " + "),
    (r"saturating_add", "wrapping_add"), (r"saturating_sub", "wrapping_sub"),
    (r"\.min\(", ".max("), (r"\.max\(", ".min("),
    (r" && ", " || "), (r" \|\| ", " && "),
]


def mutants(path):
    src, lines = code_lines(path)
    res = []
    for i, l in lines:
        code = l.split("//")[0]
        if "fn " in code and "->" in code:
            continue
        ctx = ("if " in code or "assert" in code or "while " in code or "let " in code or "return" in code or
               code.strip().startswith(("self.", "&", ".", "Some", "Ok", "Err")) or "=>" in code)
        if not ctx:
            continue
        for pat, rep in OPS:
            for m in re.finditer(pat, code):
                if pat in (r" < ", r" > ") and ("<" in code and ">" in code and "::" in code):
                    continue       # probably generics
                new = l[:m.start()] + rep + l[m.end():]
                res.append((i, l, new, "%s -> %s" % (pat, rep)))
        for m in re.finditer(r"(?<![\w.])(\d+)(?![\w.])", code):
            n = int(m.group(1))
            if n > 100000:
                continue
            new = l[:m.start()] + str(n + 1) + l[m.end():]
            res.append((i, l, new, "literal %d -> %d" % (n, n + 1)))
    return src, res


def sh(cmd, cwd=None, timeout=1800):
    p = subprocess.run(cmd, cwd=cwd, shell=isinstance(cmd, str), stdout=subprocess.PIPE, stderr=subprocess.STDOUT, text=True,
                       timeout=timeout, env=dict(os.environ, CARGO_NET_OFFLINE="true"))
    return p.returncode, p.stdout


def main():
    a = sys.argv[1:]
    mx = int(a[a.index("--max") + 1]) if "--max" in a else 100
    seed = int(a[a.index("--seed") + 1]) if "--seed" in a else 1
    only = a[a.index("--files") + 1].split(",") if "--files" in a else None
    os.makedirs(OUT, exist_ok=True)
    anc = anchors()
    allm = []
    for f, props in sorted(anc.items()):
        if only and f not in only:
            continue
        src, ms = mutants(os.path.join(REPO, f))
        for (i, old, new, what) in ms:
            allm.append((f, props, i, old, new, what))
    rng = random.Random(seed)
    rng.shuffle(allm)
    print("%d candidate mutants, running %d" % (len(allm), min(mx, len(allm))))
    with open(os.path.join(OUT, "results.jsonl"), "a") as log:
        for (f, props, i, old, new, what) in allm[:mx]:
            lock = open("/tmp/repo.lock", "w")
            fcntl.flock(lock, fcntl.LOCK_EX)
            res = dict(file=f, line=i + 1, what=what, old=old.strip(), new=new.strip(), props=props)
            try:
                rc, out = sh("git -C %s status --porcelain" % REPO)
                if out.strip():
                    print("repo dirty, stopping")
                    return 2
                path = os.path.join(REPO, f)
                src = open(path).read().split("\n")
                src[i] = new
                open(path, "w").write("\n".join(src))
                rc, out = sh("cargo build --offline -p %s 2>&1" % f.split("/")[0], cwd=REPO, timeout=600)
                if rc != 0:
                    res["verdict"] = "invalid"
                else:
                    killed = []
                    for p in props:
                        rc, out = sh([os.path.join(CHECK_DIR, "check"), p], cwd=CHECK_DIR, timeout=1200)
                        if rc == 1 and "VIOLATION" in out:
                            killed.append(p)
                            break
                    res["verdict"] = "killed" if killed else "survived"
                    res["killed_by"] = killed
            finally:
                sh("git -C %s checkout -- ." % REPO)
                fcntl.flock(lock, fcntl.LOCK_UN)
                lock.close()
            log.write(json.dumps(res) + "\n")
            log.flush()
            print(res["verdict"], f, i + 1, what, "|", old.strip()[:90])
    return 0


if __name__ == "__main__":
    sys.exit(main())
