#!/usr/bin/env python3
"""Differential test of the constructor / builder / heap-construction domains
`ctor`, `hctor`, `build`, `hbuild`, `newboxed`, `clone`: model (extracted oracle)
against the real crates (harness), both profiles.

usage: test_build_domains.py [--seed S] [--scale K] [--keep FILE] [--no-build] [--all] [--only dom,dom]
  --seed S    seed of the random generator (default 1)
  --scale K   multiplies the number of random cases (default 1)
  --keep FILE write the case file there (default: .build/test_build_domains.cases)
  --only ...  generate the cases of these domains only
  --all       print every differing case (default: the first one of every kind of difference)
Exit status 0 iff all transcripts agree in both configurations."""
import itertools
import os
import random
import re
import sys
from collections import Counter, OrderedDict

sys.path.insert(0, os.path.dirname(os.path.abspath(__file__)))
import vlib  # noqa: E402
from mb2enc import hx, rsdp_v1, rsdp_v2, sum8, vbe_ci, vbe_mi, efi_desc, elf32_entry, elf64_entry  # noqa: E402

DOMAINS = ["ctor", "hctor", "build", "hbuild", "newboxed", "clone"]
DST_IDS = [1, 2, 3, 6, 8, 9, 13, 16, 17, 22]

U8S = [0, 1, 2, 7, 8, 0x7F, 0x80, 0xFE, 0xFF]
U16S = [0, 1, 2, 0xFF, 0x100, 0x7FFF, 0x8000, 0xFFFE, 0xFFFF]
U32S = [0, 1, 2, 7, 8, 24, 40, 0x1000, 0x7FFFFFFF, 0x80000000, 0xFFFFFFFE, 0xFFFFFFFF, 0xDEADBEEF]
U64S = [0, 1, 0x1000, 0xFFFFFFFF, 0x100000000, 0x7FFFFFFFFFFFFFFF, 0x8000000000000000, 0xFFFFFFFFFFFFFFFF,
        0xFFFFFFFFFFFFF000]
POOL = {8: U8S, 16: U16S, 32: U32S, 64: U64S}
OEMS = [b"OEMID ", b"BOCHS ", b"\xff\xff\xff\xff\xff\xff", b"\xe2\x82\xacabc", b"\0\0\0\0\0\0", b"abcd\xc3\xa9", b"abcdef"]
MULTI = ["\u00e9", "\u20ac", "\U0001d11e", "\u00df", "\u4e2d", "\u07ff", "\uffff", "\U0010ffff"]


def lst(items):
    return "[ " + " ".join(str(i) for i in items) + " ]" if items else "[ ]"


class Gen:
    def __init__(self, seed):
        self.r = random.Random(seed)

    def u(self, bits):
        r = self.r
        if r.random() < 0.45:
            return r.choice(POOL[bits])
        if r.random() < 0.3:
            return r.getrandbits(r.randint(1, bits))
        return r.getrandbits(bits)

    def rb(self, n):
        return bytes(self.r.getrandbits(8) for _ in range(n))

    # ---- strings: valid UTF-8 of an exact byte length -------------------------------
    def ascii(self, n):
        return bytes(self.r.choice(b"abcdefghijklmnopqrstuvwxyz ABCXYZ0123456789-_=/.") for _ in range(n))

    def multibyte(self, n):
        """n bytes of UTF-8 with as many multi-byte characters as fit"""
        r = self.r
        out = b""
        while len(out) < n:
            c = r.choice(MULTI).encode() if r.random() < 0.6 else self.ascii(1)
            if len(out) + len(c) <= n:
                out += c
            elif n - len(out) < 2:
                out += self.ascii(n - len(out))
        assert len(out) == n
        out.decode()
        return out

    def string_variants(self, n):
        """all shapes of a string of n bytes"""
        v = [self.ascii(n), self.multibyte(n)]
        if n >= 1:
            v.append(self.multibyte(n - 1) + b"\0")          # already NUL-terminated
            v.append(b"\0" * n)
        if n >= 2:
            v.append(self.ascii(n - 2) + b"\0\0")
        if n >= 3:
            k = self.r.randrange(1, n - 1)
            v.append(self.ascii(k) + b"\0" + self.multibyte(n - k - 1))   # interior NUL
        return v

    def string(self):
        return self.r.choice(self.string_variants(self.r.randint(0, 40)))

    # ---- arguments of the boot-information constructors (id -> list of tokens) ---------
    def mod_range(self):
        r = self.r
        x = r.random()
        a, b = self.u(32), self.u(32)
        if x < 0.55:
            a, b = min(a, b), max(a, b)
            if a == b:
                b = a + 1 if a < 0xFFFFFFFF else a
                a = b - 1 if a == b else a
        elif x < 0.7:
            b = a                     # empty: panics
        elif x < 0.85:
            a, b = max(a, b), min(a, b)   # end < start (or equal): panics
        return a, b

    def areas(self, n):
        return lst(lst([self.u(64), self.u(64), self.r.choice([0, 1, 2, 3, 4, 5, 6, self.u(32)])]) for _ in range(n))

    def vbe_structs(self):
        r = self.r
        x = r.random()
        if x < 0.15:
            ci, mi = bytes(512), bytes(256)
        elif x < 0.3:
            ci, mi = b"\xff" * 512, b"\xff" * 256
        elif x < 0.5:
            ci = vbe_ci(version=self.u(16), oem_string_ptr=self.u(32), capabilities=self.u(32), mode_list_ptr=self.u(32),
                        total_memory=self.u(16), oem_software_revision=self.u(16), oem_vendor_name_ptr=self.u(32),
                        oem_product_name_ptr=self.u(32), oem_product_revision_ptr=self.u(32))
            mi = vbe_mi(mode_attributes=self.u(16), window_a_attributes=self.u(8), pitch=self.u(16),
                        resolution=(self.u(16), self.u(16)), bpp=self.u(8), memory_model=r.randint(0, 7),
                        red=(self.u(8), self.u(8)), framebuffer_base_ptr=self.u(32), offscreen_memory_size=self.u(16))
        else:
            ci, mi = self.rb(512), self.rb(256)
        mi = bytearray(mi)
        if mi[27] > 7:                  # `memory_model` is a Rust enum with the values 0..7
            mi[27] = r.randint(0, 7)
        return hx(ci), hx(bytes(mi))

    def fbtype(self, ncolors=None):
        r = self.r
        x = r.random() if ncolors is None else 0.0
        if x < 0.5:
            n = ncolors if ncolors is not None else r.choice([0, 1, 2, 3, 5, 16, 85, 86, 255, 256, 257, 300, r.randint(0, 300)])
            return lst([0, lst(lst([self.u(8), self.u(8), self.u(8)]) for _ in range(n))])
        if x < 0.8:
            return lst([1] + [self.u(8) for _ in range(6)])
        return lst([2])

    def elf_args(self):
        r = self.r
        x = r.random()
        if x < 0.6:
            es = r.choice([40, 64])
            n = r.randint(0, 5)
            tab = b"".join((elf32_entry if es == 40 else elf64_entry)(
                typ=r.choice([0, 1, 1, 2, 3, 8, 0x70000000, self.u(32)]), flags=r.getrandbits(3), addr=self.u(32),
                size=self.u(32), addralign=self.u(32)) for _ in range(n))
            if r.random() < 0.2:
                tab += self.rb(r.randint(1, 70))          # more bytes than sections
            if r.random() < 0.15:
                n = max(0, n + r.choice([-1, 1, 2]))      # number of sections does not match the table
            sh = r.randrange(n) if n and r.random() < 0.85 else r.choice([n, n + 1, self.u(32)])   # shndx must be < n
            return [n, es, sh, hx(tab)]
        if x < 0.8:
            n = r.randint(0, 4)
            return [n, r.choice([0, 1, 39, 40, 41, 63, 64, 65]), r.randint(0, max(n - 1, 0)), hx(self.rb(r.randint(0, 300)))]
        return [self.u(32), self.u(32), self.u(32), hx(self.rb(r.randint(0, 90)))]

    def efi_args(self):
        r = self.r
        x = r.random()
        if x < 0.12:
            return [0, r.choice([0, 1, self.u(32)]), hx(self.rb(r.randint(0, 80)))]          # desc_size 0: panics
        if x < 0.7:
            ds = r.choice([40, 40, 40, 48, 56, 64, 41, 44])
            n = r.randint(0, 4)
            data = b"".join(efi_desc(ty=r.choice([0, 1, 7, 15, self.u(32)]), phys=self.u(64), virt=self.u(64), pages=self.u(64),
                                     att=self.u(64), desc_size=ds, fill=r.getrandbits(8)) for _ in range(n))
            if r.random() < 0.2:
                data += self.rb(r.randint(1, ds - 1))
            return [ds, 1 if r.random() < 0.85 else self.u(32), hx(data)]
        ds = r.choice([1, 2, 7, 8, 16, 39, 40, 41, 0xFFFFFFFF, self.u(32)]) or 1
        return [ds, r.choice([1, 1, 0, 2, self.u(32)]), hx(self.rb(r.randint(0, 130)))]

    def rsdp_fields(self, v2):
        """checksum, oem, revision, rsdt[, length, xsdt, ext]; the checksums right in half of the cases"""
        r = self.r
        oem = r.choice(OEMS) if r.random() < 0.7 else self.rb(6)
        rev, rsdt = self.u(8), self.u(32)
        if not v2:
            raw = rsdp_v1(oem_id=oem, revision=rev, rsdt_address=rsdt)
            ck = raw[8] if r.random() < 0.5 else self.u(8)
            return [ck, hx(oem), rev, rsdt]
        length = r.choice([36, 36, 0, 20, 33, 35, 37, self.u(32)])
        xsdt = self.u(64)
        raw = rsdp_v2(oem_id=oem, revision=rev, rsdt_address=rsdt, length=length, xsdt_address=xsdt, ext_checksum=0)
        ext_ok = (-sum8(raw[:36])) & 0xFF
        good = r.random() < 0.5
        return [raw[8] if good or r.random() < 0.5 else self.u(8), hx(oem), rev, rsdt, length, xsdt,
                ext_ok if good else self.u(8)]

    def custom_typ(self, ok=None):
        r = self.r
        if ok is None:
            ok = r.random() < 0.75
        if ok:
            return r.choice([22, 23, 0x1337, 0x7FFFFFFF, 0xFFFFFFFF, r.randint(22, 0xFFFFFFFF)])
        return r.randint(0, 21)

    def args(self, i, light=False):
        """tokens of the arguments of constructor i; light: small inputs (for builder call lists)"""
        r = self.r
        if i in (0, 18):
            return []
        if i in (1, 2):
            return [hx(self.string())]
        if i == 3:
            a, b = self.mod_range()
            return [a, b, hx(self.string())]
        if i == 4:
            return [self.u(32), self.u(32)]
        if i == 5:
            return [self.u(32), self.u(32), self.u(32)]
        if i == 6:
            return [self.areas(r.choice([0, 1, 2, 3, 7] if light else [0, 1, 2, 3, 7, 20, 60]))]
        if i == 7:
            return [self.u(16), self.u(16), self.u(16), self.u(16)] + list(self.vbe_structs())
        if i == 8:
            return [self.u(64), self.u(32), self.u(32), self.u(32), self.u(8),
                    self.fbtype(r.choice([None, None, 0, 1, 4]) if light else None)]
        if i == 9:
            return self.elf_args()
        if i == 10:
            return [self.u(16), self.u(16), self.u(32)] + [self.u(16) for _ in range(6)]
        if i in (11, 19, 21):
            return [self.u(32)]
        if i in (12, 20):
            return [self.u(64)]
        if i == 13:
            return [self.u(8), self.u(8), hx(self.rb(r.randint(0, 40)))]
        if i == 14:
            return self.rsdp_fields(False)
        if i == 15:
            return self.rsdp_fields(True)
        if i == 16:
            return [hx(self.rb(r.choice([r.randint(0, 40), r.randint(0, 40), 1500] if not light else [r.randint(0, 40)])))]
        if i == 17:
            return self.efi_args()
        if i == 22:
            return [self.custom_typ(), hx(self.rb(r.randint(0, 40)))]
        raise ValueError(i)

    def call(self, i, ok=False):
        """one builder call; ok: arguments with which neither the constructor nor the builder method panics"""
        for _ in range(1000):
            a = self.args(i, light=True)
            if ok:
                if i == 3 and not a[0] < a[1]:
                    continue
                if i == 17 and a[0] == 0:
                    continue
                if i == 22 and a[0] < 22:
                    continue
            return lst([i] + a)
        raise RuntimeError

    # ---- header crate -----------------------------------------------------------------
    def hargs(self, i):
        r = self.r
        f = r.randint(0, 1)
        if i == 0:
            return []
        if i == 1:
            n = r.choice([0, 1, 2, 3, 4, 5, 8, 22, 30, r.randint(0, 30)])
            return [f, lst(r.choice([r.randint(0, 22), self.u(32)]) for _ in range(n))]
        if i == 2:
            return [f] + [self.u(32) for _ in range(4)]
        if i in (3, 8, 9):
            return [f, self.u(32)]
        if i == 4:
            return [f, r.randint(0, 1)]
        if i == 5:
            return [f, self.u(32), self.u(32), self.u(32)]
        if i in (6, 7):
            return [f]
        if i == 10:
            return [f, self.u(32), self.u(32), self.u(32), r.randint(0, 2)]
        raise ValueError(i)

    def hcall(self, i):
        return lst([i] + self.hargs(i))


def tok(items):
    return " ".join(str(i) for i in items)


def gen_ctor(g, k):
    c = ["ctor 0", "ctor 18"]
    for n in range(41):                                   # strings of every length, every shape
        for s in g.string_variants(n):
            # every shape through all three string constructors (a choice between them made the empty boot-loader name
            # a matter of the seed)
            c.append("ctor 1 %s" % hx(s))
            c.append("ctor 2 %s" % hx(s))
            c.append("ctor 3 %s" % tok([1, 2, hx(s)]))
    for a, b in [(0, 0), (0, 1), (1, 0), (1, 1), (0xFFFFFFFF, 0xFFFFFFFF), (0xFFFFFFFE, 0xFFFFFFFF), (0xFFFFFFFF, 0),
                 (0, 0xFFFFFFFF), (0x80000000, 0x7FFFFFFF), (0x7FFFFFFF, 0x80000000)]:
        c.append("ctor 3 %s" % tok([a, b, hx(g.string())]))
    for n in list(range(0, 24)) + [84, 85, 86, 170, 255, 256, 257, 299, 300]:   # palettes
        c.append("ctor 8 %s" % tok([g.u(64), g.u(32), g.u(32), g.u(32), g.u(8), g.fbtype(n)]))
    for n in range(0, 41):                                # payloads of every length
        c.append("ctor 13 %s" % tok([g.u(8), g.u(8), hx(g.rb(n))]))
        c.append("ctor 16 %s" % hx(g.rb(n)))
        c.append("ctor 22 %s" % tok([g.custom_typ(), hx(g.rb(n))]))
        c.append("ctor 9 %s" % tok([g.u(32), g.u(32), g.u(32), hx(g.rb(n))]))
        c.append("ctor 17 %s" % tok([g.r.choice([1, 8, 40, 48]), 1, hx(g.rb(n))]))
        c.append("ctor 6 %s" % g.areas(n))
    for _ in range(3):                                    # VBE blocks from the types' Default impls (all zero)
        c.append("ctor 7 %s" % tok([g.u(16), g.u(16), g.u(16), g.u(16), hx(bytes(512)), hx(bytes(256))]))
    c.append("ctor 7 %s" % tok([1, 2, 3, 4, hx(bytes(512)), hx(g.rb(27) + b"\x03" + g.rb(228))]))
    for n in list(range(0, 8)) + [20]:                    # EFIMemoryMapTag::new_from_descs: n descriptors
        c.append("ctor 23 %s" % lst(lst([g.u(32), g.u(64), g.u(64), g.u(64), g.u(64)]) for _ in range(n)))
    per = {3: 40, 4: 25, 5: 25, 6: 25, 7: 40, 8: 60, 9: 90, 10: 25, 11: 15, 12: 15, 13: 20, 14: 60, 15: 80, 16: 10,
           17: 120, 19: 15, 20: 15, 21: 15, 22: 20, 1: 20, 2: 20}
    for i, n in sorted(per.items()):
        for _ in range(n * k):
            c.append("ctor %d %s" % (i, tok(g.args(i))))
    return [x.rstrip() for x in c]


def gen_hctor(g, k):
    c = []
    for place in (4, 4, 4, 0, 8):
        c.append("hctor 0 %d" % place)
    for n in range(0, 31):
        c.append("hctor 1 4 %s" % tok([n % 2, lst(g.r.randint(0, 30) for _ in range(n))]))
    for f in (0, 1):
        for cf in (0, 1):
            c.append("hctor 4 4 %d %d" % (f, cf))
        for pr in (0, 1, 2):
            c.append("hctor 10 4 %s" % tok([f, g.u(32), g.u(32), g.u(32), pr]))
        for i in (6, 7):
            for place in (4, 0, 8):
                c.append("hctor %d %d %d" % (i, place, f))
    for i in range(1, 11):
        for _ in range(30 * k):
            c.append("hctor %d %d %s" % (i, g.r.choice([4, 4, 4, 0, 8]), tok(g.hargs(i))))
    return c


def gen_build(g, k):
    r = g.r
    c = ["build [ ]"]
    for i in range(1, 23):                                # every method alone, twice in a row
        c.append("build %s" % lst([g.call(i, ok=True)]))
        c.append("build %s" % lst([g.call(i, ok=True), g.call(i, ok=True)]))
    c.append("build %s" % lst(g.call(i, ok=True) for i in range(1, 23)))          # all, in slot order
    c.append("build %s" % lst(g.call(i, ok=True) for i in range(22, 0, -1)))      # all, reversed
    for slots in ([1, 2, 4, 5, 11], [3, 13, 22, 18, 21], [6, 8, 9, 16, 17], [7, 10, 12, 14, 15], [19, 20, 3, 13, 1]):
        for m in range(1, 6):                             # all subsets of small slot sets, random order
            for sub in itertools.combinations(slots, m):
                sub = list(sub)
                r.shuffle(sub)
                c.append("build %s" % lst(g.call(i, ok=True) for i in sub))
    for _ in range(8 * k):                                # everything, shuffled, with repeats
        ids = list(range(1, 23)) + [r.randint(1, 22) for _ in range(r.randint(0, 10))]
        r.shuffle(ids)
        c.append("build %s" % lst(g.call(i, ok=True) for i in ids))
    for _ in range(150 * k):                              # random call lists without panicking calls
        ids = [r.choice([r.randint(1, 22), r.choice([3, 13, 22])]) for _ in range(r.randint(0, 12))]
        c.append("build %s" % lst(g.call(i, ok=True) for i in ids))
    for _ in range(120 * k):                              # random call lists, any arguments
        ids = [r.randint(1, 22) for _ in range(r.randint(1, 8))]
        c.append("build %s" % lst(g.call(i) for i in ids))
    # the very same call repeated (identical tags next to each other, apart, in runs), sizes that are and are not multiples of 8
    for i in (3, 13, 22):
        for n_pay in (0, 3, 8, 13, 16):
            if i == 3:
                a = lst([3, 4096, 8192, hx(b"m" * n_pay)])
            elif i == 13:
                a = lst([13, 3, 1, hx(bytes(range(1, n_pay + 1)))])
            else:
                a = lst([22, 0x1337, hx(bytes(range(1, n_pay + 1)))])
            other = g.call(i, ok=True)
            for pat in ([a, a], [a, a, a], [a, other, a], [a, a, other, other], [other, a, a, other, a]):
                c.append("build %s" % lst(pat))
    for i in (1, 2, 4, 16):                               # single-valued kinds: the same call twice is one tag
        a = g.call(i, ok=True)
        c.append("build %s" % lst([a, a]))
    # structures larger than 64 KiB and 1 MiB (one large custom / network tag; many modules)
    c.append("build %s" % lst([lst([22, 0x1337, hx(bytes(range(256)) * 280)])]))
    c.append("build %s" % lst([lst([16, hx(b"\x5a" * 70000)]), g.call(1, ok=True)]))
    c.append("build %s" % lst([lst([3, 4096 + i, 8192 + i, hx(b"module-%d" % i)]) for i in range(200)]))
    # boundary arguments: all-zero fields, empty variable parts (a setter that drops a tag "without information")
    zero = {1: [hx(b"")], 2: [hx(b"")], 4: [0, 0], 5: [0, 0, 0], 6: [lst([])], 11: [0], 12: [0], 13: [0, 0, hx(b"")], 16: [hx(b"")],
            19: [0], 20: [0], 21: [0]}
    for i, a in sorted(zero.items()):
        c.append("build %s" % lst([lst([i] + a)]))
        c.append("build %s" % lst([g.call(i, ok=True), lst([i] + a)]))
    c.append("build %s" % lst(lst([i] + a) for i, a in sorted(zero.items())))
    for pos in (0, 1, 2):                                 # a panicking call at every position
        good = [g.call(i, ok=True) for i in (1, 4)]
        for bad in (lst([3, 5, 5, hx(b"m")]), lst([3, 6, 5, hx(b"m")]), lst([17, 0, 1, hx(bytes(40))]),
                    lst([22, 21, hx(b"x")]), lst([22, 0, "x"]), lst([22, 1, "x"])):
            calls = list(good)
            calls.insert(pos, bad)
            c.append("build %s" % lst(calls))
    return c


def gen_hbuild(g, k):
    r = g.r
    c = ["hbuild 0 [ ]", "hbuild 4 [ ]"]
    allsub = [s for m in range(0, 11) for s in itertools.combinations(range(1, 11), m)]
    for s in allsub:                                      # every subset of the 10 slots, I386
        s = list(s)
        r.shuffle(s)
        c.append("hbuild 0 %s" % lst(g.hcall(i) for i in s))
    for s in r.sample(allsub, 200 * k if 200 * k < len(allsub) else len(allsub)):   # a sample for MIPS32
        s = list(s)
        r.shuffle(s)
        c.append("hbuild 4 %s" % lst(g.hcall(i) for i in s))
    for _ in range(100 * k):                              # repeats: a later call replaces the earlier one
        ids = [r.randint(1, 10) for _ in range(r.randint(1, 14))]
        c.append("hbuild %d %s" % (r.choice([0, 4]), lst(g.hcall(i) for i in ids)))
    # every kind with all-zero and all-ones fields (a setter that treats a "no preference" value as "no tag")
    for fill in (0, 0xFFFFFFFF):
        zero = {2: [0, fill, fill, fill, fill], 3: [0, fill], 5: [0, fill, fill, fill], 8: [1, fill], 9: [1, fill],
                10: [0, fill, fill, fill, 0 if fill == 0 else 2], 4: [0, 0 if fill == 0 else 1], 1: [0, lst([fill] if fill else [])]}
        for i, a in sorted(zero.items()):
            c.append("hbuild 0 %s" % lst([lst([i] + a)]))
            c.append("hbuild 0 %s" % lst([g.hcall(i), lst([i] + a)]))          # a real tag, then the boundary one
        c.append("hbuild 0 %s" % lst(lst([i] + a) for i, a in sorted(zero.items())))
    # long headers: request lists that make the header longer than the 8192-byte search window, 32 KiB, 64 KiB
    for n in (2030, 2040, 2050, 8190, 16400):
        req = lst([r.randint(0, 1), lst(r.randint(0, 22) for _ in range(n))])
        c.append("hbuild 0 %s" % lst(["[ 1 %s ]" % req[2:-2], g.hcall(6)]))
    return c


def gen_newboxed(g, k):
    r = g.r
    c = []
    for h in (0, 1, 2, 3, 4, 5):
        for total in range(0, 41):
            for ns in range(0, 5):
                if ns == 0 and total > 0:
                    continue
                cuts = sorted(r.randint(0, total) for _ in range(max(ns - 1, 0)))
                lens = [b - a for a, b in zip([0] + cuts, cuts + [total])] if ns else []
                if h == 2:
                    hdr = bytes([r.randint(0, 10), 0, r.randint(0, 1), 0]) + g.rb(4)
                elif h == 3:                                      # total_size, reserved: any values
                    hdr = r.choice([g.rb(8), bytes(8), b"\xff" * 8, bytes(4) + b"\xef\xbe\xad\xde"])
                elif h == 5:                                      # the user-defined 12-byte header {typ, size, extra}
                    hdr = r.choice([g.rb(12), bytes(12), b"\xff" * 12])
                elif h == 4:                                      # magic, arch in {0, 4}, length, checksum: any values
                    hdr = r.choice([g.rb(4), b"\xd6\x50\x52\xe8"]) + bytes([r.choice([0, 4]), 0, 0, 0]) + g.rb(8)
                else:
                    hdr = r.choice([g.rb(8), bytes(8), b"\xff" * 8])
                for _ in range(k):
                    c.append("newboxed %d %s %s" % (h, hx(hdr), lst(hx(g.rb(n)) for n in lens)))
        c.append("newboxed %d %s %s" % (h, hx(bytes({4: 16, 5: 12}.get(h, 8))), lst([hx(g.rb(1500))])))
    return c


def gen_clone(g, k):
    c = []
    for i in DST_IDS:
        for _ in range(45 * k):
            c.append("clone %d %s" % (i, tok(g.args(i))))
    for n in range(0, 41):
        s = g.r.choice(g.string_variants(n))
        c.append("clone %d %s" % (g.r.choice([1, 2]), hx(s)))
        c.append("clone 3 %s" % tok([7, 9, hx(s)]))
        c.append("clone 22 %s" % tok([g.custom_typ(), hx(g.rb(n))]))
        c.append("clone 16 %s" % hx(g.rb(n)))
        c.append("clone 13 %s" % tok([1, 2, hx(g.rb(n))]))
    return [x.rstrip() for x in c]


BOXED_CTORS = {"1", "2", "3", "6", "8", "9", "13", "16", "17", "22", "23"}


def gen_boxed(g, k):
    """the constructors that allocate: every boxed tag kind of multiboot2 and the information request tag of
    multiboot2-header (request lists of every length 0..30)"""
    c = [x for x in gen_ctor(g, k) if x.split()[1] in BOXED_CTORS]
    c += [x for x in gen_hctor(g, k) if x.split()[1] == "1"]
    return c


GENS = OrderedDict([("ctor", gen_ctor), ("hctor", gen_hctor), ("build", gen_build), ("hbuild", gen_hbuild),
                    ("newboxed", gen_newboxed), ("clone", gen_clone), ("boxed", gen_boxed)])


def abstract(s):
    """a transcript line with its numbers and byte strings abstracted: the kind of the line"""
    s = re.sub(r"\bx[0-9a-f]*\b", "x..", s)
    s = re.sub(r"\[[0-9,]*\]", "[..]", s)
    return re.sub(r"\d+", "#", s)


def difference(w, h):
    """None when equal; otherwise the kind of the difference: the (abstracted) differing line pairs"""
    if w is None or h is None or not w or not h:
        return ("<no transcript>",)
    if w == h:
        return None
    pairs = []
    for j in range(max(len(w), len(h))):
        x = w[j] if j < len(w) else "<missing>"
        y = h[j] if j < len(h) else "<missing>"
        if x != y:
            ax, ay = abstract(x), abstract(y)
            if ax == ay:                                  # same shape, different values: keep the key only
                ax = ay = x.split(" ")[0] + " <values differ>"
            if (ax, ay) not in pairs:
                pairs.append((ax, ay))
    return tuple(pairs[:4])


def show(lines, limit=60):
    lines = lines if lines is not None else ["<no transcript>"]
    out = ["    " + (l if len(l) < 400 else l[:400] + "...") for l in lines[:limit]]
    if len(lines) > limit:
        out.append("    ... (%d more lines)" % (len(lines) - limit))
    return "\n".join(out)


def main():
    a = sys.argv[1:]
    seed = int(a[a.index("--seed") + 1]) if "--seed" in a else 1
    scale = int(a[a.index("--scale") + 1]) if "--scale" in a else 1
    keep = a[a.index("--keep") + 1] if "--keep" in a else os.path.join(vlib.BUILD, "test_build_domains.cases")
    only = a[a.index("--only") + 1].split(",") if "--only" in a else DOMAINS
    every = "--all" in a

    exes = {}
    if "--no-build" not in a:
        ok, out = vlib.coq_make()
        if not ok:   # a failure outside the model (proof files) does not prevent the extraction
            print("warning: coq make failed:\n" + out[-600:])
        ok, out = vlib.oracle_build()
        assert ok, out
    for cfg in ("dev", "rel"):
        ok, out, exe = vlib.harness_build(cfg)
        assert ok, out
        exes[cfg] = exe

    cases = []
    for i, d in enumerate(DOMAINS):
        if d in only:
            cases += GENS[d](Gen(seed * 1000 + i), scale)
    dom = [c.split(" ", 1)[0] for c in cases]
    os.makedirs(os.path.dirname(keep), exist_ok=True)
    with open(keep, "w") as f:
        f.write("\n".join(cases) + "\n")
    print("%d cases (seed %d, scale %d): %s -> %s"
          % (len(cases), seed, scale, ", ".join("%s %d" % (d, dom.count(d)) for d in DOMAINS if d in only), keep))

    bad = 0
    for cfg in ("dev", "rel"):
        prof = vlib.CONFIGS[cfg]["prof"]
        want = vlib.run_oracle(keep, prof)
        got = vlib.run_harness(exes[cfg], keep, len(cases))
        diff = [difference(want.get(i), got.get(i)) for i in range(len(cases))]
        print("[%s / oracle %d]" % (cfg, prof))
        for d in DOMAINS:
            idx = [i for i in range(len(cases)) if dom[i] == d]
            if not idx:
                continue
            nd = [i for i in idx if diff[i] is not None]
            outcomes = Counter((want.get(i) or ["?"])[0].split(" ")[1] if len((want.get(i) or ["?"])[0].split(" ")) > 1
                               else "?" for i in idx)
            print("  %-8s %5d of %5d cases agree   (model outcomes: %s)"
                  % (d, len(idx) - len(nd), len(idx), ", ".join("%s %d" % kv for kv in sorted(outcomes.items()))))
            bad += len(nd)
            kinds = OrderedDict()
            for i in nd:
                kinds.setdefault(diff[i], []).append(i)
            for kind, members in kinds.items():
                print("    DIFFERENCE in %d cases, of the kind:" % len(members))
                for x, y in kind if kind != ("<no transcript>",) else []:
                    print("        model: %s\n        crate: %s" % (x, y))
                for i in (members if every else members[:1]):
                    w, h = want.get(i), got.get(i)
                    print("      case %d: %s" % (i, cases[i] if len(cases[i]) < 600 else cases[i][:600] + "..."))
                    print("      model:\n" + show(w))
                    print("      crate:\n" + show(h))
                    if w is not None and h is not None:
                        for j in range(max(len(w), len(h))):
                            x = w[j] if j < len(w) else "<missing>"
                            y = h[j] if j < len(h) else "<missing>"
                            if x != y:
                                print("      first differing line %d:\n        model: %s\n        crate: %s" % (j, x[:400], y[:400]))
                                break
    print("RESULT: %s" % ("all transcripts agree" if bad == 0 else "%d differing case runs" % bad))
    return 0 if bad == 0 else 1


if __name__ == "__main__":
    sys.exit(main())
