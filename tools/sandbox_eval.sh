#!/bin/bash
# tools/sandbox_eval.sh <name> <patch|-> <check>...      ("-": the unchanged tree; VERIF_SEED is passed through)
# Evaluates a patch WITHOUT touching /repo: a private copy of the repository (git worktree) and a private snapshot of
# /verif (harness Cargo.toml redirected to the copy) under /tmp/sbx-<name>; prints one line per check; removes everything.
set -u
name=$1; patch=$2; shift 2
S=/tmp/sbx-$name
rm -rf $S; mkdir -p $S
git -C /repo worktree add -q --detach $S/repo HEAD || exit 2
rsync -a --exclude replays --exclude evidence /verif/ $S/verif/
mkdir -p $S/verif/replays $S/verif/evidence
sed -i "s|/repo/|$S/repo/|g" $S/verif/harness/Cargo.toml
rm -rf $S/verif/.build/tie
[ "$patch" = "-" ] || ( cd $S/repo && git apply "$patch" ) || { echo "$name: patch does not apply"; git -C /repo worktree remove --force $S/repo; rm -rf $S; exit 2; }
cd $S/verif
for c in "$@"; do
  out=$(VERIF_REPO=$S/repo ./check $c 2>&1); rc=$?
  echo "$name $c rc=$rc $(echo "$out" | grep -m1 -E '^VIOLATION' || echo "$out" | grep -m1 -E '^KNOWN')"
  if [ $rc -ne 0 ]; then mkdir -p /tmp/sbx-out; cp replays/$c-*.json /tmp/sbx-out/$name-$c.json 2>/dev/null; echo "$out" | tail -12 > /tmp/sbx-out/$name-$c.log; fi
done
git -C /repo worktree remove --force $S/repo
rm -rf $S
