#!/usr/bin/env python3
"""rs2coq: the part of the model that is *regenerated from /repo's source on every run*.

A small translator for the declarative fragment of the three crates:

  * `#[repr(C ...)] struct` declarations          -> `sdesc` values (fields with size/alignment, align attribute,
                                                       packed, unsized tail); nested structs, `#[repr(uN)]` enums and
                                                       `#[repr(transparent)]` newtypes are resolved symbolically, the
                                                       layout itself is computed inside Coq by Base/Layout.v
  * `#[repr(uN)] enum` with explicit discriminants  -> tables `list (string * N)`
  * `match` tables on integer literals / ranges     -> Gallina functions (`if v =? 0 then ... else ...`)
    and `match` tables on enum variants             -> Gallina `match`
  * `const NAME: T = <arithmetic over size_of::<T>(), literals, + * - ( )>`  -> `N` expressions
  * `const ID: TagType = TagType::X`                 -> constructors

Everything else (control flow, pointer code) is *not* translated: it is mirrored by hand in coq/Model and tied by the
correspondence run.  The generated file `Src.v` never mentions the hand-written model; `coq/Tie/*.v` proves, for all
arguments, that the hand-written model agrees with it (`forall v, src_f v = model_f v`, `sd_sig model = sd_sig src`).

The translator is syntactic and deliberately narrow: an item it cannot parse is *reported* (`notes`) and left out of
`Src.v`; the tie file that needs it then does not compile, and the check names that tie.  It never guesses.

Also harvested here: every integer literal of the non-test source (for the generators: a value the code compares
with is a value worth trying), see `literals`.

usage: rs2coq.py <repo> <out.v> <facts.json>
"""
import json
import os
import re
import sys

# --------------------------------------------------------------------------
# lexer
# --------------------------------------------------------------------------
TOK = re.compile(r"""
    (?P<ws>\s+)
  | (?P<lc>//[^\n]*)
  | (?P<bc>/\*.*?\*/)
  | (?P<str>b?"(?:\\.|[^"\\])*")
  | (?P<chr>b?'(?:\\.|[^'\\])'(?!\w))
  | (?P<life>'[A-Za-z_]\w*)
  | (?P<num>0x[0-9a-fA-F_]+(?:[iu](?:8|16|32|64|128|size))?|0b[01_]+(?:[iu](?:8|16|32|64|128|size))?|\d[\d_]*(?:[iu](?:8|16|32|64|128|size))?)
  | (?P<id>[A-Za-z_]\w*!?)
  | (?P<op>\.\.=|\.\.\.|::|=>|->|\.\.|>=|<=|==|!=|&&|\|\||<<|>>|[-+*/%^!&|=<>@.,;:\#$?~(){}\[\]])
""", re.X | re.S)


def lex(src):
    out = []
    pos = 0
    while pos < len(src):
        m = TOK.match(src, pos)
        if not m:
            raise ValueError("lex error at %d: %r" % (pos, src[pos:pos + 30]))
        k = m.lastgroup
        if k not in ("ws", "lc", "bc"):
            out.append((k, m.group(k)))
        pos = m.end()
    return out


OPEN = {"(": ")", "[": "]", "{": "}"}


def tree(toks):
    """nest the token list by brackets: a group is ('grp', open, [children])"""
    stack = [[]]
    opens = []
    for t in toks:
        if t[0] == "op" and t[1] in OPEN:
            opens.append(t[1])
            stack.append([])
        elif t[0] == "op" and t[1] in OPEN.values():
            if not opens or OPEN[opens[-1]] != t[1]:
                raise ValueError("unbalanced " + t[1])
            o = opens.pop()
            g = stack.pop()
            stack[-1].append(("grp", o, g))
        else:
            stack[-1].append(t)
    if opens:
        raise ValueError("unclosed " + opens[-1])
    return stack[0]


def intval(s):
    s = re.sub(r"[iu](8|16|32|64|128|size)$", "", s.replace("_", ""))
    return int(s, 0)


def is_op(t, v):
    return t[0] == "op" and t[1] == v


def is_id(t, v=None):
    return t[0] == "id" and (v is None or t[1] == v)


def flat(ts):
    """token tree -> text (for messages and template comparison)"""
    out = []
    for t in ts:
        if t[0] == "grp":
            out.append(t[1] + flat(t[2]) + OPEN[t[1]])
        else:
            out.append(t[1])
    return " ".join(out)


def split_top(ts, sep):
    """split a token list at top-level occurrences of op `sep`"""
    parts, cur = [], []
    for t in ts:
        if is_op(t, sep):
            parts.append(cur)
            cur = []
        else:
            cur.append(t)
    parts.append(cur)
    return parts


# --------------------------------------------------------------------------
# items
# --------------------------------------------------------------------------
class Src:
    def __init__(self):
        self.structs = {}     # name -> dict(file, repr=[...], fields=[(name, type tokens)], tuple=bool, generic=bool)
        self.enums = {}       # name -> dict(file, repr, variants=[(name, value or None)])
        self.impls = []       # dict(file, trait, ty, body)
        self.consts = {}      # (file, name) -> expr tokens   (module-level consts)
        self.literals = set()
        self.aliases = {}     # `use path::A as B` : B -> A
        self.bitflags = {}    # bitflags! struct Name: uN -> N bytes
        self.notes = []


def strip_tests(ts):
    """drop `#[cfg(test)] mod x { ... }`, any `mod tests|test_utils { }`, and `#[cfg(test)]` items"""
    out = []
    i = 0
    while i < len(ts):
        t = ts[i]
        if is_id(t, "mod") and i + 2 < len(ts) and ts[i + 1][0] == "id" and ts[i + 2][0] == "grp" and \
                ts[i + 1][1] in ("tests", "test"):
            # remove preceding attributes already emitted (harmless to leave them)
            i += 3
            continue
        out.append(t)
        i += 1
    return out


def collect_literals(ts, acc):
    for t in ts:
        if t[0] == "grp":
            collect_literals(t[2], acc)
        elif t[0] == "num":
            try:
                acc.add(intval(t[1]))
            except ValueError:
                pass


def attrs_before(ts, i):
    """attributes `#[...]` directly preceding position i (skipping visibility), as flat strings"""
    out = []
    j = i - 1
    while j >= 0:
        if ts[j][0] == "grp" and ts[j][1] == "[" and j >= 1 and is_op(ts[j - 1], "#"):
            out.append(flat(ts[j][2]))
            j -= 2
        elif is_id(ts[j], "pub") or (ts[j][0] == "grp" and ts[j][1] == "(" and j >= 1 and is_id(ts[j - 1], "pub")):
            j -= 1
        else:
            break
    return out


def parse_file(S, path, rel):
    src = open(path, encoding="utf-8").read()
    ts = strip_tests(tree(lex(src)))
    collect_literals(ts, S.literals)
    walk_items(S, ts, rel)


def skip_generics(ts, i):
    """ts[i] is '<': return the index after the matching '>' (angle brackets are not grouped by the lexer)"""
    depth = 0
    while i < len(ts):
        if is_op(ts[i], "<"):
            depth += 1
        elif is_op(ts[i], ">"):
            depth -= 1
            if depth == 0:
                return i + 1
        elif is_op(ts[i], ">>"):
            depth -= 2
            if depth <= 0:
                return i + 1
        i += 1
    return i


def walk_items(S, ts, rel):
    i = 0
    n = len(ts)
    while i < n:
        t = ts[i]
        if is_id(t, "struct") and i + 1 < n and ts[i + 1][0] == "id":
            name = ts[i + 1][1]
            at = attrs_before(ts, i)
            j = i + 2
            generic = False
            if j < n and is_op(ts[j], "<"):
                generic = True
                j = skip_generics(ts, j)
            # optional where clause: skip to the body
            while j < n and not (ts[j][0] == "grp" and ts[j][1] in "{(") and not is_op(ts[j], ";"):
                j += 1
            if j < n and ts[j][0] == "grp":
                body = ts[j][2]
                tup = ts[j][1] == "("
                fields = []
                for part in split_top(body, ","):
                    part = strip_attrs_vis(part)
                    if not part:
                        continue
                    if tup:
                        fields.append((str(len(fields)), part))
                    else:
                        if len(part) >= 3 and part[0][0] == "id" and is_op(part[1], ":"):
                            fields.append((part[0][1], part[2:]))
                        else:
                            S.notes.append("%s: struct %s: field not understood: %s" % (rel, name, flat(part)[:80]))
                S.structs.setdefault(name, dict(file=rel, attrs=at, fields=fields, tuple=tup, generic=generic))
            i = j + 1
            continue
        if is_id(t, "enum") and i + 1 < n and ts[i + 1][0] == "id":
            name = ts[i + 1][1]
            at = attrs_before(ts, i)
            j = i + 2
            if j < n and is_op(ts[j], "<"):
                j = skip_generics(ts, j)
            if j < n and ts[j][0] == "grp" and ts[j][1] == "{":
                variants = []
                for part in split_top(ts[j][2], ","):
                    part = strip_attrs_vis(part)
                    if not part:
                        continue
                    vname = part[0][1]
                    val = None
                    payload = len(part) > 1 and part[1][0] == "grp"
                    k = [x for x in range(len(part)) if is_op(part[x], "=")]
                    if k and k[0] + 1 < len(part) and part[k[0] + 1][0] == "num":
                        val = intval(part[k[0] + 1][1])
                    variants.append((vname, val, payload))
                S.enums.setdefault(name, dict(file=rel, attrs=at, variants=variants))
            i = j + 1
            continue
        if is_id(t, "fn") and i + 1 < n and ts[i + 1][0] == "id":
            # a free function: skip its signature (generics may contain `const N: usize`) and its body
            j = i + 2
            while j < n and not (ts[j][0] == "grp" and ts[j][1] == "{") and not is_op(ts[j], ";"):
                j += 1
            i = j + 1
            continue
        if is_id(t, "impl"):
            j = i + 1
            if j < n and is_op(ts[j], "<"):
                j = skip_generics(ts, j)
            hdr = []
            while j < n and not (ts[j][0] == "grp" and ts[j][1] == "{"):
                hdr.append(ts[j])
                j += 1
            if j < n:
                trait, ty = None, hdr
                for k, h in enumerate(hdr):
                    if is_id(h, "for"):
                        trait, ty = hdr[:k], hdr[k + 1:]
                        break
                S.impls.append(dict(file=rel, trait=flat(trait) if trait is not None else None, ty=flat(ty), body=ts[j][2]))
                # nested items inside impls are not needed
            i = j + 1
            continue
        if is_id(t, "const") and i + 3 < n and ts[i + 1][0] == "id" and is_op(ts[i + 2], ":"):
            # module-level constant
            j = i + 3
            while j < n and not is_op(ts[j], "="):
                j += 1
            k = j + 1
            while k < n and not is_op(ts[k], ";"):
                k += 1
            S.consts[(rel, ts[i + 1][1])] = ts[j + 1:k]
            i = k + 1
            continue
        if is_id(t, "bitflags!") and i + 1 < n and ts[i + 1][0] == "grp":
            b = ts[i + 1][2]
            for k in range(len(b) - 3):
                if is_id(b[k], "struct") and b[k + 1][0] == "id" and is_op(b[k + 2], ":") and b[k + 3][0] == "id" \
                        and b[k + 3][1] in PRIM:
                    S.bitflags[b[k + 1][1]] = PRIM[b[k + 3][1]]
            i += 2
            continue
        if is_id(t, "use"):
            j = i + 1
            while j < n and not is_op(ts[j], ";"):
                j += 1
            collect_aliases(S, ts[i + 1:j])
            i = j + 1
            continue
        if is_id(t, "mod") and i + 2 < n and ts[i + 2][0] == "grp" and ts[i + 2][1] == "{":
            walk_items(S, ts[i + 2][2], rel)     # inline modules (e.g. `mod primitive_conversion_impls`)
            i += 3
            continue
        i += 1


def collect_aliases(S, ts):
    for k, t in enumerate(ts):
        if t[0] == "grp":
            collect_aliases(S, t[2])
        elif is_id(t, "as") and k >= 1 and k + 1 < len(ts) and ts[k - 1][0] == "id" and ts[k + 1][0] == "id":
            S.aliases[ts[k + 1][1]] = ts[k - 1][1]


def strip_attrs_vis(part):
    out = list(part)
    changed = True
    while changed and out:
        changed = False
        if len(out) >= 2 and is_op(out[0], "#") and out[1][0] == "grp":
            out = out[2:]
            changed = True
        elif is_id(out[0], "pub"):
            out = out[1:]
            if out and out[0][0] == "grp" and out[0][1] == "(":
                out = out[1:]
            changed = True
    return out


# --------------------------------------------------------------------------
# types -> (size expr, align expr) as Coq terms
# --------------------------------------------------------------------------
PRIM = {"u8": 1, "i8": 1, "bool": 1, "u16": 2, "i16": 2, "u32": 4, "i32": 4, "u64": 8, "i64": 8, "usize": 8, "isize": 8}


def coq_name(n):
    return re.sub(r"\W", "_", n)


def repr_of(attrs):
    r = dict(c=False, packed=False, align=None, transparent=False, int=None)
    for a in attrs:
        m = re.match(r"repr \((.*)\)$", a)
        if not m:
            continue
        inner = m.group(1)
        if re.search(r"\bC\b", inner):
            r["c"] = True
        if "packed" in inner:
            r["packed"] = True
        if "transparent" in inner:
            r["transparent"] = True
        ma = re.search(r"align \(\s*(\d+)\s*\)", inner)
        if ma:
            r["align"] = int(ma.group(1))
        mi = re.search(r"\b([ui])(8|16|32|64)\b", inner)
        if mi:
            r["int"] = int(mi.group(2)) // 8
    return r


class Untranslatable(Exception):
    pass


def type_sa(S, ty):
    """(size, align) of a sized field type, as Coq N expressions"""
    ty = [t for t in ty]
    if len(ty) == 1 and ty[0][0] == "grp" and ty[0][1] == "[":
        inner = ty[0][2]
        parts = split_top(inner, ";")
        if len(parts) == 2:
            s, a = type_sa(S, parts[0])
            n = const_expr(S, parts[1], None)
            return "(%s * %s)" % (n, s), a
        raise Untranslatable("unsized slice in sized position: " + flat(ty))
    if len(ty) == 1 and ty[0][0] == "grp" and ty[0][1] == "(":
        # a homogeneous tuple (T, T, ..): laid out like [T; n] by rustc (unspecified by the Reference; recorded in DESIGN)
        parts = [p for p in split_top(ty[0][2], ",") if p]
        sas = [type_sa(S, p) for p in parts]
        if sas and all(x == sas[0] for x in sas):
            return "(%d * %s)" % (len(sas), sas[0][0]), sas[0][1]
        raise Untranslatable("heterogeneous tuple: " + flat(ty))
    # path: take the last identifier segment; generic arguments are not supported except PhantomData
    ids = [t for t in ty if t[0] == "id"]
    if not ids:
        raise Untranslatable("type: " + flat(ty))
    if any(is_id(t, "PhantomData") for t in ty):
        return "0", "1"
    if any(is_op(t, "<") for t in ty) or any(is_op(t, "*") or is_op(t, "&") for t in ty):
        raise Untranslatable("generic/pointer type: " + flat(ty))
    name = ids[-1][1]
    if name not in S.structs and name not in S.enums and name in S.aliases:
        name = S.aliases[name]
    if name in S.bitflags:
        return str(S.bitflags[name]), str(S.bitflags[name])
    if name in PRIM:
        return str(PRIM[name]), str(PRIM[name])
    if name in S.enums:
        r = repr_of(S.enums[name]["attrs"])
        if r["int"]:
            return str(r["int"]), str(r["int"])
        raise Untranslatable("enum without integer repr: " + name)
    if name in S.structs:
        st = S.structs[name]
        r = repr_of(st["attrs"])
        if r["transparent"] and len(st["fields"]) >= 1:
            return type_sa(S, st["fields"][0][1])
        if st["generic"]:
            raise Untranslatable("generic struct: " + name)
        return "(sd_size_of src_struct_%s)" % coq_name(name), "(sd_align src_struct_%s)" % coq_name(name)
    raise Untranslatable("unknown type: " + name)


def const_expr(S, ts, selfname, rel=None):
    """arithmetic over literals, size_of::<T>(), + * - and parentheses -> Coq N expression"""
    ts = list(ts)
    out = []
    i = 0
    while i < len(ts):
        t = ts[i]
        if t[0] == "num":
            out.append(str(intval(t[1])))
            i += 1
        elif t[0] == "op" and t[1] in "+*-":
            out.append(t[1])
            i += 1
        elif t[0] == "grp" and t[1] == "(":
            out.append("(" + const_expr(S, t[2], selfname, rel) + ")")
            i += 1
        elif is_id(t, "as") and i + 1 < len(ts) and ts[i + 1][0] == "id":
            i += 2      # `as usize` / `as u32` on constants that fit: identity
        elif t[0] == "id":
            # path ... size_of :: < T > ( )
            j = i
            path = []
            while j < len(ts) and (ts[j][0] == "id" or is_op(ts[j], "::")):
                if ts[j][0] == "id":
                    path.append(ts[j][1])
                j += 1
            if path and path[-1] == "size_of" and j < len(ts) and is_op(ts[j], "<"):
                k = skip_generics(ts, j)
                tyt = ts[j + 1:k - 1]
                if len(tyt) == 1 and is_id(tyt[0], "Self"):
                    if selfname is None:
                        raise Untranslatable("Self outside an impl")
                    tyt = [("id", selfname)]
                s, _ = type_sa(S, tyt)
                out.append(s)
                if k < len(ts) and ts[k][0] == "grp" and ts[k][1] == "(":
                    k += 1
                i = k
            elif len(path) == 2 and path[0] == "Self" and selfname and ("impl", selfname, path[1]) in S.implconsts:
                out.append("src_const_%s_%s" % (coq_name(selfname), path[1]))
                i = j
            elif len(path) == 1 and rel and (rel, path[0]) in S.consts:
                out.append("(" + const_expr(S, S.consts[(rel, path[0])], selfname, rel) + ")")
                i = j
            else:
                raise Untranslatable("constant expression: " + flat(ts))
        else:
            raise Untranslatable("constant expression: " + flat(ts))
    return " ".join(out)


# --------------------------------------------------------------------------
# generation
# --------------------------------------------------------------------------
def gen_struct(S, name):
    st = S.structs[name]
    r = repr_of(st["attrs"])
    if st["generic"] or not (r["c"] or r["transparent"]):
        return None
    fields = []
    tail = "None"
    fl = st["fields"]
    for idx, (fname, ty) in enumerate(fl):
        if idx == len(fl) - 1 and len(ty) == 1 and ty[0][0] == "grp" and ty[0][1] == "[" and \
                len(split_top(ty[0][2], ";")) == 1:
            s, a = type_sa(S, ty[0][2])
            if r["packed"]:
                a = "1"
            tail = "Some (%s, %s)" % (s, a)
            continue
        s, a = type_sa(S, ty)
        if r["packed"]:
            a = "1"
        fields.append('fStruct "%s" %s %s' % (fname, s, a))
    al = r["align"] or 1
    return "Definition src_struct_%s : sdesc :=\n  {| sd_fields := [%s];\n     sd_attr_align := %d; sd_tail := %s |}." % (
        coq_name(name), ";\n                   ".join(fields), al, tail)


def topo_structs(S):
    """structs in dependency order (a struct after the structs its fields mention)"""
    order, seen = [], set()

    def visit(n, stack=()):
        if n in seen or n not in S.structs or n in stack:
            return
        for _, ty in S.structs[n]["fields"]:
            for t in flatten_ids(ty):
                visit(t, stack + (n,))
        seen.add(n)
        order.append(n)
    for n in sorted(S.structs):
        visit(n)
    return order


def flatten_ids(ts):
    out = []
    for t in ts:
        if t[0] == "grp":
            out += flatten_ids(t[2])
        elif t[0] == "id":
            out.append(t[1])
    return out


def find_impl(S, trait_re, ty_re, file_re=None):
    for im in S.impls:
        if im["trait"] is None:
            if trait_re is not None:
                continue
        elif trait_re is None or not re.fullmatch(trait_re, im["trait"]):
            continue
        if not re.fullmatch(ty_re, im["ty"]):
            continue
        if file_re and not re.search(file_re, im["file"]):
            continue
        yield im


def find_fn(body, name):
    for i, t in enumerate(body):
        if is_id(t, "fn") and i + 1 < len(body) and is_id(body[i + 1], name):
            j = i + 2
            while j < len(body) and not (body[j][0] == "grp" and body[j][1] == "{"):
                j += 1
            if j < len(body):
                return body[j][2]
    return None


def body_shape(body):
    """the body is `match e { }` | `let x = match e { } ; x . into ( )`: returns "plain"/"let", else None"""
    b = list(body)
    if len(b) >= 3 and is_id(b[0], "match") and b[-1][0] == "grp" and b[-1][1] == "{" and \
            not any(t[0] == "grp" and t[1] == "{" for t in b[1:-1]):
        return "plain"
    if len(b) >= 6 and is_id(b[0], "let") and b[1][0] == "id" and is_op(b[2], "=") and is_id(b[3], "match"):
        x = b[1][1]
        k = [i for i, t in enumerate(b) if t[0] == "grp" and t[1] == "{"]
        if k and flat(b[k[0] + 1:]) == "; %s . into ()" % x:
            return "let"
    return None


def find_match(ts):
    """first `match <scrutinee> { arms }` in a token list (searching nested groups): (scrutinee tokens, arms)"""
    for i, t in enumerate(ts):
        if is_id(t, "match"):
            j = i + 1
            while j < len(ts) and not (ts[j][0] == "grp" and ts[j][1] == "{"):
                j += 1
            if j < len(ts):
                return ts[i + 1:j], parse_arms(ts[j][2])
        if t[0] == "grp":
            r = find_match(t[2])
            if r:
                return r
    return None


def parse_arms(ts):
    arms = []
    i = 0
    n = len(ts)
    while i < n:
        pat = []
        while i < n and not is_op(ts[i], "=>"):
            pat.append(ts[i])
            i += 1
        i += 1
        if i >= n:
            break
        if ts[i][0] == "grp" and ts[i][1] == "{":
            expr = ts[i][2]
            block = True
            i += 1
            if i < n and is_op(ts[i], ","):
                i += 1
        else:
            expr = []
            block = False
            while i < n and not is_op(ts[i], ","):
                expr.append(ts[i])
                i += 1
            i += 1
        if block:
            # value of a block: the tokens after the last top-level `;`
            expr = split_top(expr, ";")[-1]
        arms.append((pat, expr))
    return arms


def pat_to_cond(pat, var):
    """integer pattern -> (Coq boolean condition over `var`, binder name or None)"""
    alts = split_top(pat, "|")
    conds = []
    for a in alts:
        if len(a) == 1 and a[0][0] == "num":
            conds.append("(%s =? %d)" % (var, intval(a[0][1])))
        elif len(a) == 3 and a[0][0] == "num" and is_op(a[1], "..=") and a[2][0] == "num":
            conds.append("((%d <=? %s) && (%s <=? %d))" % (intval(a[0][1]), var, var, intval(a[2][1])))
        elif len(a) == 3 and a[0][0] == "num" and is_op(a[1], "..") and a[2][0] == "num":
            conds.append("((%d <=? %s) && (%s <? %d))" % (intval(a[0][1]), var, var, intval(a[2][1])))
        elif len(a) == 1 and a[0][0] == "id" and len(alts) == 1:
            return None, a[0][1]
        else:
            raise Untranslatable("pattern: " + flat(pat))
    return " || ".join(conds) if len(conds) > 1 else conds[0], None


def variant_expr(expr, var, binder, cmap):
    """`Self::End`, `TagType::Custom(c)`, `Ok(Self::RGB)`, `Err(UnknownFramebufferType(val))` -> Coq term"""
    e = list(expr)
    if e and is_id(e[0], "Ok") and len(e) == 2 and e[1][0] == "grp":
        return "Val (%s)" % variant_expr(e[1][2], var, binder, cmap)
    if e and is_id(e[0], "Err") and len(e) == 2 and e[1][0] == "grp":
        inner = e[1][2]
        ids = [t[1] for t in inner if t[0] == "id"]
        if ids and ids[0] in cmap.get("__err__", {}):
            arg = [t for t in inner if t[0] == "grp"]
            a = flat(arg[0][2]) if arg else ""
            if a == binder:
                a = var
            return "Err (%s %s)" % (cmap["__err__"][ids[0]], a)
        raise Untranslatable("error expression: " + flat(expr))
    ids = [t[1] for t in e if t[0] == "id"]
    if len(e) == 1 and e[0][0] == "num":
        return str(intval(e[0][1]))
    if len(e) == 1 and e[0][0] == "id":
        return var if e[0][1] == binder else e[0][1]
    if not ids:
        raise Untranslatable("expression: " + flat(expr))
    # path A::B or A::B(arg)
    last_path = [t for t in e if t[0] != "grp"]
    vname = [t[1] for t in last_path if t[0] == "id"][-1]
    if vname not in cmap:
        raise Untranslatable("unknown variant %s in %s" % (vname, flat(expr)))
    arg = [t for t in e if t[0] == "grp" and t[1] == "("]
    if arg:
        a = flat(arg[0][2])
        if a == binder:
            a = var
        elif not re.fullmatch(r"\w+", a):
            raise Untranslatable("variant argument: " + flat(expr))
        return "%s %s" % (cmap[vname], a)
    return cmap[vname]


def gen_int_match(name, arms, rty, cmap):
    """match on an integer scrutinee -> if-chain"""
    var = "v"
    lines = []
    closed = False
    for pat, expr in arms:
        cond, binder = pat_to_cond(pat, var)
        if cond is None:
            lines.append("  %s" % variant_expr(expr, var, binder if binder != "_" else None, cmap))
            closed = True
            break
        lines.append("  if %s then %s else" % (cond, variant_expr(expr, var, None, cmap)))
    if not closed:
        raise Untranslatable(name + ": no catch-all arm")
    return "Definition %s (v : N) : %s :=\n%s." % (name, rty, "\n".join(lines))


def gen_enum_match(name, arms, aty, rty, cmap):
    """match on enum variants -> Gallina match (Coq checks exhaustiveness and redundancy)"""
    lines = []
    for pat, expr in arms:
        p = [t for t in pat if t[0] != "grp"]
        ids = [t[1] for t in p if t[0] == "id"]
        if not ids:
            raise Untranslatable("pattern: " + flat(pat))
        if len(ids) == 1 and len(pat) == 1 and ids[0] not in cmap:
            # binder / wildcard
            lines.append("  | _ => %s" % variant_expr(expr, "v", None, cmap))
            continue
        vname = ids[-1]
        if vname not in cmap:
            raise Untranslatable("unknown variant in pattern: " + flat(pat))
        arg = [t for t in pat if t[0] == "grp"]
        if arg and arg[0][1] == "(":
            b = flat(arg[0][2])
            if not re.fullmatch(r"\w+", b):
                raise Untranslatable("pattern: " + flat(pat))
            lines.append("  | %s %s => %s" % (cmap[vname], b, variant_expr(expr, b, b, cmap)))
        elif arg:
            lines.append("  | %s => %s" % (cmap[vname], variant_expr(expr, "v", None, cmap)))   # `Variant { .. }`
        else:
            lines.append("  | %s => %s" % (cmap[vname], variant_expr(expr, "v", None, cmap)))
    return "Definition %s (v : %s) : %s :=\n  match v with\n%s\n  end." % (name, aty, rty, "\n".join(lines))


TAGTYPE_VARIANTS = ["End", "Cmdline", "BootLoaderName", "Module", "BasicMeminfo", "Bootdev", "Mmap", "Vbe", "Framebuffer",
                    "ElfSections", "Apm", "Efi32", "Efi64", "Smbios", "AcpiV1", "AcpiV2", "Network", "EfiMmap", "EfiBs",
                    "Efi32Ih", "Efi64Ih", "LoadBaseAddr", "Custom"]
CMAP_TAGTYPE = {v: v for v in TAGTYPE_VARIANTS}
CMAP_AREA = {"Available": "Available", "Reserved": "Reserved", "AcpiAvailable": "AcpiAvailable",
             "ReservedHibernate": "ReservedHibernate", "Defective": "Defective", "Custom": "ACustom"}
ELF_VARIANTS = ["Unused", "ProgramSection", "LinkerSymbolTable", "StringTable", "RelaRelocation", "SymbolHashTable",
                "DynamicLinkingTable", "Note", "Uninitialized", "RelRelocation", "Reserved", "DynamicLoaderSymbolTable",
                "EnvironmentSpecific", "ProcessorSpecific"]
CMAP_ELF = {v: "E" + v for v in ELF_VARIANTS}
CMAP_FB = {"Indexed": "FbIndexed", "RGB": "FbRGB", "Text": "FbText", "__err__": {"UnknownFramebufferType": "EUnknownFb"}}


def generate(repo):
    S = Src()
    S.implconsts = {}
    files = []
    for crate in ("multiboot2-common", "multiboot2", "multiboot2-header"):
        d = os.path.join(repo, crate, "src")
        for root, _, fs in os.walk(d):
            for f in sorted(fs):
                if f.endswith(".rs") and f != "test_utils.rs":
                    files.append(os.path.join(root, f))
    for p in sorted(files):
        rel = os.path.relpath(p, repo)
        try:
            parse_file(S, p, rel)
        except ValueError as e:
            S.notes.append("%s: not lexed/parsed: %s" % (rel, e))

    out = []
    emitted = []
    out.append("(* GENERATED by tools/rs2coq.py from the working tree of the repository - do not edit.\n"
               "   Declarations and tables of the three crates, translated syntactically; see coq/Tie. *)")
    out.append("Require Import Bytes Outcome Layout TagType.\nFrom Coq Require Import String List NArith Bool.\n"
               "Import ListNotations.\nOpen Scope string_scope.\nOpen Scope N_scope.\n")

    # ---- structs -------------------------------------------------------------
    for name in topo_structs(S):
        try:
            g = gen_struct(S, name)
        except Untranslatable as e:
            S.notes.append("struct %s (%s): %s" % (name, S.structs[name]["file"], e))
            # a struct that cannot be translated makes its dependants untranslatable too
            S.structs[name]["generic"] = True
            continue
        if g:
            out.append("(* %s *)\n%s\n" % (S.structs[name]["file"], g))
            emitted.append("src_struct_" + coq_name(name))
        else:
            S.structs[name]["generic"] = True if not repr_of(S.structs[name]["attrs"])["transparent"] else S.structs[name]["generic"]

    # ---- repr(uN) enums with explicit discriminants --------------------------------
    for name in sorted(S.enums):
        en = S.enums[name]
        r = repr_of(en["attrs"])
        if r["int"] and all(v[1] is not None for v in en["variants"]) and en["variants"]:
            out.append("(* %s : #[repr(u%d)] *)\nDefinition src_enum_%s : list (string * N) :=\n  [%s].\n"
                       "Definition src_enum_%s_width : N := %d.\n" % (
                           en["file"], r["int"] * 8, coq_name(name),
                           "; ".join('("%s", %d)' % (v[0], v[1]) for v in en["variants"]), coq_name(name), r["int"]))
            emitted += ["src_enum_" + coq_name(name)]

    # ---- impl constants: BASE_SIZE, ID, TYPE, MAGIC ------------------------------------
    for im in S.impls:
        body = im["body"]
        tyname = re.sub(r"\s*<.*", "", im["ty"]).split("::")[-1].strip()
        for i, t in enumerate(body):
            if is_id(t, "const") and i + 2 < len(body) and body[i + 1][0] == "id" and is_op(body[i + 2], ":"):
                cname = body[i + 1][1]
                j = i + 3
                while j < len(body) and not is_op(body[j], "="):
                    j += 1
                cty = flat(body[i + 3:j])
                k = j + 1
                while k < len(body) and not is_op(body[k], ";"):
                    k += 1
                expr = body[j + 1:k]
                # a constant may be declared twice for one type: inherent (`impl X`) and through a trait
                key = "src_const_%s_%s_%s" % (coq_name(tyname), cname, "trait" if im["trait"] else "inherent")
                if key in emitted:
                    S.notes.append("const %s::%s declared more than once in the same way (%s)" % (tyname, cname, im["file"]))
                    continue
                try:
                    if cty in ("usize", "u32", "u64", "u16", "u8"):
                        e = const_expr(S, expr, tyname, im["file"])
                        out.append("(* %s: impl %s%s: const %s *)\nDefinition %s : N := %s.\n" % (
                            im["file"], (im["trait"] + " for ") if im["trait"] else "", im["ty"], cname, key, e))
                        emitted.append(key)
                        S.implconsts[("impl", tyname, cname)] = key
                    elif cty == "TagType":
                        e = variant_expr(expr, "v", None, CMAP_TAGTYPE)
                        out.append("(* %s: impl %s%s: const %s *)\nDefinition %s : tagtype := %s.\n" % (
                            im["file"], (im["trait"] + " for ") if im["trait"] else "", im["ty"], cname, key, e))
                        emitted.append(key)
                    elif cty == "HeaderTagType":
                        ids = [x[1] for x in expr if x[0] == "id"]
                        out.append("(* %s: impl %s%s: const %s *)\nDefinition %s : string := \"%s\".\n" % (
                            im["file"], (im["trait"] + " for ") if im["trait"] else "", im["ty"], cname, key, ids[-1]))
                        emitted.append(key)
                except Untranslatable as e:
                    S.notes.append("const %s::%s (%s): %s" % (tyname, cname, im["file"], e))

    # module-level MAGIC constants
    for (rel, cname), expr in sorted(S.consts.items()):
        if cname in ("MAGIC", "ALIGNMENT") and len(expr) == 1 and expr[0][0] == "num":
            crate = rel.split("/")[0].replace("-", "_")
            out.append("(* %s *)\nDefinition src_%s_%s : N := %d.\n" % (rel, crate, cname, intval(expr[0][1])))
            emitted.append("src_%s_%s" % (crate, cname))

    # ---- conversion tables ---------------------------------------------------------------
    def conv(defname, trait_re, ty_re, fn, kind, rty, cmap, aty=None, file_re=None, scrut=r"value"):
        ims = list(find_impl(S, trait_re, ty_re, file_re))
        if not ims:
            S.notes.append("%s: impl %s for %s not found" % (defname, trait_re, ty_re))
            return
        body = find_fn(ims[0]["body"], fn)
        if body is None:
            S.notes.append("%s: fn %s not found" % (defname, fn))
            return
        m = find_match(body)
        if not m:
            S.notes.append("%s: no match table in fn %s (rewritten?)" % (defname, fn))
            return
        # the function must BE the table: `match <allowed scrutinee> { .. }`, optionally bound by `let x =` and
        # followed by `x.into()`; anything else (casts, masks, statements in front, post-processing) is not translated
        shape = body_shape(body)
        if shape is None or not re.fullmatch(scrut, flat(m[0])):
            S.notes.append("%s: fn %s is not a plain match table over %s (scrutinee `%s`)" % (defname, fn, scrut, flat(m[0])))
            return
        try:
            if kind == "int":
                g = gen_int_match(defname, m[1], rty, cmap)
            else:
                g = gen_enum_match(defname, m[1], aty, rty, cmap)
        except Untranslatable as e:
            S.notes.append("%s: %s" % (defname, e))
            return
        out.append("(* %s: impl %s for %s, fn %s, match %s *)\n%s\n" % (ims[0]["file"], ims[0]["trait"], ims[0]["ty"], fn,
                                                                       flat(m[0]), g))
        emitted.append(defname)

    conv("src_tagtype_of_u32", r"From < u32 >", r"TagType", "from", "int", "tagtype", CMAP_TAGTYPE)
    conv("src_u32_of_tagtype", r"From < TagType >", r"u32", "from", "enum", "N", CMAP_TAGTYPE, aty="tagtype")
    conv("src_areatype_of_id", r"From < MemoryAreaTypeId >", r"MemoryAreaType", "from", "int", "areatype", CMAP_AREA, scrut=r"value \. 0")
    conv("src_id_of_areatype", r"From < MemoryAreaType >", r"MemoryAreaTypeId", "from", "enum", "N", CMAP_AREA, aty="areatype")
    conv("src_elf_section_type", None, r"ElfSection < '_ >", "section_type", "int", "elftype", CMAP_ELF,
         scrut=r"self \. get \(\) \. typ \(\)")
    conv("src_fb_try_from", r"TryFrom < u8 >", r"FramebufferTypeId", "try_from", "int", "res fbtypeid", CMAP_FB)

    return S, "\n".join(out) + "\n", emitted


def main():
    repo, outv, facts = sys.argv[1:4]
    S, text, emitted = generate(repo)
    tmp = outv + ".tmp"
    with open(tmp, "w") as f:
        f.write(text)
    if not os.path.exists(outv) or open(outv).read() != text:
        os.replace(tmp, outv)
    else:
        os.remove(tmp)
    json.dump(dict(emitted=emitted, notes=S.notes, literals=sorted(x for x in S.literals if 0 <= x < 2 ** 64)),
              open(facts, "w"), indent=1)
    for n in S.notes:
        print("note:", n)
    print("rs2coq: %d definitions, %d notes, %d literals" % (len(emitted), len(S.notes), len(S.literals)))


if __name__ == "__main__":
    main()
