#!/usr/bin/env python3
"""Differential test of the domain `mbi` (full dump of a boot information):
model (extracted oracle) against the real crate (harness), both profiles.

usage: test_mbi_dump.py [--n N] [--seed S] [--keep FILE] [--no-build] [--all]
  --n N       number of random cases in addition to the hand-written ones (default 1000)
  --seed S    seed of the random generator (default 1)
  --keep FILE write the case file there (default: .build/test_mbi_dump.cases)
  --all       report every differing case (default: the first one per configuration)
Exit status 0 iff all transcripts agree in both configurations."""
import os
import random
import sys
from collections import Counter

sys.path.insert(0, os.path.dirname(os.path.abspath(__file__)))
import vlib  # noqa: E402
from mb2enc import *  # noqa: E402,F401,F403

STRINGS = [b"", b"a", b"hello", b"GRUB 2.02~beta3-5", b"--test cmdline-option", b"ab\0cd", b"\0\0",
           "h\u00e9llo \u20ac \U0001d11e".encode(), b"\xff\xfe", b"\xc3", b"ok\xe2\x82", b"\xed\xa0\x80", b"\xf4\x90\x80\x80",
           b"\xc0\xaf", b"\xe0\x9f\x80", b"\xf0\x8f\x80\x80", b"\xef\xbf\xbf", b"\xf4\x8f\xbf\xbf", b"x" * 37, b"\x80"]
SIGS = [b"RSD PTR ", b"RSD PTR\xff", b"\xc3\xa9SD PTR", b"\0\0\0\0\0\0\0\0", b"rsd ptr ", b"RSD PT\xc3\xa9"]
OEMS = [b"OEMID ", b"BOCHS ", b"\xff\xff\xff\xff\xff\xff", b"\xe2\x82\xacabc", b"\0\0\0\0\0\0", b"abcd\xc3\xa9"]
ELF_TYPES = [0, 0, 1, 2, 3, 4, 5, 6, 7, 8, 9, 10, 11, 12, 0x5FFFFFFF, 0x60000000, 0x6FFFFFFF, 0x70000000, 0x7FFFFFFF,
             0x80000000, 0xFFFFFFFF]
U32S = [0, 1, 2, 7, 8, 24, 40, 0x1000, 0x7FFFFFFF, 0x80000000, 0xFFFFFFFF, 0xDEADBEEF]
U64S = [0, 1, 0x1000, 0xFFFFFFFF, 0x100000000, 0x7FFFFFFFFFFFFFFF, 0x8000000000000000, 0xFFFFFFFFFFFFFFFF,
        0xFFFFFFFFFFFFF000]


class Gen:
    def __init__(self, seed):
        self.r = random.Random(seed)

    def u(self, bits):
        r = self.r
        if bits == 32 and r.random() < 0.4:
            return r.choice(U32S)
        if bits == 64 and r.random() < 0.4:
            return r.choice(U64S)
        return r.getrandbits(bits)

    def rb(self, n):
        return bytes(self.r.getrandbits(8) for _ in range(n))

    def size_kw(self, natural):
        """mostly the natural size; otherwise a wrong size field, coherent (payload cut/extended) or not"""
        r = self.r
        x = r.random()
        if x < 0.85:
            return {}
        delta = r.choice([-24, -16, -9, -8, -7, -4, -3, -2, -1, 1, 2, 3, 4, 7, 8, 9, 16, 24, 40])
        size = natural + delta
        if x > 0.97:
            size = r.choice([0, 1, 4, 7, 8, 9, 12, 16, 20])
        size = max(size, 0)
        return dict(size=size, exact=r.random() < 0.8, fill=r.choice([0, 0, 0xAA, 0xFF]))

    # ---- one generator per tag kind ------------------------------------------
    def string(self):
        r = self.r
        return r.choice(STRINGS), r.random() < 0.8

    def cmdline(self):
        s, nul = self.string()
        return t_cmdline(s, nul, **self.size_kw(8 + len(s) + nul))

    def bootloader(self):
        s, nul = self.string()
        return t_bootloader(s, nul, **self.size_kw(8 + len(s) + nul))

    def module(self):
        s, nul = self.string()
        a, b = self.u(32), self.u(32)
        if self.r.random() < 0.5:
            a, b = min(a, b), max(a, b)
        return t_module(a, b, s, nul, **self.size_kw(16 + len(s) + nul))

    def basic_meminfo(self):
        return t_basic_meminfo(self.u(32), self.u(32), **self.size_kw(16))

    def bootdev(self):
        return t_bootdev(self.u(32), self.u(32), self.u(32), **self.size_kw(20))

    def mmap(self):
        r = self.r
        n = r.choice([0, 1, 1, 2, 3, 5])
        areas = [(self.u(64), self.u(64), r.choice([0, 1, 2, 3, 4, 5, 6, 0xFFFFFFFF]), r.choice([0, 0, 0xABCD]))
                 for _ in range(n)]
        es = 24 if r.random() < 0.8 else r.choice([0, 20, 23, 25, 32, 48])
        extra = b"" if r.random() < 0.85 else self.rb(r.choice([1, 4, 8, 12, 16, 23]))
        return t_mmap(areas, es, r.choice([0, 0, 1, 7]), extra, **self.size_kw(16 + 24 * n + len(extra)))

    def vbe(self):
        r = self.r
        ci = vbe_ci(r.choice([b"VESA", b"VBE2", self.rb(4)]), self.u(16), self.u(32), self.u(32), self.u(32),
                    self.u(16), self.u(16), self.u(32), self.u(32), self.u(32), self.rb(222), self.rb(256))
        mm = r.choice([0, 1, 2, 3, 4, 5, 6, 7, 7, 8, 9, 0x80, 0xFF]) if r.random() < 0.8 else r.getrandbits(8)
        mi = vbe_mi(self.u(16), self.u(8), self.u(8), self.u(16), self.u(16), self.u(16), self.u(16), self.u(32),
                    self.u(16), (self.u(16), self.u(16)), (self.u(8), self.u(8)), self.u(8), self.u(8), self.u(8), mm,
                    self.u(8), self.u(8), self.u(8), (self.u(8), self.u(8)), (self.u(8), self.u(8)),
                    (self.u(8), self.u(8)), (self.u(8), self.u(8)), self.u(8), self.u(32), self.u(32), self.u(16),
                    self.rb(206))
        kw = self.size_kw(784) if r.random() < 0.5 else {}
        return t_vbe(self.u(16), self.u(16), self.u(16), self.u(16), ci, mi, **kw)

    def framebuffer(self):
        r = self.r
        ty = r.choice([0, 0, 1, 1, 2, 3, 4, 0x7F, 0xFF])
        x = r.random()
        if ty == 0 or (ty > 2 and x < 0.3):
            n = r.choice([0, 1, 2, 3, 16])
            colors = [tuple(self.rb(3)) for _ in range(n)]
            num = n if r.random() < 0.7 else r.choice([0, n + 1, n + 2, 255, 256, 0xFFFF, max(n - 1, 0)])
            buf = fb_indexed(colors, num)
            if r.random() < 0.15:
                buf = buf[:r.choice([0, 1, 2, 3])]
            if r.random() < 0.15:
                buf += self.rb(r.choice([1, 2, 3, 5]))
        elif ty == 1 or (ty > 2 and x < 0.6):
            buf = fb_rgb(*self.rb(6))
            if r.random() < 0.3:
                buf = buf[:r.choice([0, 1, 3, 5])]
            if r.random() < 0.2:
                buf += self.rb(r.choice([1, 2, 7]))
        else:
            buf = b"" if r.random() < 0.7 else self.rb(r.choice([1, 2, 6, 9]))
        return t_framebuffer(self.u(64), self.u(32), self.u(32), self.u(32), self.u(8), ty, buf, self.u(16),
                             **self.size_kw(32 + len(buf)))

    def elf(self):
        r = self.r
        es = r.choice([40, 40, 40, 64, 64, 64, 0, 1, 8, 39, 41, 48, 63, 65, 80])
        n = r.choice([0, 1, 1, 2, 3, 4, 6])
        ent = elf64_entry if es == 64 else elf32_entry
        w = 64 if es == 64 else 32
        table = b""
        for _ in range(n):
            e = ent(self.u(32), r.choice(ELF_TYPES), self.u(w) if r.random() < 0.5 else r.getrandbits(3), self.u(w),
                    self.u(w), self.u(w), self.u(32), self.u(32), self.u(w), self.u(w))
            if es not in (40, 64):
                e = (e + self.rb(64))[:es]
            table += e
        x = r.random()
        num = n if x < 0.75 else r.choice([0, n + 1, n + 2, max(n - 1, 0), 0xFFFFFFFF, 0x10000000, 0x06666667])
        if num * es <= len(table) + 48:
            num = min(num, 0x10000)         # see hand_cases: unary fuel in the extracted model
        sh = r.randrange(n) if (n and r.random() < 0.75) else r.choice([0, n, n + 1, num, 0xFFFFFFFF])
        if r.random() < 0.15:
            table += self.rb(r.choice([1, 4, 8, 39, 40]))
        if r.random() < 0.1 and table:
            table = table[:-r.choice([1, 4, 8])]
        return t_elf(num, es, sh, table, **self.size_kw(20 + len(table)))

    def apm(self):
        return t_apm(*(self.u(b) for b in (16, 16, 32, 16, 16, 16, 16, 16, 16)), **self.size_kw(28))

    def efi32(self):
        return t_efi32(self.u(32), **self.size_kw(12))

    def efi64(self):
        return t_efi64(self.u(64), **self.size_kw(16))

    def efi32_ih(self):
        return t_efi32_ih(self.u(32), **self.size_kw(12))

    def efi64_ih(self):
        return t_efi64_ih(self.u(64), **self.size_kw(16))

    def smbios(self):
        r = self.r
        tb = self.rb(r.choice([0, 0, 1, 5, 8, 24, 31]))
        return t_smbios(self.u(8), self.u(8), tb, self.rb(6), **self.size_kw(16 + len(tb)))

    def acpi_v1(self):
        r = self.r
        ck = None if r.random() < 0.6 else self.u(8)
        d = rsdp_v1(r.choice(SIGS), r.choice(OEMS), self.u(8), self.u(32), ck)
        return t_acpi_v1(d, **self.size_kw(28))

    def acpi_v2(self):
        r = self.r
        ck = None if r.random() < 0.6 else self.u(8)
        xck = None if r.random() < 0.6 else self.u(8)
        ln = 36 if r.random() < 0.5 else r.choice([0, 1, 19, 20, 21, 33, 35, 37, 40, 0x100, 0xFFFFFFFF, 0x80000000])
        d = rsdp_v2(r.choice(SIGS), r.choice(OEMS), self.u(8), self.u(32), ln, self.u(64), ck, xck, self.rb(3))
        return t_acpi_v2(d, **self.size_kw(44))

    def network(self):
        r = self.r
        d = self.rb(r.choice([0, 0, 1, 7, 8, 9, 60]))
        return t_network(d, **self.size_kw(8 + len(d)))

    def efi_mmap(self):
        r = self.r
        ds = r.choice([40, 40, 40, 48, 48, 56, 64, 0, 1, 8, 24, 39, 41, 44, 47, 52, 0xFFFFFFFF])
        ver = 1 if r.random() < 0.85 else r.choice([0, 2, 0xFFFFFFFF])
        n = r.choice([0, 1, 1, 2, 3, 4])
        eff = ds if 40 <= ds <= 128 else 40
        data = b"".join(efi_desc(self.u(32), self.u(64), self.u(64), self.u(64), self.u(64), eff, self.u(32), r.getrandbits(8))
                        for _ in range(n))
        if r.random() < 0.15:
            data += self.rb(r.choice([1, 4, 8, 16, 39]))
        if r.random() < 0.08 and data:
            data = data[:-r.choice([1, 8, 16])]
        return t_efi_mmap(ds, ver, data, **self.size_kw(16 + len(data)))

    def efi_bs(self):
        return t_efi_bs(**self.size_kw(8))

    def load_base_addr(self):
        return t_load_base_addr(self.u(32), **self.size_kw(12))

    def custom(self):
        r = self.r
        return tag(r.choice([22, 23, 0x1337, 0xFFFFFFFF, 0x80000000]), self.rb(r.choice([0, 1, 4, 8, 13])))

    def end_inside(self):
        return end_tag() if self.r.random() < 0.7 else tag(0, b"", size=self.r.choice([0, 4, 9, 12, 16]))

    KINDS = ["cmdline", "bootloader", "module", "basic_meminfo", "bootdev", "mmap", "vbe", "framebuffer", "elf", "apm",
             "efi32", "efi64", "smbios", "acpi_v1", "acpi_v2", "network", "efi_mmap", "efi_bs", "efi32_ih", "efi64_ih",
             "load_base_addr"]

    def region(self):
        r = self.r
        x = r.random()
        if x < 0.25:      # one kind (possibly duplicated), nothing else
            k = r.choice(self.KINDS)
            tags = [getattr(self, k)() for _ in range(r.choice([1, 1, 1, 2, 3]))]
        elif x < 0.35:    # all kinds once, shuffled
            ks = list(self.KINDS)
            r.shuffle(ks)
            if r.random() < 0.6:
                ks.remove("efi_bs")
            tags = [getattr(self, k)() for k in ks]
        else:
            n = r.choice([0, 1, 2, 3, 4, 5, 6, 8, 10])
            pool = self.KINDS + ["module", "module", "efi_mmap", "elf", "framebuffer"]
            if r.random() < 0.5:
                pool = [k for k in pool if k != "efi_bs"]
            tags = [getattr(self, r.choice(pool))() for _ in range(n)]
            if r.random() < 0.15:
                tags.insert(r.randrange(len(tags) + 1), self.custom())
            if r.random() < 0.05:
                tags.insert(r.randrange(len(tags) + 1), self.end_inside())
        y = r.random()
        if y < 0.93:
            return mbi(tags)
        if y < 0.95:
            return mbi(tags, end=False)
        if y < 0.97:
            b = mbi(tags)
            return b + bytes(8 * r.choice([1, 2]))            # slack after the structure
        b = mbi(tags)
        return mbi(tags, total=len(b) + r.choice([-8, -4, 4, 8, 16]))


def hand_cases():
    """every tag kind well-formed, plus the malformations named in the task"""
    c = []
    add = lambda *tags, **kw: c.append(mbi(list(tags), **kw))  # noqa: E731
    add()
    # strings
    add(t_cmdline("hello"), t_bootloader("GRUB 2.02"), t_module(0x1000, 0x2000, "mod one"))
    add(t_cmdline("no nul", nul=False), t_bootloader(b"\xff\xfe"), t_module(5, 1, b"\xc3", nul=False))
    add(t_cmdline(""), t_bootloader("", nul=False), t_module(0, 0, ""))
    add(t_cmdline("h\u00e9llo \u20ac \U0001d11e"), t_bootloader(b"ab\0cd"), t_module(1, 0xFFFFFFFF, b"\xed\xa0\x80"))
    add(t_module(1, 2, "a"), t_module(3, 4, "b"), t_cmdline("x"), t_module(9, 5, "c", nul=False), t_module(0, 0, "", size=15))
    add(t_module(1, 2, "a"), t_module(3, 4, "bcd", size=12, exact=True), t_module(5, 6, "e"))
    add(t_cmdline("dup1"), t_cmdline("dup2"), t_bootloader("l1"), t_bootloader("l2"))
    add(t_cmdline("abc", size=7, exact=True))
    add(t_bootloader("abc", size=8, exact=True))
    # sized tags, good and wrong sizes
    add(t_basic_meminfo(640, 0x1FB80), t_bootdev(0x80, 0xFFFFFFFF, 0), t_apm(0x102, 1, 2, 3, 4, 5, 6, 7, 8),
        t_efi32(0x12345678), t_efi64(0x123456789ABCDEF0), t_efi32_ih(7), t_efi64_ih(0xFFFFFFFFFFFFFFFF),
        t_load_base_addr(0x100000), t_efi_bs())
    for sz in (8, 12, 15, 17, 24):
        add(t_basic_meminfo(1, 2, size=sz, exact=True), t_cmdline("after"))
    for sz in (16, 19, 21, 24, 28):
        add(t_bootdev(1, 2, 3, size=sz, exact=True), t_cmdline("after"))
    for sz in (20, 24, 27, 29, 32, 36):
        add(t_apm(1, 2, 3, 4, 5, 6, 7, 8, 9, size=sz, exact=True), t_acpi_v1(size=sz, exact=True), t_cmdline("after"))
    for sz in (8, 11, 13, 16, 17, 24):
        add(t_efi32(1, size=sz, exact=True), t_efi64(2, size=sz, exact=True), t_efi32_ih(3, size=sz, exact=True),
            t_efi64_ih(4, size=sz, exact=True), t_load_base_addr(5, size=sz, exact=True), t_efi_bs(size=sz, exact=True))
    # memory map
    add(t_mmap([(0, 0x9FC00, 1), (0x100000, 0x7EE0000, 1), (0xFFFFFFFFFFFFF000, 0x2000, 2, 0xABCD)]))
    add(t_mmap([]))
    add(t_mmap([(1, 2, 3)], entry_size=20))
    add(t_mmap([(1, 2, 3)], entry_size=0, entry_version=9))
    add(t_mmap([(1, 2, 3)], extra=bytes(8)))
    add(t_mmap([(1, 2, 3)], size=12, exact=True))
    add(t_mmap([(1, 2, 3), (4, 5, 6)], size=40 + 23, exact=True))
    # EFI memory map, with and without EfiBs
    d40 = efi_desc(7, 0x1000, 0x2000, 3, 0xF) + efi_desc(4, 0xFFFFFFFFFFFFFFFF, 0, 0xFFFFFFFFFFFFFFFF, 0x8000000000000001, pad=0x55)
    d48 = efi_desc(7, 0x1000, 0, 1, 8, 48, fill=0xCC) + efi_desc(0x80000001, 1, 2, 3, 4, 48, fill=0xDD)
    add(t_efi_mmap(40, 1, d40))
    add(t_efi_mmap(48, 1, d48))
    add(t_efi_mmap(40, 1, d48))
    add(t_efi_mmap(48, 1, d40))
    add(t_efi_mmap(40, 1, b""))
    add(t_efi_mmap(0, 1, d40))
    add(t_efi_mmap(0, 1, b""))
    add(t_efi_mmap(44, 1, bytes(88)))
    add(t_efi_mmap(24, 1, bytes(48)))
    add(t_efi_mmap(40, 0, d40))
    add(t_efi_mmap(40, 2, d40))
    add(t_efi_mmap(40, 1, d40 + bytes(8)))
    add(t_efi_mmap(40, 1, d40, size=12, exact=True))
    add(t_efi_mmap(40, 1, d40, size=15, exact=True))
    add(t_efi_bs(), t_efi_mmap(40, 1, d40))
    add(t_efi_mmap(40, 1, d40), t_efi_bs())
    add(t_efi_mmap(40, 1, d40), t_efi_bs(size=12, exact=True))
    add(t_efi_mmap(40, 2, d40), t_efi_mmap(40, 1, d40))
    # ELF sections
    e32 = [elf32_entry(1, 1, 7, 0x1000, 0, 0x200, 0, 0, 16, 0), elf32_entry(0, 0), elf32_entry(9, 3, 2, 0xFFFFFFFF, 0, 0xFFFFFFFF, 0, 0, 1),
           elf32_entry(2, 0x60000000, 0xFFFFFFF8), elf32_entry(3, 12), elf32_entry(4, 0x7FFFFFFF, 5, 1, 2, 3, 4, 5, 6, 7)]
    e64 = [elf64_entry(1, 1, 7, 0x1000, 0, 0x200, 0, 0, 16, 0), elf64_entry(0, 0),
           elf64_entry(9, 3, 2, 0xFFFFFFFFFFFFFFFF, 0, 2, 0, 0, 1 << 63), elf64_entry(2, 8, 0xFFFFFFFFFFFFFFF8, 0x8000000000000000, 0, 0x8000000000000000),
           elf64_entry(3, 0x80000000), elf64_entry(4, 11, 5, 1, 2, 3, 4, 5, 6, 7)]
    add(t_elf(6, 40, 2, b"".join(e32)))
    add(t_elf(6, 64, 2, b"".join(e64)))
    add(t_elf(0, 40, 0))
    add(t_elf(0, 0, 5))
    add(t_elf(0, 64, 0, b"".join(e64)))
    add(t_elf(2, 40, 0, b"".join(e32[:1] * 2) + bytes(7)))
    add(t_elf(7, 40, 2, b"".join(e32)))                       # count too large
    add(t_elf(6, 40, 6, b"".join(e32)))                       # shndx == count
    add(t_elf(6, 40, 0xFFFFFFFF, b"".join(e32)))
    add(t_elf(3, 64, 1, b"".join(e32)))                       # 64-byte view of 40-byte entries (fits: 240 >= 192)
    add(t_elf(6, 40, 5, b"".join(e64)))
    add(t_elf(4, 48, 0, bytes(192)))
    add(t_elf(4, 0, 0, bytes(16)))
    # entry_size 0 with a huge count passes the bounds assertion; the extracted model's fuel is a unary
    # number of that magnitude (the oracle does not terminate in practice for 0xFFFFFFFF), so a moderate one
    add(t_elf(0x10000, 0, 0, bytes(16)))
    add(t_elf(0x06666667, 40, 0, b"".join(e32)))              # 32-bit product wraps
    add(t_elf(0xFFFFFFFF, 0xFFFFFFFF, 0, b"".join(e32)))
    add(t_elf(3, 40, 0, b"".join([elf32_entry(0, 0)] * 3)))   # only unused entries
    add(t_elf(3, 64, 2, b"".join([elf64_entry(0, 0), elf64_entry(0, 12), elf64_entry(5, 5)])))
    add(t_elf(1, 40, 0, b"".join(e32[:1]), size=16, exact=True))
    add(t_elf(1, 40, 0, b"".join(e32[:1]), size=19, exact=True))
    add(t_elf(1, 40, 0, b"".join(e32[:1]), size=20, exact=True))
    # framebuffer
    pal = [(1, 2, 3), (4, 5, 6), (255, 254, 253)]
    add(t_framebuffer(0xFD000000, 4096, 1024, 768, 32, 1, fb_rgb(16, 8, 8, 8, 0, 8)))
    add(t_framebuffer(0xB8000, 160, 80, 25, 16, 2))
    add(t_framebuffer(0xB8000, 160, 80, 25, 16, 2, b"\1\2\3", padding=0xBEEF))
    add(t_framebuffer(0xA0000, 320, 320, 200, 8, 0, fb_indexed(pal)))
    add(t_framebuffer(0xA0000, 320, 320, 200, 8, 0, fb_indexed([])))
    add(t_framebuffer(0xA0000, 320, 320, 200, 8, 0, fb_indexed(pal, 4)))
    add(t_framebuffer(0xA0000, 320, 320, 200, 8, 0, fb_indexed(pal, 2) + b"\7"))
    add(t_framebuffer(0xA0000, 320, 320, 200, 8, 0, fb_indexed(pal, 0xFFFF)))
    add(t_framebuffer(0xA0000, 320, 320, 200, 8, 0, b""))
    add(t_framebuffer(0xA0000, 320, 320, 200, 8, 0, b"\0"))
    add(t_framebuffer(0xA0000, 320, 320, 200, 8, 0, b"\1\0"))
    add(t_framebuffer(1, 2, 3, 4, 5, 1, b""))
    add(t_framebuffer(1, 2, 3, 4, 5, 1, b"\1\2\3\4\5"))
    add(t_framebuffer(1, 2, 3, 4, 5, 1, b"\1\2\3\4\5\6\7"))
    for ty in (3, 4, 0x7F, 0x80, 0xFF):
        add(t_framebuffer(1, 2, 3, 4, 5, ty, fb_rgb(1, 2, 3, 4, 5, 6)))
    add(t_framebuffer(1, 2, 3, 4, 5, 9), t_framebuffer(1, 2, 3, 4, 5, 2))
    add(t_framebuffer(1, 2, 3, 4, 5, 2), t_framebuffer(1, 2, 3, 4, 5, 9))
    for sz in (8, 24, 30, 31, 32):
        add(t_framebuffer(1, 2, 3, 4, 5, 2, size=sz, exact=True), t_cmdline("after"))
        add(t_framebuffer(1, 2, 3, 4, 5, 1, fb_rgb(1, 2, 3, 4, 5, 6), size=sz, exact=True))
    # RSDP
    add(t_acpi_v1(), t_acpi_v2())
    add(t_acpi_v1(rsdp_v1(checksum=0x11)), t_acpi_v2(rsdp_v2(ext_checksum=0x22)))
    add(t_acpi_v1(rsdp_v1(b"RSD PTR\xff", b"\xe2\x82\xacabc", 0xFF, 0xFFFFFFFF)),
        t_acpi_v2(rsdp_v2(b"\xc3\xa9SD PTR", b"\xff\0\0\0\0\0", 0xFF, 1, 36, 0xFFFFFFFFFFFFFFFF)))
    for ln in (0, 1, 20, 33, 35, 36, 37, 44, 0x100, 0xFFFFFFFF):
        add(t_acpi_v2(rsdp_v2(length=ln)))
        add(t_acpi_v2(rsdp_v2(length=ln, checksum=3, ext_checksum=4)))
    add(t_acpi_v2(bytes(20) + u32(20) + bytes(12)))
    add(t_acpi_v2(bytes(20) + u32(0) + bytes(12)))
    for sz in (27, 28, 29, 32, 33, 36, 40, 43, 44, 45, 48, 49):
        add(t_acpi_v1(size=sz, exact=True), t_acpi_v2(size=sz, exact=True))
    # smbios, network, vbe
    add(t_smbios(3, 2, bytes(range(24))), t_network(bytes(range(60))))
    add(t_smbios(0xFF, 0, b"", b"\1\2\3\4\5\6"), t_network(b""))
    add(t_smbios(1, 2, b"abc"), t_network(b"a"))
    for sz in (8, 9, 12, 15, 16, 17):
        add(t_smbios(1, 2, b"abc", size=sz, exact=True), t_cmdline("after"))
    for sz in (0, 1, 4, 7, 8, 9):
        add(t_network(b"abcdefgh", size=sz, exact=True), t_cmdline("after"))
        add(t_network(b"abcdefgh", size=sz))
    for mm in (0, 3, 7, 8, 0xFF):
        add(t_vbe(0x4118, 1, 2, 3, vbe_ci(b"VESA", 0x300, 1, 7, 2, 3, 4, 5, 6, 7),
                  vbe_mi(0xFFFF, 0xFF, 7, 64, 64, 0xA000, 0xB000, 0xC0001234, 4096, (1024, 768), (8, 16), 1, 32, 1, mm, 0, 1, 1,
                         (8, 16), (8, 8), (8, 0), (8, 24), 3, 0xFD000000, 0x1234, 0x5678)))
    for sz in (8, 16, 776, 783, 785, 792):
        add(t_vbe(size=sz, exact=True), t_cmdline("after"))
    # custom tags, end tag inside, several of everything
    add(tag(0x1337, b"abc"), t_cmdline("c"), tag(22, b""), t_basic_meminfo(1, 2))
    add(t_cmdline("before"), end_tag(), t_cmdline("hidden"), t_module(1, 2, "hidden"))
    add(t_basic_meminfo(1, 2), t_basic_meminfo(3, 4), t_apm(1), t_apm(2))
    # incoherent sizes: the walk goes through the middle of the data
    add(t_cmdline("abcdefghijklmnop", size=12), t_bootloader("x"))
    add(t_cmdline("a", size=40), t_bootloader("x"), t_module(1, 2, "m"))
    add(t_module(1, 2, "m", size=0), t_cmdline("x"))
    add(t_module(1, 2, "m", size=4), t_cmdline("x"))
    add(t_cmdline("x"), t_module(1, 2, "m", size=0x7FFFFFF8))
    add(t_cmdline("x"), t_module(1, 2, "m", size=0xFFFFFFFF))
    add(t_apm(1, size=0xFFFFFFF9))
    # load-level variations
    add(t_cmdline("x"), end=False)
    add(t_cmdline("x"), reserved=0xFFFFFFFF)
    c.append(mbi([t_cmdline("x")]) + bytes(8))
    c.append(mbi([t_cmdline("x")], total=24))
    c.append(mbi([t_cmdline("x")], total=16))
    c.append(mbi([], total=8, end=False))
    c.append(u32(0) + u32(0))
    c.append(b"")
    return c


def agree(w, h):
    """"eq": identical; "ub": the model reports undefined behaviour (a whole-line `UB`: e.g. `load` of a
    region shorter than its total_size, outside the contract of `load`) and the transcripts are identical
    before that line -- whatever the crate does from there on (typically CRASH(11) on the guard page) is
    not comparable; None: a difference"""
    if w == h:
        return "eq"
    if w is None or h is None:
        return None
    for i, l in enumerate(w):
        if l.endswith(" UB") and not l.startswith("vbe_mi "):
            return "ub" if w[:i] == h[:i] else None
    return None


def show(lines):
    return "\n".join("    " + l for l in (lines if lines is not None else ["<no transcript>"]))


def main():
    a = sys.argv[1:]
    n = int(a[a.index("--n") + 1]) if "--n" in a else 1000
    seed = int(a[a.index("--seed") + 1]) if "--seed" in a else 1
    keep = a[a.index("--keep") + 1] if "--keep" in a else os.path.join(vlib.BUILD, "test_mbi_dump.cases")
    every = "--all" in a

    exes = {}
    if "--no-build" not in a:
        ok, out = vlib.coq_make()
        if not ok:   # a failure outside the model (proof files) does not prevent the extraction
            print("warning: coq make failed:\n" + out[-600:])
        ok, out = vlib.oracle_build()
        assert ok, out
    for cfg in ("dev", "rel"):
        ok, out, exe = vlib.harness_build(cfg)
        assert ok, out
        exes[cfg] = exe

    g = Gen(seed)
    regions = hand_cases() + [g.region() for _ in range(n)]
    cases = ["mbi " + hx(b) for b in regions]
    os.makedirs(os.path.dirname(keep), exist_ok=True)
    with open(keep, "w") as f:
        f.write("\n".join(cases) + "\n")
    print("%d cases (%d hand-written, %d random, seed %d) -> %s" % (len(cases), len(cases) - n, n, seed, keep))

    bad = 0
    for cfg in ("dev", "rel"):
        prof = vlib.CONFIGS[cfg]["prof"]
        want = vlib.run_oracle(keep, prof)
        got = vlib.run_harness(exes[cfg], keep, len(cases))
        verdict = [agree(want.get(i), got.get(i)) for i in range(len(cases))]
        diffs = [i for i in range(len(cases)) if verdict[i] is None]
        keys = Counter()
        for i in range(len(cases)):
            for l in want.get(i) or []:
                w = l.split(" ")
                keys[w[0] + (" " + w[1] + " " + w[2] if w[0] == "get" and len(w) > 2 and w[2] != "none" else "")
                     + (" PANIC" if "PANIC" in w else "") + (" UB" if "UB" in l.replace("=", " ").split(" ") else "")
                     + (" ERR" if "ERR" in l.replace("=", " ").split(" ") else "")] += 1
        print("[%s / oracle %d] %d of %d cases agree (%d identical, %d model-UB with identical prefix)"
              % (cfg, prof, len(cases) - len(diffs), len(cases), verdict.count("eq"), verdict.count("ub")))
        if "--stats" in a:
            for k in sorted(keys):
                print("      %6d  %s" % (keys[k], k))
        for i in (diffs if every else diffs[:1]):
            bad += 1
            print("  DIFFERENCE in case %d (%s):\n  %s" % (i, cfg, cases[i]))
            w, h = want.get(i), got.get(i)
            print("  model:\n" + show(w))
            print("  crate:\n" + show(h))
            if w is not None and h is not None:
                for j in range(max(len(w), len(h))):
                    x = w[j] if j < len(w) else "<missing>"
                    y = h[j] if j < len(h) else "<missing>"
                    if x != y:
                        print("  first differing line %d:\n    model: %s\n    crate: %s" % (j, x, y))
                        break
        bad += 0 if every else max(len(diffs) - 1, 0)
    print("RESULT: %s" % ("all transcripts agree" if bad == 0 else "%d differing case runs" % bad))
    return 0 if bad == 0 else 1


if __name__ == "__main__":
    sys.exit(main())
