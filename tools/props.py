"""Per-property registry: case generators, judges (what counts as a violation of the
property when model and implementation disagree), corpus, known findings."""
import json
import os
import struct

import vlib

TRUSTED_BASE = [
    "Coq 8.16.1 kernel (coqc; full .vo builds via coq_makefile; vm_compute used for examples and finite tables; no native_compute)",
    "axioms: none (every property theorem is 'Closed under the global context'; audited on every run via Print Assumptions)",
    "hand-written Gallina model coq/Model/*.v of the Rust functions (modelled, not verified); tied to /repo by the differential correspondence run of this check",
    "extraction (ExtrOcamlBasic only, no Extract Constant/Inductive beyond it) + OCaml 4.13.1 + coq/Extract/driver.ml: used for the correspondence only, cross-checked against vm_compute in Coq on a sample of every run",
    "Rust harness /verif/harness (guard pages, catch_unwind, signal attribution) and this Python orchestrator/generators",
    "rustc/cargo as installed; x86-64 little-endian, 64-bit usize",
]


def u32(x):
    return struct.pack("<I", x & 0xFFFFFFFF)


def u16(x):
    return struct.pack("<H", x & 0xFFFF)


def u64(x):
    return struct.pack("<Q", x & 0xFFFFFFFFFFFFFFFF)


def hx(b):
    return "x" + bytes(b).hex()


def marker(n, start=1):
    return bytes(((start + i * 7) % 251) + 1 for i in range(n))


def corpus_cases(pid):
    d = os.path.join(vlib.VERIF, "corpus", pid)
    out = []
    if os.path.isdir(d):
        for f in sorted(os.listdir(d)):
            if f.endswith(".case"):
                for line in open(os.path.join(d, f)):
                    line = line.strip()
                    if line and not line.startswith("//"):
                        out.append(line)
    return out


def known_findings():
    p = os.path.join(vlib.VERIF, "known_findings.json")
    if not os.path.exists(p):
        return []
    return [k for k in json.load(open(p)).get("findings", []) if k.get("status") == "open"]


def match_known(pid, d, kf):
    for k in kf:
        if k["property"] != pid:
            continue
        m = MATCHERS.get(k["id"])
        if m and m(d):
            return k
    return None


MATCHERS = {}


def default_judge(case, ml, il):
    return ("violation", "implementation transcript differs from the model's")


def shrink(pid, P, d, exes, work):
    """Greedy shrinking hook (per-property shrinkers may be registered in P['shrink'])."""
    f = P.get("shrink")
    if not f:
        return d
    try:
        return f(d, exes, work)
    except Exception as e:  # shrinking must never hide a violation
        d["shrink_error"] = repr(e)
        return d


# ==========================================================================
# C14
# ==========================================================================
HK = {0: "DummyTestHeader", 1: "TagHeader", 2: "HeaderTagHeader", 3: "BootInformationHeader", 4: "Multiboot2BasicHeader"}


def hdr_bytes(h, declared, rng):
    """header of kind h with the declared size in its size field; enum-typed fields in range"""
    if h in (0, 1):
        return u32(rng.choice([0, 1, 3, 21, 22, 0xFFFFFFFF, rng.getrandbits(32)])) + u32(declared)
    if h == 2:
        return u16(rng.randrange(0, 11)) + u16(rng.randrange(0, 2)) + u32(declared)
    if h == 3:
        return u32(declared) + u32(rng.choice([0, 0xFFFFFFFF, rng.getrandbits(32)]))
    return u32(rng.choice([0xE85250D6, rng.getrandbits(32)])) + u32(rng.choice([0, 4])) + u32(declared) + u32(rng.getrandbits(32))


def gen_C14(rng, tier):
    cases = []
    dist = {"hkind": {}, "len_mod8": {}, "align": {}}
    keep = 1.0 if tier == "thorough" else 0.07
    for h in range(5):
        hs = 16 if h == 4 else 8
        for n in range(0, 49):
            for a in range(8):
                for d in range(0, 65):
                    # always keep the boundary cases, sample the rest
                    boundary = (a in (0,) and d in (0, hs - 1, hs, hs + 1, n - 1, n, n + 1, n + 8) and n % 8 in (0, 1, 7)) \
                        or (n in (hs - 1, hs, hs + 8) and d in (hs, n, n + 1) and a in (0, 1, 4, 7))
                    if not boundary and rng.random() > keep:
                        continue
                    hb = hdr_bytes(h, d, rng)
                    body = (hb + marker(64, start=n + d))[:n]
                    cases.append("c14 %d %d %s" % (h, a, hx(body)))
                    dist["hkind"][HK[h]] = dist["hkind"].get(HK[h], 0) + 1
                    dist["len_mod8"][str(n % 8)] = dist["len_mod8"].get(str(n % 8), 0) + 1
                    dist["align"][str(a)] = dist["align"].get(str(a), 0) + 1
    # large declared sizes
    for h in range(5):
        for d in (0xFFFFFFFF, 0x80000000, 0xFFFFFFF8, 0x10000, 4096, 4097):
            body = hdr_bytes(h, d, rng) + marker(48)
            cases.append("c14 %d 0 %s" % (h, hx(body[:48])))
    # rounding function
    vals = set(range(0, 70)) | {2 ** k + e for k in range(3, 33) for e in (-9, -8, -7, -1, 0, 1, 7, 8)} \
        | {2 ** 64 - k for k in range(1, 18)} | {2 ** 63, 2 ** 32 - 1, 2 ** 32 - 8, 2 ** 32 - 7}
    n_rand = 20000 if tier == "thorough" else 1500
    for _ in range(n_rand):
        vals.add(rng.getrandbits(rng.choice([8, 16, 31, 32, 32, 32, 48, 64])))
    for v in sorted(vals):
        if 0 <= v < 2 ** 64:
            cases.append("align %d" % v)
    dist["align_values"] = len(vals)
    return cases, dict(
        rule="c14: all (header kind 0..4, slice length 0..48, address mod 8, declared size 0..64) with marker payload - "
             + ("exhaustive" if tier == "thorough" else "boundary cases always, 7% seeded sample of the rest")
             + "; large declared sizes; align: 0..69, 2^k+-e, 2^64-k, seeded random values. "
             "distinct_nontrivial = number of distinct (domain, model transcript) pairs.",
        dist=dist, exhaustive=(tier == "thorough"))


def judge_C14(case, ml, il):
    toks = case.split()
    if toks[0] == "c14" and ml and il and len(ml) == 1 and len(il) == 1:
        # "a declaration smaller than the header itself never yields more than the header":
        # the model panics; an error is equally acceptable, a structure is not.
        if ml[0].endswith("PANIC") and " ERR " in il[0]:
            return ("harmless", "model panics on a declaration below the header size, implementation reports an error")
    return default_judge(case, ml, il)


# ==========================================================================
# C20
# ==========================================================================
def gen_C20(rng, tier):
    cases = []
    bounds = [0, 1, 2, 5, 6, 11, 12, 21, 22, 23, 0x5FFFFFFF, 0x60000000, 0x60000001, 0x6FFFFFFF, 0x70000000,
              0x70000001, 0x7FFFFFFF, 0x80000000, 0x80000001, 0xFFFFFFFF, 0xFFFFFFFE]
    vals = set(range(0, 65)) | set(bounds)
    for b in bounds:
        for e in (-2, -1, 1, 2):
            if 0 <= b + e < 2 ** 32:
                vals.add(b + e)
    for k in range(1, 32):
        vals |= {2 ** k - 1, 2 ** k, 2 ** k + 1}
    n_rand = 100000 if tier == "thorough" else 3000
    for _ in range(n_rand):
        vals.add(rng.getrandbits(32) if rng.random() < 0.7 else rng.randrange(0x5FFFFFF0, 0x80000010))
    vals = sorted(v for v in vals if 0 <= v < 2 ** 32)
    for v in vals:
        cases.append("conv %d" % v)
        cases.append("elfty %d" % v)
    pool = list(range(0, 26)) + [0xFFFFFFFF, 0x80000000, 77, 1000]
    for x in pool:
        for y in pool:
            if x == y or rng.random() < (1.0 if tier == "thorough" else 0.15):
                cases.append("conveq %d %d" % (x, y))
    for _ in range(n_rand // 10):
        x = rng.getrandbits(32)
        y = x if rng.random() < 0.3 else rng.getrandbits(32)
        cases.append("conveq %d %d" % (x, y))
    for b in range(256):
        cases.append("fb %d" % b)
    cases.append("magic")
    return cases, dict(
        rule="conv/elfty: 0..64, every table/range boundary +-2, 2^k+-1, seeded random u32 (70% uniform, 30% around the ELF "
             "OS/processor ranges); conveq: pairs over 0..25 and extremes plus random pairs (30% equal); fb: all 256 bytes "
             "(exhaustive); magic. distinct_nontrivial = number of distinct (domain, model transcript) pairs.",
        dist=dict(values=len(vals), fb_bytes=256), exhaustive=False)


PROPS = {
    "C14": dict(gen=gen_C14, configs=["dev", "rel"], judge=judge_C14, both_placements=True,
                assumptions=["enum-typed header fields (HeaderTagHeader.typ/flags, Multiboot2BasicHeader.arch) are generated in range"]),
    "C20": dict(gen=gen_C20, configs=["dev", "rel"], judge=default_judge,
                assumptions=["ELF classification and framebuffer type bytes are observed through a minimal tag built by the harness"]),
}
