"""Per-property registry: case generators, judges (what counts as a violation of the
property when model and implementation disagree), corpus, known findings."""
import json
import os
import struct

import vlib

TRUSTED_BASE = [
    "Coq 8.16.1 kernel (coqc; full .vo builds via coq_makefile; vm_compute used for examples and finite tables; no native_compute)",
    "axioms: none (every property theorem is 'Closed under the global context'; audited on every run via Print Assumptions)",
    "hand-written Gallina model coq/Model/*.v of the Rust functions (modelled, not verified); tied to /repo by the differential correspondence run of this check",
    "extraction (ExtrOcamlBasic only, no Extract Constant/Inductive beyond it) + OCaml 4.13.1 + coq/Extract/driver.ml: used for the correspondence only, cross-checked against vm_compute in Coq on a sample of every run",
    "Rust harness /verif/harness (guard pages, catch_unwind, signal attribution) and this Python orchestrator/generators",
    "rustc/cargo as installed; x86-64 little-endian, 64-bit usize",
]


def u32(x):
    return struct.pack("<I", x & 0xFFFFFFFF)


def u16(x):
    return struct.pack("<H", x & 0xFFFF)


def u64(x):
    return struct.pack("<Q", x & 0xFFFFFFFFFFFFFFFF)


def hx(b):
    return "x" + bytes(b).hex()


def marker(n, start=1):
    return bytes(((start + i * 7) % 251) + 1 for i in range(n))


def corpus_cases(pid):
    d = os.path.join(vlib.VERIF, "corpus", pid)
    out = []
    if os.path.isdir(d):
        for f in sorted(os.listdir(d)):
            if f.endswith(".case"):
                for line in open(os.path.join(d, f)):
                    line = line.strip()
                    if line and not line.startswith("//"):
                        out.append(line)
    return out


def known_findings():
    p = os.path.join(vlib.VERIF, "known_findings.json")
    if not os.path.exists(p):
        return []
    return [k for k in json.load(open(p)).get("findings", []) if k.get("status") == "open"]


def match_known(pid, d, kf):
    for k in kf:
        if k["property"] != pid:
            continue
        m = MATCHERS.get(k["id"])
        if m and m(d):
            return k
    return None


MATCHERS = {}


def default_judge(case, ml, il):
    return ("violation", "implementation transcript differs from the model's")


def shrink(pid, P, d, exes, work):
    """Greedy shrinking hook (per-property shrinkers may be registered in P['shrink'])."""
    f = P.get("shrink")
    if not f:
        return d
    try:
        return f(d, exes, work)
    except Exception as e:  # shrinking must never hide a violation
        d["shrink_error"] = repr(e)
        return d


# ==========================================================================
# C14
# ==========================================================================
HK = {0: "DummyTestHeader", 1: "TagHeader", 2: "HeaderTagHeader", 3: "BootInformationHeader", 4: "Multiboot2BasicHeader", 5: "user-defined 12-byte header"}


def hdr_bytes(h, declared, rng):
    """header of kind h with the declared size in its size field; enum-typed fields in range"""
    if h in (0, 1):
        return u32(rng.choice([0, 1, 3, 21, 22, 0xFFFFFFFF, rng.getrandbits(32)])) + u32(declared)
    if h == 2:
        return u16(rng.randrange(0, 11)) + u16(rng.randrange(0, 2)) + u32(declared)
    if h == 3:
        return u32(declared) + u32(rng.choice([0, 0xFFFFFFFF, rng.getrandbits(32)]))
    if h == 5:      # the user-defined 12-byte header {typ, size, extra}
        return u32(rng.getrandbits(32)) + u32(declared) + u32(rng.getrandbits(32))
    return u32(rng.choice([0xE85250D6, rng.getrandbits(32)])) + u32(rng.choice([0, 4])) + u32(declared) + u32(rng.getrandbits(32))


HSIZE = {0: 8, 1: 8, 2: 8, 3: 8, 4: 16, 5: 12}


def gen_C14(rng, tier):
    cases = []
    dist = {"hkind": {}, "len_mod8": {}, "align": {}}
    keep = 1.0 if tier == "thorough" else 0.07
    for h in (0, 1, 2, 3, 4, 5):
        hs = HSIZE[h]
        for n in range(0, 49):
            for a in range(8):
                for d in range(0, 65):
                    # always keep the boundary cases, sample the rest
                    boundary = (a in (0,) and d in (0, hs - 1, hs, hs + 1, n - 1, n, n + 1, n + 8) and n % 8 in (0, 1, 7)) \
                        or (n in (hs - 1, hs, hs + 8) and d in (hs, n, n + 1) and a in (0, 1, 4, 7))
                    if not boundary and rng.random() > keep:
                        continue
                    hb = hdr_bytes(h, d, rng)
                    body = (hb + marker(64, start=n + d))[:n]
                    cases.append("c14 %d %d %s" % (h, a, hx(body)))
                    dist["hkind"][HK[h]] = dist["hkind"].get(HK[h], 0) + 1
                    dist["len_mod8"][str(n % 8)] = dist["len_mod8"].get(str(n % 8), 0) + 1
                    dist["align"][str(a)] = dist["align"].get(str(a), 0) + 1
    # the accepting side: aligned slices of 8k bytes whose header declares any size that fits (and the first that does not)
    for h in (0, 1, 2, 3, 4, 5):
        hs = HSIZE[h]
        for n in list(range((hs + 7) // 8 * 8, 97, 8)) + [256, 1024]:
            ds = sorted(set([hs, hs + 1, n - 8, n - 7, n - 1, n, n + 1, rng.randrange(hs, n + 1)]))
            for d in ds:
                if d < 0:
                    continue
                body = (hdr_bytes(h, d, rng) + marker(n, start=n + d))[:n]
                cases.append("c14 %d 0 %s" % (h, hx(body)))
                dist["accepting_family"] = dist.get("accepting_family", 0) + 1
    # large declared sizes
    for h in (0, 1, 2, 3, 4, 5):
        for d in (0xFFFFFFFF, 0x80000000, 0xFFFFFFF8, 0x10000, 4096, 4097):
            body = hdr_bytes(h, d, rng) + marker(48)
            cases.append("c14 %d 0 %s" % (h, hx(body[:48])))
    # rounding function
    vals = set(range(0, 70)) | {2 ** k + e for k in range(3, 33) for e in (-9, -8, -7, -1, 0, 1, 7, 8)} \
        | {2 ** 64 - k for k in range(1, 18)} | {2 ** 63, 2 ** 32 - 1, 2 ** 32 - 8, 2 ** 32 - 7}
    n_rand = 100000 if tier == "thorough" else 1500
    for _ in range(n_rand):
        vals.add(rng.getrandbits(rng.choice([8, 16, 31, 32, 32, 32, 48, 64])))
    for v in sorted(vals):
        if 0 <= v < 2 ** 64:
            cases.append("align %d" % v)
    dist["align_values"] = len(vals)
    return cases, dict(
        rule="c14: aligned slices of 8k bytes (8..96, 256, 1024) with every declared size class that fits or just does not; "
             "all (header kind 0..4, slice length 0..48, address mod 8, declared size 0..64) with marker payload - "
             + ("exhaustive" if tier == "thorough" else "boundary cases always, 7% seeded sample of the rest")
             + "; large declared sizes; align: 0..69, 2^k+-e, 2^64-k, seeded random values. "
             "distinct_nontrivial = number of distinct (domain, model transcript) pairs.",
        dist=dist, exhaustive=(tier == "thorough"))


def judge_C14(case, ml, il):
    toks = case.split()
    if toks[0] == "c14" and ml and il and len(ml) == len(il):
        # "a declaration smaller than the header itself never yields more than the header":
        # the model panics; an error is equally acceptable, a structure is not.
        diff = [(a, b) for a, b in zip(ml, il) if a != b]
        if diff and all(a.endswith("PANIC") and " ERR " in b for a, b in diff):
            return ("harmless", "model panics on a declaration below the header size, implementation reports an error")
    return default_judge(case, ml, il)


# ==========================================================================
# C20
# ==========================================================================
def gen_C20(rng, tier):
    cases = []
    bounds = [0, 1, 2, 5, 6, 11, 12, 21, 22, 23, 0x5FFFFFFF, 0x60000000, 0x60000001, 0x6FFFFFFF, 0x70000000,
              0x70000001, 0x7FFFFFFF, 0x80000000, 0x80000001, 0xFFFFFFFF, 0xFFFFFFFE]
    vals = set(range(0, 65)) | set(bounds)
    for b in bounds:
        for e in (-2, -1, 1, 2):
            if 0 <= b + e < 2 ** 32:
                vals.add(b + e)
    for k in range(1, 32):
        vals |= {2 ** k - 1, 2 ** k, 2 ** k + 1}
    n_rand = 100000 if tier == "thorough" else 3000
    for _ in range(n_rand):
        vals.add(rng.getrandbits(32) if rng.random() < 0.7 else rng.randrange(0x5FFFFFF0, 0x80000010))
    # every integer literal of the Rust source of the working tree (a value the code compares with is worth trying),
    # its neighbours, and the values that alias a small one after a truncating cast
    lits = [v for v in vlib.source_literals() if 0 <= v < 2 ** 32]
    for v in lits:
        vals |= {v, v + 1, v + 2, max(v - 1, 0), max(v - 2, 0)}
    for v in list(range(0, 24)) + [x for x in lits if x < 256]:
        for sh in (8, 16, 24, 31):
            for k in (1, 2, 3, 0x7F, 0xFF):
                vals.add((v + (k << sh)) & 0xFFFFFFFF)
    vals = sorted(v for v in vals if 0 <= v < 2 ** 32)
    for v in vals:
        cases.append("conv %d" % v)
        cases.append("elfty %d" % v)
    pool = list(range(0, 26)) + [0xFFFFFFFF, 0x80000000, 77, 1000]
    for x in pool:
        for y in pool:
            if x == y or rng.random() < (1.0 if tier == "thorough" else 0.15):
                cases.append("conveq %d %d" % (x, y))
    for _ in range(n_rand // 10):
        x = rng.getrandbits(32)
        y = x if rng.random() < 0.3 else rng.getrandbits(32)
        cases.append("conveq %d %d" % (x, y))
    # symbolic values built directly as Custom(x), including the non-canonical Custom(0..21)
    for x in list(range(0, 26)) + [0xFFFFFFFF, 1000]:
        for y in sorted(set([x, (x + 1) & 0xFFFFFFFF, 0, 21, 22, rng.getrandbits(32)])):
            cases.append("conveqc %d %d" % (x, y))
    for b in range(256):
        cases.append("fb %d" % b)
        # the same classification through BootInformation::framebuffer_tag() and FramebufferTag::buffer_type()
        cases.append(mbi_case(E.mbi([E.t_framebuffer(0x1000, 1, 2, 3, 8, b, E.fb_rgb(1, 2, 3, 4, 5, 6), 0)])))
        cases.append(mbi_case(E.mbi([E.t_framebuffer(0x2000, 4, 5, 6, 32, b, b"", 0)])))          # no colour information at all
    cases.append("magic")
    return cases, dict(
        rule="conv/elfty: 0..64, every table/range boundary +-2, 2^k+-1, seeded random u32 (70% uniform, 30% around the ELF "
             "OS/processor ranges); conveq: pairs over 0..25 and extremes plus random pairs (30% equal); fb: all 256 bytes "
             "(exhaustive); magic. distinct_nontrivial = number of distinct (domain, model transcript) pairs.",
        dist=dict(values=len(vals), fb_bytes=256), exhaustive=False)


# which files of coq/Tie (lemmas tying the hand-written model to the definitions rs2coq regenerates from the Rust source
# on every run) a property's model depends on
TIE_NEEDS = {
    "C01": ["TieMbi", "TieConv"], "C02": ["TieMbi"], "C03": ["TieMbi"], "C04": ["TieMbi", "TieConv", "TieProps"],
    "C05": ["TieMbi", "TieHdr"], "C06": ["TieMbi"], "C07": ["TieMbi", "TieHdr", "TieProps"],
    "C08": ["TieMbi", "TieHdr", "TieConv"], "C09": ["TieHdr"], "C10": ["TieHdr"], "C11": ["TieHdr", "TieProps"],
    "C12": ["TieHdr"], "C13": ["TieHdr"], "C14": ["TieMbi", "TieHdr"], "C15": ["TieMbi"], "C16": ["TieMbi", "TieHdr"],
    "C17": ["TieMbi"], "C18": ["TieMbi"], "C19": ["TieMbi", "TieConv"],
    "C20": ["TieConv", "TieMbi", "TieHdr", "TieProps"],
}

PROPS = {
    "C14": dict(gen=gen_C14, configs=["dev", "rel"], judge=judge_C14, both_placements=True,
                assumptions=["enum-typed header fields (HeaderTagHeader.typ/flags, Multiboot2BasicHeader.arch) are generated in range"]),
    "C20": dict(gen=gen_C20, configs=["dev", "rel"], judge=default_judge,
                assumptions=["ELF classification and framebuffer type bytes are observed through a minimal tag built by the harness"]),
}


# ==========================================================================
# helpers for structured regions
# ==========================================================================
import mb2enc as E  # noqa: E402


def project(lines, prefixes):
    return [l for l in lines if any(l.startswith(p + " ") or l == p for p in prefixes)]


def judge_projection(prefixes):
    def j(case, ml, il):
        if project(ml, prefixes) == project(il, prefixes):
            return ("ok", "")
        return default_judge(case, ml, il)
    return j


def count(d, k):
    d[k] = d.get(k, 0) + 1


# ==========================================================================
# C02
# ==========================================================================
def gen_C02(rng, tier):
    cases = ["mbinull"]
    dist = {"total_mod8": {}, "last8": {}, "expected": {}}
    last8_variants = {
        "end": E.u32(0) + E.u32(8), "type1": E.u32(1) + E.u32(8), "size9": E.u32(0) + E.u32(9),
        "size0": E.u32(0) + E.u32(0), "both": E.u32(7) + E.u32(16), "ff": b"\xff" * 8,
        # type / size words that are 0 / 8 only after a truncation to 8 or 16 bits
        "type64k": E.u32(0x10000) + E.u32(8), "type256": E.u32(0x100) + E.u32(8), "typehi": E.u32(0x80000000) + E.u32(8),
        "size64k8": E.u32(0) + E.u32(0x10008), "size2g8": E.u32(0) + E.u32(0x80000008),
    }

    def region(t, last8, reserved, extra=0):
        n = max(8, t) + extra
        body = bytearray(E.u32(t) + E.u32(reserved) + marker(max(0, n - 8), start=t))
        if t >= 16 and t - 16 >= 8 and t % 8 == 0:
            # one custom tag filling [8, t-8)
            body[8:16] = E.u32(99) + E.u32(t - 16)
        if 16 <= t <= n:
            body[t - 8:t] = last8
        return bytes(body[:n])

    for t in range(0, 73):
        for name, l8 in last8_variants.items():
            for reserved in (0, 0xFFFFFFFF):
                cases.append("mbiwalk " + hx(region(t, l8, reserved)))
                count(dist["total_mod8"], str(t % 8))
                count(dist["last8"], name)
    # pointers that are not 8-aligned (C02_misaligned): every address class 1..7 (0 for contrast) x total sizes 0..40 with
    # the declared region valid, and total sizes up to 2^32-1 with nothing but the 8 header bytes valid (a read beyond
    # them faults at the guard page)
    dist["misaligned_ptr"] = 0
    for a in range(0, 8):
        for t in range(0, 41):
            cases.append("mbimis %d %s" % (a, hx(region(t, last8_variants["end"], 0))))
            dist["misaligned_ptr"] += 1
        if a:
            for t in (8, 9, 16, 4096, 0x10000, 0x7FFFFFF8, 0x80000000, 0xFFFFFFF8, 0xFFFFFFFF):
                cases.append("mbimis %d %s" % (a, hx(E.u32(t) + E.u32(0))))
                dist["misaligned_ptr"] += 1
    # reserved word looking like an end tag (total = 8: the header itself is "the last 8 bytes")
    for t in (0, 8):
        cases.append("mbiwalk " + hx(E.u32(t) + E.u32(8)))
    sizes = [80, 88, 96, 100, 104, 256, 1000, 1024, 4096, 4100, 65536]
    if tier == "thorough":
        sizes += [1 << 20, (1 << 20) - 8, (1 << 20) + 4, 300000, 123456 * 8]
        sizes += [rng.randrange(72, 1 << 18) for _ in range(200)]
    else:
        sizes += [rng.randrange(72, 1 << 14) for _ in range(40)]
    for t in sizes:
        for name in ("end", "type1", "size9"):
            cases.append("mbiwalk " + hx(region(t, last8_variants[name], 0)))
            count(dist["total_mod8"], str(t % 8))
            count(dist["last8"], name)
    # realistic regions (0..8 tags, ending in the end tag) and one mutation of each: the accepting side of the "iff"
    dist["realistic"] = {}
    for _ in range(10000 if tier == "thorough" else 250):
        tags = []
        for _ in range(rng.randrange(0, 9)):
            typ = rng.choice([1, 2, 3, 4, 6, 9, 16, 21, 22, 99, 0xFFFFFFFF])
            plen = rng.choice([0, 1, 3, 4, 7, 8, 9, 12, 16, 23, rng.randrange(0, 64)])
            tags.append(E.tag(typ, marker(plen, start=plen + typ % 50), fill=rng.choice([0, 0xAA])))
        good = E.mbi(tags, reserved=rng.choice([0, 0, 0xFFFFFFFF, rng.getrandbits(32)]))
        cases.append("mbiwalk " + hx(good))
        count(dist["realistic"], "well_formed")
        b = bytearray(good)
        kind = rng.choice(["total+8", "total-8", "total+1", "total-1", "total=huge", "end_type", "end_size", "end_missing"])
        t = len(b)
        if kind == "total+8":
            b[0:4] = E.u32(t + 8)
            b += bytes(8)
        elif kind == "total-8":
            b[0:4] = E.u32(t - 8)
        elif kind == "total+1":
            b[0:4] = E.u32(t + 1)
            b += bytes(1)
        elif kind == "total-1":
            b[0:4] = E.u32(t - 1)
        elif kind == "total=huge":
            b[0:4] = E.u32(rng.choice([4096, 65536, 1 << 20]))      # valid_mem extends the memory with zeros up to there
        elif kind == "end_type":
            b[t - 8:t - 4] = E.u32(rng.choice([1, 22, 0xFFFFFFFF]))
        elif kind == "end_size":
            b[t - 4:t] = E.u32(rng.choice([0, 7, 9, 16, 0xFFFFFFFF]))
        else:
            b = b[:t - 8]
            b[0:4] = E.u32(t - 8)
        cases.append("mbiwalk " + hx(valid_mem(bytes(b))))
        count(dist["realistic"], kind)
    # total sizes around 2^30, 2^31 and 2^32 backed by that much (sparse, zero) memory: only the header and the last 8 bytes
    # are written; the model side is the closed form of C02_load_sparse
    # end-tag-shaped tags before the end of the region: the reported addresses and size come from the header alone
    for tags in ([E.end_tag()], [E.end_tag(), E.end_tag()], [E.t_cmdline("a"), E.end_tag(), E.t_cmdline("b")],
                 [E.tag(0, b"12345678")], [E.t_cmdline("x"), E.tag(0, b"", size=8), E.tag(0, b"", size=8)]):
        cases.append("mbiwalk " + hx(valid_mem(E.mbi(tags))))
    # loading a region of very many tags (load itself must not depend on their number)
    for n in (1000, 4095, 70000):
        cases.append("bigwalk %d %s" % (n, hx(E.tag(0x1337, b""))))
    dist["many_tags"] = 3
    for t in [0x3FFFFFF8, 0x40000000, 0x7FFFFFF0, 0x7FFFFFF8, 0x7FFFFFFC, 0x80000000, 0x80000004, 0x80000008, 0x80000010, 0x80000018, 0xC0000000, 0xFFFFFFE8, 0xFFFFFFF0, 0xFFFFFFF8, 0xFFFFFFFC, 0xFFFFFFFF]:
        for name in ("end", "type1", "size9", "ff"):
            cases.append("mbihuge %s %s" % (hx(E.u32(t) + E.u32(rng.choice([0, 0xFFFFFFFF]))), hx(last8_variants[name])))
            dist["huge_total_sizes"] = dist.get("huge_total_sizes", 0) + 1
    return cases, dict(
        rule="mbiwalk: realistic regions of 0..8 tags, each also with one mutation of the total size or of the end tag; "
             "all total sizes 0..72 x six contents of the last 8 bytes x reserved word {0, 0xFFFFFFFF} (exhaustive), "
             "the memory made valid being max(8,total) bytes; larger sizes (fixed list + seeded random, up to 1 MiB in thorough); "
             "null pointer. Only the `load` line (result, start/end/total) is compared for this property. "
             "distinct_nontrivial = distinct (domain, model transcript) pairs.",
        dist=dist, exhaustive=True)


def iter_history(rng, maxops=25):
    """a random history over a pool of iterators: new / next / clone / nth(k)"""
    ops = ["[ 0 ]"]
    n_it = 1
    for _ in range(rng.randrange(1, maxops)):
        r = rng.random()
        if r < 0.1:
            ops.append("[ 0 ]")
            n_it += 1
        elif r < 0.22:
            ops.append("[ 2 %d ]" % rng.randrange(n_it))
            n_it += 1
        elif r < 0.40:
            ops.append("[ 3 %d %d ]" % (rng.randrange(n_it), rng.choice([0, 0, 1, 1, 2, 3, 5, 9])))
        else:
            ops.append("[ 1 %d ]" % rng.randrange(n_it))
    return " ".join(ops)


# ==========================================================================
# C03
# ==========================================================================
def gen_C03(rng, tier):
    cases = []
    dist = {"regions_exhaustive": 0, "regions_random": 0, "histories": 0, "stuck": 0, "complete": 0}
    types = [1, 3, 99, 3, 21, 0, 3]

    def build(sizes, R, endtag=True):
        """tag region of R bytes with tags of the given declared sizes laid out by the spec walk, then the end tag"""
        body = bytearray(marker(R, start=len(sizes) * 3 + R))
        off = 0
        for k, s in enumerate(sizes):
            if off + 8 > R:
                break
            body[off:off + 8] = E.u32(types[(k + s) % len(types)]) + E.u32(s)
            off += (s + 7) // 8 * 8 if s >= 8 else 8
        tail = E.end_tag() if endtag else E.u32(0) + E.u32(12)
        return E.u32(8 + R + 8) + E.u32(0) + bytes(body) + tail

    def enum(R, off, acc, out):
        if off == R:
            out.append(list(acc))
            return
        rem = R - off
        for s in list(range(0, rem + 10)):
            if s < 8 or (s + 7) // 8 * 8 > rem + 8:
                out.append(acc + [s])      # stuck here (or swallows the end tag exactly when == rem+8)
            else:
                nxt = off + (s + 7) // 8 * 8
                if nxt > R:
                    out.append(acc + [s])
                else:
                    enum(R, nxt, acc + [s], out)

    maxR = 32 if tier == "thorough" else 24
    for R in range(0, maxR + 1, 8):
        seqs = []
        enum(R, 0, [], seqs)
        for sq in seqs:
            cases.append("mbiwalk " + hx(build(sq, R)))
            dist["regions_exhaustive"] += 1
    # random longer regions, mostly well-formed
    n_rand = 15000 if tier == "thorough" else 300
    pool = []
    for _ in range(n_rand):
        tags = []
        for _ in range(rng.randrange(0, 9)):
            typ = rng.choice([1, 2, 3, 3, 4, 6, 9, 16, 21, 22, 99, 0xFFFFFFFF])
            plen = rng.choice([0, 1, 3, 4, 7, 8, 9, 12, 16, 23, rng.randrange(0, 64)])
            if typ == 3 and rng.random() < 0.6:
                # module tags with every relation of the two addresses (empty, reversed, zero, extreme), with and without a string
                a, z = rng.choice([(0, 0), (5, 5), (9, 3), (0x1000, 0x2000), (0xFFFFFFFF, 0), (0, 0xFFFFFFFF), (7, 8),
                                   (0x80000000, 0x80000000)])
                tags.append(E.tag(3, E.u32(a) + E.u32(z) + rng.choice([b"", b"\0", b"m\0", b"mod x\0", b"nonul"]),
                                  fill=rng.choice([0, 0xAA])))
                dist["module_tags_with_address_pairs"] = dist.get("module_tags_with_address_pairs", 0) + 1
                continue
            tags.append(E.tag(typ, marker(plen, start=plen + typ % 50), fill=rng.choice([0, 0xAA])))
        b = bytearray(E.mbi(tags))
        if rng.random() < 0.3 and len(b) > 24:
            # corrupt one size field somewhere on the walk
            off = 8
            offs = []
            while off + 8 <= len(b) - 8:
                offs.append(off)
                s = int.from_bytes(b[off + 4:off + 8], "little")
                off += max(8, (s + 7) // 8 * 8)
            o = rng.choice(offs)
            b[o + 4:o + 8] = E.u32(rng.choice([0, 1, 7, 9, 12, len(b), len(b) - o, len(b) - o - 8, len(b) - o + 1, 0xFFFFFFFF]))
            dist["stuck"] += 1
        else:
            dist["complete"] += 1
        pool.append(bytes(b))
        cases.append("mbiwalk " + hx(b))
        dist["regions_random"] += 1
    # very many tags: n copies of one padded tag (n around 2^8 and 2^16: counters narrower than usize; depth of a
    # recursion per tag); model side: the closed form proved in C03_big_walk / C03_big_run
    big_tags = [E.tag(0x1337, b""), E.tag(1, b"hello\0"), E.tag(3, E.u32(0x1000) + E.u32(0x2000) + b"m\0"),
                E.tag(21, E.u32(7)), E.tag(3, E.u32(5) + E.u32(5))]
    for n in (0, 1, 2, 255, 256, 257, 4095, 65535, 65536, 65537, 70000) + ((150000, 400000) if tier == "thorough" else ()):
        for t in big_tags:
            if 16 + n * len(t) < 2 ** 25:
                cases.append("bigwalk %d %s" % (n, hx(t)))
                dist["many_tags"] = dist.get("many_tags", 0) + 1
    # after-panic histories, deterministic: on every region with a corrupted size the same iterator is polled 12 times
    # (the calls behind the first panic included), then nth(0), then a clone of it is polled
    for b in pool:
        if len(b) <= 200:
            ops = "[ 0 ] " + " ".join(["[ 1 0 ]"] * 12) + " [ 3 0 0 ] [ 2 0 ] [ 1 1 ] [ 1 1 ]"
            cases.append("iters %s [ %s ]" % (hx(b), ops))
            dist["histories"] += 1
    # iterator histories
    n_hist = 6000 if tier == "thorough" else 200
    for _ in range(n_hist):
        b = rng.choice(pool)
        cases.append("iters %s [ %s ]" % (hx(b), iter_history(rng)))
        dist["histories"] += 1
    return cases, dict(
        rule="mbiwalk: every sequence of declared tag sizes (0..remaining+9 at each position, i.e. incl. sizes below 8, "
             "non-multiples of 8, tags ending at/one byte past/8 bytes past the end) over tag regions of 0..%d bytes "
             "(exhaustive), followed by an end tag; seeded random regions of 0..8 tags (30%% with one corrupted size on the walk); "
             "iters: random new/next/clone/nth histories over those regions (calls go on after a caught panic). Compared: every yielded item (offset, extent, type, "
             "size, payload bytes), how the walk ends, the module iterator. distinct_nontrivial = distinct (domain, model transcript) pairs."
             % maxR,
        dist=dist, exhaustive=True)


# ==========================================================================
# C10
# ==========================================================================
def gen_C10(rng, tier):
    cases = ["hdrnull"]
    dist = {"length_mod8": {}, "magic": {}, "cksum": {}, "cksum_triples": 0}

    def region(length, arch, magic_ok, ck, extra=0):
        n = max(16, length) + extra
        magic = E.HDR_MAGIC if magic_ok else rng.choice([0, 0xE85250D7, 0xD65052E8, rng.getrandbits(32)])
        c = E.checksum(magic, arch, length)
        c = {"ok": c, "plus1": (c + 1) & 0xFFFFFFFF, "minus1": (c - 1) & 0xFFFFFFFF, "zero": 0 if c != 0 else 5}[ck]
        body = bytearray(E.u32(magic) + E.u32(arch) + E.u32(length) + E.u32(c) + bytes(max(0, n - 16)))
        if length >= 24 and length % 8 == 0 and length <= n:
            if length - 24 >= 8:
                # one information-request-like tag (typ 1, flags 0) filling [16, length-8)
                body[16:24] = E.u16(1) + E.u16(0) + E.u32(length - 24)
                for i in range(24, length - 8):
                    body[i] = (i * 7) % 251 + 1
            body[length - 8:length] = E.hend_tag()
        return bytes(body[:n])

    for length in range(0, 73):
        for arch in (0, 4):
            for magic_ok in (True, False):
                for ck in ("ok", "plus1", "minus1", "zero"):
                    cases.append("hdrwalk " + hx(region(length, arch, magic_ok, ck)))
                    count(dist["length_mod8"], str(length % 8))
                    count(dist["magic"], str(magic_ok))
                    count(dist["cksum"], ck)
    # pointers that are not 8-aligned (C10_misaligned): address classes 1..7 (0 for contrast) x lengths 0..48 x valid /
    # invalid magic and checksum with the declared region valid, and lengths up to 2^32-1 with only the 16 header bytes valid
    dist["misaligned_ptr"] = 0
    st = rng.getstate()         # region() draws the wrong magics: the later sampled families keep their draws
    for a in range(0, 8):
        for length in range(0, 49):
            for magic_ok, ck in ((True, "ok"), (False, "ok"), (True, "plus1")):
                cases.append("hdrmis %d %s" % (a, hx(region(length, 0, magic_ok, ck))))
                dist["misaligned_ptr"] += 1
        if a:
            for length in (16, 17, 24, 4096, 0x10000, 0x7FFFFFF8, 0x80000000, 0xFFFFFFF8, 0xFFFFFFFF):
                cases.append("hdrmis %d %s" % (a, hx(E.u32(E.HDR_MAGIC) + E.u32(0) + E.u32(length) + E.u32(E.checksum(E.HDR_MAGIC, 0, length)))))
                dist["misaligned_ptr"] += 1
    rng.setstate(st)
    # realistic headers (0..10 tags of the 11 kinds) and one mutation of each: the accepting side of the "iff"
    dist["realistic"] = {}
    for _ in range(10000 if tier == "thorough" else 250):
        tags = []
        while len(tags) < rng.randrange(0, 11):
            t = rand_htag(rng, malformed=0)
            if int.from_bytes(t[:2], "little") != 0:
                tags.append(t)
        arch = rng.choice([0, 4])
        good = E.header(tags, arch=arch)
        cases.append("hdrwalk " + hx(good))
        count(dist["realistic"], "well_formed")
        b = bytearray(good)
        n = len(b)
        kind = rng.choice(["magic", "cksum+1", "cksum_other_arch", "length+8", "length-8", "length+4", "length=8", "end_type", "end_size", "end_flags"])
        if kind == "magic":
            b[rng.randrange(0, 4)] ^= 1 << rng.randrange(8)
        elif kind == "cksum+1":
            b[12:16] = E.u32((int.from_bytes(b[12:16], "little") + 1) & 0xFFFFFFFF)
        elif kind == "cksum_other_arch":
            b[12:16] = E.u32(E.checksum(E.HDR_MAGIC, 4 - arch, n))
        elif kind in ("length+8", "length-8", "length+4", "length=8"):
            ln = {"length+8": n + 8, "length-8": n - 8, "length+4": n + 4, "length=8": 8}[kind]
            b[8:12] = E.u32(ln)
            b[12:16] = E.u32(E.checksum(E.HDR_MAGIC, arch, ln))
            b += bytes(max(0, ln - n))
        elif kind == "end_type":
            b[n - 8:n - 6] = E.u16(rng.choice([1, 7, 10]))
        elif kind == "end_size":
            b[n - 4:n] = E.u32(rng.choice([0, 7, 9, 16]))
        else:
            b[n - 6:n - 4] = E.u16(1)
        cases.append("hdrwalk " + hx(bytes(b)))
        count(dist["realistic"], kind)
    # headers made by the crate's own builder, both architectures: they must load (length, checksum, end tag are the builder's)
    if "ctor" in DOMAINS_READY:
        hb = [c for c in TB.GENS["hbuild"](TB.Gen(rng.getrandbits(32)), 1)]
        mips = [c for c in hb if c.startswith("hbuild 4 ")]
        i386 = [c for c in hb if c.startswith("hbuild 0 ")]
        pick = mips[:60] + random.Random(rng.getrandbits(32)).sample(i386, min(60, len(i386)))
        cases += pick
        dist["built_headers"] = len(pick)
    sizes = [80, 96, 100, 1024, 4096, 65536] + [rng.randrange(72, 1 << 14) for _ in range(30)]
    if tier == "thorough":
        sizes += [1 << 20, (1 << 20) + 4] + [rng.randrange(72, 1 << 18) for _ in range(200)]
    for length in sizes:
        for ck in ("ok", "plus1"):
            cases.append("hdrwalk " + hx(region(length, rng.choice([0, 4]), True, ck)))
            count(dist["length_mod8"], str(length % 8))
    # checksum law: boundaries and random triples
    vals = [0, 1, 8, 16, 0x17ADAF29, 0x17ADAF2A, 0x17ADAF2B, 0x17ADAF2C, 0x7FFFFFFF, 0x80000000, 0xFFFFFFFF, 0xFFFFFFFE]
    for m in (E.HDR_MAGIC, 0, 0xFFFFFFFF, 1):
        for a in (0, 4):
            for l in vals:
                cases.append("cksum %d %d %d" % (m, a, l))
                dist["cksum_triples"] += 1
    for _ in range(100000 if tier == "thorough" else 1500):
        m = rng.choice([E.HDR_MAGIC, rng.getrandbits(32)])
        cases.append("cksum %d %d %d" % (m, rng.choice([0, 4]), rng.getrandbits(rng.choice([8, 16, 32, 32]))))
        dist["cksum_triples"] += 1
    # verify_checksum on bare basic headers: every length class incl. those whose sum exceeds 2^32 (no memory of that size needed)
    big = [0, 16, 0x17ADAF20, 0x17ADAF28, 0x17ADAF29, 0x17ADAF2A, 0x17ADAF2B, 0x17ADAF30, 0x17ADAF38, 0x20000000, 0x7FFFFFF8,
           0x80000000, 0xFFFFFFF0, 0xFFFFFFF8, 0xFFFFFFFF]
    big += [rng.getrandbits(32) for _ in range(400 if tier == "quick" else 5000)]
    for length in big:
        for arch in (0, 4):
            for magic in (E.HDR_MAGIC, 0, 0xFFFFFFFF, rng.getrandbits(32)):
                c = E.checksum(magic, arch, length)
                for ck in (c, (c + 1) & 0xFFFFFFFF, rng.getrandbits(32)):
                    cases.append("verify " + hx(E.u32(magic) + E.u32(arch) + E.u32(length) + E.u32(ck)))
                    dist["verify"] = dist.get("verify", 0) + 1
    # Header::set_size of a basic header that already holds a length and a checksum: the checksum is recomputed for the new length
    import test_build_domains as TB2
    g2 = TB2.Gen(rng.getrandbits(32))
    nb = [c for c in TB2.gen_newboxed(g2, 1) if c.startswith("newboxed 4 ")]
    cases += nb[::3]
    dist["set_size_of_basic_headers"] = len(nb[::3])
    # declared lengths around 2^30, 2^31 and 2^32 backed by that much (sparse, zero) memory; model: C10_load_sparse
    for length in [0x3FFFFFF8, 0x40000000, 0x7FFFFFF0, 0x7FFFFFF8, 0x7FFFFFFC, 0x80000000, 0x80000004, 0x80000008, 0x80000010, 0x80000018, 0xC0000000, 0xFFFFFFE8, 0xFFFFFFF0, 0xFFFFFFF8, 0xFFFFFFFC, 0xFFFFFFFF]:
        for arch in (0, 4):
            for magic in (E.HDR_MAGIC, 0xE85250D7):
                c = E.checksum(magic, arch, length)
                for ck in (c, (c + 1) & 0xFFFFFFFF):
                    cases.append("hdrhuge " + hx(E.u32(magic) + E.u32(arch) + E.u32(length) + E.u32(ck)))
                    dist["huge_lengths"] = dist.get("huge_lengths", 0) + 1
    return cases, dict(
        rule="verify: Multiboot2BasicHeader::verify_checksum on bare 16-byte headers with lengths around 2^32 - magic, 2^31, 2^32 and "
             "seeded random lengths x arch x magic {spec, 0, 0xFFFFFFFF, random} x checksum {right, +1, random}; "
             "hdrwalk: all lengths 0..72 x arch {0,4} x magic {ok, wrong} x checksum {ok, +1, -1, zero} (exhaustive), larger "
             "lengths sampled; null pointer; cksum: boundary and seeded random (magic, arch, length) triples. Only the `load` line "
             "and `calc_checksum` are compared for this property. distinct_nontrivial = distinct (domain, model transcript) pairs.",
        dist=dist, exhaustive=True)


# ==========================================================================
# C13
# ==========================================================================
def gen_C13(rng, tier):
    cases = []
    dist = {"small": 0, "window": 0, "random": 0, "misaligned_buffer": 0}
    MAG = E.u32(E.HDR_MAGIC)            # d6 50 52 e8

    def buf(n, positions, stored=None, fill=0):
        b = bytearray([fill] * n)
        for i in positions:
            for k in range(4):
                if i + k < n:
                    b[i + k] = MAG[k]
        if stored is not None and positions:
            i = positions[0]
            for k in range(4):
                if i + 8 + k < n:
                    b[i + 8 + k] = E.u32(stored)[k]
        return bytes(b)

    for n in range(0, 41):
        cases.append("find 0 " + hx(bytes(n)))
        for i in range(0, max(0, n - 3)):
            for stored in (0, 16, n - i, n - i + 1, 0xFFFFFFFF):
                cases.append("find 0 " + hx(buf(n, [i], max(0, stored))))
                dist["small"] += 1
        # partial magic at the very end
        if n >= 2:
            cases.append("find 0 " + hx(buf(n, [n - 2])))
    # content-dependent search: partial magics and single magic bytes (every prefix and rotation of d6 50 52 e8) 1..7 bytes
    # in front of a real occurrence, in a buffer of magic-alphabet filler; and overlapping partial occurrences
    for pos in (8, 16, 24, 21):
        for back in range(1, 8):
            for frag in (MAG[:1], MAG[:2], MAG[:3], MAG[1:2], MAG[1:], MAG[3:] + MAG[:1], bytes([0xd6, 0xd6]), bytes([0xd6, 0x50, 0xd6])):
                if pos - back < 0:
                    continue
                b = bytearray(buf(56, [pos], 16, fill=rng.choice([0, 0xd6, 0x50, 0xe8])))
                b[pos - back:pos - back + len(frag)] = frag[:back]      # never overwrites the real occurrence
                cases.append("find 0 " + hx(bytes(b)))
                dist["fragments"] = dist.get("fragments", 0) + 1
    # two occurrences: the first one decides
    for (i, j) in ((8, 24), (4, 16), (16, 20), (0, 8), (9, 16)):
        cases.append("find 0 " + hx(buf(48, [j, i], 16)))
    # around the 8192-byte window
    lens = list(range(8180, 8211)) + [16384]
    poss = [8168, 8176, 8180, 8181, 8184, 8185, 8186, 8187, 8188, 8189, 8190, 8191, 8192, 8196, 8200]
    keep = 1.0 if tier == "thorough" else 0.25
    for n in lens:
        cases.append("find 0 " + hx(bytes(n))) if rng.random() < keep else None
        for i in poss:
            if i + 4 > n + 2:
                continue
            for stored in (16, n - i, n - i + 1):
                if rng.random() > keep:
                    continue
                cases.append("find 0 " + hx(buf(n, [i], stored)))
                dist["window"] += 1
    # an occurrence beyond the window must be ignored even when one inside exists later... and vice versa
    cases.append("find 0 " + hx(buf(16384, [8200, 12000], 16)))
    cases.append("find 0 " + hx(buf(16384, [8184], 16)))
    cases.append("find 0 " + hx(buf(16384, [8184], 8200)))
    cases.append("find 0 " + hx(buf(16384, [8184], 8201)))
    # random buffers with planted magics
    for _ in range(600 if tier == "thorough" else 80):
        n = rng.choice([rng.randrange(0, 200), rng.randrange(8000, 8400), rng.randrange(0, 20000)])
        b = bytearray(rng.getrandbits(8) for _ in range(n)) if n < 400 else bytearray(n)
        pos = sorted(rng.randrange(0, max(1, n)) & ~rng.choice([0, 7, 7, 7]) for _ in range(rng.randrange(0, 3)))
        bb = bytearray(buf(n, [], None))
        bb[:] = b
        for i in pos:
            for k in range(4):
                if i + k < n:
                    bb[i + k] = MAG[k]
        if pos and pos[0] + 12 <= n:
            bb[pos[0] + 8:pos[0] + 12] = E.u32(rng.choice([16, 24, n - pos[0], n - pos[0] + 8, rng.randrange(0, 64)]))
        cases.append("find 0 " + hx(bb))
        dist["random"] += 1
    # buffers of 2 GiB .. 5 GiB (sparse, zero behind the first 8204 bytes); model: C13_sparse
    for L in (0x80000000, 0xFFFFFFF8, 0x100000000, 0x100000008, 0x100000FF8, 0x100001FFF, 0x100002000, 0x100002008, 0x140000000):
        for idx in (None, 0, 8, 64, 4, 8184, 8188, 8192):
            for hl in ((24, L, 0xFFFFFFFF) if idx is not None else (0,)):
                pre = bytearray(8204)
                if idx is not None:
                    hl2 = hl if hl != L else min(0xFFFFFFFF, L - idx)
                    blob = E.u32(E.HDR_MAGIC) + E.u32(0) + E.u32(hl2) + E.u32(E.checksum(E.HDR_MAGIC, 0, hl2))
                    pre[idx:idx + 16] = blob[:max(0, min(16, 8204 - idx))]
                cases.append("findhuge %d %s" % (L, hx(bytes(pre))))
                dist["huge_buffers"] = dist.get("huge_buffers", 0) + 1
    for a in range(1, 8):
        cases.append("find %d %s" % (a, hx(buf(40, [8 - a if a <= 8 else 0], 16))))
        cases.append("find %d %s" % (a, hx(bytes(0))))
        dist["misaligned_buffer"] += 2
    return cases, dict(
        rule="find: every buffer length 0..40 x every magic position x stored length {0,16,exact,exact+1,2^32-1} (exhaustive); "
             "lengths 8180..8210 and 16384 x magic positions around 8192 x stored lengths (thorough: all, quick: seeded 25%); several "
             "occurrences; random buffers with planted magics; misaligned buffers. distinct_nontrivial = distinct (domain, model transcript) pairs.",
        dist=dist, exhaustive=(tier == "thorough"))


def judge_C13(case, ml, il):
    if len(ml) == 1 and len(il) == 1 and " ERR " in ml[0] and " ERR " in il[0]:
        return ("harmless", "both report an error; the property leaves the error kind open")
    return default_judge(case, ml, il)


PROPS.update({
    "C02": dict(gen=gen_C02, configs=["dev", "rel"], judge=judge_projection(["load"]), both_placements=True,
                assumptions=["the memory made valid for load is max(8, declared total size) bytes (the caller's obligation under load's safety contract)"]),
    "C03": dict(gen=gen_C03, configs=["dev", "rel"], judge=judge_projection(["load", "tag", "tags", "tags_nth", "tags_count", "tags_clone", "tags_last", "tags_last_exhausted", "module", "modules", "modules_count", "modules_clone", "new", "clone", "next", "nth", "debug"]),
                both_placements=True, assumptions=["an iterator is not used again after one of its calls panicked"]),
    "C10": dict(gen=gen_C10, configs=["dev", "rel"], judge=judge_projection(["load", "calc_checksum", "verify_checksum", "hbuild", "new_boxed"]), both_placements=True,
                assumptions=["the architecture word is 0 or 4 (a defined HeaderTagISA value), as the property presupposes"]),
    "C13": dict(gen=gen_C13, configs=["dev", "rel"], judge=judge_C13, both_placements=True, assumptions=[]),
})
NOT_APPLICABLE = {}


# ==========================================================================
# C15
# ==========================================================================
USER_ELEMS = [(1, 1), (2, 2), (3, 1), (4, 4), (8, 8), (24, 8)]
USER_FIXED = [0, 1, 4, 8, 12, 16]


def gen_C15(rng, tier):
    cases = []
    dist = {"sized": 0, "dst": 0, "builtin": 0}

    def tagbytes(size, typ=77):
        n = (size + 7) // 8 * 8
        return (E.u32(typ) + E.u32(size) + marker(max(0, n - 8), start=size))[:max(8, n)]

    for size in range(8, 97):
        for k in range(0, 7):
            cases.append("cast 0 %d %s" % (k, hx(tagbytes(size))))
            dist["sized"] += 1
        for F in USER_FIXED:
            for (es, ea) in USER_ELEMS:
                cases.append("cast 1 %d %d %d %s" % (F, es, ea, hx(tagbytes(size))))
                dist["dst"] += 1
    # tag types aligned to 16 (more strictly than the structure they are cast from): sized with 2 / 6 words, DSTs of 16-byte
    # elements; and tags of type 0 (the end-tag ID) with every size, cast to every type
    for size in range(8, 97):
        for tb in (tagbytes(size), tagbytes(size) + marker(16, start=size)):
            cases.append("cast 2 2 16 %s" % hx(tb))
            cases.append("cast 2 6 16 %s" % hx(tb))
            cases.append("cast 1 0 16 16 %s" % hx(tb))
            cases.append("cast 1 8 16 16 %s" % hx(tb))
            dist["align16"] = dist.get("align16", 0) + 4
    for size in range(0, 41):
        tb = tagbytes(size, typ=0)
        for k in (0, 1, 2):
            cases.append("cast 0 %d %s" % (k, hx(tb)))
        for (es, ea) in USER_ELEMS[:4]:
            cases.append("cast 1 0 %d %d %s" % (es, ea, hx(tb)))
        dist["type0_tags"] = dist.get("type0_tags", 0) + 7
    # built-in kinds x sizes around their fixed sizes (through the typed getters of a loaded region)
    if "mbi" in DOMAINS_READY:
        sizes_for = lambda fixed: sorted(set(list(range(8, 41)) + list(range(max(8, fixed - 9), fixed + 17)) + [fixed + 24, fixed + 48, fixed + 100]))
        for typ, fixed in BUILTIN_FIXED.items():
            for s in sizes_for(fixed):
                if tier == "quick" and rng.random() > 0.5 and abs(s - fixed) > 8:
                    continue
                body = bytearray(marker(max(0, (s + 7) // 8 * 8 - 8), start=typ + s))
                neutralise(typ, body)
                cases.append("mbi " + hx(E.mbi([E.tag(typ, bytes(body)[:max(0, s - 8)], size=s)])))
                dist["builtin"] += 1
    # the 11 built-in header-tag kinds of the header crate x every size 0..44 (through the typed getters of a loaded header)
    for typ in range(0, 11):
        for s in list(range(0, 45)) + [48, 100]:
            n = max(8, (min(s, 128) + 7) // 8 * 8)
            body = bytearray(marker(n - 8, start=typ + s))
            if typ == 4 and len(body) >= 4:
                body[0:4] = E.u32(rng.choice([0, 1]))          # console flags: a declared discriminant
            if typ == 10 and len(body) >= 16:
                body[12:16] = E.u32(rng.choice([0, 1, 2]))     # relocatable preference
            t = (E.u16(typ) + E.u16(rng.choice([0, 1])) + E.u32(s) + bytes(body))[:n]
            cases.append("hdr " + hx(E.header([t, E.htag(6, 0, b"")])))
            dist["builtin_header_kinds"] = dist.get("builtin_header_kinds", 0) + 1
    # RSDP v2 tables whose stored length is around the 36 bytes the tag holds (up to the tag size and beyond), followed by
    # different tags and dirty padding: the checksum never takes a byte behind the table into account
    for ln in list(range(30, 50)) + [0, 20, 0xFFFFFFFF]:
        for nxt in (E.t_cmdline("n"), E.tag(0x21, b"\xab" * 8)):
            d = E.rsdp_v2(b"RSD PTR ", b"OEMID ", 2, 0x1000, ln, 0x2000)
            reg = bytearray(dirty_padding(E.mbi([E.t_acpi_v2(d), nxt]), rng, 1.0))
            if 33 <= ln <= 64:
                # the extended checksum byte (table offset 32) chosen such that the ln bytes from the table's start sum to 0,
                # padding and the next tag's bytes included: a sum that runs beyond the 36-byte table would call it valid
                tot = sum(reg[16:16 + ln]) - reg[16 + 32]
                reg[16 + 32] = (-tot) % 256
            cases.append(mbi_case(bytes(reg)))
            dist["rsdp_v2_lengths"] = dist.get("rsdp_v2_lengths", 0) + 1
    efi = [c for c in gen_C18(random.Random(rng.getrandbits(32)), tier)[0] if c.startswith("mbi ")]
    if tier == "quick" and len(efi) > 300:
        efi = random.Random(rng.getrandbits(32)).sample(efi, 300)
    cases += efi
    dist["efi_maps"] = len(efi)
    # what a typed view hands out lies inside the tag: palettes against the colour count, ELF tables against count x size
    cases += palette_family(dist)
    elf = [c for c in gen_C19(random.Random(rng.getrandbits(32)), tier)[0] if c.startswith("mbi ")]
    if tier == "quick" and len(elf) > 400:
        elf = random.Random(rng.getrandbits(32)).sample(elf, 400)
    cases += elf + elf_boundary_cases()
    dist["elf_tables"] = len(elf)
    # BootInformation::get_tag::<T>() with user-defined T: the tag of T's ID absent / first / behind others / twice, every size 8..40
    # a slice longer than the tag it starts with (ref_from_slice takes the size from the header, not from the slice)
    for size in range(8, 41):
        for extra in (8, 16, 24):
            tb = tagbytes(size) + marker(extra, start=size + extra)
            for k in (0, 1, 2, 4, 6):
                cases.append("cast 0 %d %s" % (k, hx(tb)))
                dist["sized"] += 1
            for F in USER_FIXED[:3]:
                for (es, ea) in USER_ELEMS[:4]:
                    cases.append("cast 1 %d %d %d %s" % (F, es, ea, hx(tb)))
                    dist["dst"] += 1
    # a slice shorter than the size its header declares (by 1..16 bytes): never accepted, whatever the type cast to
    for size in range(9, 41):
        full = tagbytes(size)
        for short in (8, 16):
            if short >= len(full):
                continue
            tb = full[:len(full) - short]
            for k in (0, 1, 2, 4):
                cases.append("cast 0 %d %s" % (k, hx(tb)))
                dist["sized"] += 1
            for (es, ea) in USER_ELEMS[:3]:
                cases.append("cast 1 0 %d %d %s" % (es, ea, hx(tb)))
                dist["dst"] += 1
    # header-crate tag structures from slices that miss their padding (length 4 mod 8) or are shorter than declared
    for n in (8, 12, 16, 20, 24, 28):
        for d in range(max(8, n - 9), n + 10):
            cases.append("c14 2 0 %s" % hx((hdr_bytes(2, d, rng) + marker(n, start=n + d))[:n]))
            dist["header_tag_slices"] = dist.get("header_tag_slices", 0) + 1
    for sel, typ in ((0, 4096), (1, 4097), (2, 1)):
        for size in range(0, 41):
            tb = tagbytes(size, typ)
            other = tagbytes(8 + rng.randrange(0, 20), rng.choice([4095, 4098, 5, 2]))
            for tags in ([tb], [other, tb], [tb, tagbytes(16, typ)], [other]):
                cases.append("gettag %d %s" % (sel, hx(valid_mem(E.mbi(tags)))))
                dist["gettag"] = dist.get("gettag", 0) + 1
    return cases, dict(
        rule="gettag: get_tag::<T>() for three user-defined T (sized with two words / DST with a u32 tail / header-only type "
             "claiming the command-line ID) on regions where the tag of T's ID is absent, first, behind another tag, or present "
             "twice, for every tag size 0..40. cast: also on slices 8..24 bytes longer than the tag; 7 sized user types (0..6 extra words) and 36 DST user types (fixed extra bytes {0,1,4,8,12,16} x element "
             "(size,align) {(1,1),(2,2),(3,1),(4,4),(8,8),(24,8)}) x every tag size 8..96 (exhaustive); mbi: each of the 22 built-in "
             "kinds in a one-tag region x sizes 8..40 and around its fixed size. Compared: panic or (address, size_of_val, element "
             "count). distinct_nontrivial = distinct (domain, model transcript) pairs.",
        dist=dist, exhaustive=True)


# fixed (spec) sizes of the built-in kinds, by type number
BUILTIN_FIXED = {1: 8, 2: 8, 3: 16, 4: 16, 5: 20, 6: 16, 7: 784, 8: 32, 9: 20, 10: 28, 11: 12, 12: 16, 13: 16, 14: 28,
                 15: 44, 16: 8, 17: 16, 18: 8, 19: 12, 20: 16, 21: 12}
DOMAINS_READY = set()


def neutralise(typ, body):
    """keep enum-typed bytes of a payload in range so that the harness may read them (VBE memory model)"""
    if typ == 7 and len(body) > 555 - 8:
        body[555 - 8] %= 8


PROPS.update({
    "C15": dict(gen=gen_C15, configs=["dev", "rel"], judge=judge_projection(["cast", "get", "load", "get_user", "ref_from_slice", "information_request_tag", "tags", "framebuffer", "elf", "elf_section", "elf_end", "rsdp_v2", "efi_nth", "efi_hist"]), both_placements=True,
                assumptions=["user-defined types of the harness (dom_cast.rs) declare BASE_SIZE = offset of the tail and dst_len = (size - BASE_SIZE)/element size"]),
})


# ==========================================================================
# boot-information full dump (domain `mbi`): C01, C04, C05, C17, C18, C19, C08
# ==========================================================================
import test_mbi_dump as TM  # noqa: E402  (structured region generator and hand-written regions)

DOMAINS_READY.add("mbi")


def valid_mem(region):
    """the memory made valid for load: at least the 8-byte header and the declared total size"""
    region = bytes(region)
    if len(region) < 8:
        region = region + bytes(8 - len(region))
    total = int.from_bytes(region[:4], "little")
    if total > len(region) and total < (1 << 22):
        region = region + bytes(total - len(region))
    return region


def has_vbe_ub(lines):
    return any(l.startswith("vbe_mi ") and l.endswith("memory_model=UB") for l in lines)


def mbi_case(region):
    return "mbi " + hx(valid_mem(region))


def dirty_padding(region, rng, prob=0.5):
    """alignment padding behind tags is unspecified memory: fill it with non-zero bytes (with probability prob per tag)"""
    b = bytearray(region)
    total = min(len(b), int.from_bytes(b[:4], "little"))
    off = 8
    while off + 8 <= total:
        size = int.from_bytes(b[off + 4:off + 8], "little")
        if size < 8:
            break
        end = off + (size + 7) // 8 * 8
        if end > total:
            break
        if size % 8 and rng.random() < prob:
            for i in range(off + size, end):
                b[i] = rng.choice([0xAA, 0xFF, 0x41, rng.randrange(1, 256)])
        off = end
    return bytes(b)


def gen_mbi_regions(rng, n, dist):
    g = TM.Gen(rng.getrandbits(32))
    out = []
    for _ in range(n):
        r = valid_mem(g.region())
        if int.from_bytes(r[:4], "little") > len(r):
            continue
        out.append(r)
        count(dist, "random_regions")
    return out


def mutate_counts(rng, region):
    """boundary mutation of one size/count/stride/index field of one tag on the walk"""
    b = bytearray(region)
    tags = []
    off = 8
    total = min(len(b), int.from_bytes(b[:4], "little"))
    while off + 8 <= total:
        typ = int.from_bytes(b[off:off + 4], "little")
        size = int.from_bytes(b[off + 4:off + 8], "little")
        if size < 8:
            break
        tags.append((off, typ, size))
        off += (size + 7) // 8 * 8
    cand = []
    for (o, typ, size) in tags:
        if typ == 17 and size >= 16:
            cand += [(o + 8, 4, [0, 1, 8, 16, 24, 32, 39, 40, 41, 44, 48, 56, size - 16, size - 15, 0xFFFFFFFF]),
                     (o + 12, 4, [0, 1, 2, 0xFFFFFFFF])]
        if typ == 9 and size >= 20:
            cand += [(o + 8, 4, [0, 1, 2, 3, 4, 5, (size - 20) // 40, (size - 20) // 40 + 1, (size - 20) // 64 + 1, 0x10000, 0xFFFF]),
                     (o + 12, 4, [0, 1, 39, 40, 41, 63, 64, 65, 0x10000, 0x80000000]),
                     (o + 16, 4, [0, 1, 2, 3, 4, 0xFFFF, 0xFFFFFFFF])]
        if typ == 8 and size >= 34:
            cand += [(o + 29, 1, [0, 1, 2, 3, 7, 255]), (o + 32, 2, [0, 1, 2, (size - 34) // 3, (size - 34) // 3 + 1, 255, 256, 0xFFFF])]
        if typ == 15 and size >= 44:
            cand += [(o + 28, 4, [0, 19, 20, 35, 36, 37, 40, 44, 4000, 0xFFFFFFFF])]
        if typ == 6 and size >= 16:
            cand += [(o + 8, 4, [0, 20, 23, 24, 25, 48])]
        cand += [(o + 4, 4, [0, 7, 8, 9, size - 1, size + 1, size + 8, total - o, total - o + 1, total - o - 8, 0xFFFFFFFF])]
    if not cand:
        return None
    (o, w, vals) = rng.choice(cand)
    v = rng.choice(vals) & ((1 << (8 * w)) - 1)
    b[o:o + w] = v.to_bytes(w, "little")
    return bytes(b)


def palette_family(dist):
    """indexed framebuffer: every buffer length x colour count around it (the palette must fit behind its 2-byte count)"""
    out = []
    for L in range(0, 26):
        # 21846, 21847, 43691, 43692: 3 * count wraps to 2, 5, 1, 4 in 16-bit arithmetic
        for ncol in list(range(0, 10)) + [255, 256, 21845, 21846, 21847, 43691, 43692, 0xFFFF]:
            buf = (E.u16(ncol) + marker(64, start=L + ncol))[:L]
            out.append(mbi_case(E.mbi([E.t_framebuffer(0x1000, 1, 2, 3, 8, 0, buf, 0), E.t_cmdline("NEXT")])))
            count(dist, "palette_family")
    return out


def gen_C01(rng, tier):
    dist = {}
    cases = []
    for r in TM.hand_cases():
        r = valid_mem(r)
        if int.from_bytes(r[:4], "little") <= len(r):
            cases.append(mbi_case(r))
            count(dist, "hand_written")
    # iterator histories (new / next / clone in any order, continuing after a caught panic) over well- and ill-formed regions
    hist = [c for c in gen_C03(random.Random(rng.getrandbits(32)), tier)[0] if c.startswith("iters ")]
    cases += hist
    dist["iterator_histories"] = len(hist)
    n = 16000 if tier == "thorough" else 350
    regions = [dirty_padding(r, rng) for r in gen_mbi_regions(rng, n, dist)]
    cases += palette_family(dist)
    for r in regions:
        cases.append(mbi_case(r))
        if rng.random() < 0.6:
            m = mutate_counts(rng, r)
            if m is not None:
                cases.append(mbi_case(m))
                count(dist, "boundary_mutations")
        if rng.random() < 0.1 and len(r) > 24:
            cut = rng.randrange(8, len(r)) & ~3
            t = bytearray(r[:max(8, cut)])
            t[0:4] = E.u32(len(t))
            cases.append(mbi_case(bytes(t)))
            count(dist, "truncations")
        if rng.random() < 0.05:
            u = bytearray(rng.getrandbits(8) for _ in range(rng.choice([16, 24, 40, 64, 128])))
            u[0:4] = E.u32(len(u))
            u[-8:] = E.end_tag()
            cases.append(mbi_case(bytes(u)))
            count(dist, "unstructured")
    return cases, dict(
        rule="mbi (full dump: load, generic walk, module iterator, all 20 typed getters, every accessor of every tag kind, "
             "EFI/ELF iterators run to exhaustion with len() after each step): hand-written regions covering every kind and "
             "malformation; seeded structured regions (all 22 kinds + custom, 0..10 tags, 15% wrong size fields); boundary "
             "mutations of every internal count/stride/index field (EFI descriptor size/version, ELF count/entry size/shndx, "
             "palette colour count, framebuffer type, RSDP length, memory-map entry size, tag sizes); truncations; unstructured "
             "bytes. Region placed flush against a PROT_NONE guard page at its end and (second run) at its start. "
             "distinct_nontrivial = distinct (domain, model transcript) pairs.",
        dist=dist, exhaustive=False)


def judge_mbi_full(case, ml, il):
    """every line is compared; any difference is a failing input of the property"""
    if ml == il:
        return ("ok", "")
    if case.startswith("elfname "):
        return judge_C19(case, ml, il)
    if any("CRASH" in l or "TIMEOUT" in l for l in il):
        return ("violation", "the implementation crashed or did not terminate")
    return default_judge(case, ml, il)


def judge_skip_ok(case, ml, il):
    """as judge_mbi_full; a build without the `builder` feature prints SKIP for what does not exist there"""
    if il == ["SKIP"]:
        return ("ok", "")
    return judge_mbi_full(case, ml, il)


def model_ub(case, ml):
    """lines where the model itself predicts undefined behaviour (Fault) on an input inside the contract"""
    # ELF section names live at an external address: a name read leaving the external buffer is outside every property's claim
    return [l for l in ml if (l.endswith(" UB") or " UB " in l or "=UB" in l or "UB-SKIPPED" in l) and not l.startswith("elfname ")]


def _is_f18_line(l):
    """the observables of known finding F18: the memory-model accessor, Debug of the VBE tag, and Debug of a boot
    information holding such a tag (not formatted by the harness)"""
    return (l.startswith("vbe_mi ") and l.endswith("memory_model=UB")) or l == "debug vbe_info UB" or l == "debug boot UB-SKIPPED"


MATCHERS["F18-vbe-memory-model"] = lambda d: all(_is_f18_line(l) for l in d.get("ub_lines", ["x"]))
MATCHERS["F18-vbe-memory-model-c08"] = MATCHERS["F18-vbe-memory-model"]
MATCHERS["F18-vbe-memory-model-c04"] = MATCHERS["F18-vbe-memory-model"]

PROPS.update({
    "C01": dict(gen=gen_C01, configs=["dev", "rel"], judge=judge_mbi_full, both_placements=True, check_model_ub=True,
                assumptions=["the memory made valid for load is max(8, declared total size) bytes",
                             "ELF section names (external addresses) are not dereferenced by the dump",
                             "the harness does not read VBEModeInfo.memory_model when its byte is not a declared discriminant (known finding F18)"]),
})


# ==========================================================================
# C04 / C05 / C17 / C18 / C19 (domain mbi), C09 / C11 (domain hdr)
# ==========================================================================
class ConformantGen(TM.Gen):
    """spec-conformant variants of the structured generators (sizes exact, inner counts consistent)"""

    def size_kw(self, natural):
        return {}

    def mmap(self):
        r = self.r
        n = r.choice([0, 1, 2, 3, 5])
        areas = [(self.u(64), self.u(64), r.choice([0, 1, 2, 3, 4, 5, 6, 0xFFFFFFFF]), r.choice([0, 0xABCD])) for _ in range(n)]
        return E.t_mmap(areas, 24, r.choice([0, 0, 1]), b"")

    def efi_mmap(self):
        r = self.r
        ds = r.choice([40, 40, 48, 56, 64, 128])
        n = r.choice([0, 1, 2, 3, 4])
        data = b"".join(E.efi_desc(self.u(32), self.u(64), self.u(64), self.u(64), self.u(64), ds, self.u(32), r.getrandbits(8))
                        for _ in range(n))
        return E.t_efi_mmap(ds, 1, data)

    def elf(self):
        r = self.r
        es = r.choice([40, 64])
        n = r.choice([0, 1, 2, 3, 4, 6])
        ent = E.elf64_entry if es == 64 else E.elf32_entry
        w = 64 if es == 64 else 32
        table = b"".join(ent(self.u(32), r.choice(TM.ELF_TYPES), self.u(w), self.u(w), self.u(w), self.u(w), self.u(32),
                             self.u(32), self.u(w), self.u(w)) for _ in range(n))
        return E.t_elf(n, es, r.randrange(n) if n else 0, table)

    def framebuffer(self):
        r = self.r
        ty = r.choice([0, 1, 2])
        if ty == 0:
            n = r.choice([0, 1, 2, 3, 16, 255])
            buf = E.fb_indexed([tuple(self.rb(3)) for _ in range(n)], n)
        elif ty == 1:
            buf = E.fb_rgb(*self.rb(6))
        else:
            buf = b""
        return E.t_framebuffer(self.u(64), self.u(32), self.u(32), self.u(32), self.u(8), ty, buf, 0)

    def acpi_v2(self):
        r = self.r
        d = E.rsdp_v2(b"RSD PTR ", r.choice(TM.OEMS), self.u(8), self.u(32), 36, self.u(64),
                      None if r.random() < 0.7 else self.u(8), None if r.random() < 0.7 else self.u(8),
                      bytes(3) if r.random() < 0.3 else self.rb(3))       # the reserved bytes are part of the checksummed table
        return E.t_acpi_v2(d)

    def vbe(self):
        t = bytearray(super().vbe())
        if len(t) > 555 and self.r.random() < 0.8:
            t[555] %= 8
        return bytes(t)


def gen_tageq(rng, n, dist):
    """pairs of conformant regions for the domain tageq: identical; differing in alignment padding only; differing in one
    byte inside one tag; the same kinds with other contents"""
    cases = []
    g = ConformantGen(rng.getrandbits(32))
    for _ in range(n):
        ks = list(g.KINDS)
        g.r.shuffle(ks)
        ks = ks[:g.r.choice([3, 6, 10, len(ks)])]
        a = bytearray(E.mbi([getattr(g, k)() for k in ks]))
        tags = []                              # (offset, size) of every tag of the walk
        off = 8
        while off + 8 <= len(a):
            sz = int.from_bytes(a[off + 4:off + 8], "little")
            if sz < 8:
                break
            tags.append((off, sz))
            off += (sz + 7) // 8 * 8
        b = bytearray(a)
        x = g.r.random()
        if x < 0.25:
            kind = "identical"
        elif x < 0.55:
            kind = "padding_differs"
            for (o, sz) in tags:
                for i in range(o + sz, o + (sz + 7) // 8 * 8):
                    b[i] ^= g.r.choice([0xFF, 0x01, 0x80])
        elif x < 0.9:
            kind = "one_byte_differs"
            (o, sz) = g.r.choice(tags[:-1] or tags)
            if sz > 8:
                i = o + g.r.randrange(8, sz)
                b[i] ^= g.r.choice([0xFF, 0x01, 0x80])
                if o + 555 == i:               # keep the VBE memory-model byte a declared discriminant
                    b[i] = (a[i] + 1) % 8
        else:
            kind = "other_contents"
            b = bytearray(E.mbi([getattr(g, k)() for k in ks]))
        count(dist, "tageq_" + kind)
        cases.append("tageq %s %s" % (hx(bytes(a)), hx(bytes(b))))
    return cases


def gen_C04(rng, tier):
    dist = {}
    cases = []
    g = ConformantGen(rng.getrandbits(32))
    n = 12000 if tier == "thorough" else 300
    for _ in range(n):
        r = g.r
        x = r.random()
        if x < 0.3:     # every kind once, shuffled, possibly with duplicates of some
            ks = list(g.KINDS)
            r.shuffle(ks)
            if r.random() < 0.6:
                ks.remove("efi_bs")
            ks += [r.choice(g.KINDS) for _ in range(r.choice([0, 1, 3]))]
            count(dist, "all_kinds")
        elif x < 0.5:   # one kind, 1..3 instances: the first must be selected
            k = r.choice(g.KINDS)
            ks = [k] * r.choice([1, 2, 3])
            count(dist, "duplicates_of_one_kind")
        else:
            ks = [r.choice(g.KINDS + ["module", "module"]) for _ in range(r.choice([0, 1, 2, 4, 6, 9]))]
            count(dist, "random_subsets")
        tags = [getattr(g, k)() for k in ks]
        if r.random() < 0.2:
            tags.insert(r.randrange(len(tags) + 1), g.custom())
        cases.append(mbi_case(dirty_padding(E.mbi(tags), rng, 0.7)))
    # RSDP v2 tables whose stored length is around the 36 bytes the tag holds (up to the tag size and beyond), followed by
    # different tags and dirty padding: the checksum never takes a byte behind the table into account
    for ln in list(range(30, 50)) + [0, 20, 0xFFFFFFFF]:
        for nxt in (E.t_cmdline("n"), E.tag(0x21, b"\xab" * 8)):
            d = E.rsdp_v2(b"RSD PTR ", b"OEMID ", 2, 0x1000, ln, 0x2000)
            reg = bytearray(dirty_padding(E.mbi([E.t_acpi_v2(d), nxt]), rng, 1.0))
            if 33 <= ln <= 64:
                # the extended checksum byte (table offset 32) chosen such that the ln bytes from the table's start sum to 0,
                # padding and the next tag's bytes included: a sum that runs beyond the 36-byte table would call it valid
                tot = sum(reg[16:16 + ln]) - reg[16 + 32]
                reg[16 + 32] = (-tot) % 256
            cases.append(mbi_case(bytes(reg)))
            dist["rsdp_v2_lengths"] = dist.get("rsdp_v2_lengths", 0) + 1
    # framebuffer tags without any colour information (size 32) for every type byte; with 1..5 bytes of it for the known types
    for b in list(range(0, 8)) + [0x7F, 0x80, 0xFE, 0xFF]:
        cases.append(mbi_case(E.mbi([E.t_framebuffer(0x3000, 7, 8, 9, 24, b, b"", 0)])))
        for n in (1, 2, 5, 6, 7):
            cases.append(mbi_case(E.mbi([E.t_framebuffer(0x3000, 7, 8, 9, 24, b, bytes(range(1, n + 1)), 0)])))
        count(dist, "framebuffer_without_colour_info")
    # long regions: the first tag of a kind only after 22..60 custom and module tags (a getter must walk everything)
    for k in g.KINDS:
        nb = g.r.choice([22, 23, 24, 33, 60])
        tags = [g.custom() if g.r.random() < 0.8 else g.module() for _ in range(nb)] + [getattr(g, k)()]
        cases.append(mbi_case(E.mbi(tags)))
        count(dist, "long_regions")
    # conformant indexed framebuffers with large palettes (3 * count exceeds 16 bits from 21846 colours on)
    for n in (300, 21845, 21846, 43691, 65535):
        pal = [((7 * i) & 0xFF, (i >> 8) & 0xFF, i & 0xFF) for i in range(n)]
        cases.append(mbi_case(E.mbi([E.t_framebuffer(0xB8000, 1, 2, 3, 8, 0, E.fb_indexed(pal, n), 0), E.t_cmdline("behind")])))
        count(dist, "large_palettes")
    # two framebuffer tags: the first one decides, whatever its type byte (unknown first / known second and vice versa)
    for b1 in (0, 1, 2, 3, 7, 255):
        for b2 in (0, 1, 2, 3, 255):
            t1 = E.t_framebuffer(0x1000, 1, 2, 3, 8, b1, E.fb_rgb(1, 2, 3, 4, 5, 6), 0)
            t2 = E.t_framebuffer(0xB8000, 9, 9, 9, 16, b2, E.fb_rgb(6, 5, 4, 3, 2, 1), 0)
            cases.append(mbi_case(E.mbi([E.t_cmdline("c"), t1, t2])))
            count(dist, "two_framebuffers")
    # all 256 framebuffer type bytes
    for b in range(256):
        cases.append(mbi_case(E.mbi([E.t_framebuffer(0x1000, 1, 2, 3, 8, b, E.fb_rgb(1, 2, 3, 4, 5, 6), 0)])))
        count(dist, "fb_type_bytes")
    # EFI memory map x boot-services-not-exited, both orders, with other tags between
    d = E.efi_desc(7, 0x1000, 0x2000, 3, 0xF)
    for order in ([E.t_efi_mmap(40, 1, d), E.t_efi_bs()], [E.t_efi_bs(), E.t_efi_mmap(40, 1, d)],
                  [E.t_efi_mmap(40, 1, d), E.t_cmdline("x"), E.t_efi_bs()], [E.t_efi_mmap(40, 1, d)],
                  [E.t_efi_bs(), E.t_cmdline("x"), E.t_efi_mmap(40, 1, d), E.t_efi_mmap(48, 1, b"")]):
        cases.append(mbi_case(E.mbi(order)))
        count(dist, "efi_bs_orders")
    return cases, dict(
        rule="mbi: spec-conformant regions (exact sizes, consistent inner counts) with seeded random field values for all 22 kinds "
             "- every kind once in shuffled order, 1..3 instances of one kind (the first is selected), random subsets with custom "
             "tags interleaved; all 256 framebuffer type bytes (exhaustive); EFI memory map x EfiBs in both orders. Compared: every "
             "getter result (offset, extent) and every accessor value. distinct_nontrivial = distinct (domain, model transcript) pairs.",
        dist=dist, exhaustive=False)


VAR_KINDS = {1: 8, 2: 8, 3: 16, 6: 16, 8: 32, 9: 20, 13: 16, 16: 8, 17: 16, 99: 8}


def gen_C05(rng, tier):
    dist = {}
    cases = []
    for typ, fixed in VAR_KINDS.items():
        top = fixed + (80 if tier == "thorough" else 44)
        for s in list(range(0, top)) + [top + 8, 200, 4096, 0xFFFFFFFF]:
            n = max(8, (min(s, 256) + 7) // 8 * 8)
            body = bytearray(marker(n - 8, start=typ + s))
            if typ == 6 and len(body) >= 8:
                # entry sizes other than 24 (also ones that divide the payload) are rejected
                es = 24 if s % 5 else rng.choice([0, 8, 12, 16, 32, 48, max(s - 16, 1), 0xFFFFFFFF])
                body[0:8] = E.u32(es) + E.u32(0)
            if typ == 17 and len(body) >= 8:
                body[0:8] = E.u32(rng.choice([40, 48, 8])) + E.u32(1)
            if typ == 9 and len(body) >= 12:
                body[0:12] = E.u32(rng.choice([0, 1])) + E.u32(40) + E.u32(0)
            if typ == 8 and len(body) >= 24:
                body[21] = rng.choice([0, 1, 2])
            # padding and the neighbouring tag carry bytes that would be visible if looked at; for the string kinds also
            # zero padding and padding ending in a NUL (a terminator found there would be a read past the declared size)
            for pad in ([0xAA, 0x00, 0xA0] if typ in (1, 2, 3) else [0xAA]):
                b2 = bytearray(body)
                for i in range(max(0, s - 8), len(b2)):
                    b2[i] = 0xAA if pad == 0xA0 else pad
                if pad == 0xA0 and len(b2) > max(0, s - 8):
                    b2[-1] = 0
                t = (E.u32(typ) + E.u32(s) + bytes(b2))[:n]
                region = E.mbi([t, E.t_cmdline("NEXT-TAG")])
                cases.append(mbi_case(region))
                count(dist, "kind_%d" % typ)
    # memory maps whose entry size is not 24 but divides the area bytes (and ones that do not): rejected, nothing handed out
    for es in (0, 8, 12, 16, 32, 48, 72, 0xFFFFFFFF):
        for k in (1, 2, 3):
            pay = marker(k * (es if 0 < es < 100 else 24), start=es % 200 + k)
            cases.append(mbi_case(E.mbi([E.tag(6, E.u32(es) + E.u32(0) + pay), E.t_cmdline("NEXT-TAG")])))
            count(dist, "mmap_entry_sizes")
    # the palette of an indexed framebuffer: its extent is fixed by the colour count, which must fit the declared size
    cases += palette_family(dist)
    # ELF section bytes: entry sizes around 40 and 64, counts and indices against the section bytes, overflowing products
    elf = [c for c in gen_C19(random.Random(rng.getrandbits(32)), tier)[0] if c.startswith("mbi ")]
    if tier == "quick" and len(elf) > 500:
        elf = random.Random(rng.getrandbits(32)).sample(elf, 500)
    cases += elf + elf_boundary_cases()
    dist["elf_tables"] = len(elf)
    # EFI memory maps: descriptor strides, map lengths, iteration incl. the provided methods (nth beyond the end, count)
    efi = [c for c in gen_C18(random.Random(rng.getrandbits(32)), tier)[0] if c.startswith("mbi ")]
    if tier == "quick" and len(efi) > 400:
        efi = random.Random(rng.getrandbits(32)).sample(efi, 400)
    cases += efi
    dist["efi_maps"] = len(efi)
    # `==` between typed tags never looks at alignment padding and sees every byte of the fields and of the variable part
    cases += gen_tageq(rng, 3000 if tier == "thorough" else 150, dist)
    # the generic structure obtained from a slice (ref_from_slice): declared sizes around the slice length, both tag header kinds
    for h in (1, 2):
        for n in range(8, 49, 8):
            for d in range(max(0, n - 9), n + 18):
                cases.append("c14 %d 0 %s" % (h, hx((hdr_bytes(h, d, rng) + marker(n, start=n + d))[:n])))
                count(dist, "generic_from_slice")
    # information request of the header crate: every size 8..40 and beyond
    for s in list(range(0, 41)) + [44, 48, 100, 0xFFFFFFFF]:
        n = max(8, (min(s, 128) + 7) // 8 * 8)
        t = (E.u16(1) + E.u16(rng.choice([0, 1])) + E.u32(s) + marker(n - 8, start=s))[:n]
        cases.append("hdr " + hx(E.header([t, E.htag(6, 0, b"")])))
        count(dist, "information_request")
    return cases, dict(
        rule="mbi: for each variable-length kind (cmdline, boot loader name, module, memory map, framebuffer, ELF sections, SMBIOS, "
             "network, EFI memory map, custom/generic) a region with one tag of every declared size 0..fixed+%d and a few huge ones, "
             "0xAA bytes in its padding, followed by a second tag (exhaustive over the sizes); hdr: information-request tags of every "
             "size 0..40. Compared: panic or (offset, length, element count) of every exposed part. distinct_nontrivial = distinct "
             "(domain, model transcript) pairs." % (80 if tier == "thorough" else 44),
        dist=dist, exhaustive=True)


ALPHABET = [0x00, 0x61, 0x7F, 0x80, 0xC2, 0xE0, 0xED, 0xF0, 0xF4, 0xFF, 0xA0, 0xBF]


def gen_C17(rng, tier):
    dist = {}
    cases = []
    import itertools
    strs = [bytes(t) for n in range(0, 5) for t in itertools.product(ALPHABET[:10], repeat=n)]
    keep = 1.0 if tier == "thorough" else 0.06
    for s in strs:
        if len(s) > 2 and rng.random() > keep:
            continue
        k = rng.choice([1, 2, 3])
        fixed = E.u32(1) + E.u32(2) if k == 3 else b""
        cases.append(mbi_case(E.mbi([E.tag(k, fixed + s + b"\0"), E.t_cmdline("ZZ")])))
        cases.append(mbi_case(E.mbi([E.tag(k, fixed + s, fill=rng.choice([0, 0x41])), E.t_bootloader("YY")])))
        count(dist, "short_strings")
    # the public parse_slice_as_string itself, on bare slices flush against a guard page
    for s in strs:
        if len(s) > 3 and rng.random() > keep * 4:
            continue
        cases.append("pstr " + hx(s))
        cases.append("pstr " + hx(s + b"\0"))
        cases.append("pstr " + hx(s + b"\0" + bytes(rng.choice(ALPHABET) for _ in range(rng.randrange(0, 4)))))
        count(dist, "bare_slices")
    # declared sizes cutting the string before/at/after its terminator; padding 0x00 vs 0x41; next tag printable
    texts = [b"hello", b"h\xc3\xa9llo", b"\xe2\x82\xac", b"abcdefg", b"abcdefgh", b"", b"a\0b", b"\xf0\x9d\x84\x9e!",
             b"ab\r\n", b"\n", b"x \t", b" lead", b"q\r", b"tab\tin"]      # nothing is trimmed or normalised
    for text in texts:
        for k in (1, 2, 3):
            fixed = E.u32(5) + E.u32(9) if k == 3 else b""
            full = fixed + text + b"\0"
            for cut in range(0, len(full) + 10):
                for fill in (0, 0x41):
                    size = 8 + cut
                    n = (max(size, 8 + len(full)) + 7) // 8 * 8
                    body = bytearray(full + bytes([fill]) * (n - 8 - len(full)))
                    t = E.u32(k) + E.u32(size) + bytes(body)
                    t = t[:max(8, (size + 7) // 8 * 8)] if size >= 8 else t[:8]
                    cases.append(mbi_case(E.mbi([t, E.t_cmdline("NEXTNEXT")])))
                    count(dist, "cut_sizes")
    # built structures with string tags whose size is / is not a multiple of 8, followed by other tags
    if "ctor" in DOMAINS_READY:
        for n in (0, 6, 7, 8, 14, 15, 16, 23):
            w = hx(b"c" * n)
            cases.append("build [ [ 1 %s ] [ 2 %s ] [ 3 4096 8192 %s ] [ 3 1 2 %s ] [ 4 1 2 ] ]" % (w, w, w, w))
            dist["built_string_tags"] = dist.get("built_string_tags", 0) + 1
    # constructors: NUL-free valid UTF-8 of every length 0..40, multi-byte characters, already terminated
    if "ctor" in DOMAINS_READY:
        words = ["", "a", "hello", "héllo € \U0001d11e", "x" * 7, "x" * 8, "x" * 9, "é" * 5]
        words += ["".join(rng.choice("ab é€\U0001d11ez") for _ in range(n)) for n in range(0, 41)]
        for w in words:
            b = w.encode()
            for k in (1, 2):
                cases.append("ctor %d %s" % (k, hx(b)))
                cases.append("ctor %d %s" % (k, hx(b + b"\0")))
            cases.append("ctor 3 %d %d %s" % (rng.randrange(0, 100), rng.randrange(100, 1 << 32), hx(b)))
            cases.append("ctor 3 1 2 %s" % hx(b + b"\0"))
            count(dist, "constructed")
    return cases, dict(
        rule="pstr: parse_slice_as_string on bare slices (the same strings, unterminated / terminated / with bytes behind the "
             "terminator). mbi: every byte string of length <= 4 over {00,61,7F,80,C2,E0,ED,F0,F4,FF} (thorough: all; quick: all of length <= 2 "
             "and a seeded 6% of the rest) as the content of a command-line / boot-loader-name / module tag, with and without "
             "terminator; eight texts x every declared size cutting before/at/after the terminator x padding 00/41, followed by "
             "a tag with printable bytes; ctor: the three constructors on NUL-free valid UTF-8 strings of every length 0..40 and "
             "on already terminated strings. distinct_nontrivial = distinct (domain, model transcript) pairs.",
        dist=dist, exhaustive=(tier == "thorough"))


def gen_C18(rng, tier):
    dist = {}
    cases = []
    dmax = 129
    for d in range(0, dmax):
        for v in ((1,) if (tier == "quick" and d % 8 not in (0, 1) and d > 48) else (0, 1, 2)):
            for cnt in range(0, 5):
                base = cnt * (d if d else 8)
                for L in sorted(set([base, base + 1, max(0, base - 1), base + 8, base + d // 2])):
                    if L > 1024:
                        continue
                    if tier == "quick" and v != 1 and L != base:
                        continue
                    data = bytearray(marker(L, start=d + cnt))
                    cases.append(mbi_case(E.mbi([E.t_efi_mmap(d, v, bytes(data))])))
                    count(dist, "v%d" % v)
    # longer maps: the length report must stay exact deep into the iteration, for every stride
    for d in (40, 48, 56, 64, 72, 80, 96, 128):
        for cnt in (5, 6, 7, 8, 10, 12, 16):
            cases.append(mbi_case(E.mbi([E.t_efi_mmap(d, 1, marker(cnt * d, start=d + cnt))])))
            count(dist, "long_maps")
    for d in (0xFFFFFFFF, 0x80000000, 0x10000):
        cases.append(mbi_case(E.mbi([E.t_efi_mmap(d, 1, bytes(80))])))
    # admissible strides that do not fit 8 or 16 bits, with 2 and 3 entries (a stride cached in a narrower integer)
    for d, cnt in ((256, 3), (264, 2), (0x10000, 2), (0x10028, 2), (0x10028, 3)):
        body = b"".join(E.efi_desc(7, 0x1000 * (i + 1), 0x2000 * (i + 1), i + 1, 0xF, d, fill=0x5A) for i in range(cnt))
        cases.append(mbi_case(E.mbi([E.t_efi_mmap(d, 1, body), E.t_cmdline("behind")])))
        count(dist, "wide_strides")
    # the accepting side: every admissible stride x 0..20 entries with random descriptor contents, any version, a tag behind
    for d in list(range(40, 137, 8)) + [256]:
        for cnt in (list(range(0, 21)) if tier == "thorough" else [0, 1, 2, 3, 5, 9, 20]):
            bv = lambda: rng.choice([0, 0, 1, 0xFFFFFFFFFFFFFFFF, rng.getrandbits(64), rng.getrandbits(64)])   # incl. zero pages / addresses
            body = b"".join(E.efi_desc(rng.choice([0, 1, 7, 14, 15, 0x80000000, rng.getrandbits(32)]), bv(), bv(),
                                       bv(), bv(), d, fill=rng.getrandbits(8)) for _ in range(cnt))
            cases.append(mbi_case(E.mbi([E.t_efi_mmap(d, 1 if rng.random() < 0.9 else rng.choice([0, 2, 0xFFFFFFFF]), body), E.t_cmdline("behind")])))
            count(dist, "accepted_maps")
    return cases, dict(
        rule="mbi: accepted maps (strides 40..136 step 8 and 256 x up to 20 entries, random descriptors, version 1 in 90%, a tag behind); "
             "EFI memory map tags for every descriptor size 0..128 x version {0,1,2} x entry count 0..4 x map lengths "
             "{k*d, k*d+-1, k*d+8, k*d+d/2} with marker descriptor contents (quick: versions 0/2 only at the exact length; "
             "thorough: all); huge descriptor sizes. Compared: accept/panic, every descriptor (offset, decoded fields), len() after "
             "every next(). distinct_nontrivial = distinct (domain, model transcript) pairs.",
        dist=dist, exhaustive=(tier == "thorough"))


def elf_boundary_cases():
    """ELF-sections tags whose count / entry size / string-table index products are at and beyond 2^16 and 2^32 - deterministic
    (they are part of C19's cases and are added unsampled wherever a sample of C19's cases is used)"""
    cases = []
    for (n, es) in ((0xFFFF, 0), (0x10000, 1), (3, 0x80000000), (0x10000, 0x10000), (0xFFFF, 0x10001), (0x04000001, 64),
                    (0x06666667, 40), (0x04000000, 64), (0x80000000, 2), (0xFFFFFFFF, 0xFFFFFFFF), (2, 0x80000020)):
        for payload in (64, 84 - 20, 40):
            cases.append(mbi_case(E.mbi([E.t_elf(n, es, 0, bytes(payload))])))
    for n in (0, 1, 2):
        for (es, sh) in ((0x10000, 0x10000), (0x80000000, 2), (0xFFFFFFFF, 0xFFFFFFFF), (3, 0x55555556), (40, 0x06666667),
                         (64, 0x04000000), (0x10000, 0xFFFF), (1, 0xFFFFFFFF), (0, 0xFFFFFFFF), (40, 0), (64, 1)):
            cases.append(mbi_case(E.mbi([E.t_elf(n, es, sh, bytes(64 * max(n, 1)))])))
    # entry sizes around 40 and 64 with exactly fitting, one-short and one-long tables (the r4-C05 family)
    for es in (39, 40, 41, 48, 63, 64, 65):
        for n in (1, 2, 3):
            for L in (n * es - 1, n * es, n * es + 1):
                table = bytearray(marker(max(L, 0), start=es + n))
                for k in range(n):
                    if k * es + 8 <= L:
                        table[k * es + 4:k * es + 8] = E.u32(1)
                cases.append(mbi_case(E.mbi([E.t_elf(n, es, 0, bytes(table)), E.t_cmdline("after")])))
    return cases


def gen_C19(rng, tier):
    dist = {}
    cases = []
    types = [0, 1, 2, 3, 8, 11, 12, 0x5FFFFFFF, 0x60000000, 0x6FFFFFFF, 0x70000000, 0x7FFFFFFF, 0x80000000, 0xFFFFFFFF]
    ess = list(range(0, 129)) if tier == "thorough" else [0, 1, 8, 24, 32, 39, 40, 41, 48, 56, 63, 64, 65, 72, 80, 128]
    for es in ess:
        for n in range(0, 5):
            for sh in range(0, 6):
                if tier == "quick" and sh > 2 and sh != n and sh != n + 1:
                    continue
                base = n * es
                for L in sorted(set([base, max(0, base - 1), base + 1, base + 8])):
                    if tier == "quick" and L != base and rng.random() < 0.5:
                        continue
                    table = bytearray(rng.getrandbits(8) for _ in range(L))
                    for k in range(n):
                        if k * es + 8 <= L:
                            table[k * es + 4:k * es + 8] = E.u32(rng.choice(types))
                    cases.append(mbi_case(E.mbi([E.t_elf(n, es, sh, bytes(table))])))
                    count(dist, "es_%s" % ("40" if es == 40 else "64" if es == 64 else "other"))
    # well-formed tables of both layouts (the accepted path): 0..12 entries, every string-table index, mixed types,
    # followed by another tag; half of them with a trailing partial entry's worth of bytes
    for es in (40, 64):
        for n in range(0, 13):
            for sh in (range(n) if n else [0]):
                if tier == "quick" and n > 4 and rng.random() < 0.6:
                    continue
                table = bytearray(rng.getrandbits(8) for _ in range(n * es + rng.choice([0, 0, 8, 16])))
                for k in range(n):
                    table[k * es + 4:k * es + 8] = E.u32(rng.choice(types) if rng.random() < 0.8 else 0)
                cases.append(mbi_case(E.mbi([E.t_elf(n, es, sh, bytes(table)), E.t_cmdline("after")])))
                count(dist, "wellformed_es_%d" % es)
    for (n, es) in ((0xFFFF, 0), (0x10000, 1), (3, 0x80000000), (0x10000, 0x10000), (0xFFFF, 0x10001)):
        cases.append(mbi_case(E.mbi([E.t_elf(n, es, 0, bytes(64))])))
    # products entry_size * shndx and count * entry_size around 2^32 (the deprecated BootInformation::elf_sections() multiplies too)
    for n in (0, 1, 2):
        for (es, sh) in ((0x10000, 0x10000), (0x80000000, 2), (0xFFFFFFFF, 0xFFFFFFFF), (3, 0x55555556), (40, 0x06666667),
                         (64, 0x04000000), (0x10000, 0xFFFF), (1, 0xFFFFFFFF), (0, 0xFFFFFFFF), (40, 0), (64, 1)):
            cases.append(mbi_case(E.mbi([E.t_elf(n, es, sh, bytes(64 * max(n, 1)))])))
            count(dist, "overflowing_products")
    eb = elf_boundary_cases()
    cases += eb
    dist["boundary_products"] = len(eb)
    cases += gen_elfname(rng, 3000 if tier == "thorough" else 60, dist)
    cases += gen_bigelf(dist)
    return cases, dict(
        rule="elfname: 1..6 entries of size 40/64, the string table (1..6 names incl. empty, multi-byte and invalid UTF-8, "
             "6% without a final NUL) in an external buffer at a fixed 32-bit address in front of a guard page; every entry but "
             "the designated one carries a decoy address; name indices at name starts, inside names, zero. "
             "mbi: ELF sections tags for entry counts 0..4 x entry sizes (thorough: 0..128; quick: 16 values around 40 and 64) x "
             "string-table indices 0..5 x section byte lengths {n*es, n*es+-1, n*es+8}, raw types drawn from every class boundary, "
             "random entry contents for both layouts; overflowing count*size products. Compared: accept/panic, every yielded section "
             "(offset, class, raw type, flags, address, end, size, alignment), remaining count. distinct_nontrivial = distinct "
             "(domain, model transcript) pairs.",
        dist=dist, exhaustive=(tier == "thorough"))


# ---- ELF section names (domain elfname): the string table lives in external memory at a fixed absolute address ----
ELFNAME_EXT_END = 0x30002000     # page-aligned end of the external buffer; fits 32-bit sh_addr fields


def gen_bigelf(dist):
    """ELF-sections tags of n copies of one in-use section header, n around 2^8 and 2^16 (model: the closed form of C19_big)"""
    cases = []
    # sh_link / sh_info hold values no index of the table: nothing but shndx designates the string table
    for es, ent in ((40, E.elf32_entry(5, 1, 6, 0x1000, 0, 0x200, 0xFFFFFFFF, 0xFFFFFFF0, 8, 0)),
                    (64, E.elf64_entry(7, 3, 2, 0x2000, 0, 0x300, 0xFFFFFFFF, 0x7FFFFFFF, 16, 0))):
        for n in (0, 1, 2, 255, 256, 257, 65535, 65536, 65537, 0x10003, 70000):
            for sh in sorted(set([0, max(n - 1, 0), n, 0xFFFF, 0x10000 if n > 0x10000 else 1])):
                if 44 + n * es < 2 ** 23:
                    cases.append("bigelf %d %d %s" % (n, sh, hx(ent)))
                    count(dist, "many_sections")
    return cases


def gen_elfname(rng, n, dist):
    cases = []
    in_use = [1, 2, 3, 8, 11, 0x60000000, 0x70000001, 0x80000000]
    pool = [b".text", b".data", b".bss", b"", b"\xc3\xa9t\xc3\xa9", b".rodata.str1.1", b"\xff\xfe", b"a\xc0\x80", b"x" * 40,
            b"\xf0\x9f\x98\x80", b"\xed\xa0\x80"]
    # long names around every power-of-two length a length counter could be truncated at (u8: 255/256, 2^12 page - the
    # external buffer is at most two pages, so 2^16 is out of reach of this domain)
    long_names = [b"n" * k for k in (127, 128, 254, 255, 256, 257, 300, 511, 512, 1000, 4000)] + \
                 [b"a" * 254 + "\u00e9".encode(), b"a" * 255 + "\u00e9".encode()]
    for it in range(n):
        names = [rng.choice(pool) for _ in range(rng.randrange(1, 7))]
        if it % 6 == 0:
            names[rng.randrange(len(names))] = long_names[(it // 6) % len(long_names)]
            count(dist, "elfname_long_name")
        ext = bytearray()
        starts = []
        lead = rng.randrange(0, 3)
        ext += bytes([0x41 + rng.randrange(0, 26) for _ in range(lead)])      # bytes before the first name (no NUL)
        for nm in names:
            starts.append(len(ext))
            ext += nm + b"\0"
        unterminated = rng.random() < 0.06
        if unterminated:
            starts.append(len(ext))
            ext += b"runs-off"                                          # no NUL before the guard page
        ext_base = ELFNAME_EXT_END - len(ext)
        es = rng.choice([40, 64])
        nsec = rng.randrange(1, 7)
        sh = rng.randrange(0, nsec)
        delta = rng.choice([0, 0, 1, 2, lead])                         # string table address = ext_base + delta
        delta = min(delta, len(ext) - 1)
        entries = []
        kinds = []
        for k in range(nsec):
            typ = rng.choice(in_use) if rng.random() < 0.85 else 0
            x = rng.random()
            if unterminated and k == nsec - 1 and typ != 0:
                ni = starts[-1] - delta if starts[-1] >= delta else 0
                kinds.append("unterminated")
            elif x < 0.75:
                s = rng.choice(starts[:len(names)])
                ni = s - delta if s >= delta else 0
                kinds.append("name_start")
            elif x < 0.95:
                ni = rng.randrange(0, max(1, len(ext) - delta - (8 if unterminated else 0)))   # inside some name
                kinds.append("mid_name")
            else:
                ni = 0
                kinds.append("zero")
            addr = ext_base + delta if k == sh else rng.getrandbits(32)
            sz = rng.choice([0, 1, 2, 5, rng.getrandbits(16)])       # sh_size: also smaller than the name indices used
            # every entry but the designated one carries a decoy address: a wrong choice of entry is visible
            if es == 40:
                entries.append(E.elf32_entry(ni, typ, rng.getrandbits(3), addr, 0, sz, 0, 0, 8, 0))
            else:
                entries.append(E.elf64_entry(ni, typ, rng.getrandbits(3), addr, 0, sz, 0, 0, 8, 0))
        for kd in kinds:
            count(dist, "elfname_" + kd)
        count(dist, "elfname_es%d" % es)
        tags = [E.t_elf(nsec, es, sh, b"".join(entries))]
        if rng.random() < 0.3:
            tags.insert(0, E.t_cmdline("x"))
        region = E.mbi(tags)
        cases.append("elfname %s %d %s" % (hx(valid_mem(region)), ext_base, hx(bytes(ext))))
    return cases


def judge_C19(case, ml, il):
    """ELF section names live at an external address: where the model says the read leaves the external buffer the
    property makes no claim (compare the transcript before that line only); everything else is compared in full"""
    if case.startswith("elfname "):
        if il == ["SKIP"]:
            return ("ok", "")
        k = next((i for i, l in enumerate(ml) if l.startswith("elfname ") and l.endswith(" UB")), None)
        if k is not None:
            body = il[:-1] if il and (il[-1].startswith("CRASH") or il[-1] == "TIMEOUT") else il
            if body[:k] == ml[:k] or (len(body) < k and body == ml[:len(body)]):
                return ("ok", "")
            return default_judge(case, ml[:k], il)
        return ("ok", "") if ml == il else default_judge(case, ml, il)
    return judge_projection(["load", "get", "elf", "elf_section", "elf_end", "elf_nth", "elf_count", "elf_last", "elf_dbg", "elf_hist", "debug"])(case, ml, il)


# ---- header regions --------------------------------------------------------------------------------
def rand_htag(rng, malformed=0.15):
    typ = rng.randrange(0, 11)
    flags = rng.randrange(0, 2)
    nat = {0: 8, 1: 8 + 4 * rng.randrange(0, 7), 2: 24, 3: 12, 4: 12, 5: 20, 6: 8, 7: 8, 8: 12, 9: 12, 10: 24}[typ]
    payload = bytearray(marker(nat - 8, start=typ))
    if typ in (2, 3, 5, 8, 9, 10) and rng.random() < 0.35:
        # boundary values of the 32-bit fields (an accessor that special-cases 0 or all-ones)
        for o in range(0, len(payload) - 3, 4):
            if rng.random() < 0.5:
                payload[o:o + 4] = E.u32(rng.choice([0, 0, 1, 0xFFFFFFFF, 0x80000000, 0x7FFFFFFF]))
    if typ == 4:
        payload[0:4] = E.u32(rng.randrange(0, 2))
    if typ == 10:
        payload[12:16] = E.u32(rng.randrange(0, 3))
    size = nat
    if rng.random() < malformed:
        size = max(0, nat + rng.choice([-8, -4, -3, -1, 1, 2, 4, 8, 12, 16]))
        if rng.random() < 0.2:
            size = rng.choice([0, 4, 7, 0xFFFFFFFF, 0x80000000])
    return E.htag(typ, flags, bytes(payload), size=size, fill=rng.choice([0, 0, 0xAA, 0xFF, 0x5C]))


def gen_hdr_regions(rng, n, dist, malformed=0.15):
    out = []
    for _ in range(n):
        x = rng.random()
        if x < 0.3:
            ks = list(range(1, 11))
            rng.shuffle(ks)
            tags = []
            for typ in ks:
                t = rand_htag(rng, malformed)
                while int.from_bytes(t[0:2], "little") != typ:
                    t = rand_htag(rng, malformed)
                tags.append(t)
        else:
            tags = [rand_htag(rng, malformed) for _ in range(rng.choice([0, 1, 2, 3, 5, 8]))]
        h = bytearray(E.header(tags, arch=rng.choice([0, 4]), end=rng.random() < 0.9))
        if rng.random() < 0.05:
            h[8:12] = E.u32(len(h) + rng.choice([-8, 8]))       # wrong length (checksum then mismatches or is recomputed)
            h[12:16] = E.u32(E.checksum(E.HDR_MAGIC, int.from_bytes(h[4:8], "little"), int.from_bytes(h[8:12], "little")))
        total = int.from_bytes(h[8:12], "little")
        if total > len(h) and total < (1 << 20):
            h += bytes(total - len(h))
        if total > len(h):
            continue
        out.append(bytes(h))
        count(dist, "header_regions")
    return out


def gen_C11(rng, tier):
    dist = {}
    cases = ["hdr " + hx(h) for h in gen_hdr_regions(rng, 12000 if tier == "thorough" else 400, dist, malformed=0.03)]
    for n in range(0, 25):
        reqs = b"".join(E.u32(rng.getrandbits(32) if rng.random() < 0.5 else rng.randrange(0, 24)) for _ in range(n))
        cases.append("hdr " + hx(E.header([E.htag(3, 0, E.u32(7)), E.htag(1, rng.randrange(2), reqs), E.htag(1, 0, E.u32(99))])))
        count(dist, "request_lists")
    for lst_ in ([0], [0, 0], [1, 6, 0], [9, 0, 0], [0, 5], [0, 0, 7, 0], [21, 0xFFFFFFFF, 0]):
        cases.append("hdr " + hx(E.header([E.htag(1, 0, b"".join(E.u32(x) for x in lst_)), E.htag(6, 0, b"")])))
        count(dist, "request_lists_with_zero_words")
    for n in (0, 1, 2, 300, 5000, 70000):
        for t in (E.htag(6, 1, b""), E.htag(5, 0, E.u32(1) + E.u32(2) + E.u32(3))):
            cases.append("hbigwalk %d %s" % (n, hx(t)))
            count(dist, "many_header_tags")
    hd = {}
    hpool = gen_hdr_regions(rng, 40, hd, malformed=0.0)
    for _ in range(1500 if tier == "thorough" else 120):
        cases.append("hiters %s [ %s ]" % (hx(rng.choice(hpool)), iter_history(rng, 15)))
        count(dist, "iterator_histories")
    # long headers: the first tag of a kind only after 10..40 tags of other kinds (a getter must walk the whole header)
    for k in range(1, 11):
        for nbefore in (10, 11, 12, 13, 24, 40):
            others = [t for t in range(1, 11) if t != k]
            tags = [rand_htag(rng, malformed=0) for _ in range(0)]
            while len(tags) < nbefore:
                t = rand_htag(rng, malformed=0)
                typ = int.from_bytes(t[:2], "little")
                if typ != k and typ != 0:
                    tags.append(t)
            for _ in range(100):
                t = rand_htag(rng, malformed=0)
                if int.from_bytes(t[:2], "little") == k:
                    tags.append(t)
                    break
            cases.append("hdr " + hx(E.header(tags)))
            count(dist, "long_headers")
    return cases, dict(
        rule="hdr (load, walk, all ten typed getters, every accessor): long headers in which the first tag of a kind comes after "
             "10..40 tags of other kinds; seeded header regions with all 11 tag kinds in random "
             "orders and multiplicities, byte-marked field values, enum-typed fields in range (3% wrong sizes); information-request "
             "lists of every length 0..24. distinct_nontrivial = distinct (domain, model transcript) pairs.",
        dist=dist, exhaustive=False)


def gen_C09(rng, tier):
    dist = {}
    cases = ["hdr " + hx(h) for h in gen_hdr_regions(rng, 16000 if tier == "thorough" else 500, dist, malformed=0.3)]
    # every tag size 0..40 and beyond the region for every kind
    for typ in range(0, 11):
        for s in list(range(0, 41)) + [48, 64, 0xFFFFFFF8, 0xFFFFFFFF]:
            n = max(8, (min(s, 64) + 7) // 8 * 8)
            body = bytearray(marker(n - 8, start=typ + s))
            if typ == 4 and n >= 12:
                body[0:4] = E.u32(s % 2)
            if typ == 10 and n >= 24:
                body[12:16] = E.u32(s % 3)
            t = (E.u16(typ) + E.u16(s % 2) + E.u32(s) + bytes(body))[:n]
            cases.append("hdr " + hx(E.header([t, E.htag(6, 0, b"")])))
            count(dist, "tag_sizes")
    # very many header tags (n copies of one tag): counters narrower than usize, recursion per tag in the iterator or a
    # getter; model side: the closed form proved in C11_big
    for n in (0, 1, 255, 256, 257, 4095, 65535, 65536, 70000):
        for t in (E.htag(6, 0, b""), E.htag(4, 1, E.u32(1)), E.htag(1, 0, E.u32(3) + E.u32(5) + E.u32(9)), E.htag(10, 0, E.u32(1) + E.u32(2) + E.u32(3) + E.u32(2))):
            if 24 + n * len(t) < 2 ** 22:
                cases.append("hbigwalk %d %s" % (n, hx(t)))
                count(dist, "many_header_tags")
    # declared lengths that are no multiple of 8 (and all small lengths): never loaded, nothing behind the length is touched
    for length in list(range(0, 41)) + [44, 47, 49, 52, 60, 100]:
        n = max(16, (length + 7) // 8 * 8 + 8)
        tags = E.htag(6, 0, b"") + E.hend_tag() + marker(64, start=length)
        b = (E.u32(E.HDR_MAGIC) + E.u32(0) + E.u32(length) + E.u32(E.checksum(E.HDR_MAGIC, 0, length)) + tags)[:n]
        cases.append("hdr " + hx(b))
        count(dist, "lengths_incl_unpadded")
    # iterator histories over header regions (30% of the tags with wrong sizes): new / next / clone / nth on a pool of
    # iterators; a call that panics is caught and the iterator is used again
    hd = {}
    hpool = gen_hdr_regions(rng, 60, hd, malformed=0.3) + gen_hdr_regions(rng, 30, hd, malformed=0.0)
    for _ in range(3000 if tier == "thorough" else 250):
        cases.append("hiters %s [ %s ]" % (hx(rng.choice(hpool)), iter_history(rng)))
        count(dist, "iterator_histories")
    # find_header: a header at index 0/8/16/64 complete, cut off by the end of the buffer, or declaring more than remains
    for idx in (0, 8, 16, 64):
        for cut in (0, 4, 8, 16):
            for extra_decl in (0, 8):
                hdrb = bytearray(E.header([E.htag(4, 0, E.u32(1)), E.htag(6, 0, b"")]))
                if extra_decl:
                    hdrb[8:12] = E.u32(len(hdrb) + extra_decl)
                    hdrb[12:16] = E.u32(E.checksum(E.HDR_MAGIC, 0, len(hdrb) + extra_decl))
                b = bytes(idx) + bytes(hdrb)
                b = b[:len(b) - cut] if cut else b
                cases.append("find 0 " + hx(b))
                count(dist, "find_header")
    # a buffer that ends inside the basic header found (4..16 bytes behind the magic): nothing behind the buffer is read
    hdrb = E.header([E.htag(4, 0, E.u32(1)), E.htag(6, 0, b"")])
    for idx in (0, 8, 64, 8176):
        for rem in range(4, 17):
            cases.append("find 0 " + hx(bytes(idx) + hdrb[:rem]))
            count(dist, "find_header_truncated")
    # the header-crate structures obtained from a slice (ref_from_slice): declared sizes around the slice length
    for h in (2, 4):
        hs = 16 if h == 4 else 8
        for n in list(range(hs, 65, 8)) + [hs + 4, hs + 12, hs + 20, hs + 2]:      # also lengths that miss the padding
            for d in range(max(0, n - hs - 2), n + hs + 10):
                cases.append("c14 %d 0 %s" % (h, hx((hdr_bytes(h, d, rng) + marker(n, start=n + d))[:n])))
                count(dist, "from_slice")
    return cases, dict(
        rule="c14: header-crate structures from slices of 8k bytes with declared sizes around the slice length; "
             "hdr: seeded header regions (30% of the tags with wrong sizes: below 8, not matching the kind, beyond the region); for "
             "every kind every tag size 0..40 and huge ones; enum-typed fields always in range. Region placed against guard pages "
             "at its end and at its start. distinct_nontrivial = distinct (domain, model transcript) pairs.",
        dist=dist, exhaustive=False)


HDR_ASSUME = ["enumerated fields (architecture, tag type, tag flags, console flags, relocation preference) hold defined values, as the property presupposes",
              "the memory made valid for load is max(16, declared length) bytes"]

PROPS.update({
    "C04": dict(gen=gen_C04, configs=["dev", "rel"], judge=judge_mbi_full, check_model_ub=True,
                assumptions=["known finding F18 (VBEModeInfo.memory_model byte not in 0..=7) is excluded from 'decodes every field'"]),
    "C05": dict(gen=gen_C05, configs=["dev", "rel"], judge=judge_mbi_full, both_placements=True, assumptions=[]),
    "C17": dict(gen=gen_C17, configs=["dev", "rel"], judge=judge_projection(["load", "get", "cmdline", "bootloader", "modinfo", "module", "modules", "ctor", "as_bytes", "pstr", "debug", "build", "tag", "tags"]),
                both_placements=True, assumptions=["Rust &str arguments are valid UTF-8 by the type's invariant"]),
    "C18": dict(gen=gen_C18, configs=["dev", "rel"], judge=judge_projection(["load", "get", "efi_mmap", "efi_desc", "efi_end", "efi_nth", "efi_count", "efi_dbg", "efi_hist", "debug"]),
                both_placements=True, assumptions=[]),
    "C19": dict(gen=gen_C19, configs=["dev", "rel"], judge=judge_C19,
                both_placements=True, assumptions=["section names (external addresses) are not dereferenced"]),
    "C09": dict(gen=gen_C09, configs=["dev", "rel"], judge=judge_mbi_full, both_placements=True, check_model_ub=True, assumptions=HDR_ASSUME),
    "C11": dict(gen=gen_C11, configs=["dev", "rel"], judge=judge_mbi_full, check_model_ub=True, assumptions=HDR_ASSUME),
})


# ==========================================================================
# constructor / builder / heap domains: C06, C07, C12, C16
# ==========================================================================
import test_build_domains as TB  # noqa: E402

DOMAINS_READY.add("ctor")


def _builder_gen(names, rule):
    def gen(rng, tier):
        g = TB.Gen(rng.getrandbits(32))
        k = 12 if tier == "thorough" else 1
        cases = []
        dist = {}
        for n in names:
            cs = TB.GENS[n](g, k)
            dist[n] = len(cs)
            cases += cs
        return cases, dict(rule=rule, dist=dist, exhaustive=False)
    return gen


PROPS.update({
    "C06": dict(gen=_builder_gen(["build"],
                "build: the empty builder; every method alone and twice in a row; all 22 methods in slot order and reversed; all subsets "
                "of five 5-slot sets in random order; everything shuffled with repeats; random call lists (with and without panicking "
                "arguments); a panicking call at every position. Each call constructs its tag with the crate's constructor from seeded "
                "arguments. Compared: build result (total size, extent) and the complete dump of the built structure (load, walk with "
                "every tag's bytes up to its size, module iterator, all getters). distinct_nontrivial = distinct (domain, model transcript) pairs."),
                configs=["dev", "rel"], judge=judge_mbi_full, check_model_ub=False,
                assumptions=["builder argument tags are produced by the crates' own constructors (the only way safe code obtains them)"]),
    "C07": dict(gen=_builder_gen(["ctor", "hctor"],
                "ctor/hctor: every public constructor of both crates (22 + custom via new_boxed; 11 header tags) with strings of every "
                "length 0..40 in six shapes, palettes of 0..300 colours, payloads of every length 0..40, boundary and seeded random field "
                "values, documented rejections (module end <= start, EFI desc_size 0); header tags additionally placed behind a u32 in a "
                "repr(C) wrapper before as_bytes(). Compared: type, size, size_of_val, bytes up to the size, as_bytes, accessor read-back. "
                "The constructors of the sized tags (not feature-gated in the crates) are also run in the two builds without the "
                "`builder` feature; the others print SKIP there. distinct_nontrivial = distinct (domain, model transcript) pairs."),
                configs=["dev", "rel", "dev-nb", "rel-nb"], judge=judge_skip_ok,
                assumptions=["VBE control/mode info structs are supplied as raw bytes with a valid memory_model byte"]),
    "C12": dict(gen=_builder_gen(["hbuild"],
                "hbuild: every subset of the 10 builder slots for I386 (exhaustive, 1024) in random call order, a seeded sample for MIPS32, "
                "repeated calls, information-request lists of many lengths. Compared: length, extent, last 8 bytes, and the complete dump "
                "of the built header (load incl. magic/arch/length/checksum/verify, walk, all getters). distinct_nontrivial = distinct "
                "(domain, model transcript) pairs."),
                configs=["dev", "rel"], judge=judge_mbi_full, assumptions=[]),
    "C16": dict(gen=_builder_gen(["newboxed", "clone", "boxed"],
                "ctor/hctor: every allocating constructor (the boxed tag kinds, the information request tag with 0..30 requests) with "
                "the layout asked of the allocator and the layout the box is freed with; newboxed: for the three tag-header kinds every total content length 0..40 split into 0..4 slices (seeded cut points), a "
                "1500-byte slice; clone: clone_dyn of every dynamically sized kind built from seeded arguments and of strings/payloads of "
                "every length 0..40. Compared: size_of_val, header bytes, content bytes, (size, align) of the one allocation and of the one "
                "deallocation (tracking global allocator); for clones type/size/extent/bytes of original and clone. "
                "distinct_nontrivial = distinct (domain, model transcript) pairs."),
                configs=["dev", "rel"], judge=judge_mbi_full,
                assumptions=["'freed exactly once with the allocation layout' is observed with a tracking global allocator in the harness"]),
})


def _c07_extra(gen):
    def g(rng, tier):
        cases, meta = gen(rng, tier)
        for n in (65535, 65536, 70000):
            pal = " ".join("[ %d %d %d ]" % (i & 255, (i >> 8) & 255, 7) for i in range(n))
            cases.append("ctor 8 4096 1 2 3 8 [ 0 [ %s ] ]" % pal)
        meta["dist"]["huge_palettes"] = 3
        meta["rule"] += " Palettes of 65535, 65536 and 70000 colours (the 16-bit colour count)."
        return cases, meta
    return g


PROPS["C07"]["gen"] = _c07_extra(PROPS["C07"]["gen"])


def _c06_extra(gen):
    def g(rng, tier):
        cases, meta = gen(rng, tier)
        # a structure of very many tags loads like any other (model: the closed form of C03_big_run)
        for n in (1000, 4095, 70000):
            cases.append("bigwalk %d %s" % (n, hx(E.tag(0x1337, b"abc"))))
        meta["dist"]["many_tags"] = 3
        return cases, meta
    return g


PROPS["C06"]["gen"] = _c06_extra(PROPS["C06"]["gen"])


def _c16_extra(gen):
    def g(rng, tier):
        cases, meta = gen(rng, tier)
        # clone_dyn of tags taken from a LOADED boot information: the padding behind them is foreign (non-zero in 70%)
        cg = ConformantGen(rng.getrandbits(32))
        kinds = ["cmdline", "bootloader", "module", "mmap", "framebuffer", "elf", "smbios", "network", "efi_mmap"]
        for _ in range(1500 if tier == "thorough" else 120):
            ks = [cg.r.choice(kinds) for _ in range(cg.r.choice([1, 2, 4, 6]))]
            cases.append("cloneparsed " + hx(dirty_padding(E.mbi([getattr(cg, k)() for k in ks]), rng, 0.7)))
        meta["dist"]["clones_of_parsed_tags"] = 1500 if tier == "thorough" else 120
        meta["rule"] += " cloneparsed: clone_dyn of the first tag of every dynamically sized kind of loaded regions with foreign padding."
        return cases, meta
    return g


PROPS["C16"]["gen"] = _c16_extra(PROPS["C16"]["gen"])


# ==========================================================================
# C08: the parse-side case sets in all four configurations
# ==========================================================================
def gen_C08(rng, tier):
    cases = []
    dist = {}
    parts = [("C01", gen_C01), ("C09", gen_C09), ("C02", gen_C02), ("C03", gen_C03), ("C10", gen_C10), ("C13", gen_C13), ("C14", gen_C14),
             ("C18", gen_C18), ("C19", gen_C19), ("C20", gen_C20)]
    sub_tier = tier
    for name, g in parts:
        cs, _ = g(random.Random(rng.getrandbits(32)), sub_tier)
        if tier == "quick" and len(cs) > 2500:
            r2 = random.Random(rng.getrandbits(32))
            # the few cases of the big / sparse / history domains are always kept; the bulk is sampled
            rare = ("bigwalk", "hbigwalk", "bigelf", "mbihuge", "hdrhuge", "findhuge", "iters", "hiters", "elfname")
            keep = [c for c in cs if c.split(" ", 1)[0] in rare]
            rest = [c for c in cs if c.split(" ", 1)[0] not in rare]
            cs = keep[:1500] + r2.sample(rest, min(len(rest), max(0, 2500 - min(len(keep), 1500))))
        dist[name] = len(cs)
        cases += cs
    # the constructors of the sized tags exist in every feature configuration
    g = TB.Gen(rng.getrandbits(32))
    SIZED = {"0", "4", "5", "7", "10", "11", "12", "14", "15", "18", "19", "20", "21"}
    cs = [c for c in TB.GENS["ctor"](g, 1) if c.split()[1] in SIZED] + [c for c in TB.GENS["hctor"](g, 1) if c.split()[1] != "1"]
    dist["sized_constructors"] = len(cs)
    cases += cs
    return cases, dict(
        rule="the constructors of the sized tags of both crates; "
             "the parse-side case sets of C01, C09, C02, C03, C10, C13, C14, C18, C19 and C20 (see those properties; quick: at most a seeded "
             "2500 of each), run in four builds of the harness: dev and release profile x default features and --no-default-features; "
             "every transcript is compared with the model instantiated with the build's profile. distinct_nontrivial = distinct "
             "(domain, model transcript) pairs.",
        dist=dist, exhaustive=False)


import random  # noqa: E402

PROPS.update({
    "C08": dict(gen=gen_C08, configs=["dev", "rel", "dev-nb", "rel-nb"], judge=judge_skip_ok, check_model_ub=True,
                level_note="trusted: Coq kernel; no axioms. The profile dimension is a theorem about the model (Dev = Release for every "
                           "profile-taking function on its domain); the feature dimension (builder/alloc on or off) cannot be a theorem - "
                           "cargo features are not modelled - and is decided by the four-configuration differential run alone; what rustc makes of "
                           "undefined behaviour (known finding F18) is outside any model.",
                assumptions=["known finding F18 (VBEModeInfo.memory_model) is excluded", "enum-typed header fields are generated in range"]),
})
MATCHERS["F18-vbe-memory-model-c08"] = MATCHERS["F18-vbe-memory-model"]
