#!/bin/bash
# tools/trypatch.sh <patch> <check>... : apply a patch to /repo under the repo lock, run the quick checks, undo
p=$1; shift
exec 9>/tmp/repo.lock; flock 9
git -C /repo status --porcelain | grep -q . && { echo "repo not clean"; exit 2; }
git -C /repo apply "$p" || exit 2
for c in "$@"; do
  out=$(VERIF_NO_EVIDENCE=1 ./check $c 2>&1); rc=$?
  echo "$c rc=$rc $(echo "$out" | grep -m1 VIOLATION)"
done
git -C /repo checkout -- .
