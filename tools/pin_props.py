#!/usr/bin/env python3
"""Re-pin the property statements: writes coq/props.pinned.json (to be committed)."""
import json, os, sys
sys.path.insert(0, os.path.dirname(os.path.abspath(__file__)))
import vlib
pins = {}
for f in sorted(os.listdir(os.path.join(vlib.COQ, "Props"))):
    if f.endswith(".v"):
        pins[f[:-2]] = vlib.props_pin(f[:-2])
pins["Tie"] = vlib.tie_pin()
json.dump(pins, open(os.path.join(vlib.COQ, "props.pinned.json"), "w"), indent=1)
print(len(pins), "pinned")
