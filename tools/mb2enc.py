"""Independent Python encoder of Multiboot2 structures (used by the generators only)."""
import struct


def u8(x):
    return struct.pack("<B", x & 0xFF)


def u16(x):
    return struct.pack("<H", x & 0xFFFF)


def u32(x):
    return struct.pack("<I", x & 0xFFFFFFFF)


def u64(x):
    return struct.pack("<Q", x & 0xFFFFFFFFFFFFFFFF)


def pad8(b, fill=0):
    return b + bytes([fill]) * ((-len(b)) % 8)


def tag(typ, payload, size=None, fill=0):
    """MBI tag: type, size (default: exact), payload, padded to 8 with `fill`"""
    size = 8 + len(payload) if size is None else size
    return pad8(u32(typ) + u32(size) + payload, fill)


def end_tag():
    return u32(0) + u32(8)


def mbi(tags, total=None, reserved=0, end=True):
    body = b"".join(tags) + (end_tag() if end else b"")
    total = 8 + len(body) if total is None else total
    return u32(total) + u32(reserved) + body


def htag(typ, flags, payload, size=None, fill=0):
    size = 8 + len(payload) if size is None else size
    return pad8(u16(typ) + u16(flags) + u32(size) + payload, fill)


def hend_tag():
    return u16(0) + u16(0) + u32(8)


HDR_MAGIC = 0xE85250D6


def checksum(magic, arch, length):
    return (-(magic + arch + length)) & 0xFFFFFFFF


def header(tags, arch=0, length=None, magic=HDR_MAGIC, cksum=None, end=True):
    body = b"".join(tags) + (hend_tag() if end else b"")
    length = 16 + len(body) if length is None else length
    cksum = checksum(magic, arch, length) if cksum is None else cksum
    return u32(magic) + u32(arch) + u32(length) + u32(cksum) + body


def hx(b):
    return "x" + bytes(b).hex()


# --------------------------------------------------------------------------
# boot-information tag kinds (payload encoders; `size` overrides the size field,
# `exact=True` also cuts/extends the payload to size - 8 so that the following
# tags stay where the iterator looks for them)
# --------------------------------------------------------------------------
T_END, T_CMDLINE, T_BOOTLOADER, T_MODULE, T_BASIC_MEMINFO, T_BOOTDEV, T_MMAP, T_VBE, T_FRAMEBUFFER = range(9)
T_ELF, T_APM, T_EFI32, T_EFI64, T_SMBIOS, T_ACPI_V1, T_ACPI_V2, T_NETWORK, T_EFI_MMAP, T_EFI_BS = range(9, 19)
T_EFI32_IH, T_EFI64_IH, T_LOAD_BASE_ADDR = 19, 20, 21


def tag_sized(typ, payload, size, fill=0):
    """tag whose payload is cut/extended (with `fill`) to exactly size - 8 bytes"""
    n = max(size - 8, 0)
    payload = (payload + bytes([fill]) * n)[:n]
    return pad8(u32(typ) + u32(size) + payload, fill)


def _t(typ, payload, size=None, exact=False, fill=0):
    if size is not None and exact:
        return tag_sized(typ, payload, size, fill)
    return tag(typ, payload, size, fill)


def cstr(s, nul=True):
    s = s.encode() if isinstance(s, str) else bytes(s)
    return s + (b"\0" if nul else b"")


def t_cmdline(s, nul=True, **kw):
    return _t(T_CMDLINE, cstr(s, nul), **kw)


def t_bootloader(s, nul=True, **kw):
    return _t(T_BOOTLOADER, cstr(s, nul), **kw)


def t_module(start, end, s, nul=True, **kw):
    return _t(T_MODULE, u32(start) + u32(end) + cstr(s, nul), **kw)


def t_basic_meminfo(lower, upper, **kw):
    return _t(T_BASIC_MEMINFO, u32(lower) + u32(upper), **kw)


def t_bootdev(biosdev, slice_, part, **kw):
    return _t(T_BOOTDEV, u32(biosdev) + u32(slice_) + u32(part), **kw)


def mmap_area(base, length, typ, reserved=0):
    return u64(base) + u64(length) + u32(typ) + u32(reserved)


def t_mmap(areas, entry_size=24, entry_version=0, extra=b"", **kw):
    return _t(T_MMAP, u32(entry_size) + u32(entry_version) + b"".join(mmap_area(*a) for a in areas) + extra, **kw)


def vbe_ci(signature=b"VESA", version=0x0300, oem_string_ptr=0, capabilities=0, mode_list_ptr=0, total_memory=0,
           oem_software_revision=0, oem_vendor_name_ptr=0, oem_product_name_ptr=0, oem_product_revision_ptr=0,
           reserved=None, oem_data=None):
    reserved = bytes(222) if reserved is None else reserved
    oem_data = bytes(256) if oem_data is None else oem_data
    b = (bytes(signature) + u16(version) + u32(oem_string_ptr) + u32(capabilities) + u32(mode_list_ptr)
         + u16(total_memory) + u16(oem_software_revision) + u32(oem_vendor_name_ptr) + u32(oem_product_name_ptr)
         + u32(oem_product_revision_ptr) + reserved + oem_data)
    assert len(b) == 512
    return b


def vbe_mi(mode_attributes=0, window_a_attributes=0, window_b_attributes=0, window_granularity=0, window_size=0,
           window_a_segment=0, window_b_segment=0, window_function_ptr=0, pitch=0, resolution=(0, 0),
           character_size=(0, 0), number_of_planes=0, bpp=0, number_of_banks=0, memory_model=0, bank_size=0,
           number_of_image_pages=0, reserved0=0, red=(0, 0), green=(0, 0), blue=(0, 0), rsvd=(0, 0),
           direct_color_attributes=0, framebuffer_base_ptr=0, offscreen_memory_offset=0, offscreen_memory_size=0,
           reserved1=None):
    reserved1 = bytes(206) if reserved1 is None else reserved1
    b = (u16(mode_attributes) + u8(window_a_attributes) + u8(window_b_attributes) + u16(window_granularity)
         + u16(window_size) + u16(window_a_segment) + u16(window_b_segment) + u32(window_function_ptr) + u16(pitch)
         + u16(resolution[0]) + u16(resolution[1]) + u8(character_size[0]) + u8(character_size[1])
         + u8(number_of_planes) + u8(bpp) + u8(number_of_banks) + u8(memory_model) + u8(bank_size)
         + u8(number_of_image_pages) + u8(reserved0) + u8(red[0]) + u8(red[1]) + u8(green[0]) + u8(green[1])
         + u8(blue[0]) + u8(blue[1]) + u8(rsvd[0]) + u8(rsvd[1]) + u8(direct_color_attributes)
         + u32(framebuffer_base_ptr) + u32(offscreen_memory_offset) + u16(offscreen_memory_size) + reserved1)
    assert len(b) == 256
    return b


def t_vbe(mode=0, interface_segment=0, interface_offset=0, interface_length=0, ci=None, mi=None, **kw):
    ci = vbe_ci() if ci is None else ci
    mi = vbe_mi() if mi is None else mi
    return _t(T_VBE, u16(mode) + u16(interface_segment) + u16(interface_offset) + u16(interface_length) + ci + mi, **kw)


def fb_indexed(colors, num=None):
    """palette: list of (r, g, b); `num` overrides the colour count"""
    num = len(colors) if num is None else num
    return u16(num) + b"".join(bytes(c) for c in colors)


def fb_rgb(rp, rs, gp, gs, bp, bs):
    return bytes([rp, rs, gp, gs, bp, bs])


def t_framebuffer(address, pitch, width, height, bpp, fbtype, buf=b"", padding=0, **kw):
    return _t(T_FRAMEBUFFER, u64(address) + u32(pitch) + u32(width) + u32(height) + u8(bpp) + u8(fbtype)
              + u16(padding) + buf, **kw)


def elf32_entry(name=0, typ=1, flags=0, addr=0, offset=0, size=0, link=0, info=0, addralign=0, entsize=0):
    return b"".join(u32(x) for x in (name, typ, flags, addr, offset, size, link, info, addralign, entsize))


def elf64_entry(name=0, typ=1, flags=0, addr=0, offset=0, size=0, link=0, info=0, addralign=0, entsize=0):
    return (u32(name) + u32(typ) + u64(flags) + u64(addr) + u64(offset) + u64(size) + u32(link) + u32(info)
            + u64(addralign) + u64(entsize))


def t_elf(num, entsize, shndx, table=b"", **kw):
    return _t(T_ELF, u32(num) + u32(entsize) + u32(shndx) + table, **kw)


def t_apm(version=0, cseg=0, offset=0, cseg_16=0, dseg=0, flags=0, cseg_len=0, cseg_16_len=0, dseg_len=0, **kw):
    return _t(T_APM, u16(version) + u16(cseg) + u32(offset) + u16(cseg_16) + u16(dseg) + u16(flags) + u16(cseg_len)
              + u16(cseg_16_len) + u16(dseg_len), **kw)


def t_efi32(pointer, **kw):
    return _t(T_EFI32, u32(pointer), **kw)


def t_efi64(pointer, **kw):
    return _t(T_EFI64, u64(pointer), **kw)


def t_efi32_ih(pointer, **kw):
    return _t(T_EFI32_IH, u32(pointer), **kw)


def t_efi64_ih(pointer, **kw):
    return _t(T_EFI64_IH, u64(pointer), **kw)


def t_smbios(major, minor, tables=b"", reserved=None, **kw):
    reserved = bytes(6) if reserved is None else reserved
    return _t(T_SMBIOS, u8(major) + u8(minor) + reserved + tables, **kw)


def sum8(b):
    return sum(b) & 0xFF


def rsdp_v1(signature=b"RSD PTR ", oem_id=b"OEMID ", revision=0, rsdt_address=0, checksum=None):
    """20 bytes; checksum None: computed so that the sum is 0"""
    body = bytes(signature) + u8(0) + bytes(oem_id) + u8(revision) + u32(rsdt_address)
    assert len(body) == 20
    ck = (-sum8(body)) & 0xFF if checksum is None else checksum
    return body[:8] + u8(ck) + body[9:]


def rsdp_v2(signature=b"RSD PTR ", oem_id=b"OEMID ", revision=2, rsdt_address=0, length=36, xsdt_address=0,
            checksum=None, ext_checksum=None, reserved=b"\0\0\0"):
    """36 bytes; ext_checksum None: computed over the first min(length, 36) bytes"""
    v1 = rsdp_v1(signature, oem_id, revision, rsdt_address, checksum)
    body = v1 + u32(length) + u64(xsdt_address) + u8(0) + bytes(reserved)
    assert len(body) == 36
    if ext_checksum is None:
        n = min(length, 36)
        ext_checksum = (-sum8(body[:n])) & 0xFF if n > 32 else 0
    return body[:32] + u8(ext_checksum) + body[33:]


def t_acpi_v1(rsdp=None, **kw):
    return _t(T_ACPI_V1, rsdp_v1() if rsdp is None else rsdp, **kw)


def t_acpi_v2(rsdp=None, **kw):
    return _t(T_ACPI_V2, rsdp_v2() if rsdp is None else rsdp, **kw)


def t_network(dhcpack=b"", **kw):
    return _t(T_NETWORK, bytes(dhcpack), **kw)


def efi_desc(ty=7, phys=0, virt=0, pages=0, att=0, desc_size=40, pad=0, fill=0):
    b = u32(ty) + u32(pad) + u64(phys) + u64(virt) + u64(pages) + u64(att)
    return (b + bytes([fill]) * max(desc_size - 40, 0))[:max(desc_size, 0)] if desc_size != 40 else b


def t_efi_mmap(desc_size=40, desc_version=1, data=b"", **kw):
    return _t(T_EFI_MMAP, u32(desc_size) + u32(desc_version) + data, **kw)


def t_efi_bs(**kw):
    return _t(T_EFI_BS, b"", **kw)


def t_load_base_addr(addr, **kw):
    return _t(T_LOAD_BASE_ADDR, u32(addr), **kw)
