"""Independent Python encoder of Multiboot2 structures (used by the generators only)."""
import struct


def u8(x):
    return struct.pack("<B", x & 0xFF)


def u16(x):
    return struct.pack("<H", x & 0xFFFF)


def u32(x):
    return struct.pack("<I", x & 0xFFFFFFFF)


def u64(x):
    return struct.pack("<Q", x & 0xFFFFFFFFFFFFFFFF)


def pad8(b, fill=0):
    return b + bytes([fill]) * ((-len(b)) % 8)


def tag(typ, payload, size=None, fill=0):
    """MBI tag: type, size (default: exact), payload, padded to 8 with `fill`"""
    size = 8 + len(payload) if size is None else size
    return pad8(u32(typ) + u32(size) + payload, fill)


def end_tag():
    return u32(0) + u32(8)


def mbi(tags, total=None, reserved=0, end=True):
    body = b"".join(tags) + (end_tag() if end else b"")
    total = 8 + len(body) if total is None else total
    return u32(total) + u32(reserved) + body


def htag(typ, flags, payload, size=None, fill=0):
    size = 8 + len(payload) if size is None else size
    return pad8(u16(typ) + u16(flags) + u32(size) + payload, fill)


def hend_tag():
    return u16(0) + u16(0) + u32(8)


HDR_MAGIC = 0xE85250D6


def checksum(magic, arch, length):
    return (-(magic + arch + length)) & 0xFFFFFFFF


def header(tags, arch=0, length=None, magic=HDR_MAGIC, cksum=None, end=True):
    body = b"".join(tags) + (hend_tag() if end else b"")
    length = 16 + len(body) if length is None else length
    cksum = checksum(magic, arch, length) if cksum is None else cksum
    return u32(magic) + u32(arch) + u32(length) + u32(cksum) + body


def hx(b):
    return "x" + bytes(b).hex()
