#!/usr/bin/env python3
"""Evaluate one seeded change: tools/eval_seeded.py <property> <patch.diff> <demo.rs> [--checks C01,C05,...] [--keep-as <id>]

1. in a scratch worktree of /repo (under /tmp): the demonstration passes without the patch, the patch applies,
   the existing suite passes with it, the demonstration fails with it;
2. apply the patch to /repo itself (git apply), run the given checks (default: the property's own), undo it
   (git checkout -- .);
3. optionally store patch, demonstration and meta.json under /verif/seeded/<id>/.
"""
import json
import os
import re
import shutil
import subprocess
import sys
import time

VERIF = os.path.dirname(os.path.dirname(os.path.abspath(__file__)))
REPO = "/repo"
# the checks may be run from a snapshot copy of /verif (VERIF_CHECK_DIR) so that work on /verif can go on while a batch
# of seeded changes is evaluated; /repo is patched only while REPO_LOCK is held
CHECK_DIR = os.environ.get("VERIF_CHECK_DIR", VERIF)
REPO_LOCK = "/tmp/repo.lock"


def sh(cmd, cwd=None, timeout=3600):
    p = subprocess.run(cmd, cwd=cwd, shell=isinstance(cmd, str), stdout=subprocess.PIPE, stderr=subprocess.STDOUT, text=True,
                       timeout=timeout, env=dict(os.environ, CARGO_NET_OFFLINE="true"))
    return p.returncode, p.stdout


def demo_target(demo):
    first = open(demo).readline()
    m = re.search(r"(multiboot2-header|multiboot2-common|multiboot2)", first)
    return m.group(1) if m else "multiboot2"


def run_demo(wt, crate, name, release=False, extra=""):
    cmd = "cargo test --offline -p %s --test %s %s %s 2>&1" % (crate, name, "--release" if release else "", extra)
    rc, out = sh(cmd, cwd=wt, timeout=1800)
    return rc, out


def demo_extra(demo):
    """a demonstration whose header names --no-default-features is also run in that feature configuration"""
    head = "".join(open(demo).readlines()[:12])
    return "--no-default-features" if "--no-default-features" in head else ""


def main():
    a = sys.argv[1:]
    prop, patch, demo = a[0], os.path.abspath(a[1]), os.path.abspath(a[2])
    checks = [prop]
    keep = None
    if "--checks" in a:
        checks = a[a.index("--checks") + 1].split(",")
    if "--keep-as" in a:
        keep = a[a.index("--keep-as") + 1]
    crate = demo_target(demo)
    wt = "/tmp/evalseed-%d" % os.getpid()
    res = dict(property=prop, patch=os.path.basename(patch), demo=os.path.basename(demo), crate=crate)
    sh("git -C %s worktree add -q %s HEAD" % (REPO, wt))
    try:
        name = "seeded_demo"
        os.makedirs(os.path.join(wt, crate, "tests"), exist_ok=True)
        shutil.copy(demo, os.path.join(wt, crate, "tests", name + ".rs"))
        extra = demo_extra(demo)
        rc0, out0 = run_demo(wt, crate, name)
        rc0r, out0r = run_demo(wt, crate, name, release=True)
        res["demo_without_patch"] = dict(dev_rc=rc0, release_rc=rc0r)
        if extra:
            rc0x, _ = run_demo(wt, crate, name, extra=extra)
            res["demo_without_patch"]["nodefault_rc"] = rc0x
        rc, out = sh("git apply %s" % patch, cwd=wt)
        res["patch_applies"] = rc == 0
        if rc != 0:
            res["error"] = out[-800:]
        else:
            os.remove(os.path.join(wt, crate, "tests", name + ".rs"))
            rct, outt = sh("cargo test --workspace --offline 2>&1", cwd=wt, timeout=3000)
            res["suite_with_patch_rc"] = rct
            res["suite_with_patch"] = re.findall(r"test result: .*", outt)[:6]
            shutil.copy(demo, os.path.join(wt, crate, "tests", name + ".rs"))
            rc1, out1 = run_demo(wt, crate, name)
            rc1r, out1r = run_demo(wt, crate, name, release=True)
            res["demo_with_patch"] = dict(dev_rc=rc1, release_rc=rc1r, tail=(out1 if rc1 else out1r)[-600:])
            if extra:
                rc1x, out1x = run_demo(wt, crate, name, extra=extra)
                res["demo_with_patch"]["nodefault_rc"] = rc1x
                if rc1x and not (rc1 or rc1r):
                    res["demo_with_patch"]["tail"] = out1x[-600:]
    finally:
        sh("git -C %s worktree remove --force %s" % (REPO, wt))
        shutil.rmtree(wt, ignore_errors=True)
    ok = res.get("patch_applies") and res.get("suite_with_patch_rc") == 0 and \
        res["demo_without_patch"]["dev_rc"] == 0 and res["demo_without_patch"]["release_rc"] == 0 and \
        res["demo_without_patch"].get("nodefault_rc", 0) == 0 and \
        (res["demo_with_patch"]["dev_rc"] != 0 or res["demo_with_patch"]["release_rc"] != 0 or
         res["demo_with_patch"].get("nodefault_rc", 0) != 0)
    res["valid_seed"] = bool(ok)
    if ok:
        import fcntl
        lock = open(REPO_LOCK, "w")
        fcntl.flock(lock, fcntl.LOCK_EX)
        rc, out = sh("git -C %s status --porcelain" % REPO)
        if out.strip():
            print("refusing: /repo is not clean:\n" + out)
            return 2
        rc, out = sh("git -C %s apply %s" % (REPO, patch))
        det = {}
        try:
            for c in checks:
                t0 = time.time()
                rc, out = sh([os.path.join(CHECK_DIR, "check"), c], cwd=CHECK_DIR, timeout=3000)
                v = [l for l in out.splitlines() if l.startswith("VIOLATION")]
                det[c] = dict(rc=rc, violation=v[:1], wall_s=round(time.time() - t0, 1))
        finally:
            sh("git -C %s checkout -- ." % REPO)
            fcntl.flock(lock, fcntl.LOCK_UN)
            lock.close()
        res["checks"] = det
        res["detected_by"] = [c for c, d in det.items() if d["rc"] == 1 and d["violation"]]
    print(json.dumps(res, indent=1))
    if keep and ok:
        d = os.path.join(VERIF, "seeded", keep)
        os.makedirs(d, exist_ok=True)
        shutil.copy(patch, os.path.join(d, "patch.diff"))
        shutil.copy(demo, os.path.join(d, "demo.rs"))
        notes = patch.replace(".patch.diff", ".notes.md")
        if os.path.exists(notes):
            shutil.copy(notes, os.path.join(d, "notes.md"))
        json.dump(dict(breaks_property=prop, needs="see notes.md", ran=res), open(os.path.join(d, "meta.json"), "w"), indent=1)
    return 0


if __name__ == "__main__":
    sys.exit(main())
